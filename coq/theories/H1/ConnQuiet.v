(* C03, the tree as it is (fixes/F12.patch and fixes/F14.patch applied, F15 a known finding):
   OUTSIDE the F15 class, after a closing response head no response head and no service call is
   ever added, for every handler script set and every event sequence.

   The class is a predicate on the INPUT: the concatenation of all bytes (items) that ever arrive
   must not be [calm]: some request that is followed by further request material is not [good]
   (its context is not keep-alive, or it has a body, or its handler may force close). *)
Require Import AV.Lib.Base AV.H1.ConnRec AV.H1.ConnState AV.H1.ConnSpec AV.H1.ConnProofs AV.H1.ConnGraceful.

Section Quiet.
  Variable c : cfg.
  Variable H0 : list (N * list hact).          (* the handler scripts the connection starts with *)
  Hypothesis TREE : fx c = mkFixes true false true.
  Hypothesis NOSIG : has_signal c = false.

  Definition script_ok (a : list hact) : bool :=
    forallb (fun h => match h with HRespond OClose _ _ => false | _ => true end) a.
  Definition good (x : req) : bool :=
    is_ka (ctx_conn c x) && negb (has_body x) && script_ok (hs_get (rq_id x) H0).

  (* what may follow the head of a body-bearing request: its data, at most one exact end, nothing else *)
  Fixpoint body_tail (l : list item) : bool :=
    match l with [] => true | IData _ :: r => body_tail r | IEnd :: r => is_nil r | _ => false end.
  (* an input stream outside the F15 class (read from a message boundary) *)
  Fixpoint calm (l : list item) : bool :=
    match l with
    | [] => true
    | IReq x :: r => if has_body x then body_tail r else (is_nil r || (good x && calm r))
    | IPart :: r => calm r
    | _ => true                                  (* malformed head: a 400 follows, reading stops *)
    end.

  Definition P (s : st) (fut : list item) : list item := rbuf s ++ sock s ++ fut.
  Definition blocked (s : st) : bool := read_disc s || linger s || shutdown s.
  Definition is_merr (m : dmsg) : bool := match m with MError _ => true | _ => false end.
  Definition has_merr (l : list dmsg) : bool := existsb is_merr l.
  Fixpoint mreqs (l : list dmsg) : list req :=
    match l with MItem r :: t => r :: mreqs t | MError _ :: t => mreqs t | [] => [] end.
  Fixpoint merr_last (l : list dmsg) : bool :=
    match l with [] => true | MError _ :: r => is_nil r | MItem _ :: r => merr_last r end.
  Definition inflight (s : st) : list req := match dstate s with SService x => [x] | _ => [] end.
  Definition ys (s : st) : list req := inflight s ++ mreqs (messages s).
  Definition last_free (s : st) (fut : list item) : bool :=
    negb (has_merr (messages s)) && (c_pl s || is_nil (P s fut)).
  Definition closed (s : st) : bool := existsb closing_ev (trace s).
  Definition quiet_stream (s : st) (fut : list item) : bool := if c_pl s then body_tail (P s fut) else is_nil (P s fut).

  Definition Terminal (s : st) (fut : list item) : Prop :=
    messages s = [] /\ inflight s = [] /\ (t_active (head_t s) = true -> read_disc s = true) /\ started s = true /\
    (read_disc s = true \/ quiet_stream s fut = true \/ (linger s || shutdown s) = true).

  Record Inv (s : st) (fut : list item) : Prop := {
    i_sig : sig_armed s = false /\ draining s = false;
    i_B : Binv s;
    i_M : merr_last (messages s) = true /\ (has_merr (messages s) = true -> read_disc s = true);
    i_H : t_active (head_t s) = true ->
          dstate s = SNone /\ mreqs (messages s) = [] /\ started s = true /\ payload s = None /\
          (closed s = false \/ read_disc s = true);
    i_ST : started s = false -> dstate s = SNone /\ messages s = [] /\ trace s = [] /\ rbuf s = [];
    i_CC : forall x, dstate s = SService x -> c_conn s = ctx_conn c x;
    i_HS : forall id, script_ok (hs_get id H0) = true -> script_ok (hs_get id (hs s)) = true;
    i_LB : c_pl s = true -> match rev (ys s) with y :: _ => has_body y = true | [] => True end;
    i_LG : linger s = true -> read_disc s = true \/ quiet_stream s fut = true;
    i_W : read_disc s = true \/ (if c_pl s then body_tail (P s fut) else calm (P s fut)) = true;
    i_V : if last_free s fut then forallb good (removelast (ys s)) = true else forallb good (ys s) = true;
    i_quiet : quiet_after_close (trace s) = true;
    i_term : closed s = true -> Terminal s fut }.

  (* ---- list facts ---- *)
  Lemma body_tail_app_nil l : body_tail l = true -> forall k, l = k -> True. Proof. auto. Qed.

  Lemma quiet_snoc t e : quiet_after_close (t ++ [e]) = quiet_after_close t && (negb (existsb closing_ev t) || negb (active_ev e)).
  Proof.
    induction t as [|a t IH]; cbn.
    - destruct (closing_ev e); reflexivity.
    - destruct (closing_ev a) eqn:Ca; cbn.
      + rewrite existsb_app. cbn. rewrite orb_false_r, negb_orb. reflexivity.
      + exact IH.
  Qed.
  Lemma closed_snoc t e : existsb closing_ev (t ++ [e]) = existsb closing_ev t || closing_ev e.
  Proof. rewrite existsb_app. cbn. rewrite orb_false_r. reflexivity. Qed.

  Lemma forallb_removelast {A} (f : A -> bool) l : forallb f l = true -> forallb f (removelast l) = true.
  Proof.
    induction l as [|a l IH]; cbn; [auto|]. intro H. apply andb_true_iff in H as [H1 H2].
    destruct l; [reflexivity|]. cbn. rewrite H1. apply IH. exact H2.
  Qed.
  Lemma removelast_cons_good (f : req -> bool) a l : forallb f (removelast (a :: l)) = true -> forallb f (removelast l) = true.
  Proof. cbn. destruct l; [reflexivity|]. intro H. apply andb_true_iff in H as [_ H]. exact H. Qed.

  Lemma mreqs_app l k : mreqs (l ++ k) = mreqs l ++ mreqs k.
  Proof. induction l as [|[r|e] l IH]; cbn; congruence. Qed.
  Lemma has_merr_app l k : has_merr (l ++ k) = has_merr l || has_merr k.
  Proof. apply existsb_app. Qed.
  Lemma merr_last_snoc_item l r : has_merr l = false -> merr_last (l ++ [MItem r]) = true.
  Proof. induction l as [|[x|e] l IH]; cbn; auto. discriminate. Qed.
  Lemma merr_last_snoc_err l e : has_merr l = false -> merr_last (l ++ [MError e]) = true.
  Proof. induction l as [|[x|e'] l IH]; cbn; auto. discriminate. Qed.
  Lemma no_msgs l : mreqs l = [] -> has_merr l = false -> l = [].
  Proof. destruct l as [|[x|e] l]; cbn; congruence. Qed.

  Lemma fx1 : fx_ctx (fx c) = true. Proof. rewrite TREE. reflexivity. Qed.
  Lemma fx2 : fx_close (fx c) = false. Proof. rewrite TREE. reflexivity. Qed.
  Lemma fx3 : fx_sd (fx c) = true. Proof. rewrite TREE. reflexivity. Qed.

  (* frame: the fields the invariant reads are unchanged, except that handler scripts may have
     advanced, the read side may have been closed and SHUTDOWN entered / LINGER turned into
     SHUTDOWN (every clause is monotone in those) *)
  Lemma Inv_mono s s' fut :
    sig_armed s' = sig_armed s -> draining s' = draining s -> payload s' = payload s -> c_pl s' = c_pl s ->
    messages s' = messages s -> head_t s' = head_t s -> dstate s' = dstate s -> started s' = started s ->
    trace s' = trace s -> c_conn s' = c_conn s -> rbuf s' = rbuf s -> sock s' = sock s ->
    (forall id, script_ok (hs_get id (hs s)) = true -> script_ok (hs_get id (hs s')) = true) ->
    (read_disc s = true -> read_disc s' = true) ->
    (linger s' = true -> linger s = true \/ read_disc s' = true) ->
    ((linger s || shutdown s) = true -> (read_disc s' || linger s' || shutdown s') = true) ->
    Inv s fut -> Inv s' fut.
  Proof.
    intros e1 e2 e3 e4 e5 e6 e7 e8 e9 e10 e12 e13 mh mr ml mb [a b cM d e f g h i j k l m].
    assert (EP : P s' fut = P s fut) by (unfold P; rewrite e12, e13; reflexivity).
    assert (EY : ys s' = ys s) by (unfold ys, inflight; rewrite e7, e5; reflexivity).
    assert (EL : last_free s' fut = last_free s fut) by (unfold last_free; rewrite e5, e4, EP; reflexivity).
    assert (EC : closed s' = closed s) by (unfold closed; rewrite e9; reflexivity).
    assert (EQ : quiet_stream s' fut = quiet_stream s fut) by (unfold quiet_stream; rewrite e4, EP; reflexivity).
    constructor.
    - rewrite e1, e2. exact a.
    - destruct b as [b1 b2]. split; rewrite ?e3, ?e4; auto.
    - rewrite e5. destruct cM as [c1 c2]. split; auto.
    - rewrite e6, e7, e5, e8, e3, EC. intro T. destruct (d T) as (d1 & d2 & d3 & d5 & [d4|d4]); repeat split; auto.
    - rewrite e8, e7, e5, e9, e12. exact e.
    - intros x. rewrite e7, e10. apply f.
    - intros id Hid. apply mh. apply g. exact Hid.
    - rewrite e4, EY. exact h.
    - rewrite EQ. intro L. destruct (ml L) as [L1|L1]; [|left; exact L1]. destruct (i L1) as [r|q]; [left; apply mr; exact r|right; exact q].
    - destruct j as [j|j]; [left; apply mr; exact j|right]. rewrite e4, EP. exact j.
    - rewrite EL, EY. exact k.
    - rewrite e9. exact l.
    - rewrite EC. intro C. destruct (m C) as (m1 & m2 & m3 & m4 & m5). unfold Terminal, inflight.
      rewrite e5, e7, e6, e8, EQ. repeat split; auto.
      destruct m5 as [m5|[m5|m5]]; [left; apply mr; exact m5|right; left; exact m5|].
      specialize (mb m5). destruct (read_disc s'); [left; reflexivity|right; right; exact mb].
  Qed.

  (* ---- handler scripts ---- *)
  Lemma run_h_ok rid acts : forall s s' rest out, script_ok acts = true -> run_h rid acts s = (s', rest, out) ->
    script_ok rest = true /\ match out with Some (k, _, _) => k <> OClose | None => True end.
  Proof.
    induction acts as [|a acts IH]; intros s s' rest out OK H; cbn [run_h] in H.
    - inv H. split; [reflexivity|discriminate].
    - cbn in OK. apply andb_true_iff in OK as [OKa OKr].
      assert (OK' : script_ok (a :: acts) = true) by (cbn; rewrite OKa; exact OKr).
      destruct a; try (inv H; split; [assumption|exact I]).
      all: repeat bmh H; try (inv H; split; [assumption|exact I]); try (eapply IH; eassumption).
      inv H. split; [reflexivity|]. destruct c0; try discriminate; congruence.
  Qed.

  Lemma hs_get_set id rid a l : hs_get id (hs_set rid a l) = if rid =? id then a else hs_get id l.
  Proof.
    induction l as [|[k b] l IH]; cbn [hs_set hs_get].
    - reflexivity.
    - destruct (k =? rid) eqn:K; cbn [hs_get].
      + apply N.eqb_eq in K. subst k. destruct (rid =? id); reflexivity.
      + rewrite IH. destruct (k =? id) eqn:KI; [|reflexivity].
        apply N.eqb_eq in KI. subst k. rewrite N.eqb_sym in K. rewrite K. reflexivity.
  Qed.

  (* one poll of the handler of the request in flight *)
  Lemma poll_handler_Inv s fut x s1 out : Inv s fut -> poll_handler (rq_id x) s = (s1, out) ->
    Inv s1 fut /\ dstate s1 = dstate s /\ messages s1 = messages s /\ read_disc s1 = read_disc s /\ res s1 = res s /\
    linger s1 = linger s /\ shutdown s1 = shutdown s /\
    (good x = true -> match out with Some (k, _, _) => k <> OClose | None => True end).
  Proof.
    intros I0 PH. unfold poll_handler in PH.
    destruct (run_h (rq_id x) (hs_get (rq_id x) (hs s)) s) as [[s' rest] o] eqn:R. inv PH.
    pose proof (run_h_frame _ _ _ _ _ _ R) as F.
    split; [|repeat split; try (rewrite F; reflexivity)].
    - rewrite F. revert I0. apply Inv_mono; try reflexivity; auto.
      + intros id Hid. cbn. rewrite hs_get_set. destruct (rq_id x =? id) eqn:E; [|exact Hid].
        apply N.eqb_eq in E. subst id. eapply run_h_ok; eassumption.
      + intro L. change (read_disc s || linger s || shutdown s = true). rewrite <- orb_assoc, L. apply orb_true_r.
    - intro G. unfold good in G. apply andb_true_iff in G as [_ G].
      pose proof (i_HS _ _ I0 _ G) as OK. eapply run_h_ok; eassumption.
  Qed.

  (* ---- what send_response changes (F15 hook absent) ---- *)
  Definition cu' (s : st) : bool := close_unread s && is_nil (messages s).

  Lemma send_response_fields who stt ro bl bp s :
    let s' := send_response c who stt ro bl bp s in
    sig_armed s' = sig_armed s /\ draining s' = draining s /\ payload s' = payload s /\ c_pl s' = c_pl s /\
    messages s' = messages s /\ head_t s' = head_t s /\ started s' = started s /\ rbuf s' = rbuf s /\ sock s' = sock s /\
    hs s' = hs s /\ read_disc s' = read_disc s /\ res s' = res s /\
    dstate s' = (if bl =? 0 then SNone else SSendPayload who) /\
    (linger s' = true -> linger s = true \/ cu' s = true) /\
    ((linger s || shutdown s) = true -> (linger s' || shutdown s') = true).
  Proof.
    unfold send_response, encode_head, complete_flags, finish_hook, add_trace, cu'. rewrite fx1, fx2. cbn [andb].
    repeat bm; cbn; repeat split; auto; intros; rewrite ?orb_true_r; auto.
  Qed.

  Lemma resp_conn_eq ro s : resp_conn c ro s =
    if draining s || cu' s then CClose else match ro with OClose => CClose | _ => c_conn s end.
  Proof. unfold resp_conn, cu'. rewrite fx1. reflexivity. Qed.

  Lemma rev_cons_last (x : req) t : t <> [] -> match rev (x :: t) with y :: _ => Some y | [] => None end = match rev t with y :: _ => Some y | [] => None end.
  Proof.
    intro N. cbn. destruct (rev t) eqn:E; [|reflexivity].
    apply (f_equal (@rev req)) in E. rewrite rev_involutive in E. cbn in E. contradiction.
  Qed.

  (* the response of the request in flight *)
  Lemma send_own s fut x ro bl bp : Inv s fut -> dstate s = SService x -> (good x = true -> ro <> OClose) ->
    let s' := send_response c (Some x) 200 ro bl bp s in
    Inv s' fut /\ (closed s' = true -> read_disc s' = true \/ quiet_stream s' fut = true).
  Proof.
    intros I0 D RO s'.
    destruct (send_response_fields (Some x) 200 ro bl bp s) as (f1 & f2 & f3 & f4 & f5 & f6 & f7 & f8 & f9 & f10 & f11 & f12 & f13 & f14 & f15).
    fold s' in f1, f2, f3, f4, f5, f6, f7, f8, f9, f10, f11, f12, f13, f14, f15.
    pose proof (send_response_trace c (Some x) 200 ro bl bp s) as T. fold s' in T.
    destruct I0 as [a b cM d e f g h i j k l m].
    assert (EP : P s' fut = P s fut) by (unfold P; rewrite f8, f9; reflexivity).
    assert (EQ : quiet_stream s' fut = quiet_stream s fut) by (unfold quiet_stream; rewrite f4, EP; reflexivity).
    assert (IN' : inflight s' = []) by (unfold inflight; rewrite f13; destruct (bl =? 0); reflexivity).
    assert (YS : ys s = x :: mreqs (messages s)) by (unfold ys, inflight; rewrite D; reflexivity).
    assert (YS' : ys s' = mreqs (messages s)) by (unfold ys; rewrite IN', f5; reflexivity).
    assert (EL : last_free s' fut = last_free s fut) by (unfold last_free; rewrite f5, f4, EP; reflexivity).
    (* nothing closing has been sent yet: the request is in flight *)
    assert (NC : closed s = false).
    { destruct (closed s) eqn:C; [|reflexivity]. destruct (m eq_refl) as (_ & m2 & _). unfold inflight in m2. rewrite D in m2. discriminate. }
    assert (HT : t_active (head_t s) = false).
    { destruct (t_active (head_t s)) eqn:A; [|reflexivity]. destruct (d eq_refl) as (d1 & _). congruence. }
    assert (STT : started s = true).
    { destruct (started s) eqn:A; [reflexivity|]. destruct (e eq_refl) as (e1 & _). congruence. }
    (* a good request is answered without close *)
    assert (GOOD : good x = true -> resp_conn c ro s = CKeepAlive).
    { intro G. rewrite resp_conn_eq. destruct a as [_ a2]. rewrite a2. cbn [orb].
      assert (CUF : cu' s = false).
      { unfold cu', close_unread. destruct (payload s) eqn:Pl; [|reflexivity].
        destruct (is_nil (messages s)) eqn:Nl; [|apply andb_false_r].
        assert (M0 : messages s = []) by (destruct (messages s); [reflexivity|discriminate]).
        destruct b as [b1 _]. assert (CP : c_pl s = true) by (apply b1; congruence).
        specialize (h CP). rewrite YS, M0 in h. cbn in h.
        unfold good in G. rewrite h in G. cbn in G. rewrite andb_false_r in G. discriminate. }
      rewrite CUF. specialize (RO G). rewrite (f x D).
      unfold good in G. apply andb_true_iff in G as [G _]. apply andb_true_iff in G as [G _].
      destruct (ctx_conn c x); [discriminate|]. destruct ro; congruence. }
    assert (CLOSING : closing_ev (THead (Some x) 200 (c_v11 s) (c_head s) (resp_conn c ro s)) = true ->
                      messages s = [] /\ (read_disc s = true \/ quiet_stream s fut = true)).
    { intro CE. assert (NG : good x = false).
      { destruct (good x) eqn:G; [|reflexivity]. rewrite (GOOD eq_refl) in CE. cbn in CE. discriminate. }
      unfold last_free in k. rewrite YS in k.
      destruct (negb (has_merr (messages s)) && (c_pl s || is_nil (P s fut))) eqn:LF.
      - apply andb_true_iff in LF as [LF1 LF2].
        destruct (mreqs (messages s)) eqn:MR.
        + assert (M0 : messages s = []) by (apply no_msgs; [exact MR|destruct (has_merr (messages s)); [discriminate|reflexivity]]).
          split; [exact M0|]. destruct j as [j|j]; [left; exact j|right].
          unfold quiet_stream. destruct (c_pl s); [exact j|]. cbn in LF2. exact LF2.
        + cbn in k. rewrite NG in k. discriminate.
      - cbn in k. rewrite NG in k. discriminate. }
    split.
    - constructor.
      + rewrite f1, f2. exact a.
      + destruct b as [b1 b2]. split; rewrite ?f3, ?f4, ?f11; auto.
      + rewrite f5, f11. exact cM.
      + rewrite f6, HT. discriminate.
      + rewrite f7, STT. discriminate.
      + intros y Dy. rewrite f13 in Dy. destruct (bl =? 0); discriminate.
      + rewrite f10. exact g.
      + rewrite f4, YS'. intro CP. specialize (h CP). rewrite YS in h.
        destruct (mreqs (messages s)) as [|q t] eqn:MR; [exact I|].
        assert (N : q :: t <> []) by discriminate. pose proof (rev_cons_last x (q :: t) N) as R.
        destruct (rev (x :: q :: t)); destruct (rev (q :: t)); try discriminate; inv R; auto.
      + rewrite EQ, f11. intro L. destruct (f14 L) as [L1|L1]; [exact (i L1)|].
        (* LINGER entered now: the unread payload is this request's own *)
        unfold cu' in L1. apply andb_true_iff in L1 as [CU NL]. unfold close_unread in CU.
        destruct (payload s) eqn:Pl; [|discriminate]. destruct b as [b1 _]. assert (CP : c_pl s = true) by (apply b1; congruence).
        destruct j as [j|j]; [left; exact j|right]. unfold quiet_stream. rewrite CP in *. exact j.
      + rewrite f11, f4, EP. exact j.
      + rewrite EL, YS'. rewrite YS in k. destruct (last_free s fut).
        * apply removelast_cons_good with (a := x). exact k.
        * cbn in k. apply andb_true_iff in k as [_ k]. exact k.
      + rewrite T. destruct (bl =? 0).
        * change (trace s ++ [THead (Some x) 200 (c_v11 s) (c_head s) (resp_conn c ro s); TComplete])
            with (trace s ++ [THead (Some x) 200 (c_v11 s) (c_head s) (resp_conn c ro s)] ++ [TComplete]).
          rewrite app_assoc, !quiet_snoc, l. unfold closed in NC. rewrite NC.
          cbn [active_ev negb orb andb]. rewrite ?orb_true_r. reflexivity.
        * rewrite quiet_snoc, l. unfold closed in NC. rewrite NC. reflexivity.
      + intro C. unfold Terminal. rewrite f5, IN', f6, HT, f7, f11, EQ.
        assert (CE : closing_ev (THead (Some x) 200 (c_v11 s) (c_head s) (resp_conn c ro s)) = true).
        { unfold closed in C, NC. rewrite T in C. destruct (bl =? 0).
          - change (trace s ++ [THead (Some x) 200 (c_v11 s) (c_head s) (resp_conn c ro s); TComplete])
              with (trace s ++ [THead (Some x) 200 (c_v11 s) (c_head s) (resp_conn c ro s)] ++ [TComplete]) in C.
            rewrite app_assoc, !closed_snoc, NC in C. cbn [closing_ev orb] in C. rewrite orb_false_r in C. exact C.
          - rewrite closed_snoc, NC in C. exact C. }
        destruct (CLOSING CE) as [M0 Q]. repeat split; auto; try discriminate.
        destruct Q as [Q|Q]; [left; exact Q|right; left; exact Q].
    - intro C. rewrite f11, EQ.
      assert (CE : closing_ev (THead (Some x) 200 (c_v11 s) (c_head s) (resp_conn c ro s)) = true).
      { unfold closed in C, NC. rewrite T in C. destruct (bl =? 0).
        - change (trace s ++ [THead (Some x) 200 (c_v11 s) (c_head s) (resp_conn c ro s); TComplete])
            with (trace s ++ [THead (Some x) 200 (c_v11 s) (c_head s) (resp_conn c ro s)] ++ [TComplete]) in C.
          rewrite app_assoc, !closed_snoc, NC in C. cbn [closing_ev orb] in C. rewrite orb_false_r in C. exact C.
        - rewrite closed_snoc, NC in C. exact C. }
      apply (CLOSING CE).
  Qed.

  Lemma not_closed_busy s fut : Inv s fut -> (messages s <> [] \/ inflight s <> []) -> closed s = false.
  Proof.
    intros I0 B. destruct (closed s) eqn:C; [|reflexivity].
    destruct (i_term _ _ I0 C) as (m1 & m2 & _). destruct B; contradiction.
  Qed.

  (* an error response popped from the queue *)
  Lemma send_err s fut stt ms : Inv s fut -> dstate s = SNone -> messages s = MError stt :: ms ->
    Inv (send_response c None stt ONone 0 0 (set_messages ms s)) fut.
  Proof.
    intros I0 D M0.
    assert (NC : closed s = false) by (apply (not_closed_busy s fut I0); left; rewrite M0; discriminate).
    destruct I0 as [a b cM d e f g h i j k l m].
    destruct cM as [c1 c2]. rewrite M0 in c1, c2. cbn in c1, c2.
    assert (MS : ms = []) by (destruct ms; [reflexivity|discriminate]). subst ms.
    assert (RD : read_disc s = true) by (apply c2; reflexivity).
    assert (STT : started s = true).
    { destruct (started s) eqn:A; [reflexivity|]. destruct (e eq_refl) as (_ & e2 & _). congruence. }
    set (s1 := set_messages [] s).
    set (s' := send_response c None stt ONone 0 0 s1).
    destruct (send_response_fields None stt ONone 0 0 s1) as (f1 & f2 & f3 & f4 & f5 & f6 & f7 & f8 & f9 & f10 & f11 & f12 & f13 & f14 & f15).
    fold s' in f1, f2, f3, f4, f5, f6, f7, f8, f9, f10, f11, f12, f13, f14, f15.
    pose proof (send_response_trace c None stt ONone 0 0 s1) as T. fold s' in T. rewrite N.eqb_refl in T, f13.
    change (trace s1) with (trace s) in T.
    assert (YS' : ys s' = []) by (unfold ys, inflight; rewrite f13, f5; reflexivity).
    constructor.
    - rewrite f1, f2. exact a.
    - destruct b as [b1 b2]. split; rewrite ?f3, ?f4, ?f11; auto.
    - rewrite f5. split; [reflexivity|discriminate].
    - rewrite f6, f13, f5, f7, f3, f11. intro A. destruct (d A) as (_ & _ & _ & d4 & _). repeat split; auto.
    - rewrite f7. change (started s1) with (started s). rewrite STT. discriminate.
    - rewrite f13. discriminate.
    - rewrite f10. exact g.
    - rewrite YS'. intros _. exact I.
    - rewrite f11. intros _. left. exact RD.
    - rewrite f11. left. exact RD.
    - rewrite YS'. destruct (last_free s' fut); reflexivity.
    - rewrite T.
      change (trace s ++ [THead None stt (c_v11 s1) (c_head s1) (resp_conn c ONone s1); TComplete])
        with (trace s ++ [THead None stt (c_v11 s1) (c_head s1) (resp_conn c ONone s1)] ++ [TComplete]).
      rewrite app_assoc, !quiet_snoc, l. unfold closed in NC. rewrite NC.
      cbn [active_ev negb orb andb]. rewrite ?orb_true_r. reflexivity.
    - intros _. unfold Terminal, inflight. rewrite f5, f13, f7, f11. change (started s1) with (started s).
      repeat split; auto.
  Qed.

  (* a queued request is dispatched *)
  Lemma start_pop s fut q ms : Inv s fut -> dstate s = SNone -> messages s = MItem q :: ms ->
    Inv (start_service c true q (set_messages ms s)) fut.
  Proof.
    intros I0 D M0.
    assert (NC : closed s = false) by (apply (not_closed_busy s fut I0); left; rewrite M0; discriminate).
    destruct I0 as [a b cM d e f g h i j k l m].
    assert (HT : t_active (head_t s) = false).
    { destruct (t_active (head_t s)) eqn:A; [|reflexivity]. destruct (d eq_refl) as (_ & d2 & _). rewrite M0 in d2. discriminate. }
    assert (STT : started s = true).
    { destruct (started s) eqn:A; [reflexivity|]. destruct (e eq_refl) as (_ & e2 & _). congruence. }
    set (s' := start_service c true q (set_messages ms s)).
    assert (F : sig_armed s' = sig_armed s /\ draining s' = draining s /\ payload s' = payload s /\ c_pl s' = c_pl s /\
                messages s' = ms /\ head_t s' = head_t s /\ started s' = started s /\ rbuf s' = rbuf s /\ sock s' = sock s /\
                hs s' = hs s /\ read_disc s' = read_disc s /\ dstate s' = SService q /\ c_conn s' = ctx_conn c q /\
                linger s' = linger s /\ shutdown s' = shutdown s /\ trace s' = trace s ++ [TStart q]).
    { subst s'. unfold start_service, set_ctx, add_trace. rewrite fx1. cbn. repeat split; reflexivity. }
    destruct F as (f1 & f2 & f3 & f4 & f5 & f6 & f7 & f8 & f9 & f10 & f11 & f12 & f13 & f14 & f15 & T).
    assert (EP : P s' fut = P s fut) by (unfold P; rewrite f8, f9; reflexivity).
    assert (EQ : quiet_stream s' fut = quiet_stream s fut) by (unfold quiet_stream; rewrite f4, EP; reflexivity).
    assert (YS : ys s' = ys s) by (unfold ys, inflight; rewrite f12, f5, D, M0; reflexivity).
    assert (EL : last_free s' fut = last_free s fut) by (unfold last_free; rewrite f5, f4, EP, M0; reflexivity).
    constructor.
    - rewrite f1, f2. exact a.
    - destruct b as [b1 b2]. split; rewrite ?f3, ?f4, ?f11; auto.
    - rewrite f5, f11. destruct cM as [c1 c2]. rewrite M0 in c1, c2. cbn in c1, c2. auto.
    - rewrite f6, HT. discriminate.
    - rewrite f7, STT. discriminate.
    - intros y Dy. rewrite f12 in Dy. injection Dy as E. rewrite <- E. exact f13.
    - rewrite f10. exact g.
    - rewrite f4, YS. exact h.
    - rewrite f14, f11, EQ. exact i.
    - rewrite f11, f4, EP. exact j.
    - rewrite EL, YS. exact k.
    - rewrite T, quiet_snoc, l. unfold closed in NC. rewrite NC. reflexivity.
    - unfold closed. rewrite T, closed_snoc. unfold closed in NC. rewrite NC. cbn. discriminate.
  Qed.

  (* ---- the decode loop ---- *)
  (* loop invariant: the read side is open, nothing is queued behind an idle dispatcher, and if a
     closing response has been encoded the unread input holds no further head *)
  Definition LI (s : st) (fut : list item) : Prop :=
    Inv s fut /\ read_disc s = false /\ (dstate s = SNone -> messages s = []) /\ (closed s = true -> quiet_stream s fut = true).

  Lemma LI_open s fut it r : LI s fut -> c_pl s = false -> P s fut = it :: r -> closed s = false /\ linger s = false.
  Proof.
    intros (I0 & RD & _ & Q) CP EP.
    assert (QF : quiet_stream s fut = false) by (unfold quiet_stream; rewrite CP, EP; reflexivity).
    split.
    - destruct (closed s); [rewrite Q in QF by reflexivity; discriminate|reflexivity].
    - destruct (linger s) eqn:L; [|reflexivity]. destruct (i_LG _ _ I0 L) as [X|X]; congruence.
  Qed.

  Lemma no_merr_open s fut : Inv s fut -> read_disc s = false -> has_merr (messages s) = false.
  Proof. intros I0 RD. destruct (has_merr (messages s)) eqn:E; [|reflexivity]. destruct (i_M _ _ I0) as [_ X]. rewrite (X E) in RD. discriminate. Qed.

  Lemma started_busy s fut : Inv s fut -> (dstate s <> SNone \/ messages s <> []) -> started s = true.
  Proof. intros I0 B. destruct (started s) eqn:A; [reflexivity|]. destruct (i_ST _ _ I0 A) as (e1 & e2 & _). destruct B; contradiction. Qed.

  (* the bookkeeping of `Message::Item(req)` before the request is dispatched or queued *)
  Definition booked (x : req) (rest : list item) (s : st) : st :=
    let s := set_rbuf rest s in
    let s := if fx_ctx (fx c) && negb (is_none (dstate s)) then s else set_ctx c x s in
    let s := set_c_pl (has_body x) s in
    let s := set_head_t TInactive s in
    let s := add_trace (TDecode x) s in
    if has_body x
    then set_drainable (is_chunked x) (set_payload (Some (rq_id x)) (set_chans ((rq_id x, mkChan 0 false false false) :: chans s) s))
    else set_drainable false s.

  Lemma booked_fields x rest s : let y := booked x rest s in
    sig_armed y = sig_armed s /\ draining y = draining s /\ c_pl y = has_body x /\ messages y = messages s /\
    head_t y = TInactive /\ started y = started s /\ rbuf y = rest /\ sock y = sock s /\ hs y = hs s /\
    read_disc y = read_disc s /\ dstate y = dstate s /\ linger y = linger s /\ shutdown y = shutdown s /\
    trace y = trace s ++ [TDecode x] /\ res y = res s /\
    payload y = (if has_body x then Some (rq_id x) else payload s) /\
    (dstate s = SNone -> c_conn y = ctx_conn c x) /\ (dstate s <> SNone -> c_conn y = c_conn s).
  Proof.
    unfold booked, set_ctx, add_trace. rewrite fx1. cbn [andb]. cbv zeta.
    change (dstate (set_rbuf rest s)) with (dstate s).
    destruct (has_body x) eqn:HB; destruct (dstate s) eqn:D; cbn [is_none negb]; repeat split; auto; try congruence; try discriminate.
  Qed.


  Lemma rev_snoc_head (l : list req) x : rev (l ++ [x]) = x :: rev l.
  Proof. rewrite rev_app_distr. reflexivity. Qed.

  (* a request head is decoded: dispatched at once on an idle dispatcher, queued otherwise *)
  Definition entered (x : req) (rest : list item) (s : st) : st :=
    let y := booked x rest s in
    if is_none (dstate s) then start_service c false x y else set_messages (messages y ++ [MItem x]) y.

  Lemma entered_Inv s fut x rest : LI s fut -> rbuf s = IReq x :: rest -> c_pl s = false ->
    let z := entered x rest s in
    Inv z fut /\ read_disc z = false /\ closed z = false /\ dstate z <> SNone /\
    (dstate s = SNone -> dstate z = SService x /\ messages z = []) /\ res z = res s.
  Proof.
    intros L0 RB CP z. pose proof L0 as (I0 & RD & MN & Q).
    assert (EP : P s fut = IReq x :: (rest ++ sock s ++ fut)) by (unfold P; rewrite RB; reflexivity).
    destruct (LI_open s fut _ _ L0 CP EP) as [NC NL].
    pose proof (no_merr_open s fut I0 RD) as NM.
    destruct (booked_fields x rest s) as (f1 & f2 & f3 & f4 & f5 & f6 & f7 & f8 & f9 & f10 & f11 & f12 & f13 & f14 & f15 & f16 & f17 & f18).
    set (y := booked x rest s) in *.
    assert (Z : sig_armed z = sig_armed s /\ draining z = draining s /\ c_pl z = has_body x /\ head_t z = TInactive /\
                started z = started s /\ rbuf z = rest /\ sock z = sock s /\ hs z = hs s /\ read_disc z = read_disc s /\
                linger z = linger s /\ res z = res s /\ payload z = payload y /\
                trace z = (trace s ++ [TDecode x]) ++ (if is_none (dstate s) then [TStart x] else []) /\
                ys z = ys s ++ [x] /\ has_merr (messages z) = false /\ merr_last (messages z) = true /\
                dstate z <> SNone /\ (dstate s = SNone -> dstate z = SService x /\ messages z = [] /\ c_conn z = ctx_conn c x) /\
                (dstate s <> SNone -> dstate z = dstate s /\ c_conn z = c_conn s)).
    { subst z. unfold entered. fold y. destruct (dstate s) eqn:D; cbn [is_none].
      - specialize (MN eq_refl). unfold start_service, add_trace. rewrite fx1. cbn [andb].
        assert (My : messages y = []) by (rewrite f4; exact MN).
        assert (Cy : c_conn y = ctx_conn c x) by (apply f17; reflexivity).
        repeat split; try discriminate; try assumption; try (intros; congruence).
        + change (trace y ++ [TStart x] = (trace s ++ [TDecode x]) ++ [TStart x]). rewrite f14. reflexivity.
        + unfold ys, inflight. cbn. rewrite My. unfold ys, inflight. rewrite D, MN. reflexivity.
        + cbn. rewrite My. reflexivity.
        + cbn. rewrite My. reflexivity.
      - assert (ND : SService r <> SNone) by discriminate. destruct (f18 ND) as [].
        repeat split; try discriminate; try assumption; try (intros; congruence).
        all: try (rewrite app_nil_r; exact f14).
        all: try (change (has_merr (messages y ++ [MItem x]) = false); rewrite f4, has_merr_app, NM; reflexivity).
        all: try (change (merr_last (messages y ++ [MItem x]) = true); rewrite f4; apply merr_last_snoc_item; exact NM).
        all: try (change (dstate y <> SNone); rewrite f11; discriminate).
        all: try (intros _; split; [exact f11|]; change (c_conn y = c_conn s); apply f18; discriminate).
        all: try (change (c_conn y = c_conn s); apply f18; discriminate).
        all: unfold ys, inflight;
          change (dstate (set_messages (messages y ++ [MItem x]) y)) with (dstate y);
          change (messages (set_messages (messages y ++ [MItem x]) y)) with (messages y ++ [MItem x]);
          rewrite f11, f4, ?D, mreqs_app, app_assoc; reflexivity.
      - assert (ND : SSendPayload who <> SNone) by discriminate.
        repeat split; try discriminate; try assumption; try (intros; congruence).
        all: try (rewrite app_nil_r; exact f14).
        all: try (change (has_merr (messages y ++ [MItem x]) = false); rewrite f4, has_merr_app, NM; reflexivity).
        all: try (change (merr_last (messages y ++ [MItem x]) = true); rewrite f4; apply merr_last_snoc_item; exact NM).
        all: try (change (dstate y <> SNone); rewrite f11; discriminate).
        all: try (intros _; split; [exact f11|]; change (c_conn y = c_conn s); apply f18; discriminate).
        all: try (change (c_conn y = c_conn s); apply f18; discriminate).
        all: unfold ys, inflight;
          change (dstate (set_messages (messages y ++ [MItem x]) y)) with (dstate y);
          change (messages (set_messages (messages y ++ [MItem x]) y)) with (messages y ++ [MItem x]);
          rewrite f11, f4, ?D, mreqs_app, app_assoc; reflexivity. }
    destruct Z as (z1 & z2 & z3 & z4 & z5 & z6 & z7 & z8 & z9 & z10 & z11 & z12 & zT & zY & zM & zL & zD & zN & zB).
    assert (EPz : P z fut = rest ++ sock s ++ fut) by (unfold P; rewrite z6, z7; reflexivity).
    destruct I0 as [a b cM d e f g h i j k l m].
    assert (CALM : (if has_body x then body_tail (rest ++ sock s ++ fut)
                    else is_nil (rest ++ sock s ++ fut) || (good x && calm (rest ++ sock s ++ fut))) = true).
    { destruct j as [j|j]; [congruence|]. rewrite CP, EP in j. cbn [calm] in j. exact j. }
    assert (ALLGOOD : forallb good (ys s) = true).
    { unfold last_free in k. rewrite NM, CP, EP in k. cbn in k. exact k. }
    assert (NCz : closed z = false).
    { unfold closed. rewrite zT, !existsb_app. unfold closed in NC. rewrite NC. cbn. destruct (is_none (dstate s)); reflexivity. }
    assert (STz : started z = true).
    { rewrite z5. destruct (started s) eqn:A; [reflexivity|]. destruct (e eq_refl) as (_ & _ & _ & R0). congruence. }
    assert (PLs : payload s = None).
    { destruct (payload s) eqn:Pl; [|reflexivity]. destruct b as [b1 _]. rewrite b1 in CP by congruence. discriminate. }
    split; [|split; [rewrite z9; exact RD|split; [exact NCz|split; [exact zD|split; [|exact z11]]]]].
    2:{ intro D. destruct (zN D) as (A1 & A2 & _). auto. }
    constructor.
    - rewrite z1, z2. exact a.
    - split; rewrite z3, z12, f16; destruct (has_body x) eqn:HB; intros; try congruence; try discriminate.
    - split; [exact zL|]. rewrite zM. discriminate.
    - rewrite z4. discriminate.
    - rewrite STz. discriminate.
    - intros w Dw. destruct (dstate s) eqn:D.
      + destruct (zN eq_refl) as (A1 & _ & A3). rewrite A1 in Dw. injection Dw as E. rewrite <- E. exact A3.
      + assert (ND : SService r <> SNone) by discriminate. destruct (zB ND) as [B1 B2]. rewrite B1 in Dw. rewrite B2. apply f. exact Dw.
      + assert (ND : SSendPayload who <> SNone) by discriminate. destruct (zB ND) as [B1 B2]. rewrite B1 in Dw. discriminate.
    - rewrite z8. exact g.
    - rewrite z3, zY, rev_snoc_head. auto.
    - rewrite z10, NL. discriminate.
    - right. rewrite z3, EPz. destruct (has_body x); [exact CALM|].
      apply orb_true_iff in CALM as [CN|CG].
      + destruct (rest ++ sock s ++ fut); [reflexivity|discriminate].
      + apply andb_true_iff in CG as [_ CG]. exact CG.
    - unfold last_free. rewrite zM, z3, EPz, zY. cbn [negb andb].
      destruct (has_body x) eqn:HB; cbn [orb].
      + rewrite removelast_last. exact ALLGOOD.
      + destruct (is_nil (rest ++ sock s ++ fut)) eqn:NLp.
        * rewrite removelast_last. exact ALLGOOD.
        * cbn in CALM. apply andb_true_iff in CALM as [GX _]. rewrite forallb_app, ALLGOOD. cbn. rewrite GX. reflexivity.
    - rewrite zT. destruct (is_none (dstate s)).
      + rewrite !quiet_snoc, l. unfold closed in NC. rewrite NC, closed_snoc, NC. reflexivity.
      + rewrite app_nil_r, quiet_snoc, l. reflexivity.
    - rewrite NCz. discriminate.
  Qed.
End Quiet.
