(* Proofs about the poll composer of H1/Gates.v (wake-up side, C04). *)
From AV Require Import Lib.Base H1.ReadBuf H1.Flush H1.Gates H1.GatesCfg H1.GatesProofs.

Section P.
  Variable c : cfg.
  Variable F : nat.

  (* a message (or an over-long partial head) can be decoded from read_buf right now *)
  Definition decodable (x : sim) : bool :=
    match cpl (m x) with
    | Some rem => (rem =? 0) || (0 <? rb (m x))
    | None => match todo x with
              | IReq hlen _ :: _ => (hlen <=? rb (m x)) || (c_maxb c <=? rb (m x))
              | IEndless :: _ => c_maxb c <=? rb (m x)
              | [] => false
              end
    end.

  Lemma stall_source_eq x :
    stall_source c x = (lenN (q (m x)) <? c_maxp c) && can_read (m x) && decodable x.
  Proof. reflexivity. Qed.

  (* EvPassEnd touches neither read_buf nor the payload decoder, whether its guard is open or not *)
  Lemma do_passend_decodable x : decodable (do_ev c EvPassEnd x) = decodable x.
  Proof.
    unfold do_ev. destruct (step c (m x) EvPassEnd) eqn:E; [|reflexivity].
    unfold step, guard in E. destruct (pass (m x)); inversion E; subst. reflexivity.
  Qed.

  Lemma do_toolarge x :
    let x' := set_shut_err (shut x) true (do_ev c EvTooLarge x) in
    rd_disc (m x') = true \/ bad x' = true.
  Proof.
    cbn zeta. unfold do_ev. destruct (step c (m x) EvTooLarge) eqn:E; [left|right; reflexivity].
    unfold step, guard in E.
    destruct (pass (m x) && (c_maxb c <=? rb (m x)) && match cpl (m x) with None => true | Some _ => false end);
      inversion E; subst. reflexivity.
  Qed.

  (* THE DECODE PASS IS COMPLETE: when poll_request's decode loop returns, nothing decodable is
     left in read_buf (or the read side has been closed, or the run is flagged) *)
  Lemma decode_loop_complete : forall fuel x u,
    let x' := fst (decode_loop c fuel x u) in
    decodable x' = false \/ rd_disc (m x') = true \/ bad x' = true.
  Proof.
    induction fuel as [|fuel IH]; intros x u; cbn zeta; cbn [decode_loop].
    - right; right. reflexivity.
    - destruct (cpl (m x)) as [rem|] eqn:Ec.
      + destruct (rem =? 0) eqn:Er; [apply IH|].
        destruct (rb (m x) =? 0) eqn:Eb; [|apply IH].
        left. cbn [fst]. rewrite do_passend_decodable. unfold decodable. rewrite Ec, Er.
        assert (X : 0 <? rb (m x) = false) by lia. rewrite X. reflexivity.
      + destruct (todo x) as [|[hlen b|] todo'] eqn:Et.
        * left. cbn [fst]. rewrite do_passend_decodable. unfold decodable. rewrite Ec, Et. reflexivity.
        * destruct (hlen <=? rb (m x)) eqn:Eh.
          -- destruct (state (m x)); try apply IH.
             destruct (run_handler c (handler_fuel _) _) as [x3 [[h bd]|]]; apply IH.
          -- destruct (c_maxb c <=? rb (m x)) eqn:Em.
             ++ right. cbn [fst]. apply do_toolarge.
             ++ left. cbn [fst]. rewrite do_passend_decodable. unfold decodable. rewrite Ec, Et, Eh, Em. reflexivity.
        * destruct (c_maxb c <=? rb (m x)) eqn:Em.
          -- right. cbn [fst]. apply do_toolarge.
          -- left. cbn [fst]. rewrite do_passend_decodable. unfold decodable. rewrite Ec, Et, Em. reflexivity.
  Qed.

  (* evaluating need_read only registers the io waker: the gates read the same *)
  Lemma ch_reg_io_need_read s : need_read_status (upd_tgt ch_reg_io s) = need_read_status s.
  Proof.
    unfold need_read_status. destruct (upd_tgt_fields ch_reg_io s) as (_&_&_&_&_&_&E&_). rewrite E.
    destruct (cpl s); [|reflexivity]. rewrite (tgt_chan_upd ch_reg_io s).
    destruct (tgt_chan s); reflexivity.
  Qed.

  Lemma do_needread_gates x :
    can_read (m (do_ev c EvNeedRead x)) = can_read (m x) /\
    lenN (q (m (do_ev c EvNeedRead x))) = lenN (q (m x)).
  Proof.
    unfold do_ev. destruct (step c (m x) EvNeedRead) eqn:E; [|split; reflexivity].
    unfold step in E. cbn [m].
    destruct (need_read_status (m x)) as [[| |]|] eqn:En; inversion E; subst; try (split; reflexivity).
    destruct (upd_tgt_fields ch_reg_io (m x)) as (_&E2&_&_&_&_&_&E8&_).
    split; [|exact E2]. unfold can_read. rewrite E8, ch_reg_io_need_read. reflexivity.
  Qed.

  (* after EVERY poll_request: no decodable message is left behind open gates *)
  Theorem poll_request_leaves_no_stall_source x :
    let x' := fst (poll_request c x) in stall_source c x' = false \/ bad x' = true.
  Proof.
    cbn zeta. unfold poll_request.
    set (x1 := if rd_disc (m x) then x else do_ev c EvNeedRead x).
    assert (G : can_read (m x1) = can_read (m x) /\ lenN (q (m x1)) = lenN (q (m x))).
    { unfold x1. destruct (rd_disc (m x)); [split; reflexivity|apply do_needread_gates]. }
    destruct G as [G1 G2].
    destruct ((c_maxp c <=? lenN (q (m x))) || negb (can_read (m x))) eqn:Eg.
    - left. cbn [fst]. rewrite stall_source_eq, G1, G2.
      destruct (c_maxp c <=? lenN (q (m x))) eqn:E1.
      + assert (X : lenN (q (m x)) <? c_maxp c = false) by lia. rewrite X. reflexivity.
      + cbn [orb] in Eg. destruct (can_read (m x)); [discriminate|]. rewrite andb_false_r. reflexivity.
    - destruct (decode_loop_complete (4 + 2 * length (todo x)) (do_ev c EvGate x1) false) as [H|[H|H]];
        cbn zeta in H.
      + left. rewrite stall_source_eq, H. apply andb_false_r.
      + left. rewrite stall_source_eq. unfold can_read. rewrite H. cbn [negb andb]. rewrite andb_false_r. reflexivity.
      + right. exact H.
  Qed.
End P.

(* ---- F21 on the composer ------------------------------------------------------------------ *)
From AV Require Import Gen.Consts.

(* one waiting handler, 16 fast requests (the queue is full), 10 more requests arrive, then the
   waiting handler answers: three polls *)
Definition f21_items : list item := repeat (IReq 18 None) 27.
Definition f21_handlers : list (list hact) :=
  [HPend; HPend; HPend; HRespond 56 None] :: repeat [HRespond 56 None] 26.
Definition f21_rounds : list round :=
  [mk_round (18 * 17) false [WAccept 100000] [] false;
   mk_round (18 * 10) false [WAccept 100000] [] false;
   mk_round 0 false [WAccept 100000] [] true].

Fixpoint polls (c : cfg) (F : nat) (x : sim) (rs : list round) : sim * pres :=
  match rs with
  | [] => (x, PPend)
  | r :: rest => let '(x1, p) := poll c F x r in
                 match p, rest with PPend, _ :: _ => polls c F x1 rest | _, _ => (x1, p) end
  end.

Definition f21_after (fix21 : bool) : sim * pres :=
  polls (std_cfg 32768 H1_LW_BUFFER_SIZE 123 fix21) 200 (sim_init f21_items f21_handlers) f21_rounds.

(* ---- a paused request payload dropped by the handler (second stall of the same kind) -------- *)
(* 400 000 body bytes behind a handler that waits, then drops the payload unread and answers;
   a second request behind it.  Poll 1 fills the channel beyond its limit (Paused); poll 2 reads
   read_buf full again and cannot decode; poll 3: the handler drops the payload and answers. *)
Definition f28_items : list item := [IReq 47 (Some 400000); IReq 18 None].
Definition f28_handlers : list (list hact) := [[HWait; HDrop; HRespond 56 None]; [HRespond 56 None]].
Definition f28_rounds : list round :=
  [mk_round 400065 false [WAccept 100000] [] false;
   mk_round 0 false [WAccept 100000] [] false;
   mk_round 0 false [WAccept 100000] [] true].
Definition f28_after (fix28 : bool) : sim * pres :=
  polls (std_cfg2 32768 H1_LW_BUFFER_SIZE 123 true fix28) 50 (sim_init f28_items f28_handlers) f28_rounds.
