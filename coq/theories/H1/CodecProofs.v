(* H1/CodecProofs.v — request codec: laws of the head phase, error classes, finality of errors.
   The tokenizer is a Section variable; its laws are the record [HeadLaws]. *)
From AV Require Import Lib.Base H1.Chunked H1.ChunkedSpec H1.ChunkedProofs H1.PayloadDec
  H1.PayloadDecProofs H1.Framing H1.FramingProofs H1.Codec H1.SimpleHead.

(* What is assumed of the external tokenizer (httparse + Method::from_bytes + Uri::try_from):
   a definite answer does not change when more bytes arrive, and a complete head has a positive
   length within the buffer. *)
Record HeadLaws (head : bytes -> head_res) : Prop := {
  hl_complete_stable : forall s x n m t v hs,
      head s = HComplete n m t v hs -> head (s ++ x) = HComplete n m t v hs;
  hl_bad_stable : forall s x e, head s = HBad e -> head (s ++ x) = HBad e;
  hl_len : forall s n m t v hs, head s = HComplete n m t v hs -> (0 < n <= length s)%nat }.

(* ---- the simple tokenizer satisfies the laws ------------------------------------------------ *)
Lemma split_head_done_app s : forall cur ls cr L rest x,
  split_head s cur ls cr = LsDone L rest -> split_head (s ++ x) cur ls cr = LsDone L (rest ++ x).
Proof.
  induction s as [|b s IH]; intros cur ls cr L rest x H; cbn [split_head app] in *; [discriminate|].
  destruct cr.
  - destruct (b =? 10); [|discriminate]. destruct cur.
    + inversion H; subst; reflexivity.
    + apply IH; assumption.
  - destruct (b =? 13); [apply IH; assumption|].
    destruct (b =? 10); [discriminate|apply IH; assumption].
Qed.

Lemma split_head_bad_app s : forall cur ls cr x,
  split_head s cur ls cr = LsBad -> split_head (s ++ x) cur ls cr = LsBad.
Proof.
  induction s as [|b s IH]; intros cur ls cr x H; cbn [split_head app] in *; [discriminate|].
  destruct cr.
  - destruct (b =? 10); [|reflexivity]. destruct cur; [discriminate|apply IH; assumption].
  - destruct (b =? 13); [apply IH; assumption|].
    destruct (b =? 10); [reflexivity|apply IH; assumption].
Qed.

Lemma split_head_done_len s : forall cur ls cr L rest,
  split_head s cur ls cr = LsDone L rest -> (length rest < length s)%nat.
Proof.
  induction s as [|b s IH]; intros cur ls cr L rest H; cbn [split_head] in *; [discriminate|].
  cbn [length]. destruct cr.
  - destruct (b =? 10); [|discriminate]. destruct cur.
    + inversion H; subst; lia.
    + apply IH in H; lia.
  - destruct (b =? 13); [apply IH in H; lia|].
    destruct (b =? 10); [discriminate|apply IH in H; lia].
Qed.

Theorem simple_head_laws maxh : HeadLaws (simple_head maxh).
Proof.
  split.
  - intros s x n m t v hs H. unfold simple_head in *.
    destruct (split_head s [] [] false) as [| |L rest] eqn:Hs; try discriminate.
    rewrite (split_head_done_app _ _ _ _ _ _ x Hs).
    pose proof (split_head_done_len _ _ _ _ _ _ Hs) as Hl.
    destruct L as [|rl hls]; [discriminate|].
    destruct (parse_request_line rl) as [[[m0 t0] v0]|e|]; try discriminate.
    destruct (parse_header_lines (firstn (N.to_nat maxh) hls)); [|discriminate].
    destruct (maxh <? lenN hls); [discriminate|].
    inversion H; subst. rewrite !app_length. f_equal. lia.
  - intros s x e H. unfold simple_head in *.
    destruct (split_head s [] [] false) as [| |L rest] eqn:Hs; try discriminate.
    + rewrite (split_head_bad_app _ _ _ _ x Hs). exact H.
    + rewrite (split_head_done_app _ _ _ _ _ _ x Hs).
      destruct L as [|rl hls]; [exact H|].
      destruct (parse_request_line rl) as [[[m0 t0] v0]|e0|]; try exact H.
      destruct (parse_header_lines (firstn (N.to_nat maxh) hls)); [|exact H].
      destruct (maxh <? lenN hls); [exact H|discriminate].
  - intros s n m t v hs H. unfold simple_head in *.
    destruct (split_head s [] [] false) as [| |L rest] eqn:Hs; try discriminate.
    pose proof (split_head_done_len _ _ _ _ _ _ Hs) as Hl.
    destruct L as [|rl hls]; [discriminate|].
    destruct (parse_request_line rl) as [[[m0 t0] v0]|e|]; try discriminate.
    destruct (parse_header_lines (firstn (N.to_nat maxh) hls)); [|discriminate].
    destruct (maxh <? lenN hls); [discriminate|].
    inversion H; subst. lia.
Qed.

Section CodecLaws.
  Variable head : bytes -> head_res.
  Variable maxb : N.
  Hypothesis HL : HeadLaws head.

  Notation request_decode := (request_decode head maxb).
  Notation codec_decode := (codec_decode head maxb).
  Notation run := (run head maxb).
  Notation feed := (feed head maxb).

  (* ---- head phase: a decision, once taken, is the same on every longer buffer -------------- *)
  Theorem request_decode_item_stable b1 b2 r pt rest :
    request_decode b1 = DOk (Some (r, pt, rest)) ->
    request_decode (b1 ++ b2) = DOk (Some (r, pt, rest ++ b2)).
  Proof.
    unfold Codec.request_decode. intro H.
    destruct (head b1) as [|n m t v hs|e] eqn:Hh; try discriminate.
    - destruct (maxb <=? lenN b1); discriminate.
    - rewrite (hl_complete_stable _ HL _ b2 _ _ _ _ _ Hh).
      destruct (request_payload v m hs) as [[[pt0 ka] ex]|]; [|discriminate].
      inversion H; subst. pose proof (hl_len _ HL _ _ _ _ _ _ Hh).
      rewrite skipn_app. replace (n - length b1)%nat with 0%nat by lia. reflexivity.
  Qed.

  (* a rejection other than "too large" does not depend on what follows *)
  Theorem request_decode_reject_stable b1 b2 e :
    request_decode b1 = DErr e -> e <> ETooLarge -> request_decode (b1 ++ b2) = DErr e.
  Proof.
    unfold Codec.request_decode. intros H Hne.
    destruct (head b1) as [|n m t v hs|e0] eqn:Hh.
    - destruct (maxb <=? lenN b1); [inversion H; congruence|discriminate].
    - rewrite (hl_complete_stable _ HL _ b2 _ _ _ _ _ Hh).
      destruct (request_payload v m hs) as [[[pt0 ka] ex]|]; [discriminate|exact H].
    - rewrite (hl_bad_stable _ HL _ b2 _ Hh). exact H.
  Qed.

  (* below MAX_BUFFER_SIZE an incomplete head just waits *)
  Theorem request_decode_waits b : head b = HPartial -> lenN b < maxb -> request_decode b = DOk None.
  Proof.
    unfold Codec.request_decode. intros -> Hl. replace (maxb <=? lenN b) with false by lia. reflexivity.
  Qed.

  (* oversized head: MAX_BUFFER_SIZE bytes without a complete head *)
  Theorem request_decode_too_large b : head b = HPartial -> maxb <= lenN b -> request_decode b = DErr ETooLarge.
  Proof.
    unfold Codec.request_decode. intros -> Hl. replace (maxb <=? lenN b) with true by lia. reflexivity.
  Qed.

  (* outside the band (finding F19): if the tokenizer's answer on the whole remaining stream [s]
     is already determined by its first maxb-1 bytes, then every prefix (every possible content
     of the read buffer at a segment boundary) either waits or gives the whole stream's decision *)
  Theorem head_decision_segmentation_independent s p x :
    s = p ++ x -> head (firstn (N.to_nat (maxb - 1)) s) = head s -> head s <> HPartial -> 0 < maxb ->
    request_decode p = DOk None \/
    (request_decode p = request_decode s \/
     exists r pt rest, request_decode p = DOk (Some (r, pt, rest)) /\
                       request_decode s = DOk (Some (r, pt, rest ++ x))).
  Proof.
    intros -> Hdet Hnp Hpos.
    destruct (head p) as [|n m t v hs|e] eqn:Hp.
    - (* p undecided: then p is shorter than maxb-1, so it waits *)
      left. apply request_decode_waits; [assumption|].
      destruct (N.ltb_spec (lenN p) maxb) as [Hlt|Hge]; [assumption|exfalso].
      unfold lenN in Hge.
      assert (Hpre : p = firstn (N.to_nat (maxb - 1)) (p ++ x) ++ skipn (N.to_nat (maxb - 1)) p).
      { rewrite firstn_app. replace (N.to_nat (maxb - 1) - length p)%nat with 0%nat by lia.
        cbn [firstn]. rewrite app_nil_r. symmetry. apply firstn_skipn. }
      destruct (head (p ++ x)) as [|n m t v hs|e] eqn:Hs; [congruence| |].
      + rewrite Hpre in Hp. rewrite (hl_complete_stable _ HL _ _ _ _ _ _ _ Hdet) in Hp. discriminate.
      + rewrite Hpre in Hp. rewrite (hl_bad_stable _ HL _ _ _ Hdet) in Hp. discriminate.
    - right. unfold Codec.request_decode. rewrite Hp.
      rewrite (hl_complete_stable _ HL _ x _ _ _ _ _ Hp).
      destruct (request_payload v m hs) as [[[pt0 ka] ex]|]; [|left; reflexivity].
      right. do 3 eexists. split; [reflexivity|].
      pose proof (hl_len _ HL _ _ _ _ _ _ Hp).
      rewrite skipn_app. replace (n - length p)%nat with 0%nat by lia. reflexivity.
    - right. left. unfold Codec.request_decode. rewrite Hp. rewrite (hl_bad_stable _ HL _ x _ Hp). reflexivity.
  Qed.

  (* ---- error classes at the codec ---------------------------------------------------------- *)
  Theorem codec_head_reject c src n m t v hs :
    c_payload c = None -> head src = HComplete n m t v hs -> request_payload v m hs = None ->
    codec_decode c src = DErr EHeader.
  Proof.
    intros Hc Hh Hr. unfold Codec.codec_decode, Codec.request_decode. rewrite Hc, Hh, Hr. reflexivity.
  Qed.

  (* malformed chunk framing surfaces as the I/O class (ParseError::Io), not as a parse error:
     this is what makes poll_request drop the connection without a 400 (finding F22) *)
  Theorem codec_chunk_error_is_io c k src :
    c_payload c = Some k -> pdecode k src = Err -> codec_decode c src = DErr EIo.
  Proof. intros Hc He. unfold Codec.codec_decode. rewrite Hc, He. reflexivity. Qed.

  (* ---- an error is final: nothing after the rejection point is decoded ---------------------- *)
  Theorem feed_app s1 : forall s2 c r acc,
    feed (s1 ++ s2) c r acc =
    match feed s1 c r acc with
    | ONeedMore c' r' acc' => feed s2 c' r' acc'
    | o => o
    end.
  Proof.
    induction s1 as [|seg s1 IH]; intros s2 c r acc; cbn [app Codec.feed]; [reflexivity|].
    destruct (Codec.run head maxb (run_fuel (r ++ seg)) c (r ++ seg) acc); try reflexivity. apply IH.
  Qed.

  Corollary error_is_final s1 s2 c r acc e ms :
    feed s1 c r acc = OError e ms -> feed (s1 ++ s2) c r acc = OError e ms.
  Proof. intro H. rewrite feed_app, H. reflexivity. Qed.

  (* the messages already delivered are never retracted or altered by an error *)
  Lemma push_length acc m : (length acc <= length (push acc m))%nat.
  Proof.
    destruct m; cbn [push].
    - rewrite app_length. cbn [length]. lia.
    - destruct (rev acc) as [|l0 bf] eqn:E; [lia|].
      rewrite <- (rev_involutive acc), E. cbn [rev]. rewrite !app_length. cbn [length]. lia.
    - destruct (rev acc) as [|l0 bf] eqn:E; [lia|].
      rewrite <- (rev_involutive acc), E. cbn [rev]. rewrite !app_length. cbn [length]. lia.
  Qed.
End CodecLaws.

(* ---- finding F19, stated for an arbitrary tokenizer: a head that completes only beyond
   MAX_BUFFER_SIZE is accepted when it arrives in one read and refused when a read ends first *)
Theorem head_in_band_depends_on_segmentation head maxb p x n m t v hs pt ka ex :
  HeadLaws head ->
  head p = HPartial -> maxb <= lenN p -> head (p ++ x) = HComplete n m t v hs ->
  request_payload v m hs = Some (pt, ka, ex) ->
  feed head maxb [p; x] codec0 [] [] = OError ETooLarge [] /\
  exists c rest ms, run head maxb 1 codec0 (p ++ x) [] = run head maxb 1 c rest ms /\
     codec_decode head maxb codec0 (p ++ x) <> DErr ETooLarge.
Proof.
  intros HL Hp Hlen Hc Hr. split.
  - cbn [feed app]. unfold run_fuel. cbn [run]. rewrite Nat.add_comm. cbn [Nat.add run].
    unfold codec_decode. cbn [c_payload codec0].
    rewrite (request_decode_too_large head maxb p Hp Hlen). reflexivity.
  - exists codec0, (p ++ x), []. split; [reflexivity|].
    unfold codec_decode, request_decode. cbn [c_payload codec0]. rewrite Hc, Hr.
    destruct pt; discriminate.
Qed.
