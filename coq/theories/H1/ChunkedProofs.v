(* H1/ChunkedProofs.v — lemmas about the ChunkedState machine and its byte-wise semantics. *)
From AV Require Import Lib.Base H1.Chunked H1.ChunkedSpec.

Ltac cstep_cases H :=
  repeat match type of H with
  | context [match hexval ?x with _ => _ end] => destruct (hexval x) eqn:?
  | context [if ?c then _ else _] => destruct c eqn:?
  end.

(* ---- arithmetic: the unchecked `*size += rem` never overflows ---------------------------- *)
Lemma hexval_lt16 b d : hexval b = Some d -> d < 16.
Proof.
  unfold hexval. intro H. cstep_cases H; inversion H; subst; lia.
Qed.

Lemma u64_max_mod16 : u64_max = 16 * 1152921504606846975 + 15.
Proof. reflexivity. Qed.

(* after a successful checked_mul(16), adding a hex digit stays within u64 *)
Lemma mul16_add_digit_fits sz d : sz * 16 <= u64_max -> d < 16 -> sz * 16 + d <= u64_max.
Proof. rewrite u64_max_mod16. lia. Qed.

Lemma cstep_no_panic s sz b : cstep s sz b <> Pan.
Proof.
  destruct s; cbn [cstep]; unfold size_digit, lws_ext_cr; intro H.
  all: cstep_cases H; try discriminate H.
  all: assert (n < 16) by (eapply hexval_lt16; eassumption);
       pose proof (mul16_add_digit_fits sz n); lia.
Qed.

Lemma cstep_never_pend s sz b : cstep s sz b <> Pend.
Proof.
  destruct s; cbn [cstep]; unfold size_digit, lws_ext_cr; intro H; cstep_cases H; discriminate H.
Qed.

(* the size register stays a u64 *)
Lemma cstep_size_bound s sz b s' sz' : sz <= u64_max -> cstep s sz b = Ok (s', sz') -> sz' <= u64_max.
Proof.
  intros Hb H. destruct s; cbn [cstep] in H; unfold size_digit, lws_ext_cr in H; cstep_cases H;
    try discriminate H; inversion H; subst; lia.
Qed.

(* a size line whose value reaches 2^64 is an error: the step that would exceed u64::MAX fails *)
Lemma cstep_overflow_err s sz b d : s = Size \/ s = SizeDigits ->
  hexval b = Some d -> u64_max < sz * 16 + d -> cstep s sz b = Err.
Proof.
  intros Hs Hh Ho. destruct Hs; subst; cbn [cstep]; rewrite Hh; unfold size_digit;
  pose proof (hexval_lt16 _ _ Hh); pose proof (mul16_add_digit_fits sz d);
  (destruct (sz * 16 <=? u64_max) eqn:E; [|reflexivity]); lia.
Qed.

(* F3 repaired: a size line cannot start with anything but a hex digit *)
Lemma cstep_size_needs_digit sz b : hexval b = None -> cstep Size sz b = Err.
Proof. intro H. cbn [cstep]. rewrite H. reflexivity. Qed.

(* ---- invariant ----------------------------------------------------------------------------- *)
Lemma cstep_inv s sz b s' sz' : cstep s sz b = Ok (s', sz') -> inv s' sz'.
Proof.
  intros H. unfold inv. intros ->.
  destruct s; cbn [cstep] in H; unfold size_digit, lws_ext_cr in H; cstep_cases H;
    try discriminate H; inversion H; subst; lia.
Qed.

(* ---- byte-wise fold -------------------------------------------------------------------------- *)
Lemma bw_End sz buf acc : bw End sz buf acc = Ok (End, sz, buf, acc, true).
Proof. destruct buf; reflexivity. Qed.

Lemma bw_nil s sz acc : s <> End -> bw s sz [] acc = Ok (s, sz, [], acc, false).
Proof. destruct s; intros; try reflexivity. congruence. Qed.

Lemma bw_ctl s sz b rest acc : is_ctl s = true ->
  bw s sz (b :: rest) acc =
  match cstep s sz b with Ok (s', sz') => bw s' sz' rest acc | Pend => Pend | Err => Err | Pan => Pan end.
Proof.
  intros H. destruct s; try discriminate H; cbn [bw bstep];
    destruct (cstep _ sz b) as [|[s' sz']| |]; reflexivity.
Qed.

Lemma bw_body_all buf sz acc : lenN buf < sz ->
  bw Body sz buf acc = Ok (Body, sz - lenN buf, [], acc ++ buf, false).
Proof.
  unfold lenN. revert sz acc. induction buf as [|b buf IH]; intros sz acc H.
  - cbn [bw length]. rewrite app_nil_r. replace (sz - N.of_nat 0) with sz by lia. reflexivity.
  - cbn [bw bstep]. cbn [length] in H.
    destruct (sz <=? 1) eqn:E; [lia|].
    rewrite IH by lia. rewrite <- app_assoc. cbn [app length].
    replace (sz - 1 - N.of_nat (length buf)) with (sz - N.of_nat (S (length buf))) by lia. reflexivity.
Qed.

Lemma bw_body_exact buf sz acc rest : 0 < sz -> lenN buf = sz ->
  bw Body sz (buf ++ rest) acc = bw BodyCr 0 rest (acc ++ buf).
Proof.
  unfold lenN. revert sz acc rest. induction buf as [|b buf IH]; intros sz acc rest H0 H.
  - cbn in H. lia.
  - cbn [app bw bstep]. cbn [length] in H.
    destruct (sz <=? 1) eqn:E.
    + assert (buf = []) by (destruct buf; [reflexivity|cbn [length] in H; lia]). subst. cbn [app]. reflexivity.
    + rewrite IH by lia. rewrite <- app_assoc. reflexivity.
Qed.

(* compositionality over concatenation: THE segmentation lemma *)
Lemma bw_app b1 : forall s sz acc b2,
  bw s sz (b1 ++ b2) acc =
  match bw s sz b1 acc with
  | Ok (s', sz', r, acc', false) => bw s' sz' (r ++ b2) acc'
  | Ok (s', sz', r, acc', true) => Ok (s', sz', r ++ b2, acc', true)
  | Pend => Pend | Err => Err | Pan => Pan
  end.
Proof.
  induction b1 as [|b b1 IH]; intros s sz acc b2.
  - destruct s; cbn [bw app]; try reflexivity. destruct b2; reflexivity.
  - destruct s; cbn [bw app];
      try (destruct (bstep _ sz b) as [|[[s' sz'] [d|]]| |]; try reflexivity; apply IH).
    reflexivity.
Qed.

Lemma bw_inv buf : forall s sz acc s' sz' r acc' e,
  inv s sz -> bw s sz buf acc = Ok (s', sz', r, acc', e) -> inv s' sz'.
Proof.
  induction buf as [|b buf IH]; intros s sz acc s' sz' r acc' e Hinv H.
  - destruct s; cbn [bw] in H; inversion H; subst; try assumption; intro; discriminate.
  - destruct s; cbn [bw] in H; try (inversion H; subst; intro; discriminate);
      cbn [bstep] in H.
    all: try (destruct (cstep _ sz b) as [|[s1 z1]| |] eqn:Hc; try discriminate H;
              eapply IH; [eapply cstep_inv; exact Hc | exact H]).
    destruct (sz <=? 1) eqn:E; (eapply IH; [|exact H]); intro; try discriminate.
    assert (0 < sz) by (apply Hinv; reflexivity). lia.
Qed.

(* a result that has not reached End has consumed the whole input *)
Lemma bw_false buf : forall s sz acc s' sz' r acc',
  bw s sz buf acc = Ok (s', sz', r, acc', false) -> r = [] /\ s' <> End.
Proof.
  induction buf as [|b buf IH]; intros s sz acc s' sz' r acc' H.
  - destruct s; cbn [bw] in H; inversion H; subst; split; try reflexivity; discriminate.
  - destruct s; cbn [bw] in H; try discriminate H;
      destruct (bstep _ sz b) as [|[[s1 z1] [d|]]| |]; try discriminate H; eapply IH; exact H.
Qed.

Lemma bw_true buf : forall s sz acc s' sz' r acc',
  bw s sz buf acc = Ok (s', sz', r, acc', true) -> s' = End.
Proof.
  induction buf as [|b buf IH]; intros s sz acc s' sz' r acc' H.
  - destruct s; cbn [bw] in H; inversion H; subst; reflexivity.
  - destruct s; cbn [bw] in H; try (inversion H; subst; reflexivity);
      destruct (bstep _ sz b) as [|[[s1 z1] [d|]]| |]; try discriminate H; eapply IH; exact H.
Qed.

(* the byte-wise semantics never panics and never reports Pend *)
Lemma bstep_no_panic s sz b : bstep s sz b <> Pan /\ bstep s sz b <> Pend.
Proof.
  pose proof (cstep_no_panic s sz b) as Hp. pose proof (cstep_never_pend s sz b) as Hq.
  destruct s; cbn [bstep]; try (destruct (sz <=? 1); split; discriminate); try (split; discriminate).
  all: destruct (cstep _ sz b) as [|[? ?]| |]; split; congruence.
Qed.

Lemma bw_no_panic buf : forall s sz acc, bw s sz buf acc <> Pan /\ bw s sz buf acc <> Pend.
Proof.
  induction buf as [|b buf IH]; intros s sz acc.
  - destruct s; cbn [bw]; split; discriminate.
  - destruct (bstep_no_panic s sz b) as [Hp Hq].
    destruct s; cbn [bw]; try (split; discriminate);
      destruct (bstep _ sz b) as [|[[s1 z1] [d|]]| |]; try congruence; try apply IH; split; discriminate.
Qed.

(* size register bound along a whole run *)
Lemma bw_size_bound buf : forall s sz acc s' sz' r acc' e,
  sz <= u64_max -> bw s sz buf acc = Ok (s', sz', r, acc', e) -> sz' <= u64_max.
Proof.
  induction buf as [|b buf IH]; intros s sz acc s' sz' r acc' e Hb H.
  - destruct s; cbn [bw] in H; inversion H; subst; assumption.
  - destruct s; cbn [bw] in H; try (inversion H; subst; assumption); cbn [bstep] in H.
    all: try (destruct (cstep _ sz b) as [|[s1 z1]| |] eqn:Hc; try discriminate H;
              eapply IH; [eapply cstep_size_bound; [exact Hb|exact Hc] | exact H]).
    destruct (sz <=? 1) eqn:E; (eapply IH; [|exact H]); lia.
Qed.

(* ---- the grammar is accepted, with exactly the chunk data as body ---------------------------- *)
Lemma hexnum_ge ds : forall a, a <= hexnum a ds.
Proof.
  unfold hexnum. induction ds as [|d ds IH]; intro a; cbn [fold_left]; [lia|].
  specialize (IH (a * 16 + hexdig d)). lia.
Qed.

Lemma hexnum_cons a d ds : hexnum a (d :: ds) = hexnum (a * 16 + hexdig d) ds.
Proof. reflexivity. Qed.

Lemma bw_digits_rest ds : forall sz r acc,
  forallb is_hex ds = true -> hexnum sz ds <= u64_max ->
  bw SizeDigits sz (ds ++ r) acc = bw SizeDigits (hexnum sz ds) r acc.
Proof.
  induction ds as [|d ds IH]; intros sz r acc Hh Hb; [reflexivity|].
  cbn [forallb] in Hh. apply andb_true_iff in Hh as [Hd Hh].
  rewrite hexnum_cons in *.
  pose proof (hexnum_ge ds (sz * 16 + hexdig d)) as Hge.
  cbn [app]. rewrite bw_ctl by reflexivity. cbn [cstep]. unfold size_digit.
  unfold is_hex in Hd. unfold hexdig in *. destruct (hexval d) as [v|] eqn:Hv; [|discriminate].
  destruct (sz * 16 <=? u64_max) eqn:E1; [|lia].
  destruct (sz * 16 + v <=? u64_max) eqn:E2; [|lia].
  apply IH; assumption.
Qed.

(* 1*HEXDIG from the start of a size line *)
Lemma bw_digits ds : forall sz r acc,
  ds <> [] -> forallb is_hex ds = true -> hexnum sz ds <= u64_max ->
  bw Size sz (ds ++ r) acc = bw SizeDigits (hexnum sz ds) r acc.
Proof.
  intros sz r acc Hne Hh Hb. destruct ds as [|d ds]; [congruence|].
  cbn [forallb] in Hh. apply andb_true_iff in Hh as [Hd Hh].
  rewrite hexnum_cons in *.
  pose proof (hexnum_ge ds (sz * 16 + hexdig d)) as Hge.
  cbn [app]. rewrite bw_ctl by reflexivity. cbn [cstep]. unfold size_digit.
  unfold is_hex in Hd. unfold hexdig in *. destruct (hexval d) as [v|] eqn:Hv; [|discriminate].
  destruct (sz * 16 <=? u64_max) eqn:E1; [|lia].
  destruct (sz * 16 + v <=? u64_max) eqn:E2; [|lia].
  apply bw_digits_rest; assumption.
Qed.

Lemma is_lws_not_hex b : is_lws b = true -> hexval b = None.
Proof.
  unfold is_lws, hexval. intro H.
  destruct ((48 <=? b) && (b <=? 57)) eqn:E1; [lia|].
  destruct ((97 <=? b) && (b <=? 102)) eqn:E2; [lia|].
  destruct ((65 <=? b) && (b <=? 70)) eqn:E3; [lia|reflexivity].
Qed.

Lemma bw_lws_in l : forall sz r acc, forallb is_lws l = true ->
  bw SizeLws sz (l ++ r) acc = bw SizeLws sz r acc.
Proof.
  induction l as [|b l IH]; intros sz r acc H; [reflexivity|].
  cbn [forallb] in H. apply andb_true_iff in H as [Hb H].
  cbn [app]. rewrite bw_ctl by reflexivity. cbn [cstep]. unfold lws_ext_cr.
  unfold is_lws in Hb. rewrite Hb. apply IH; assumption.
Qed.

Lemma bw_ext_in e : forall sz r acc, forallb ext_ok e = true ->
  bw Extension sz (e ++ r) acc = bw Extension sz r acc.
Proof.
  induction e as [|b e IH]; intros sz r acc H; [reflexivity|].
  cbn [forallb] in H. apply andb_true_iff in H as [Hb H].
  cbn [app]. rewrite bw_ctl by reflexivity. cbn [cstep].
  unfold ext_ok in Hb. apply andb_true_iff in Hb as [H1 H2].
  destruct (b =? 13); [discriminate|]. destruct (ext_forbidden b); [discriminate|].
  apply IH; assumption.
Qed.

(* after the digits: optional LWS, optional extension, CR  =>  SizeLf *)
Lemma bw_line_tail lws ext sz r acc :
  forallb is_lws lws = true ->
  match ext with Some e => forallb ext_ok e = true | None => True end ->
  bw SizeDigits sz (lws ++ (match ext with Some e => 59 :: e | None => [] end) ++ 13 :: r) acc
  = bw SizeLf sz r acc.
Proof.
  intros Hl He.
  assert (Htail : forall s, s = SizeDigits \/ s = SizeLws ->
            bw s sz ((match ext with Some e => 59 :: e | None => [] end) ++ 13 :: r) acc = bw SizeLf sz r acc).
  { intros s Hs. destruct ext as [e|].
    - change ((59 :: e) ++ 13 :: r) with (59 :: (e ++ 13 :: r)).
      assert (bw s sz (59 :: e ++ 13 :: r) acc = bw Extension sz (e ++ 13 :: r) acc) as ->.
      { destruct Hs; subst; rewrite bw_ctl by reflexivity; reflexivity. }
      rewrite bw_ext_in by assumption. rewrite bw_ctl by reflexivity. reflexivity.
    - change ([] ++ 13 :: r) with (13 :: r).
      destruct Hs; subst; rewrite bw_ctl by reflexivity; reflexivity. }
  destruct lws as [|b lws].
  - cbn [app]. apply Htail. left; reflexivity.
  - cbn [forallb] in Hl. apply andb_true_iff in Hl as [Hb Hl].
    cbn [app]. rewrite bw_ctl by reflexivity. cbn [cstep].
    rewrite (is_lws_not_hex b Hb). unfold lws_ext_cr. unfold is_lws in Hb. rewrite Hb.
    rewrite bw_lws_in by assumption. apply Htail. right; reflexivity.
Qed.

Lemma bw_size_line l r acc :
  size_line_wf l -> hexnum 0 (sl_digits l) <= u64_max ->
  bw Size 0 (render_size_line l ++ r) acc =
  if 0 <? hexnum 0 (sl_digits l) then bw Body (hexnum 0 (sl_digits l)) r acc
  else bw EndCr (hexnum 0 (sl_digits l)) r acc.
Proof.
  intros (Hne & Hh & Hl & He) Hb. unfold render_size_line.
  rewrite <- !app_assoc. rewrite bw_digits by assumption.
  cbn [app]. rewrite bw_line_tail by assumption.
  rewrite bw_ctl by reflexivity. cbn [cstep]. cbn [N.eqb Pos.eqb].
  replace (10 =? 10) with true by reflexivity.
  destruct (0 <? hexnum 0 (sl_digits l)); reflexivity.
Qed.

Lemma bw_chunk c r acc : chunk_wf c ->
  bw Size 0 (render_chunk c ++ r) acc = bw Size 0 r (acc ++ ch_data c).
Proof.
  intros (Hl & Hne & Hn & Hb). unfold render_chunk. rewrite <- !app_assoc.
  rewrite bw_size_line by (try assumption; lia).
  assert (0 < lenN (ch_data c)) by (unfold lenN; destruct (ch_data c); [congruence|cbn [length]; lia]).
  rewrite Hn. destruct (0 <? lenN (ch_data c)) eqn:E; [|lia].
  rewrite bw_body_exact by (try assumption; reflexivity).
  cbn [app]. rewrite bw_ctl by reflexivity. cbn [cstep]. replace (13 =? 13) with true by reflexivity.
  rewrite bw_ctl by reflexivity. cbn [cstep]. replace (10 =? 10) with true by reflexivity.
  reflexivity.
Qed.

Theorem grammar_accepted cs : forall last rest acc,
  Forall chunk_wf cs -> last_wf last ->
  bw Size 0 (render_body cs last ++ rest) acc = Ok (End, 0, rest, acc ++ body_data cs, true).
Proof.
  induction cs as [|c cs IH]; intros last rest acc Hcs Hlast.
  - unfold render_body, body_data. cbn [map concat app]. rewrite app_nil_r.
    destruct Hlast as [Hwf H0]. rewrite <- !app_assoc.
    rewrite bw_size_line by (try assumption; lia). rewrite H0.
    replace (0 <? 0) with false by reflexivity.
    cbn [app]. rewrite bw_ctl by reflexivity. cbn [cstep]. replace (13 =? 13) with true by reflexivity.
    rewrite bw_ctl by reflexivity. cbn [cstep]. replace (10 =? 10) with true by reflexivity.
    apply bw_End.
  - inversion Hcs; subst.
    specialize (IH last rest (acc ++ ch_data c) H2 Hlast).
    unfold render_body, body_data in *. cbn [map concat].
    rewrite <- !app_assoc in *. rewrite bw_chunk by assumption.
    rewrite IH. reflexivity.
Qed.
