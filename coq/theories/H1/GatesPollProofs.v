(* Every trace the poll composer of Gates.v produces is a schedule of the event semantics whose
   guards are all open and that reproduces the composer's model state -- for EVERY input (no
   [bad = false] hypothesis: an event attempted with its guard closed records nothing).
   Consequence: every invariant of [step] (GatesProofs.steps_inv and the bounds proved with it)
   holds in the model state after any sequence of polls. *)
From AV Require Import Lib.Base H1.ReadBuf H1.Flush H1.Gates H1.GatesProofs.

Definition sched_ok (c : cfg) (x : sim) : Prop :=
  steps_ok c st_init (rev (trace x)) = true /\ m x = steps c st_init (rev (trace x)).

(* ---- the event semantics along a schedule extended by one event ---- *)

Lemma steps_cons c s e es : steps c s (e :: es) = steps c (step_t c s e) es.
Proof. reflexivity. Qed.

Lemma steps_snoc c s es e : steps c s (es ++ [e]) = step_t c (steps c s es) e.
Proof. unfold steps. rewrite fold_left_app. reflexivity. Qed.

Lemma steps_ok_snoc c es : forall s e s',
  steps_ok c s es = true -> step c (steps c s es) e = Some s' ->
  steps_ok c s (es ++ [e]) = true /\ steps c s (es ++ [e]) = s'.
Proof.
  induction es as [|a es IH]; intros s e s' Hok Hst.
  - cbn [app steps_ok]. change (steps c s []) with s in Hst. rewrite Hst.
    split; [reflexivity|]. rewrite steps_cons. unfold step_t. rewrite Hst. reflexivity.
  - cbn [steps_ok] in Hok. rewrite steps_cons in Hst.
    change ((a :: es) ++ [e]) with (a :: (es ++ [e])). cbn [steps_ok]. rewrite steps_cons.
    unfold step_t in *. destruct (step c s a) as [s0|] eqn:E; [|discriminate].
    apply IH; assumption.
Qed.

Lemma fst_eq {A B} (p : A * B) a b : p = (a, b) -> a = fst p.
Proof. intros ->. reflexivity. Qed.

Section PollSched.
  Variable c : cfg.
  Variable F : nat.

  Lemma sched_ok_init items handlers : sched_ok c (sim_init items handlers).
  Proof. split; reflexivity. Qed.

  Lemma sched_ok_do_ev e x : sched_ok c x -> sched_ok c (do_ev c e x).
  Proof.
    unfold sched_ok, do_ev. intros [H1 H2].
    destruct (step c (m x) e) as [s'|] eqn:E; cbn [m trace set_bad].
    - cbn [rev]. rewrite H2 in E.
      destruct (steps_ok_snoc c _ _ _ _ H1 E) as [A B]. split; [exact A|symmetry; exact B].
    - split; assumption.
  Qed.

  (* the setters leave [m] and [trace] alone *)
  Lemma sched_ok_set_todo v x : sched_ok c x -> sched_ok c (set_todo v x).
  Proof. exact (fun H => H). Qed.
  Lemma sched_ok_set_hs_cur h cu x : sched_ok c x -> sched_ok c (set_hs_cur h cu x).
  Proof. exact (fun H => H). Qed.
  Lemma sched_ok_set_body v x : sched_ok c x -> sched_ok c (set_body v x).
  Proof. exact (fun H => H). Qed.
  Lemma sched_ok_set_shut_err sh er x : sched_ok c x -> sched_ok c (set_shut_err sh er x).
  Proof. exact (fun H => H). Qed.
  Lemma sched_ok_set_sock so eo ws fq x : sched_ok c x -> sched_ok c (set_sock so eo ws fq x).
  Proof. exact (fun H => H). Qed.
  Lemma sched_ok_set_counts t s d p a x : sched_ok c x -> sched_ok c (set_counts t s d p a x).
  Proof. exact (fun H => H). Qed.
  Lemma sched_ok_set_out r w k x : sched_ok c x -> sched_ok c (set_out r w k x).
  Proof. exact (fun H => H). Qed.
  Lemma sched_ok_set_bad x : sched_ok c x -> sched_ok c (set_bad x).
  Proof. exact (fun H => H). Qed.
  Lemma sched_ok_set_hreg v x : sched_ok c x -> sched_ok c (set_hreg v x).
  Proof. exact (fun H => H). Qed.
  Lemma sched_ok_set_hw h t x : sched_ok c x -> sched_ok c (set_hw h t x).
  Proof. exact (fun H => H). Qed.
  Lemma sched_ok_wake b x : sched_ok c x -> sched_ok c (wake b x).
  Proof. exact (fun H => H). Qed.

  (* leaf solver: peel setters / events / already-proved composer functions off the goal *)
  Ltac sk_base :=
    match goal with
    | H : sched_ok ?cc ?x |- sched_ok ?cc ?x => exact H
    | |- sched_ok _ (set_todo _ _) => apply sched_ok_set_todo
    | |- sched_ok _ (set_hs_cur _ _ _) => apply sched_ok_set_hs_cur
    | |- sched_ok _ (set_body _ _) => apply sched_ok_set_body
    | |- sched_ok _ (set_shut_err _ _ _) => apply sched_ok_set_shut_err
    | |- sched_ok _ (set_sock _ _ _ _ _) => apply sched_ok_set_sock
    | |- sched_ok _ (set_counts _ _ _ _ _ _) => apply sched_ok_set_counts
    | |- sched_ok _ (set_out _ _ _ _) => apply sched_ok_set_out
    | |- sched_ok _ (set_bad _) => apply sched_ok_set_bad
    | |- sched_ok _ (set_hreg _ _) => apply sched_ok_set_hreg
    | |- sched_ok _ (set_hw _ _ _) => apply sched_ok_set_hw
    | |- sched_ok _ (wake _ _) => apply sched_ok_wake
    | |- sched_ok _ (do_ev _ _ _) => apply sched_ok_do_ev
    | |- sched_ok _ (match ?e with _ => _ end) => destruct e eqn:?
    | E : ?p = (?y, _) |- sched_ok _ ?y => rewrite (fst_eq _ _ _ E)
    end.
  Ltac sk_fun := fail.
  Ltac sk := repeat first [ sk_base | sk_fun ].

  (* destruct every scrutinee of the goal *)
  Ltac crunch :=
    repeat (match goal with
            | |- context [match ?e with _ => _ end] => destruct e eqn:?
            end; cbn [fst]).

  (* ---- read_available ---- *)
  Lemma read_loop_ok fuel : forall x, sched_ok c x -> sched_ok c (fst (read_loop c fuel x)).
  Proof.
    induction fuel as [|f IH]; intros x H; cbn [read_loop]; [cbn [fst]; sk|].
    crunch; try apply IH; sk.
  Qed.
  Ltac sk_fun ::= first [ apply read_loop_ok ].

  Lemma read_available_c_ok x : sched_ok c x -> sched_ok c (fst (read_available_c c x)).
  Proof. intro H. unfold read_available_c. crunch; sk. Qed.
  Ltac sk_fun ::= first [ apply read_loop_ok | apply read_available_c_ok ].

  (* ---- the service call ---- *)
  Lemma run_handler_ok fuel : forall x, sched_ok c x -> sched_ok c (fst (run_handler c fuel x)).
  Proof.
    induction fuel as [|f IH]; intros x H; cbn [run_handler]; [cbn [fst]; sk|].
    crunch; try apply IH; sk.
  Qed.

  Lemma start_handler_ok x : sched_ok c x -> sched_ok c (start_handler x).
  Proof. intro H. unfold start_handler. sk. Qed.

  Lemma respond_ok h b x : sched_ok c x -> sched_ok c (respond c h b x).
  Proof. intro H. unfold respond. sk. Qed.
  Ltac sk_fun ::= first [ apply read_loop_ok | apply read_available_c_ok | apply run_handler_ok
                        | apply start_handler_ok | apply respond_ok ].

  (* ---- poll_request ---- *)
  Lemma decode_loop_ok fuel : forall x u, sched_ok c x -> sched_ok c (fst (decode_loop c fuel x u)).
  Proof.
    induction fuel as [|f IH]; intros x u H; cbn [decode_loop]; [cbn [fst]; sk|].
    crunch; try apply IH; sk.
  Qed.
  Ltac sk_fun ::= first [ apply read_loop_ok | apply read_available_c_ok | apply run_handler_ok
                        | apply start_handler_ok | apply respond_ok | apply decode_loop_ok ].

  Lemma poll_request_ok x : sched_ok c x -> sched_ok c (fst (poll_request c x)).
  Proof. intro H. unfold poll_request. crunch; sk. Qed.

  (* ---- poll_response ---- *)
  Lemma send_payload_ok fuel : forall x, sched_ok c x -> sched_ok c (fst (send_payload c fuel x)).
  Proof.
    induction fuel as [|f IH]; intros x H; cbn [send_payload]; [cbn [fst]; sk|].
    crunch; try apply IH; sk.
  Qed.
  Ltac sk_fun ::= first [ apply read_loop_ok | apply read_available_c_ok | apply run_handler_ok
                        | apply start_handler_ok | apply respond_ok | apply decode_loop_ok
                        | apply poll_request_ok | apply send_payload_ok ].

  Lemma poll_response_ok fuel : forall x, sched_ok c x -> sched_ok c (fst (poll_response c fuel x)).
  Proof.
    induction fuel as [|f IH]; intros x H; cbn [poll_response]; [cbn [fst]; sk|].
    crunch; try apply IH; sk.
  Qed.

  (* ---- poll_flush ---- *)
  Lemma flush_loop_ok fuel : forall x, sched_ok c x -> sched_ok c (fst (flush_loop c fuel x)).
  Proof.
    induction fuel as [|f IH]; intros x H; cbn [flush_loop]; [cbn [fst]; sk|].
    crunch; try apply IH; sk.
  Qed.
  Ltac sk_fun ::= first [ apply read_loop_ok | apply read_available_c_ok | apply run_handler_ok
                        | apply start_handler_ok | apply respond_ok | apply decode_loop_ok
                        | apply poll_request_ok | apply send_payload_ok | apply poll_response_ok
                        | apply flush_loop_ok ].

  Lemma poll_flush_c_ok x : sched_ok c x -> sched_ok c (fst (poll_flush_c c x)).
  Proof. intro H. unfold poll_flush_c. sk. Qed.
  Ltac sk_fun ::= first [ apply read_loop_ok | apply read_available_c_ok | apply run_handler_ok
                        | apply start_handler_ok | apply respond_ok | apply decode_loop_ok
                        | apply poll_request_ok | apply send_payload_ok | apply poll_response_ok
                        | apply flush_loop_ok | apply poll_flush_c_ok ].

  Lemma resp_flush_loop_ok fuel : forall x, sched_ok c x -> sched_ok c (fst (resp_flush_loop c F fuel x)).
  Proof.
    induction fuel as [|f IH]; intros x H; cbn [resp_flush_loop]; [cbn [fst]; sk|].
    crunch; try apply IH; sk.
  Qed.

  Lemma poll_shutdown_branch_ok x : sched_ok c x -> sched_ok c (fst (poll_shutdown_branch c x)).
  Proof. intro H. unfold poll_shutdown_branch. crunch; sk. Qed.
  Ltac sk_fun ::= first [ apply read_loop_ok | apply read_available_c_ok | apply run_handler_ok
                        | apply start_handler_ok | apply respond_ok | apply decode_loop_ok
                        | apply poll_request_ok | apply send_payload_ok | apply poll_response_ok
                        | apply flush_loop_ok | apply poll_flush_c_ok | apply resp_flush_loop_ok
                        | apply poll_shutdown_branch_ok ].

  (* ---- Dispatcher::poll ---- *)
  Lemma poll_normal_ok x : sched_ok c x -> sched_ok c (fst (poll_normal c F x)).
  Proof.
    intro H. unfold poll_normal.
    destruct (read_available_c c x) as [x1 sd] eqn:E1.
    assert (H1 : sched_ok c x1) by sk.
    destruct (poll_request c x1) as [x2 u] eqn:E2.
    assert (H2 : sched_ok c x2) by sk.
    destruct (resp_flush_loop c F F _) as [x4r fail] eqn:E3.
    assert (H3 : sched_ok c x4r) by sk.
    destruct fail as [r|]; [cbn [fst]; exact H3|].
    set (x4 := if c_fix28 c then _ else x4r).
    assert (H4 : sched_ok c x4) by (subst x4; sk).
    clearbody x4.
    set (x5 := if rd_disc (m x4) && _ then _ else x4).
    assert (H5 : sched_ok c x5) by (subst x5; sk).
    clearbody x5.
    crunch; sk.
  Qed.

  Theorem poll_is_schedule x r : sched_ok c x -> sched_ok c (fst (poll c F x r)).
  Proof.
    intro H. unfold poll.
    match goal with |- context [if ?e then _ else _] => destruct e end;
      [apply poll_shutdown_branch_ok|apply poll_normal_ok]; sk.
  Qed.

  (* "pair" forms, convenient for clients that destruct the result *)
  Lemma poll_is_schedule' x r y p : sched_ok c x -> poll c F x r = (y, p) -> sched_ok c y.
  Proof. intros H E. rewrite (fst_eq _ _ _ E). apply poll_is_schedule. exact H. Qed.

End PollSched.

(* ---- all polls of a run ---- *)
Fixpoint polls (c : cfg) (F : nat) (x : sim) (rs : list round) : sim :=
  match rs with
  | [] => x
  | r :: rest =>
      let '(x1, p) := poll c F x r in
      match p with PPend => polls c F x1 rest | _ => x1 end
  end.

Lemma polls_ok c F rs : forall x, sched_ok c x -> sched_ok c (polls c F x rs).
Proof.
  induction rs as [|r rest IH]; intros x H; cbn [polls]; [exact H|].
  pose proof (poll_is_schedule c F x r H) as H1.
  destruct (poll c F x r) as [x1 p]. cbn [fst] in H1.
  destruct p; auto.
Qed.

Theorem polls_are_schedules c F items handlers rs :
  sched_ok c (polls c F (sim_init items handlers) rs).
Proof. apply polls_ok. apply sched_ok_init. Qed.

(* every invariant of the event semantics holds in the model state of a sched_ok sim ... *)
Lemma sched_ok_inv c (P : st -> Prop) :
  (forall s e s', P s -> step c s e = Some s' -> P s') -> P st_init ->
  forall x, sched_ok c x -> P (m x).
Proof. intros HP H0 x [_ E]. rewrite E. apply steps_inv; assumption. Qed.

(* ... hence after every sequence of polls: the bounds of GatesProofs apply to every run *)
Theorem polls_inv c F (P : st -> Prop) :
  (forall s e s', P s -> step c s e = Some s' -> P s') -> P st_init ->
  forall items handlers rs, P (m (polls c F (sim_init items handlers) rs)).
Proof.
  intros HP H0 items handlers rs.
  apply (sched_ok_inv c P HP H0). apply polls_are_schedules.
Qed.

(* prefix-closed version: every sim at a poll boundary of the run is a schedule *)
Fixpoint polls_list (c : cfg) (F : nat) (x : sim) (rs : list round) : list sim :=
  match rs with
  | [] => [x]
  | r :: rest =>
      let '(x1, p) := poll c F x r in
      x :: match p with PPend => polls_list c F x1 rest | _ => [x1] end
  end.

Lemma polls_list_ok c F rs : forall x, sched_ok c x -> Forall (sched_ok c) (polls_list c F x rs).
Proof.
  induction rs as [|r rest IH]; intros x H; cbn [polls_list]; [constructor; [exact H|constructor]|].
  pose proof (poll_is_schedule c F x r H) as H1.
  destruct (poll c F x r) as [x1 p]. cbn [fst] in H1.
  constructor; [exact H|]. destruct p; auto.
Qed.

Theorem polls_list_are_schedules c F items handlers rs :
  Forall (sched_ok c) (polls_list c F (sim_init items handlers) rs).
Proof. apply polls_list_ok. apply sched_ok_init. Qed.

Lemma last_cons_ne {A} (l : list A) : forall a d d', l <> [] -> last (a :: l) d = last l d'.
Proof.
  induction l as [|b l IH]; intros a d d' Hne; [congruence|].
  destruct l as [|b' l]; [reflexivity|].
  change (last (a :: b :: b' :: l) d) with (last (b :: b' :: l) d).
  change (last (b :: b' :: l) d') with (last (b' :: l) d').
  apply IH. discriminate.
Qed.

Lemma polls_list_ne c F rs x : polls_list c F x rs <> [].
Proof. destruct rs; cbn [polls_list]; [discriminate|destruct (poll c F x r); discriminate]. Qed.

(* the list ends with the sim [polls] returns *)
Lemma polls_list_last c F rs : forall x, last (polls_list c F x rs) x = polls c F x rs.
Proof.
  induction rs as [|r rest IH]; intros x; cbn [polls_list polls]; [reflexivity|].
  destruct (poll c F x r) as [x1 p].
  destruct p; try reflexivity.
  rewrite <- IH. apply last_cons_ne. apply polls_list_ne.
Qed.

Print Assumptions poll_is_schedule.
Print Assumptions polls_are_schedules.
Print Assumptions polls_inv.
Print Assumptions polls_list_are_schedules.
