(* C06: the three timers and the shutdown deadline. *)
Require Import AV.Lib.Base AV.H1.ConnRec AV.H1.ConnState AV.H1.ConnProofs AV.H1.ConnGraceful.

(* deadlines are computed from the cached clock: at most one DateService period early, never late *)
Lemma cached_bounds n : cached n <= n /\ n < cached n + TICK.
Proof.
  unfold cached, TICK. set (k := AV.Gen.Consts.DATE_SERVICE_TICK_MS).
  assert (K : k <> 0) by (subst k; vm_compute; discriminate).
  pose proof (N.div_mod n k K). pose proof (N.mod_lt n k K). lia.
Qed.

(* ---- slow first head ---- *)
(* first poll of a connection on which nothing has arrived: the head timer is armed from the cached clock *)
Lemma head_timer_armed c s :
  started s = false -> read_disc s = false -> sock s = [] -> rbuf s = [] -> sock_end s = RPending -> req_to c <> 0 ->
  head_t (read_phase c s) = TActive (cached (now s) + req_to c) /\ started (read_phase c s) = true.
Proof.
  intros ST RD SK RB SE RT. unfold read_phase, read_available. rewrite RD, SK, SE. cbn. rewrite RB. cbn. rewrite ST.
  apply N.eqb_neq in RT. rewrite RT. unfold poll_request. cbn. rewrite RD, RB.
  repeat bm; cbn; auto.
Qed.

(* at a poll whose [now] has reached the deadline: 408 encoded with the codec's current connection type
   (Close until a request has been decoded), response complete, SHUTDOWN *)
Lemma slow_head_408 c s d :
  head_t s = TActive d -> d <= now s -> shutdown s = false -> read_disc s = false ->
  let s' := poll_head_timer c s in
  shutdown s' = true /\
  trace s' = trace s ++ [THead None 408 (c_v11 s) (c_head s) (resp_conn c ONone s); TComplete] /\
  (payload s = None -> draining s = false -> resp_conn c ONone s = c_conn s) /\
  (fx_sd (fx c) = true -> head_t s' = TInactive).
Proof.
  intros H D SH RD. unfold poll_head_timer, t_ready. rewrite H.
  assert (E : (d <=? now s) = true) by (apply N.leb_le; exact D). rewrite E.
  destruct (fx_sd (fx c)) eqn:F; cbn; rewrite ?SH, ?RD; cbn [orb]; repeat split; try reflexivity; try discriminate.
  all: try (cbn; rewrite send_response_trace; reflexivity).
  all: try (intros P DR; unfold resp_conn, close_unread; rewrite P, DR; reflexivity).
  all: intros _; unfold send_response, encode_head, complete_flags, finish_hook, add_trace; repeat bm; reflexivity.
Qed.

(* before the deadline the timer does nothing *)
Lemma head_timer_quiet c s d : head_t s = TActive d -> now s < d -> poll_head_timer c s = s.
Proof.
  intros H D. unfold poll_head_timer, t_ready. rewrite H.
  assert (E : (d <=? now s) = false) by (apply N.leb_gt; exact D). rewrite E. reflexivity.
Qed.

(* the shutdown branch resolves the future as soon as the peer takes the bytes and poll_shutdown is ready *)
Lemma shutdown_io_done c s : write_disc s = false ->
  res (shutdown_io c false false s) = 1 /\ wbuf (shutdown_io c false false s) = [].
Proof.
  intro W. unfold shutdown_io, ensure_linger_timer, flush. rewrite W.
  repeat bm; repeat match goal with E : (_, _) = (_, _) |- _ => inv E end; cbn in *; try discriminate; auto.
  all: match goal with H : is_nil ?l = true |- _ => destruct l eqn:?; [auto|discriminate] end.
Qed.

(* ---- keep-alive expiry ---- *)
Lemma ka_expiry c s d :
  ka_tm s = TActive d -> d <= now s ->
  let s' := poll_ka_timer c s in
  shutdown s' = true /\
  (disc_to c = 0 -> write_disc s' = true) /\
  (disc_to c <> 0 -> t_active (sd_t s') = true /\ write_disc s' = write_disc s) /\
  trace s' = trace s.
Proof.
  intros H D. unfold poll_ka_timer, t_ready. rewrite H.
  assert (E : (d <=? now s) = true) by (apply N.leb_le; exact D). rewrite E.
  repeat split.
  - repeat bm; reflexivity.
  - intros Z. rewrite Z. rewrite N.eqb_refl. repeat bm; reflexivity.
  - apply N.eqb_neq in H0. rewrite H0. repeat bm; cbn in *; try discriminate; auto.
  - apply N.eqb_neq in H0. rewrite H0. repeat bm; cbn in *; try discriminate; auto.
  - repeat bm; reflexivity.
Qed.

(* with WRITE_DISCONNECT the shutdown branch returns Ready(Ok) at once *)
Lemma shutdown_io_write_disc c wb sp s : write_disc s = true -> res (shutdown_io c wb sp s) = 1.
Proof. intro W. unfold shutdown_io. rewrite W. reflexivity. Qed.

(* before the deadline the keep-alive timer does nothing *)
Lemma ka_timer_quiet c s d : ka_tm s = TActive d -> now s < d -> poll_ka_timer c s = s.
Proof.
  intros H D. unfold poll_ka_timer, t_ready. rewrite H.
  assert (E : (d <=? now s) = false) by (apply N.leb_gt; exact D). rewrite E. reflexivity.
Qed.

(* ---- shutdown bounded by the disconnect timeout (repair F14) ---- *)
Definition SD (s : st) : Prop := shutdown s = true /\ linger s = false /\ res s = 0.

Section Bound.
  Variable c : cfg.
  Hypothesis FX : fx_sd (fx c) = true.
  Hypothesis DT : disc_to c <> 0.

  Definition K (d : N) (s : st) : Prop := SD s /\ sd_t s = TActive d.

  Lemma K_graceful d sig s : K d s -> K d (poll_graceful sig s) /\ now (poll_graceful sig s) = now s.
  Proof. intros [(A & B & C) D]. unfold poll_graceful, K, SD. repeat bm; cbn; auto. Qed.
  Lemma K_head d s : K d s -> K d (poll_head_timer c s) /\ now (poll_head_timer c s) = now s.
  Proof.
    intros [(A & B & C) D]. unfold poll_head_timer. rewrite FX.
    destruct (t_ready (head_t s) (now s)); [|unfold K, SD; auto].
    cbn. rewrite A. cbn. unfold K, SD. cbn. auto.
  Qed.
  Lemma K_ka d s : K d s -> K d (poll_ka_timer c s) /\ now (poll_ka_timer c s) = now s.
  Proof.
    intros [(A & B & C) D]. unfold poll_ka_timer. rewrite FX. apply N.eqb_neq in DT. rewrite DT.
    destruct (t_ready (ka_tm s) (now s)); [|unfold K, SD; auto].
    cbn. rewrite D. cbn. unfold K, SD. cbn. auto.
  Qed.

  (* shape of a poll in the shutdown phase with an armed deadline *)
  Lemma poll_K d r s : K d s -> exists s3, K d s3 /\ now s3 = now s + r_adv r /\
    poll c r s = if t_ready (sd_t s3) (now s3) then set_res 4 s3
                 else shutdown_io c (r_wblock r) (r_sdpend r) s3.
  Proof.
    intros Ks.
    assert (K0 : K d (env_step r s)) by (destruct Ks as [(A & B & C) E]; unfold K, SD, env_step; repeat bm; cbn; auto).
    assert (N0 : now (env_step r s) = now s + r_adv r) by (unfold env_step; repeat bm; reflexivity).
    destruct (K_graceful d (r_signal r) _ K0) as [K1 N1].
    destruct (K_head d _ K1) as [K2 N2].
    destruct (K_ka d _ K2) as [K3 N3].
    eexists. split; [exact K3|]. split; [rewrite N3, N2, N1, N0; reflexivity|].
    unfold poll. destruct Ks as [(A & B & C) E]. rewrite C.
    change (negb (0 =? 0)) with false. cbn [poll_body].
    generalize dependent (poll_ka_timer c (poll_head_timer c (poll_graceful (r_signal r) (env_step r s)))).
    intros x [(A3 & B3 & C3) E3] _.
    unfold poll_sd_timer. destruct (t_ready (sd_t x) (now x)); rewrite B3.
    - cbn. change (4 =? 0) with false. reflexivity.
    - rewrite C3. change (negb (0 =? 0)) with false. cbn [negb]. rewrite A3. reflexivity.
  Qed.

  (* once the deadline is armed, the first poll at or after it resolves the future *)
  Theorem sd_deadline_fires d r s : K d s -> d <= now s + r_adv r -> res (poll c r s) <> 0.
  Proof.
    intros Ks D. destruct (poll_K d r s Ks) as (s3 & [(A3 & B3 & C3) E3] & N3 & P). rewrite P.
    assert (R : t_ready (sd_t s3) (now s3) = true) by (rewrite E3; cbn; apply N.leb_le; rewrite N3; exact D).
    rewrite R. cbn. discriminate.
  Qed.

  (* while the future is pending the armed deadline never moves and the state stays in shutdown *)
  Theorem sd_deadline_kept d r s : K d s -> res (poll c r s) = 0 -> K d (poll c r s).
  Proof.
    intros Ks. destruct (poll_K d r s Ks) as (s3 & [(A3 & B3 & C3) E3] & N3 & P). rewrite P.
    destruct (t_ready (sd_t s3) (now s3)); [cbn; discriminate|].
    unfold shutdown_io, ensure_linger_timer, flush. rewrite FX, E3. cbn.
    repeat bm; cbn; intros; try discriminate; unfold K, SD; cbn; auto.
  Qed.

  (* entering the shutdown branch without a deadline arms one, at most disc_to after [now] *)
  Theorem sd_armed_on_entry wb sp s : SD s -> t_active (sd_t s) = false -> write_disc s = false ->
    let s' := shutdown_io c wb sp s in
    res s' = 0 -> K (cached (now s) + disc_to c) s' /\ cached (now s) + disc_to c <= now s + disc_to c.
  Proof.
    intros (A & B & C) T W. unfold shutdown_io, ensure_linger_timer, flush. rewrite FX, T, W.
    apply N.eqb_neq in DT. rewrite DT. cbn.
    pose proof (cached_bounds (now s)).
    repeat bm; cbn; intros; try discriminate; unfold K, SD, arm; cbn; repeat split; auto; lia.
  Qed.

  Theorem shutdown_bounded d : forall rs s, K d s ->
    (exists pre r post, rs = pre ++ r :: post /\ d <= now (run_polls c pre s) + r_adv r) ->
    res (run_polls c rs s) <> 0.
  Proof.
    induction rs as [|r rs IH]; intros s Ks (pre & r0 & post & E & D).
    - destruct pre; discriminate.
    - cbn [run_polls].
      assert (Stay : forall rs' x, res x <> 0 -> res (run_polls c rs' x) <> 0).
      { induction rs' as [|r' rs' IH']; intros x Hx; cbn; [exact Hx|]. apply IH'. unfold poll.
        destruct (res x =? 0) eqn:Q; [apply N.eqb_eq in Q; congruence|]. cbn. exact Hx. }
      destruct pre as [|p pre].
      + cbn in E. inv E. cbn in D. apply Stay. apply sd_deadline_fires with (d := d); assumption.
      + cbn in E. inv E. cbn [run_polls] in D.
        destruct (N.eq_dec (res (poll c p s)) 0) as [Z|NZ].
        * apply IH; [apply sd_deadline_kept; assumption|]. exists pre, r0, post. split; [reflexivity|exact D].
        * apply Stay. exact NZ.
  Qed.
End Bound.
