(* H1/GateExecProofs.v — the executable gate is an instance of the gate model. *)
From AV Require Import Lib.Base H1.Chunked H1.PayloadDec H1.Framing H1.Codec H1.Gate H1.GateProofs H1.GateExec.

Section P.
  Variable head : bytes -> head_res.
  Variables maxb maxp cap : N.

  Lemma run_r_fst : forall f c buf acc, fst (run_r head maxb f c buf acc) = run head maxb f c buf acc.
  Proof.
    induction f as [|f IH]; intros c buf acc; [reflexivity|]. cbn [run_r run].
    destruct (codec_decode head maxb c buf) as [[[c' buf'] [m|]]|e|]; try reflexivity. apply IH.
  Qed.

  (* every executable schedule is a schedule of the model *)
  Theorem xexec_is_gexec : forall xops g, exists ops,
    xexec head maxb maxp cap xops g = gexec head maxb maxp ops g.
  Proof.
    induction xops as [|o xops IH]; intro g; [exists []; reflexivity|].
    change (xexec head maxb maxp cap (o :: xops) g) with (xexec head maxb maxp cap xops (xstep head maxb maxp cap g o)).
    destruct (IH (xstep head maxb maxp cap g o)) as [ops Hops]. rewrite Hops.
    destruct o as [bs| |pl|n]; cbn [xstep].
    - destruct (cap <=? lenN (g_read_buf g)); [exists ops; reflexivity|exists (ORead bs :: ops); reflexivity].
    - exists (OPeerClosed :: ops). reflexivity.
    - exists (OPoll pl (leftover_of head maxb g) :: ops). reflexivity.
    - exists (OQueue n :: ops). reflexivity.
  Qed.

  Lemma xstep_frozen g o : g_read_disconnect g = true ->
    g_read_disconnect (xstep head maxb maxp cap g o) = true /\ g_msgs (xstep head maxb maxp cap g o) = g_msgs g /\
    g_rejected (xstep head maxb maxp cap g o) = g_rejected g.
  Proof.
    intro H. destruct o as [bs| |pl|n]; cbn [xstep];
      try (destruct (cap <=? lenN (g_read_buf g)); [auto|]);
      match goal with |- context [gstep _ _ _ g ?op] =>
        destruct (gstep_frozen head maxb maxp g op H) as (A & B & C & _); auto end.
  Qed.

  Lemma xstep_inv g o : ginv g -> ginv (xstep head maxb maxp cap g o).
  Proof.
    intro H. destruct o as [bs| |pl|n]; cbn [xstep];
      try (destruct (cap <=? lenN (g_read_buf g)); [exact H|]); apply gstep_inv; exact H.
  Qed.

  Lemma xexec_inv ops : forall g, ginv g -> ginv (xexec head maxb maxp cap ops g).
  Proof.
    induction ops as [|o ops IH]; intros g H; [exact H|].
    change (xexec head maxb maxp cap (o :: ops) g) with (xexec head maxb maxp cap ops (xstep head maxb maxp cap g o)).
    apply IH. apply xstep_inv. exact H.
  Qed.

  Lemma xexec_frozen ops : forall g, g_read_disconnect g = true ->
    g_msgs (xexec head maxb maxp cap ops g) = g_msgs g /\ g_rejected (xexec head maxb maxp cap ops g) = g_rejected g.
  Proof.
    induction ops as [|o ops IH]; intros g H; [auto|].
    change (xexec head maxb maxp cap (o :: ops) g) with (xexec head maxb maxp cap ops (xstep head maxb maxp cap g o)).
    destruct (xstep_frozen g o H) as (A & B & C). destruct (IH _ A) as [I1 I2]. rewrite I1, I2. auto.
  Qed.

  (* the clause of C01 on the executable gate (the one the correspondence driver runs) *)
  Theorem xexec_nothing_after_reject : forall ops1 ops2 e,
    g_rejected (xexec head maxb maxp cap ops1 gate0) = Some e ->
    g_msgs (xexec head maxb maxp cap (ops1 ++ ops2) gate0) = g_msgs (xexec head maxb maxp cap ops1 gate0) /\
    g_rejected (xexec head maxb maxp cap (ops1 ++ ops2) gate0) = Some e.
  Proof.
    intros ops1 ops2 e H.
    assert (E : xexec head maxb maxp cap (ops1 ++ ops2) gate0 =
                xexec head maxb maxp cap ops2 (xexec head maxb maxp cap ops1 gate0))
      by (unfold xexec; apply fold_left_app).
    rewrite E.
    assert (Hd : g_read_disconnect (xexec head maxb maxp cap ops1 gate0) = true).
    { apply (xexec_inv ops1 gate0); [intro Hx; contradiction|]. rewrite H. discriminate. }
    destruct (xexec_frozen ops2 _ Hd) as [I1 I2]. rewrite I1, I2. auto.
  Qed.
End P.
