(* Proofs about the upgrade hand-off (H1/UpgradeSeq.v): for every schedule of request arrivals,
   handler/body polls and socket behaviours, when the dispatcher hands the connection to the
   upgrade service, (bytes the socket has accepted) ++ (write_buf moved into the FramedParts) is
   exactly the concatenation of the response units in dispatch order, nothing is in flight or
   queued, and read_buf / the codec context of the upgrade request travel with it. *)
From Coq Require Import String Sorting.Sorted.
From AV Require Import Lib.Base H1.Encoder H1.RespSeq H1.RespSeqProofs H1.Flush H1.FlushProofs
  H1.RespWire H1.RespWireProofs H1.UpgradeSeq.
Open Scope N_scope.

Section U.
  Variable reqs : list reqctx.
  Variable hs : list hscript.
  Variable wbs : N.

  Notation wstep := (wstep reqs hs wbs).
  Notation ustep := (ustep reqs hs wbs).
  Notation urun := (urun reqs hs wbs).
  Notation try_handoff := (try_handoff reqs).
  Notation decode_upg := (decode_upg reqs).

  (* ---------------------------------------------------------------- schedules *)
  (* ordinary requests are decoded in the order sent: the k-th arrival is request k (arrival
     events after the upgrade request are ignored by the model) *)
  Fixpoint uarr_ok (n : nat) (es : list uevent) : Prop :=
    match es with
    | [] => True
    | UEv (WArrive j) :: r => N.to_nat j = n /\ uarr_ok (S n) r
    | _ :: r => uarr_ok n r
    end.

  (* ---------------------------------------------------------------- the dispatcher part *)
  Definition ev_of' (w : wstate) (e : wevent) : event :=
    match e with
    | WFlush script dflt fl => EvFlush (lenN (f_wire (poll_flush (s_buf (w_f w)) script dflt fl)))
    | _ => ev_of e
    end.

  Lemma wstep_d w e : wdead w = false -> w_d (wstep w e) = step reqs hs wbs (w_d w) (ev_of' w e).
  Proof.
    intro Hd. destruct (wdead_false w Hd) as [Hdf _]. unfold RespWire.wstep. rewrite Hd.
    destruct e; cbn [w_d ev_of ev_of']; try reflexivity.
    unfold step. rewrite Hdf. reflexivity.
  Qed.

  Lemma wstep_dead w e : wdead w = true -> wstep w e = w.
  Proof. intro H. unfold RespWire.wstep. rewrite H. reflexivity. Qed.

  (* decode_upg touches the codec only *)
  Lemma decode_upg_fields d j :
    d_st (decode_upg d j) = d_st d /\ d_msgs (decode_upg d j) = d_msgs d /\
    d_out (decode_upg d j) = d_out d /\ d_wbuf (decode_upg d j) = d_wbuf d /\
    d_flushed (decode_upg d j) = d_flushed d /\ d_started (decode_upg d j) = d_started d /\
    d_fail (decode_upg d j) = d_fail d.
  Proof. unfold UpgradeSeq.decode_upg, set_codec. cbn [d_st]. destruct (d_st d); cbn; repeat split. Qed.

  Lemma decode_upg_inv n d j : Inv n d -> Inv n (decode_upg d j).
  Proof.
    destruct (decode_upg_fields d j) as (E1 & E2 & E3 & E4 & E5 & E6 & _).
    intros [s (Hsc & Hst & Hso & Hh & Hw & Hlon)]. exists s.
    unfold InvS, st_ok, heads_started in *. rewrite E1, E2, E3, E4, E5, E6.
    repeat split; assumption.
  Qed.

  Lemma decode_upg_quiescent d j : quiescent d -> quiescent (decode_upg d j).
  Proof.
    destruct (decode_upg_fields d j) as (E1 & E2 & _). unfold quiescent. rewrite E1, E2. auto.
  Qed.

  Lemma decode_upg_winv w j : WInv w -> WInv (mkW (decode_upg (w_d w) j) (w_f w)).
  Proof.
    destruct (decode_upg_fields (w_d w) j) as (_ & _ & E3 & E4 & E5 & _).
    unfold WInv. cbn [w_d w_f]. rewrite E3, E4, E5. auto.
  Qed.

  Lemma decode_upg_dead w j : wdead (mkW (decode_upg (w_d w) j) (w_f w)) = wdead w.
  Proof.
    destruct (decode_upg_fields (w_d w) j) as (_ & _ & _ & _ & _ & _ & E7).
    unfold wdead. cbn [w_d w_f]. rewrite E7. reflexivity.
  Qed.

  (* ---------------------------------------------------------------- the invariant *)
  (* facts recorded at the hand-off *)
  Definition ho_ok (u : ustate) (h : handoff) : Prop :=
    let w := u_w u in let d := w_d w in
    wdead w = false /\ d_st d = SNone /\ d_msgs d = [] /\
    p_io (ho_parts h) = true /\
    p_write_buf (ho_parts h) = s_buf (w_f w) /\
    u_upg u = Some (ho_req h, p_read_buf (ho_parts h)) /\
    p_codec (ho_parts h) =
      set_request_context (d_codec d) (request_context (d_codec d) (req_of reqs (ho_req h))).

  Definition UInv (n : nat) (u : ustate) : Prop :=
    Inv n (w_d (u_w u)) /\ quiescent (w_d (u_w u)) /\ WInv (u_w u) /\
    match u_ho u with Some h => ho_ok u h | None => True end.

  Lemma try_handoff_inv n u :
    u_ho u = None -> Inv n (w_d (u_w u)) -> quiescent (w_d (u_w u)) -> WInv (u_w u) ->
    UInv n (try_handoff u).
  Proof.
    intros Hn HI Hq HW. unfold UpgradeSeq.try_handoff. rewrite Hn.
    assert (Hsame : UInv n u) by (unfold UInv; rewrite Hn; auto).
    destruct (u_upg u) as [[j rest]|] eqn:Eu; [|exact Hsame].
    destruct (wdead (u_w u)) eqn:Hd; [exact Hsame|].
    destruct (d_st (w_d (u_w u))) eqn:Est; try exact Hsame.
    destruct (d_msgs (w_d (u_w u))) eqn:Em; try exact Hsame.
    unfold UInv, ho_ok. cbn [u_w u_ho u_upg ho_parts ho_req].
    split; [exact HI|]. split; [exact Hq|]. split; [exact HW|].
    repeat split; try assumption; try reflexivity.
  Qed.

  Definition unext (n : nat) (u : ustate) (e : uevent) : nat :=
    match e with UEv (WArrive _) => S n | _ => n end.

  Lemma ustep_inv n u e :
    UInv n u ->
    match e with UEv (WArrive j) => N.to_nat j = n | _ => True end ->
    UInv (unext n u e) (ustep u e).
  Proof.
    intros (HI & Hq & HW & Hh) He. unfold UpgradeSeq.ustep.
    destruct (u_ho u) as [h|] eqn:Eho.
    - (* the dispatcher no longer exists *)
      assert (Hmore : UInv (unext n u e) u).
      { unfold UInv. rewrite Eho. split; [|split; [exact Hq|split; [exact HW|exact Hh]]].
        destruct e as [[| | |]| |]; cbn [unext]; try exact HI. apply inv_more, HI. }
      destruct e as [e'|j rest|k]; try exact Hmore.
      cbn [unext]. unfold UInv. cbn [u_w u_ho]. split; [exact HI|split; [exact Hq|split; [exact HW|]]].
      unfold ho_ok in *. cbn [u_w u_upg ho_parts ho_req]. exact Hh.
    - destruct e as [e'|j rest|k].
      + (* dispatcher event *)
        assert (Hstep : UInv (unext n u (UEv e'))
                          (try_handoff (mkUS (wstep (u_w u) e') (u_upg u) None))).
        { apply try_handoff_inv; cbn [u_w u_ho]; [reflexivity| | |apply wstep_inv; exact HW].
          - destruct (wdead (u_w u)) eqn:Hd.
            + rewrite wstep_dead by exact Hd. destruct e'; cbn [unext]; try exact HI. apply inv_more, HI.
            + rewrite wstep_d by exact Hd.
              assert (He' : match ev_of' (u_w u) e' with EvArrive j => N.to_nat j = n | _ => True end)
                by (destruct e'; cbn [ev_of' ev_of]; auto).
              destruct (step_inv reqs hs wbs n _ _ HI Hq He') as [H1 _].
              destruct e'; cbn [unext ev_of' ev_of next_n] in *; exact H1.
          - destruct (wdead (u_w u)) eqn:Hd.
            + rewrite wstep_dead by exact Hd. exact Hq.
            + rewrite wstep_d by exact Hd.
              assert (He' : match ev_of' (u_w u) e' with EvArrive j => N.to_nat j = n | _ => True end)
                by (destruct e'; cbn [ev_of' ev_of]; auto).
              destruct (step_inv reqs hs wbs n _ _ HI Hq He') as [_ H2]. exact H2. }
        assert (Hsame : UInv (unext n u (UEv e')) u).
        { unfold UInv. rewrite Eho. split; [|split; [exact Hq|split; [exact HW|exact I]]].
          destruct e'; cbn [unext]; try exact HI. apply inv_more, HI. }
        destruct (u_upg u) as [p|] eqn:Eu.
        * destruct e'; try exact Hsame; exact Hstep.
        * destruct e'; exact Hstep.
      + (* the upgrade request is decoded *)
        cbn [unext].
        assert (Hsame : UInv n u) by (unfold UInv; rewrite Eho; auto).
        destruct (u_upg u) eqn:Eu; [exact Hsame|].
        destruct (wdead (u_w u)) eqn:Hd; [exact Hsame|].
        apply try_handoff_inv; cbn [u_w u_ho w_d]; [reflexivity| | |].
        * apply decode_upg_inv, HI.
        * apply decode_upg_quiescent, Hq.
        * apply decode_upg_winv, HW.
      + cbn [unext]. unfold UInv. rewrite Eho. auto.
  Qed.

  Lemma urun_inv es : forall n u, UInv n u -> uarr_ok n es -> exists n', UInv n' (urun u es).
  Proof.
    induction es as [|e es IH]; intros n u HU Ha; [exists n; exact HU|].
    unfold UpgradeSeq.urun. cbn [fold_left]. fold (urun (ustep u e) es).
    destruct e as [e'|j rest|k].
    - destruct e' as [j| | |s d f]; cbn [uarr_ok] in Ha.
      + destruct Ha as [Hj Ha]. apply (IH (S n)); [|exact Ha].
        apply (ustep_inv n u (UEv (WArrive j)) HU Hj).
      + apply (IH n); [|exact Ha]. apply (ustep_inv n u (UEv WBad) HU I).
      + apply (IH n); [|exact Ha]. apply (ustep_inv n u (UEv WTick) HU I).
      + apply (IH n); [|exact Ha]. apply (ustep_inv n u (UEv (WFlush s d f)) HU I).
    - cbn [uarr_ok] in Ha. apply (IH n); [|exact Ha]. apply (ustep_inv n u (UUpg j rest) HU I).
    - cbn [uarr_ok] in Ha. apply (IH n); [|exact Ha]. apply (ustep_inv n u (UAfter k) HU I).
  Qed.

  Lemma uinit_inv ka : UInv O (uinit ka).
  Proof.
    destruct (inv_init ka) as [H0 Hq0].
    unfold UInv, uinit. cbn [u_w u_ho winit w_d].
    split; [exact H0|]. split; [exact Hq0|]. split; [apply winit_inv|exact I].
  Qed.

  (* For every schedule and every socket behaviour: at the hand-off to the upgrade service the
     bytes the socket has accepted followed by the write_buf moved into the FramedParts are
     exactly the concatenation of the response units in dispatch order (well-sequenced: one
     response per dispatched request, in request order, never interleaved); no response is in
     flight, no request is queued, the connection has not failed; io is handed over, read_buf
     arrives as it was left by the decoder and the codec carries the context of the upgrade
     request. *)
  Theorem handoff_nothing_dropped ka ues h :
    uarr_ok O ues ->
    let u := urun (uinit ka) ues in
    u_ho u = Some h ->
    let d := w_d (u_w u) in let fs := w_f (u_w u) in
    s_wire fs ++ p_write_buf (ho_parts h) = units_bytes (d_out d) /\
    well_sequenced (d_out d) /\
    (forall j hd, In (UHead (Some j) hd) (d_out d) -> In j (d_started d)) /\
    StronglySorted lt (d_started d) /\
    d_st d = SNone /\ d_msgs d = [] /\ d_fail d = None /\ s_failed fs = false /\
    p_io (ho_parts h) = true /\
    u_upg u = Some (ho_req h, p_read_buf (ho_parts h)) /\
    current_context (p_codec (ho_parts h)) = request_context (d_codec d) (req_of reqs (ho_req h)).
  Proof.
    intros Ha u Hh d fs.
    destruct (urun_inv ues O (uinit ka) (uinit_inv ka) Ha) as (n & HI & Hq & HW & Hho).
    fold u in HI, Hq, HW, Hho. rewrite Hh in Hho.
    destruct Hho as (Hd & Hst & Hm & Hio & Hwb & Hup & Hc).
    destruct (wdead_false _ Hd) as [Hdf Hsf].
    destruct HW as ((ops & Hops) & Hput & _).
    destruct (flush_exactly_once_in_order ops) as (_ & P2 & _). cbv zeta in P2. rewrite <- Hops in P2.
    destruct HI as [s (Hsc & _ & Hso & Hhs & _)].
    split; [rewrite Hwb; unfold fs, d; rewrite <- Hput; apply P2; exact Hsf|].
    split; [exists s; exact Hsc|]. split; [exact Hhs|]. split; [exact Hso|].
    split; [exact Hst|]. split; [exact Hm|]. split; [exact Hdf|]. split; [exact Hsf|].
    split; [exact Hio|]. split; [exact Hup|].
    rewrite Hc. reflexivity.
  Qed.

  (* after the hand-off the dispatcher is gone: nothing is appended, flushed or dispatched by it
     any more, whatever events follow; only the count of bytes accepted afterwards moves *)
  Lemma after_handoff_frozen es : forall u h,
    u_ho u = Some h ->
    u_w (urun u es) = u_w u /\ u_upg (urun u es) = u_upg u /\
    exists k, u_ho (urun u es) = Some (mkHO (ho_req h) (ho_parts h) k).
  Proof.
    induction es as [|e es IH]; intros u h Hh.
    - split; [reflexivity|]. split; [reflexivity|]. exists (ho_after h).
      change (urun u []) with u. rewrite Hh. destruct h; reflexivity.
    - unfold UpgradeSeq.urun. cbn [fold_left]. fold (urun (ustep u e) es).
      assert (Hs : u_w (ustep u e) = u_w u /\ u_upg (ustep u e) = u_upg u /\
                   exists k, u_ho (ustep u e) = Some (mkHO (ho_req h) (ho_parts h) k)).
      { unfold UpgradeSeq.ustep. rewrite Hh. destruct e as [e'|j rest|k]; cbn [u_w u_upg u_ho].
        - repeat split. exists (ho_after h). rewrite Hh. destruct h; reflexivity.
        - repeat split. exists (ho_after h). rewrite Hh. destruct h; reflexivity.
        - repeat split. eexists; reflexivity. }
      destruct Hs as (E1 & E2 & k & E3).
      destruct (IH _ _ E3) as (F1 & F2 & k' & F3). cbn [ho_req ho_parts] in F3.
      rewrite F1, F2, E1, E2. repeat split. exists k'. exact F3.
  Qed.
End U.
