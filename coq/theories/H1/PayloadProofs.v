(* C07 — proofs about the model of h1/payload.rs (H1/Payload.v) against the trace-level
   specification (H1/PayloadSpec.v). Everything is by induction over arbitrary operation
   histories (no depth bound); [limit] (MAX_BUFFER_SIZE) is a section variable. *)
From AV Require Import Lib.Base H1.Payload H1.PayloadSpec.

Ltac dm :=
  repeat match goal with
  | H : context [match ?x with _ => _ end] |- _ => destruct x eqn:?
  | |- context [match ?x with _ => _ end] => destruct x eqn:?
  end.

Ltac inv_pair :=
  repeat match goal with
  | H : (_, _) = (_, _) |- _ => inversion H; clear H; subst
  | H : Val _ = Val _ |- _ => inversion H; clear H; subst
  | H : Some _ = Some _ |- _ => inversion H; clear H; subst
  end.

(* the four waker helpers as straight-line record updates *)
Lemma register_eq {Chunk} cx (i : Inner Chunk) : register cx i = set_task (Some cx) i.
Proof.
  unfold register, set_task. destruct i as [ln ef er sc nr its [w|] io]; cbn; [|reflexivity].
  destruct (cx =? w) eqn:E; cbn; [|reflexivity]. apply N.eqb_eq in E. subst. reflexivity.
Qed.
Lemma register_io_eq {Chunk} cx (i : Inner Chunk) : register_io cx i = set_io_task (Some cx) i.
Proof.
  unfold register_io, set_io_task. destruct i as [ln ef er sc nr its tk [w|]]; cbn; [|reflexivity].
  destruct (cx =? w) eqn:E; cbn; [|reflexivity]. apply N.eqb_eq in E. subst. reflexivity.
Qed.
Definition olist (o : option waker) : list waker := match o with Some w => [w] | None => [] end.
Lemma wake_eq {Chunk} (i : Inner Chunk) : wake i = (set_task None i, olist (task i)).
Proof. unfold wake, set_task. destruct i as [ln ef er sc nr its [w|] io]; reflexivity. Qed.
Lemma wake_io_eq {Chunk} (i : Inner Chunk) : wake_io i = (set_io_task None i, olist (io_task i)).
Proof. unfold wake_io, set_io_task. destruct i as [ln ef er sc nr its tk [w|]]; reflexivity. Qed.

Ltac unf := unfold Payload.step, on_sender, close_sender, Payload.poll_next, Payload.feed_data, feed_eof,
  set_error, Payload.unread_data in *.
Ltac unf_set := unfold set_len, set_eof, set_err,
  set_sender_closed, set_need_read, set_items, set_task, set_io_task in *.

Ltac dmh :=
  repeat match goal with
  | H : context [match ?x with _ => _ end] |- _ => destruct x eqn:?
  end.

(* open one step of the system on a destructed state: every branch becomes a goal whose
   hypotheses are plain equations *)
Ltac dmh1 :=
  match goal with
  | H : context [match ?x with _ => _ end] |- _ => destruct x eqn:?
  end.
Ltac open_step H :=
  unf; cbn [inner sender] in H; cbv zeta in H;
  repeat first [ progress (rewrite ?register_eq, ?register_io_eq, ?wake_eq, ?wake_io_eq in * )
               | progress (unf_set; cbn in * )
               | progress inv_pair
               | dmh1 ].

Ltac dmg :=
  repeat match goal with
  | |- context [match ?x with _ => _ end] => destruct x eqn:?
  end; cbn in *.

Section Proofs.
Context {Chunk : Type}.
Variable clen : Chunk -> N.
Variable limit : N.

Notation Inner := (Inner Chunk).
Notation sys := (sys Chunk).
Notation op := (op Chunk).
Notation res := (res Chunk).
Notation event := (event Chunk).
Notation step := (step clen limit).
Notation exec := (exec clen limit).
Notation run := (run clen limit).
Notation poll_next := (poll_next clen limit).
Notation feed_data := (feed_data clen limit).
Notation unread_data := (unread_data clen).

(* ------------------------------------------------------------------ traces as a relation *)

Inductive steps : sys -> list event -> sys -> Prop :=
| steps_nil s : steps s [] s
| steps_cons s o s1 x w t s2 :
    step s o = (s1, x, w) -> steps s1 t s2 -> steps s ((o, x, w) :: t) s2.

Lemma exec_steps os : forall s s' t, exec s os = (s', t) -> steps s t s'.
Proof.
  induction os as [|o r IH]; intros s s' t H; cbn [Payload.exec] in H.
  - inversion H; subst. constructor.
  - destruct (step s o) as [[s1 x] w] eqn:E1. destruct (exec s1 r) as [s2 t2] eqn:E2.
    inversion H; subst. econstructor; eauto.
Qed.

Lemma exec_ops os : forall s s' t, exec s os = (s', t) -> map (@ev_op Chunk) t = os.
Proof.
  induction os as [|o r IH]; intros s s' t H; cbn [Payload.exec] in H.
  - inversion H; subst. reflexivity.
  - destruct (step s o) as [[s1 x] w] eqn:E1. destruct (exec s1 r) as [s2 t2] eqn:E2.
    inversion H; subst. cbn. f_equal. eapply IH; eauto.
Qed.

Lemma steps_app_inv t1 : forall s t2 s', steps s (t1 ++ t2) s' ->
  exists s1, steps s t1 s1 /\ steps s1 t2 s'.
Proof.
  induction t1 as [|ev t1 IH]; intros s t2 s' H; cbn in H.
  - exists s. split; [constructor | exact H].
  - inversion H; subst.
    match goal with Hs : steps _ (t1 ++ t2) _ |- _ => destruct (IH _ _ _ Hs) as [sm [Ha Hb]] end.
    exists sm. split; [econstructor; eauto | exact Hb].
Qed.

Lemma steps_app t1 : forall s s1 t2 s', steps s t1 s1 -> steps s1 t2 s' -> steps s (t1 ++ t2) s'.
Proof.
  induction t1 as [|ev t1 IH]; intros s s1 t2 s' H1 H2; inversion H1; subst; cbn.
  - exact H2.
  - econstructor; eauto.
Qed.

Lemma steps_one s o x w s' : steps s [(o, x, w)] s' -> step s o = (s', x, w).
Proof.
  intro H. inversion H; subst.
  match goal with Hs : steps _ [] _ |- _ => inversion Hs; subst end. assumption.
Qed.

(* ------------------------------------------------------------------ the state invariant *)

Record Inv (i : Inner) : Prop := mkInv {
  inv_len : len i = sumN (map clen (items i));
  inv_need : need_read i = false -> limit <= len i;
  inv_eof_task : eof i = true -> task i = None;
  inv_err_closed : err i <> None -> sender_closed i = true
}.

Definition SInv (s : sys) : Prop := match inner s with Some i => Inv i | None => True end.

Lemma sumN_app l1 l2 : sumN (l1 ++ l2) = sumN l1 + sumN l2.
Proof. induction l1 as [|x l IH]; cbn [sumN app]; [|rewrite IH]; lia. Qed.

Lemma step_inv s o s' x w : step s o = (s', x, w) -> SInv s -> SInv s'.
Proof.
  unfold SInv. intros H HI. destruct s as [[i|] snd]; cbn [inner] in HI.
  - destruct HI as [H1 H2 H3 H4]. destruct i as [ln ef er sc nr its tk io]. cbn in H1, H2, H3, H4.
    destruct o; open_step H; dmg; try exact I;
      (constructor; cbn; intros; try rewrite map_app, sumN_app; cbn [map sumN];
       try congruence; try lia; auto).
  - destruct o; open_step H; exact I.
Qed.

Lemma steps_inv s t s' : steps s t s' -> SInv s -> SInv s'.
Proof. induction 1; intro HI; [exact HI | apply IHsteps; eapply step_inv; eauto]. Qed.

Lemma create_inv e : SInv (create e).
Proof.
  unfold SInv, create, inner_new; cbn. constructor; cbn; intros; try congruence; try lia.
Qed.

(* ---------------------------------------------------------------- len accounting, no underflow *)

Lemma steps_no_panic s t s' : steps s t s' -> SInv s ->
  forall ev, In ev t -> ev_res ev <> RPanic.
Proof.
  induction 1 as [s0|s0 o s1 x w t s2 Hs Hst IH]; intros HI ev Hin; [inversion Hin|].
  destruct Hin as [<-|Hin]; [|apply IH; [eapply step_inv; eauto | exact Hin]].
  cbn. intro Hx; subst x. unfold SInv in HI. destruct s0 as [[i|] snd]; cbn [inner] in HI.
  - destruct HI as [H1 H2 H3 H4]. destruct i as [ln ef er sc nr its tk io]. cbn in H1, H2, H3, H4.
    destruct o; open_step Hs; try congruence. exfalso; lia.
  - destruct o; open_step Hs; congruence.
Qed.

Theorem len_accounting e os s t : run e os = (s, t) ->
  (forall i, inner s = Some i -> len i = sumN (map clen (items i))) /\
  (forall ev, In ev t -> ev_res ev <> RPanic).
Proof.
  intro H. apply exec_steps in H. pose proof (create_inv e) as HI. split.
  - intros i Hi. pose proof (steps_inv _ _ _ H HI) as HS. unfold SInv in HS.
    rewrite Hi in HS. apply HS.
  - eapply steps_no_panic; eauto.
Qed.

End Proofs.
