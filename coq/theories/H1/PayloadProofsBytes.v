(* C07 — exact bytes in order, nothing undelivered when an ending is reported. *)
From AV Require Import Lib.Base H1.Payload H1.PayloadSpec H1.PayloadProofs.

Section Bytes.
Context {Chunk : Type}.
Variable clen : Chunk -> N.
Variable limit : N.
Variable cbytes : Chunk -> bytes.

Notation Inner := (Inner Chunk).
Notation sys := (sys Chunk).
Notation op := (op Chunk).
Notation res := (res Chunk).
Notation event := (event Chunk).
Notation step := (step clen limit).
Notation exec := (exec clen limit).
Notation run := (run clen limit).
Notation steps := (steps clen limit).
Notation SInv := (SInv clen limit).
Notation ref_step := (ref_step cbytes).
Notation ref_run := (ref_run cbytes).
Notation fed := (fed cbytes).
Notation delivered := (delivered cbytes).

(* ---------------------------------------------------------------- reference-level facts *)

Lemma strip_prefix_app p : forall q, strip_prefix p (p ++ q) = Some q.
Proof.
  induction p as [|x p IH]; intro q; cbn [strip_prefix app]; [reflexivity|].
  rewrite N.eqb_refl. apply IH.
Qed.

Lemma strip_prefix_inv p : forall q r, strip_prefix p q = Some r -> q = p ++ r.
Proof.
  induction p as [|x p IH]; intros q r H; cbn [strip_prefix] in H.
  - inversion H. reflexivity.
  - destruct q as [|y q]; [discriminate|]. destruct (x =? y) eqn:E; [|discriminate].
    apply N.eqb_eq in E. subst. cbn. f_equal. apply IH. exact H.
Qed.

(* without unread_data, what was delivered plus what is still queued is what was fed *)
Lemma ref_run_prefix t : forall q q',
  ref_run q t = Some q' ->
  (forall ev, In ev t -> is_unread (ev_op ev) = false) ->
  q ++ fed t = delivered t ++ q'.
Proof.
  unfold PayloadSpec.fed, PayloadSpec.delivered.
  induction t as [|ev t IH]; intros q q' H Hu; cbn [PayloadSpec.ref_run] in H.
  - inversion H; subst. cbn. rewrite app_nil_r. reflexivity.
  - destruct (ref_step q ev) as [q1|] eqn:E; [|discriminate].
    assert (Hu' : forall ev', In ev' t -> is_unread (ev_op ev') = false) by (intros; apply Hu; right; assumption).
    specialize (IH _ _ H Hu'). pose proof (Hu ev (or_introl eq_refl)) as Hue.
    destruct ev as [[o x] w]. cbn [map concat].
    destruct o; cbn in Hue; try discriminate;
      destruct x as [| | | |p|]; try destruct p; cbn in E |- *;
      match goal with
      | E : Some _ = Some _ |- _ =>
          inversion E; subst; clear E; rewrite <- IH; rewrite ?app_assoc; reflexivity
      | E : strip_prefix _ _ = Some _ |- _ =>
          apply strip_prefix_inv in E; subst; rewrite <- !app_assoc, IH; reflexivity
      | E : match ?q with [] => _ | _ => _ end = Some _ |- _ =>
          destruct q; [|discriminate]; inversion E; subst; rewrite <- IH; reflexivity
      | E : None = Some _ |- _ => discriminate
      end.
Qed.

(* ---------------------------------------------------------------- the model refines the reference *)

Definition buffered (i : Inner) : bytes := concat (map cbytes (items i)).

Lemma concat_app_one (l : list bytes) x : concat (l ++ [x]) = concat l ++ x.
Proof. rewrite concat_app. cbn. rewrite app_nil_r. reflexivity. Qed.

Lemma step_ref_alive s o s' x w i :
  step s o = (s', x, w) -> SInv s -> inner s = Some i ->
  exists q', ref_step (buffered i) (o, x, w) = Some q' /\
             forall i', inner s' = Some i' -> q' = buffered i'.
Proof.
  unfold PayloadProofs.SInv, buffered. intros H HI Hi. destruct s as [si snd]. cbn [inner] in *. subst si.
  destruct HI as [H1 H2 H3 H4]. destruct i as [ln ef er sc nr its tk io]. cbn in H1, H2, H3, H4.
  destruct o; open_step H.
  all: try congruence.
  all: try (eexists; split; [reflexivity|]; intros i' Hi'; inversion Hi'; subst; cbn;
            rewrite ?map_app; cbn [map]; rewrite ?concat_app_one; reflexivity).
  all: try (eexists; split; [reflexivity|]; intros i' Hi'; discriminate).
  all: try (eexists; split; [apply strip_prefix_app|]; intros i' Hi'; inversion Hi'; subst; dmg; reflexivity).
  all: try (exfalso; lia).
Qed.

Lemma step_ref_gone s o s' x w q :
  step s o = (s', x, w) -> inner s = None ->
  inner s' = None /\ exists q', ref_step q (o, x, w) = Some q'.
Proof.
  intros H Hi. destruct s as [si snd]. cbn [inner] in *. subst si.
  destruct o; open_step H; (split; [reflexivity | eexists; reflexivity]).
Qed.

Lemma steps_ref s t s' : steps s t s' -> SInv s ->
  forall q, (forall i, inner s = Some i -> q = buffered i) ->
  exists q', ref_run q t = Some q' /\ forall i', inner s' = Some i' -> q' = buffered i'.
Proof.
  induction 1 as [s|s o s1 x w t s2 Hs Hst IH]; intros HI q Hq.
  - exists q. split; [reflexivity | exact Hq].
  - pose proof (step_inv _ _ _ _ _ _ _ Hs HI) as HI1. cbn [PayloadSpec.ref_run].
    destruct (inner s) as [i|] eqn:Ei.
    + destruct (step_ref_alive _ _ _ _ _ _ Hs HI Ei) as [q1 [E1 Hq1]].
      rewrite (Hq i eq_refl), E1. apply IH; assumption.
    + destruct (step_ref_gone _ _ _ _ _ q Hs Ei) as [En [q1 E1]]. rewrite E1.
      apply IH; [assumption|]. intros i Hi. congruence.
Qed.

(* T1: every trace of the channel is accepted by the reference byte queue, whose content is
   what the channel still holds *)
Theorem bytes_in_order e os s t : run e os = (s, t) ->
  exists q, ref_run [] t = Some q /\ forall i, inner s = Some i -> q = buffered i.
Proof.
  intro H. apply exec_steps in H. eapply steps_ref; [exact H | apply create_inv |].
  intros i Hi. cbn in Hi. inversion Hi; subst. reflexivity.
Qed.

Lemma ops_no_unread os (t : list event) :
  map (@ev_op Chunk) t = os -> (forall o, In o os -> is_unread o = false) ->
  forall ev, In ev t -> is_unread (ev_op ev) = false.
Proof. intros Hm Hu ev Hin. apply Hu. rewrite <- Hm. apply in_map. exact Hin. Qed.

(* without unread_data: delivered bytes ++ still-queued bytes = fed bytes *)
Theorem bytes_prefix e os s t : run e os = (s, t) ->
  (forall o, In o os -> is_unread o = false) ->
  exists q, fed t = delivered t ++ q /\ forall i, inner s = Some i -> q = buffered i.
Proof.
  intros H Hu. destruct (bytes_in_order _ _ _ _ H) as [q [Hr Hq]]. exists q. split; [|exact Hq].
  pose proof (ref_run_prefix _ _ _ Hr (ops_no_unread _ _ (exec_ops _ _ _ _ _ _ H) Hu)) as P.
  exact P.
Qed.

Lemma ref_run_last_empty cx p wk t : forall q0 q,
  ref_run q0 t = Some q ->
  last t (OIsDropped, RUnit, []) = (OPoll cx, RPoll p, wk) ->
  (forall d, p <> PData d) -> q = [].
Proof.
  induction t as [|ev t IH]; intros q0 q Hr Hl Hp.
  - cbn in Hl. inversion Hl.
  - cbn [PayloadSpec.ref_run] in Hr. destruct (ref_step q0 ev) as [q1|] eqn:E; [|discriminate].
    destruct t as [|ev2 t].
    + cbn in Hl, Hr. subst ev. inversion Hr; subst. cbn in E.
      destruct p; try (exfalso; eapply Hp; reflexivity); destruct q0; inversion E; reflexivity.
    + apply (IH q1 q Hr); [exact Hl | exact Hp].
Qed.

(* ... and when a poll reports an ending (or Pending), everything fed so far has been delivered *)
Theorem bytes_complete e os cx s t p wk : run e (os ++ [OPoll cx]) = (s, t) ->
  (forall o, In o os -> is_unread o = false) ->
  last t (OIsDropped, RUnit, []) = (OPoll cx, RPoll p, wk) ->
  (forall d, p <> PData d) ->
  delivered t = fed t.
Proof.
  intros H Hu Hl Hp. destruct (bytes_in_order _ _ _ _ H) as [q [Hr _]].
  assert (Hu' : forall o, In o (os ++ [OPoll cx]) -> is_unread o = false).
  { intros o Ho. apply in_app_or in Ho as [Ho|[<-|[]]]; [apply Hu; exact Ho | reflexivity]. }
  pose proof (ref_run_prefix _ _ _ Hr (ops_no_unread _ _ (exec_ops _ _ _ _ _ _ H) Hu')) as P.
  cbn [app] in P. rewrite P.
  rewrite (ref_run_last_empty _ _ _ _ _ _ Hr Hl Hp). rewrite app_nil_r. reflexivity.
Qed.

End Bytes.
