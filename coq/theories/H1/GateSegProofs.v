(* H1/GateSegProofs.v — the dispatcher gate under a pure read schedule computes [Codec.feed]; hence
   (with CodecSegProofs.feed_eq_run) what the application sees through the gate does not depend on
   how the stream is cut into reads, exactly outside the band of finding F19 ([NoBand]). *)
From AV Require Import Lib.Base H1.Chunked H1.PayloadDec H1.Framing H1.Codec H1.CodecProofs
  H1.CodecSegProofs H1.Gate H1.GateProofs H1.GateExec H1.GateExecProofs.

Section S.
  Variable head : bytes -> head_res.
  Variables maxb maxp cap : N.
  Hypothesis Hmaxb : 0 < maxb.
  (* the reader's early-return threshold (dispatcher.rs) is not below the decoder's TooLarge
     threshold (decoder.rs): without this the reader stops while the decoder still says
     "partial, need more" (see [reader_starves_below_cap]) *)
  Hypothesis Hcap : maxb <= cap.
  Hypothesis Hmaxp : 0 < maxp.
  Hypothesis HL : HeadLaws head.

  Notation xexec := (xexec head maxb maxp cap).
  Notation xstep := (xstep head maxb maxp cap).

  (* one socket read followed by one poll_request with an empty message queue and a payload that
     does not pause the reader *)
  Definition read_ops (segs : list bytes) : list xop :=
    flat_map (fun s => [XRead s; XQueue 0; XPoll true]) segs.

  (* what the drain loop leaves unread is below the read loop's threshold *)
  Lemma run_need_small : forall f c buf acc c' r ms,
    cinv c -> run head maxb f c buf acc = ONeedMore c' r ms -> lenN r < maxb /\ cinv c'.
  Proof.
    induction f as [|f IH]; intros c buf acc c' r ms Hc H; [discriminate H|].
    cbn [run] in H. destruct (codec_decode head maxb c buf) as [[[c1 b1] [m|]]|e|] eqn:Hd; try discriminate H.
    - destruct (cdecode_progress head maxb HL _ _ _ _ _ Hc Hd) as [Hc1 _]. eapply IH; [exact Hc1|exact H].
    - inversion H; subst. split; [|eapply cdecode_none_inv; eassumption].
      unfold codec_decode in Hd. unfold cinv in Hc. destruct (c_payload c) as [k|].
      + pose proof (pdecode_ok k buf [] Hc) as S.
        destruct (pdecode k buf) as [|[[k' b'] [[ch|]|]]| |]; try discriminate Hd. inversion Hd; subst.
        cbn [pdecode_spec] in S. destruct S as (-> & _). unfold lenN; cbn [length]; lia.
      + unfold request_decode in Hd. destruct (head buf) as [|n mm t v hs|e0]; try discriminate Hd.
        * destruct (maxb <=? lenN buf) eqn:E; [discriminate Hd|]. inversion Hd; subst. lia.
        * destruct (request_payload v mm hs) as [[[pt ka] ex]|]; [destruct pt|]; discriminate Hd.
  Qed.

  (* the gate state that corresponds to a "need more" state of [feed] *)
  Definition gate_of (c : codec) (r : bytes) (ms : list message) (q : N) : gate :=
    mk_gate false r c q ms None.

  Definition agrees (g : gate) (o : outcome) : Prop :=
    match o with
    | ONeedMore c r ms => exists q, g = gate_of c r ms q
    | OError e ms => g_msgs g = ms /\ g_rejected g = Some e /\ g_read_disconnect g = true
    | OPanic | OFuel => True
    end.

  Lemma step_read c r ms q seg : lenN r < maxb ->
    xstep (gate_of c r ms q) (XRead seg) = gate_of c (r ++ seg) ms q.
  Proof.
    intro H. unfold GateExec.xstep, gate_of. cbn [g_read_buf].
    replace (cap <=? lenN r) with false by lia. reflexivity.
  Qed.

  Lemma step_queue c r ms q n : xstep (gate_of c r ms q) (XQueue n) = gate_of c r ms n.
  Proof. reflexivity. Qed.

  Lemma step_poll c b ms :
    xstep (gate_of c b ms 0) (XPoll true) =
    match run head maxb (run_fuel b) c b ms with
    | ONeedMore c' r' ms' => gate_of c' r' ms' (0 + (lenN ms' - lenN ms))
    | OError e ms' =>
        mk_gate true (leftover_of head maxb (gate_of c b ms 0)) c (0 + (lenN ms' - lenN ms) + 1) ms' (Some e)
    | OPanic | OFuel => gate_of c b ms 0
    end.
  Proof.
    unfold GateExec.xstep, gstep, poll_request, can_read, gate_of.
    cbn [g_read_disconnect g_read_buf g_codec g_queued g_msgs g_rejected].
    replace (maxp <=? 0) with false by lia.
    replace (negb (match c_payload c with Some _ => true | None => true end)) with false
      by (destruct (c_payload c); reflexivity).
    cbn [orb]. destruct (run head maxb (run_fuel b) c b ms); reflexivity.
  Qed.

  Lemma xexec_keeps_disconnect ops : forall g, g_read_disconnect g = true ->
    g_read_disconnect (xexec ops g) = true.
  Proof.
    induction ops as [|o ops IH]; intros g H; [exact H|].
    change (GateExec.xexec head maxb maxp cap (o :: ops) g) with (xexec ops (xstep g o)).
    apply IH. destruct (xstep_frozen head maxb maxp cap g o H) as [A _]. exact A.
  Qed.

  Theorem gate_reads_eq_feed : forall segs c r ms q,
    cinv c -> lenN r < maxb ->
    agrees (xexec (read_ops segs) (gate_of c r ms q)) (feed head maxb segs c r ms).
  Proof.
    induction segs as [|seg more IH]; intros c r ms q Hc Hr.
    - cbn. exists q. reflexivity.
    - cbn [read_ops flat_map app feed].
      assert (Hcons : forall o ops g, xexec (o :: ops) g = xexec ops (xstep g o)) by reflexivity.
      do 3 rewrite Hcons. fold (read_ops more).
      rewrite step_read by assumption. rewrite step_queue, step_poll.
      destruct (run head maxb (run_fuel (r ++ seg)) c (r ++ seg) ms) as [c' r' ms'|e ms'| |] eqn:Ho.
      + destruct (run_need_small _ _ _ _ _ _ _ Hc Ho) as [Hs Hc']. apply IH; assumption.
      + cbn [agrees].
        match goal with |- context [GateExec.xexec head maxb maxp cap ?ops ?g] =>
          destruct (xexec_frozen head maxb maxp cap ops g eq_refl) as [A B]; rewrite A, B;
          rewrite (xexec_keeps_disconnect ops g eq_refl) end.
        cbn [g_msgs g_rejected]. repeat split.
      + exact I.
      + exact I.
  Qed.

  (* the drain loop never panics from a reachable codec state *)
  Lemma run_no_panic : forall f c buf acc, cinv c -> run head maxb f c buf acc <> OPanic.
  Proof.
    induction f as [|f IH]; intros c buf acc Hc; [discriminate|].
    cbn [run]. destruct (codec_decode head maxb c buf) as [[[c1 b1] [m|]]|e|] eqn:Hd; try discriminate.
    - destruct (cdecode_progress head maxb HL _ _ _ _ _ Hc Hd) as [Hc1 _]. apply IH. exact Hc1.
    - exfalso. unfold codec_decode in Hd. unfold cinv in Hc. destruct (c_payload c) as [k|].
      + pose proof (pdecode_ok k buf [] Hc) as S.
        destruct (pdecode k buf) as [|[[k' b'] [[ch|]|]]| |]; try discriminate Hd; exact S.
      + unfold request_decode in Hd. destruct (head buf) as [|n mm t v hs|e0]; try discriminate Hd.
        * destruct (maxb <=? lenN buf); discriminate Hd.
        * destruct (request_payload v mm hs) as [[[pt ka] ex]|]; [destruct pt|]; discriminate Hd.
  Qed.

  (* THE READER NEVER STOPS BEFORE THE DECODER HAS DECIDED.  Under every read schedule, as long as
     no request has been rejected, the next socket read is performed (read_available does not take
     its early return): what the drain loop leaves unread is < maxb (the decoder's limit: a longer
     unfinished head is TooLarge), and maxb <= cap.  With [gate_reads_eq_feed] / [feed_eq_run]:
     every framed request whose head is below the decoder limit is delivered. *)
  Theorem reader_never_stops_early : forall segs c r ms q seg,
    cinv c -> lenN r < maxb ->
    let g := xexec (read_ops segs) (gate_of c r ms q) in
    g_rejected g = None ->
    lenN (g_read_buf g) < cap /\ g_read_buf (xstep g (XRead seg)) = g_read_buf g ++ seg.
  Proof.
    induction segs as [|s0 more IH]; intros c r ms q seg Hc Hr.
    - cbv zeta. change (xexec (read_ops []) (gate_of c r ms q)) with (gate_of c r ms q). intros _.
      rewrite step_read by assumption. unfold gate_of; cbn [g_read_buf]. split; [lia|reflexivity].
    - cbn [read_ops flat_map app].
      assert (Hcons : forall o ops g, xexec (o :: ops) g = xexec ops (xstep g o)) by reflexivity.
      do 3 rewrite Hcons. fold (read_ops more).
      rewrite step_read by assumption. rewrite step_queue, step_poll.
      destruct (run head maxb (run_fuel (r ++ s0)) c (r ++ s0) ms) as [c' r' ms'|e ms'| |] eqn:Ho.
      + destruct (run_need_small _ _ _ _ _ _ _ Hc Ho) as [Hs Hc']. apply IH; assumption.
      + cbv zeta. intros Hg. exfalso.
        match type of Hg with context [GateExec.xexec head maxb maxp cap ?ops ?g] =>
          destruct (xexec_frozen head maxb maxp cap ops g eq_refl) as [_ B]; rewrite B in Hg end.
        discriminate Hg.
      + exfalso. exact (run_no_panic _ _ _ _ Hc Ho).
      + exfalso. revert Ho. apply (run_enough head maxb HL); [exact Hc|].
        unfold run_fuel, measure. pose proof (pend_le1 c). lia.
  Qed.
End S.

(* The premise [maxb <= cap] is necessary: if the reader's threshold is below the decoder's, a gate
   holding an unfinished head of at least [cap] but fewer than [maxb] bytes is stuck for ever -
   read_available takes its early return, the decoder answers "need more", nothing is delivered and
   nothing is rejected (no 431), whatever is read, polled or dequeued afterwards. *)
Section Starve.
  Variable head : bytes -> head_res.
  Variables maxb maxp cap : N.
  Notation xexec := (xexec head maxb maxp cap).
  Notation xstep := (xstep head maxb maxp cap).

  Definition stuck (g : gate) : Prop :=
    g_read_disconnect g = false /\ c_payload (g_codec g) = None /\
    head (g_read_buf g) = HPartial /\ cap <= lenN (g_read_buf g) /\ lenN (g_read_buf g) < maxb.

  Lemma stuck_step g o : stuck g -> o <> XPeerClosed ->
    stuck (xstep g o) /\ g_msgs (xstep g o) = g_msgs g /\ g_rejected (xstep g o) = g_rejected g /\ g_read_buf (xstep g o) = g_read_buf g.
  Proof.
    intros (Hd & Hp & Hh & Hc & Hm) Ho. unfold stuck.
    destruct o as [bs| |pl|n]; cbn [GateExec.xstep].
    - replace (cap <=? lenN (g_read_buf g)) with true by lia. repeat split; assumption.
    - contradiction.
    - cbn [gstep]. unfold poll_request.
      destruct ((maxp <=? g_queued g) || negb (can_read g pl)); [repeat split; assumption|].
      unfold run_fuel. replace (2 * length (g_read_buf g) + 3)%nat with (S (2 * length (g_read_buf g) + 2)) by lia.
      cbn [run]. unfold codec_decode. rewrite Hp. unfold request_decode. rewrite Hh.
      replace (maxb <=? lenN (g_read_buf g)) with false by lia.
      cbn [g_read_disconnect g_codec g_read_buf g_msgs g_rejected]. repeat split; assumption.
    - cbn. repeat split; assumption.
  Qed.

  Theorem reader_starves_below_cap : forall ops g,
    stuck g -> Forall (fun o => o <> XPeerClosed) ops ->
    stuck (xexec ops g) /\ g_msgs (xexec ops g) = g_msgs g /\ g_rejected (xexec ops g) = g_rejected g /\ g_read_buf (xexec ops g) = g_read_buf g.
  Proof.
    induction ops as [|o ops IH]; intros g Hs Hf;
      [change (GateExec.xexec head maxb maxp cap [] g) with g; auto|].
    change (GateExec.xexec head maxb maxp cap (o :: ops) g) with (xexec ops (xstep g o)).
    pose proof (Forall_inv Hf) as Ho. pose proof (Forall_inv_tail Hf) as Hf'.
    destruct (stuck_step g o Hs) as (S1 & M1 & R1 & B1); [assumption|].
    destruct (IH _ S1) as (S2 & M2 & R2 & B2); [assumption|].
    rewrite M2, R2, B2. auto.
  Qed.
End Starve.
