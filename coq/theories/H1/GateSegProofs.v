(* H1/GateSegProofs.v — the dispatcher gate under a pure read schedule computes [Codec.feed]; hence
   (with CodecSegProofs.feed_eq_run) what the application sees through the gate does not depend on
   how the stream is cut into reads, exactly outside the band of finding F19 ([NoBand]). *)
From AV Require Import Lib.Base H1.Chunked H1.PayloadDec H1.Framing H1.Codec H1.CodecProofs
  H1.CodecSegProofs H1.Gate H1.GateProofs H1.GateExec H1.GateExecProofs.

Section S.
  Variable head : bytes -> head_res.
  Variables maxb maxp : N.
  Hypothesis Hmaxb : 0 < maxb.
  Hypothesis Hmaxp : 0 < maxp.
  Hypothesis HL : HeadLaws head.

  Notation xexec := (xexec head maxb maxp).
  Notation xstep := (xstep head maxb maxp).

  (* one socket read followed by one poll_request with an empty message queue and a payload that
     does not pause the reader *)
  Definition read_ops (segs : list bytes) : list xop :=
    flat_map (fun s => [XRead s; XQueue 0; XPoll true]) segs.

  (* what the drain loop leaves unread is below the read loop's threshold *)
  Lemma run_need_small : forall f c buf acc c' r ms,
    cinv c -> run head maxb f c buf acc = ONeedMore c' r ms -> lenN r < maxb /\ cinv c'.
  Proof.
    induction f as [|f IH]; intros c buf acc c' r ms Hc H; [discriminate H|].
    cbn [run] in H. destruct (codec_decode head maxb c buf) as [[[c1 b1] [m|]]|e|] eqn:Hd; try discriminate H.
    - destruct (cdecode_progress head maxb HL _ _ _ _ _ Hc Hd) as [Hc1 _]. eapply IH; [exact Hc1|exact H].
    - inversion H; subst. split; [|eapply cdecode_none_inv; eassumption].
      unfold codec_decode in Hd. unfold cinv in Hc. destruct (c_payload c) as [k|].
      + pose proof (pdecode_ok k buf [] Hc) as S.
        destruct (pdecode k buf) as [|[[k' b'] [[ch|]|]]| |]; try discriminate Hd. inversion Hd; subst.
        cbn [pdecode_spec] in S. destruct S as (-> & _). unfold lenN; cbn [length]; lia.
      + unfold request_decode in Hd. destruct (head buf) as [|n mm t v hs|e0]; try discriminate Hd.
        * destruct (maxb <=? lenN buf) eqn:E; [discriminate Hd|]. inversion Hd; subst. lia.
        * destruct (request_payload v mm hs) as [[[pt ka] ex]|]; [destruct pt|]; discriminate Hd.
  Qed.

  (* the gate state that corresponds to a "need more" state of [feed] *)
  Definition gate_of (c : codec) (r : bytes) (ms : list message) (q : N) : gate :=
    mk_gate false r c q ms None.

  Definition agrees (g : gate) (o : outcome) : Prop :=
    match o with
    | ONeedMore c r ms => exists q, g = gate_of c r ms q
    | OError e ms => g_msgs g = ms /\ g_rejected g = Some e /\ g_read_disconnect g = true
    | OPanic | OFuel => True
    end.

  Lemma step_read c r ms q seg : lenN r < maxb ->
    xstep (gate_of c r ms q) (XRead seg) = gate_of c (r ++ seg) ms q.
  Proof.
    intro H. unfold GateExec.xstep, gate_of. cbn [g_read_buf].
    replace (maxb <=? lenN r) with false by lia. reflexivity.
  Qed.

  Lemma step_queue c r ms q n : xstep (gate_of c r ms q) (XQueue n) = gate_of c r ms n.
  Proof. reflexivity. Qed.

  Lemma step_poll c b ms :
    xstep (gate_of c b ms 0) (XPoll true) =
    match run head maxb (run_fuel b) c b ms with
    | ONeedMore c' r' ms' => gate_of c' r' ms' (0 + (lenN ms' - lenN ms))
    | OError e ms' =>
        mk_gate true (leftover_of head maxb (gate_of c b ms 0)) c (0 + (lenN ms' - lenN ms) + 1) ms' (Some e)
    | OPanic | OFuel => gate_of c b ms 0
    end.
  Proof.
    unfold GateExec.xstep, gstep, poll_request, can_read, gate_of.
    cbn [g_read_disconnect g_read_buf g_codec g_queued g_msgs g_rejected].
    replace (maxp <=? 0) with false by lia.
    replace (negb (match c_payload c with Some _ => true | None => true end)) with false
      by (destruct (c_payload c); reflexivity).
    cbn [orb]. destruct (run head maxb (run_fuel b) c b ms); reflexivity.
  Qed.

  Lemma xexec_keeps_disconnect ops : forall g, g_read_disconnect g = true ->
    g_read_disconnect (xexec ops g) = true.
  Proof.
    induction ops as [|o ops IH]; intros g H; [exact H|].
    change (GateExec.xexec head maxb maxp (o :: ops) g) with (xexec ops (xstep g o)).
    apply IH. destruct (xstep_frozen head maxb maxp g o H) as [A _]. exact A.
  Qed.

  Theorem gate_reads_eq_feed : forall segs c r ms q,
    cinv c -> lenN r < maxb ->
    agrees (xexec (read_ops segs) (gate_of c r ms q)) (feed head maxb segs c r ms).
  Proof.
    induction segs as [|seg more IH]; intros c r ms q Hc Hr.
    - cbn. exists q. reflexivity.
    - cbn [read_ops flat_map app feed].
      assert (Hcons : forall o ops g, xexec (o :: ops) g = xexec ops (xstep g o)) by reflexivity.
      do 3 rewrite Hcons. fold (read_ops more).
      rewrite step_read by assumption. rewrite step_queue, step_poll.
      destruct (run head maxb (run_fuel (r ++ seg)) c (r ++ seg) ms) as [c' r' ms'|e ms'| |] eqn:Ho.
      + destruct (run_need_small _ _ _ _ _ _ _ Hc Ho) as [Hs Hc']. apply IH; assumption.
      + cbn [agrees].
        match goal with |- context [GateExec.xexec head maxb maxp ?ops ?g] =>
          destruct (xexec_frozen head maxb maxp ops g eq_refl) as [A B]; rewrite A, B;
          rewrite (xexec_keeps_disconnect ops g eq_refl) end.
        cbn [g_msgs g_rejected]. repeat split.
      + exact I.
      + exact I.
  Qed.
End S.
