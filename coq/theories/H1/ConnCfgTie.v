(* C06: tie of H1/TimerSM.v (timer.rs) and H1/ConnConfig.v (keep_alive.rs, config.rs, date.rs) to
   the tables that tools/gen/timer_cfg.py reads from the source text on every check run. The
   interpretation functions give the tables their meaning; [timer_cfg_match_source] says the
   transcriptions are exactly that. A changed variant, arm order, comparison, field or a dropped
   `.normalize()` changes a table and this file stops compiling. *)
Require Import AV.Lib.Base AV.H1.ConnRec AV.H1.ConnState AV.H1.ConnProofs AV.H1.TimerSM AV.H1.ConnConfig.
Require Import AV.Gen.TimerCfgTables.

Definition tc_timer (x : tc_state) (d : N) : timer :=
  match x with TcDisabled => TDisabled | TcInactive => TInactive | TcActive => TActive d end.
Definition tc_kind (t : timer) : tc_state :=
  match t with TDisabled => TcDisabled | TInactive => TcInactive | TActive _ => TcActive end.
Definition tc_state_eqb (a b : tc_state) : bool :=
  match a, b with TcDisabled, TcDisabled | TcInactive, TcInactive | TcActive, TcActive => true | _, _ => false end.

Definition i_new (tb : tc_state * tc_state) (enabled : bool) : timer :=
  if enabled then tc_timer (fst tb) 0 else tc_timer (snd tb) 0.
Definition i_is_enabled (l : list tc_state) (t : timer) : bool := existsb (tc_state_eqb (tc_kind t)) l.
(* init polls the Sleep of a timer in state [x] and discards the result *)
Definition i_init (x : tc_state) (t : timer) : timer := if tc_state_eqb (tc_kind t) x then t else t.
Definition i_op (o : tc_op) (d : N) (t : timer) : timer :=
  match o with TcOpSet => tc_timer TC_SET d | TcOpInit => i_init TC_INIT_POLLS t end.
Fixpoint i_ops (l : list tc_op) (d : N) (t : timer) : timer :=
  match l with [] => t | o :: r => i_ops r d (i_op o d t) end.

Definition kapat_matches (p : tc_kapat) (k : ka_t) : bool :=
  match p, k with
  | TcKaTimeout, KaTimeout _ => true
  | TcKaTimeoutZero, KaTimeout d => d =? 0
  | TcKaOs, KaOs => true
  | TcKaDisabled, KaDisabled => true
  | TcKaAny, _ => true
  | _, _ => false
  end.
Definition kapat_variant (p : tc_kapat) (k : ka_t) : ka_t :=
  match p with TcKaOs => KaOs | TcKaDisabled => KaDisabled | _ => k end.
Fixpoint i_normalize (arms : list (tc_kapat * tc_kares)) (k : ka_t) : ka_t :=
  match arms with
  | [] => k
  | (p, r) :: rest =>
      if kapat_matches p k then match r with TcResVariant v => kapat_variant v k | TcResSame => k end
      else i_normalize rest k
  end.
Fixpoint i_conv (fd : N -> ka_t) (l : list tc_conv) (arg : N) (k : ka_t) : ka_t :=
  match l with
  | [] => k
  | TcTimeoutOfArg :: r => i_conv fd r arg (KaTimeout arg)
  | TcFromDuration :: r => i_conv fd r arg (fd arg)
  | TcNormalize :: r => i_conv fd r arg (i_normalize KA_NORMALIZE k)
  end.
Definition i_from_duration (d : N) : ka_t := i_conv (fun _ => KaDisabled) KA_FROM_DURATION d KaDisabled.
(* match ka_dur { Some(dur) => from(dur), None => <variant> } followed by the remaining conversions *)
Definition i_from_option (o : option N) : ka_t :=
  match o with
  | Some d => i_conv i_from_duration (snd KA_FROM_OPTION) d KaDisabled
  | None => i_conv i_from_duration (tl (snd KA_FROM_OPTION)) 0 (kapat_variant (fst KA_FROM_OPTION) KaOs)
  end.

Fixpoint i_ka_deadline (arms : list (tc_kapat * tc_dl)) (k : ka_t) (cache : N) : option N :=
  match arms with
  | [] => None
  | (p, r) :: rest =>
      if kapat_matches p k then match r, k with TcSomeNowPlus, KaTimeout d => Some (cache + d) | _, _ => None end
      else i_ka_deadline rest k cache
  end.
Definition i_deadline (tb : tc_field * tc_cmp0 * tc_dl) (c : cfg) (cache : N) : option N :=
  let '(f, cmp, r) := tb in
  let t := match f with TcFieldRequest => req_to c | TcFieldDisconnect => disc_to c end in
  if match cmp with TcNeZero => negb (t =? 0) | TcEqZero => t =? 0 end
  then match r with TcSomeNowPlus => Some (cache + t) | TcNone => None end
  else None.
Definition i_store (l : list tc_conv) (k : ka_t) : ka_t := i_conv (fun _ => KaDisabled) l 0 k.

Theorem timer_cfg_match_source :
  (* timer.rs *)
  (forall e, t_new e = i_new TC_NEW e) /\
  (forall t, t_enabled t = i_is_enabled TC_IS_ENABLED t) /\
  (forall d t, ts_set d t = tc_timer TC_SET d) /\
  (forall t, ts_clear t = tc_timer TC_CLEAR 0) /\
  (forall t, ts_init t = i_init TC_INIT_POLLS t) /\
  (forall d t, ts_set_and_init d t = i_ops TC_SET_AND_INIT d t) /\
  (* keep_alive.rs *)
  (forall k, ka_is_enabled k = negb (kapat_matches KA_NOT_ENABLED k)) /\
  (forall k, ka_normalize k = i_normalize KA_NORMALIZE k) /\
  (forall d, ka_from_duration d = i_from_duration d) /\
  (forall o, ka_from_option o = i_from_option o) /\
  (* config.rs *)
  (forall k cache, keep_alive_deadline k cache = i_ka_deadline CFG_KA_DEADLINE k cache) /\
  (forall c cache, client_request_deadline c cache = i_deadline CFG_REQ_DEADLINE c cache) /\
  (forall c cache, client_disconnect_deadline c cache = i_deadline CFG_DISC_DEADLINE c cache) /\
  (forall k rq dc hc sg f, ka (config_new k rq dc hc sg f) = i_store CFG_NEW_KA k) /\
  (forall k rq dc hc sg f, ka (config_builder k rq dc hc sg f) = i_store CFG_BUILDER_KA k) /\
  (* date.rs / config.rs: now() is the cache, the cache is written every TICK ms with the tick's instant *)
  CFG_NOW_IS_CACHE = true /\ DATE_NOW_READS_CACHE = true /\ DATE_INITIAL_IS_NOW = true /\ TICK = DATE_REFRESH_MS.
Proof.
  repeat split; try reflexivity; intros.
  all: try (unfold ts_set_and_init; rewrite ts_init_id; reflexivity).
  all: try (unfold client_request_deadline, client_disconnect_deadline, deadline_of, i_deadline; cbn; repeat bm; reflexivity).
  all: try (match goal with k : ka_t |- _ => destruct k as [[|?]| |]; reflexivity end).
  all: try (match goal with t : timer |- _ => destruct t; reflexivity end).
  all: try (match goal with e : bool |- _ => destruct e; reflexivity end).
  all: try (match goal with o : option N |- _ => destruct o as [[|?]|]; reflexivity end).
  all: try (match goal with d : N |- _ => destruct d; reflexivity end).
Qed.

(* what `init` does with an already expired Sleep in the tree under test (F31) *)
Definition init_wakes : bool := match TC_INIT_ON_READY with TcWake => true | TcDiscard => false end.

(* for the tree under test: a timer armed from the cached clock gets the task polled again, for
   every clock value, provided the tree has fixes/F31.patch or the duration is at least one refresh
   period of the cache (the complement of the class F31-stale-deadline-no-wake) *)
Theorem timer_wake_scheduled : forall timeout n,
  init_wakes = true \/ TICK <= timeout ->
  exists t, next_timer_poll init_wakes (cached n + timeout) n = Some t /\ t <= N.max (cached n + timeout) n.
Proof.
  intros timeout n [W|L].
  - rewrite W. destruct (set_and_init_fixed_always_wakes (cached n + timeout) n) as (t & E & [X|[X Y]]);
      exists t; (split; [exact E|lia]).
  - destruct init_wakes.
    + destruct (set_and_init_fixed_always_wakes (cached n + timeout) n) as (t & E & [X|[X Y]]);
        exists t; (split; [exact E|lia]).
    + exists (cached n + timeout). split; [apply set_and_init_wakes_outside_known; exact L|lia].
Qed.
