(* The configuration of the dispatcher model with the constants of the sources. *)
From AV Require Import Lib.Base Gen.Consts H1.Gates.

(* shortest request head httparse accepts: "G / HTTP/1.1\r\n\r\n" *)
Definition MIN_HEAD : N := 16.

Definition std_cfg2 (wbs r h431 : N) (fix21 fix28 : bool) : cfg :=
  mk_cfg H1_MAX_BUFFER_SIZE H1_MAX_PIPELINED_MESSAGES H1_PAYLOAD_MAX_BUFFER_SIZE wbs r MIN_HEAD h431 fix21 fix28.
Definition std_cfg (wbs r h431 : N) (fix21 : bool) : cfg := std_cfg2 wbs r h431 fix21 false.
