(* C02, last clause: "if the body fails or ends short the connection is terminated rather than a
   complete-looking message being emitted" -- on the sequencing model (H1/RespSeq.v), for every
   schedule and every handler / body script.  Body errors (BErr), short bodies (end of script
   while the Length encoder still expects bytes) and handler errors (h_fail: SendErrorPayload)
   are already events of the model (they come from the scripts); this file proves what the wire
   looks like when they strike. *)
From Coq Require Import String.
From AV Require Import Lib.Base H1.Encoder H1.RespSpec H1.RespSeq H1.EncoderProofs.
Open Scope N_scope.

(* ---------------------------------------------------------------- the body encoder alone *)
(* what Codec::encode(Chunk(Some b)) does to the transfer encoder, for a list of chunks *)
Fixpoint te_chunks (t : te) (chunks : list bytes) : te * bytes :=
  match chunks with
  | [] => (t, [])
  | b :: r =>
      match b with
      | [] => te_chunks t r
      | _ => let '(t1, o1) := te_encode t b in
             let '(t2, o2) := te_chunks t1 r in (t2, o1 ++ o2)
      end
  end.

Lemma te_chunks_snoc chunks : forall t b,
  te_chunks t (chunks ++ [b]) =
  let '(t1, o1) := te_chunks t chunks in
  match b with
  | [] => (t1, o1)
  | _ => let '(t2, o2) := te_encode t1 b in (t2, o1 ++ o2)
  end.
Proof.
  induction chunks as [|c r IH]; intros t b.
  - cbn [app te_chunks]. destruct b; [reflexivity|]. destruct (te_encode t (n :: b)) as [t2 o2].
    rewrite app_nil_r. reflexivity.
  - cbn [app te_chunks]. destruct c as [|x c'].
    + apply IH.
    + destruct (te_encode t (x :: c')) as [t1 o1]. rewrite IH.
      destruct (te_chunks t1 r) as [t2 o2]. destruct b; [reflexivity|].
      destruct (te_encode t2 (n :: b)) as [t3 o3]. rewrite app_assoc. reflexivity.
Qed.

(* the codec-level fold is this fold on the codec's transfer encoder *)
Lemma codec_chunks_te chunks : forall c,
  codec_encode_chunks c chunks =
  (set_te c (fst (te_chunks (c_te c) chunks)), snd (te_chunks (c_te c) chunks)).
Proof.
  induction chunks as [|b r IH]; intros c.
  - cbn [codec_encode_chunks te_chunks fst snd]. rewrite <- codec_eta. reflexivity.
  - cbn [codec_encode_chunks te_chunks]. destruct b as [|x b'].
    + cbn [codec_encode_chunk]. rewrite IH. reflexivity.
    + cbn [codec_encode_chunk]. destruct (te_encode (c_te c) (x :: b')) as [t1 o1].
      rewrite IH. cbn [c_te]. destruct (te_chunks t1 r) as [t2 o2]. cbn [fst snd].
      unfold set_te. cbn [c_ka_enabled c_head c_stream c_ver c_conn]. reflexivity.
Qed.

Definition probe (t : te) : codec := mkCodec true false false V11 CClose t.

Lemma te_chunks_chunked chunks :
  te_chunks (TChunked false) chunks = (TChunked false, concat (map enc_chunk (filter nonempty chunks))).
Proof.
  pose proof (codec_chunks_te chunks (probe (TChunked false))) as H.
  rewrite (chunks_chunked chunks (probe (TChunked false)) eq_refl) in H.
  cbn [c_te probe] in H. destruct (te_chunks (TChunked false) chunks) as [t o].
  cbn [fst snd set_te probe] in H. unfold set_te, probe in H. cbn in H. inversion H; subst. reflexivity.
Qed.

Lemma te_chunks_length chunks n :
  te_chunks (TLength n) chunks =
  (TLength (n - N.min n (lenN (concat chunks))), firstn (N.to_nat n) (concat chunks)).
Proof.
  pose proof (codec_chunks_te chunks (probe (TLength n))) as H.
  rewrite (chunks_length chunks (probe (TLength n)) n eq_refl) in H.
  cbn [c_te probe] in H. destruct (te_chunks (TLength n) chunks) as [t o].
  unfold set_te, probe in H. cbn in H. inversion H; subst. reflexivity.
Qed.

Lemma te_chunks_not_terminated chunks : forall t t' o,
  t <> TChunked true -> te_chunks t chunks = (t', o) -> t' <> TChunked true.
Proof.
  induction chunks as [|b r IH]; intros t t' o Ht H; cbn [te_chunks] in H.
  - inversion H; subst. exact Ht.
  - destruct b as [|x b']; [eapply IH; eauto|].
    destruct (te_encode t (x :: b')) as [t1 o1] eqn:E1.
    destruct (te_chunks t1 r) as [t2 o2] eqn:E2. inversion H; subst.
    eapply IH; [|exact E2].
    destruct t as [[|]| |]; cbn [te_encode] in E1.
    + contradiction.
    + inversion E1; subst. discriminate.
    + destruct (0 <? remaining); inversion E1; subst; discriminate.
    + inversion E1; subst. discriminate.
Qed.

(* chunked framing without its terminating chunk never reads as a complete body *)
Lemma read_chunked_unterminated chunks : forall fuel acc,
  Forall (fun b => b <> [] /\ lenN b < 2 ^ 64) chunks ->
  read_chunked fuel (concat (map enc_chunk chunks)) acc = CShort.
Proof.
  induction chunks as [|b r IH]; intros fuel acc Hall.
  - destruct fuel; reflexivity.
  - destruct fuel; [reflexivity|]. inversion Hall as [|? ? [Hne Hlen] Hr]; subst.
    cbn [map concat read_chunked]. unfold enc_chunk at 1. rewrite <- !app_assoc.
    rewrite read_size_line_enc by assumption.
    assert (Hpos : 0 < lenN b).
    { unfold lenN. destruct b; [contradiction|cbn [length]; lia]. }
    replace (lenN b =? 0) with false by lia.
    replace (lenN (b ++ CRLF ++ concat (map enc_chunk r)) <? lenN b) with false
      by (rewrite lenN_app; lia).
    unfold lenN at 1 2. rewrite Nat2N.id.
    rewrite skipn_app, skipn_all, Nat.sub_diag. cbn [skipn app].
    rewrite firstn_app, firstn_all, Nat.sub_diag. cbn [firstn]. rewrite app_nil_r.
    unfold CRLF at 1. cbn [app]. apply IH. exact Hr.
Qed.

(* ---------------------------------------------------------------- the invariant *)
(* While response j is being streamed: d_out ends with the head of response j followed only by
   body units of j, and those body bytes are exactly what the transfer encoder chosen with the
   head (t0) produces for the chunks polled so far -- Chunk(None) has not been encoded. *)
Definition streaming (d : dstate) (j : nat) : Prop :=
  exists pre h ds t0 chunks,
    d_out d = pre ++ UHead (Some j) h :: map (UData j) ds /\
    t0 <> TChunked true /\
    te_chunks t0 chunks = (c_te (d_codec d), concat ds).

Definition K (d : dstate) : Prop :=
  match d_st d with SSend j _ => streaming d j | _ => True end /\
  match d_fail d with
  | None => True
  | Some f => (exists j e, d_st d = SSend j e) /\
              (f = FIo -> te_encode_eof (c_te (d_codec d)) = None)
  end.

Lemma item_te_not_terminated c r sz : c_te (fst (codec_encode_item c r sz)) <> TChunked true.
Proof.
  unfold codec_encode_item, codec_encode_item0, msg_encode. cbn [fst c_te]. unfold choose_te.
  destruct (negb _); [|discriminate]. destruct sz as [|[|p]|]; try discriminate.
  destruct (_ && _); discriminate.
Qed.

Section Abort.
  Variable reqs : list reqctx.
  Variable hs : list hscript.
  Variable wbs : N.

  Notation tick := (tick reqs hs wbs).
  Notation step := (step reqs hs wbs).
  Notation dispatch := (dispatch reqs hs).
  Notation settle := (settle reqs hs).

  Definition alive (d : dstate) : Prop := d_fail d = None.

  Lemma K_dispatch d j : alive d -> K (dispatch d j).
  Proof.
    intro Ha. unfold RespSeq.dispatch, K. destruct (req_expects _);
      unfold set_st, call_service; cbn [d_st d_fail]; rewrite Ha; auto.
  Qed.
  Lemma dispatch_alive d j : alive d -> alive (dispatch d j).
  Proof. unfold alive, RespSeq.dispatch. destruct (req_expects _); cbn; auto. Qed.

  Lemma K_send_response d tag r size next :
    alive d -> (forall j e, next = SSend j e -> tag = Some j) ->
    K (send_response d tag r size next) /\ alive (send_response d tag r size next).
  Proof.
    intros Ha Hn. unfold send_response.
    pose proof (item_te_not_terminated (d_codec d) r size) as Ht.
    destruct (codec_encode_item (d_codec d) r size) as [c h]. cbn [fst] in Ht.
    assert (Hs : forall st', st' = SNone \/ st' = next ->
                 K (set_st (append d c (UHead tag h)) st') /\ alive (set_st (append d c (UHead tag h)) st')).
    { intros st' Hst'. unfold K, alive, set_st, append. cbn [d_st d_fail d_out d_codec]. rewrite Ha.
      split; [split; [|exact I]|reflexivity].
      destruct Hst' as [-> | ->]; [exact I|]. destruct next as [| | |j e]; try exact I.
      rewrite (Hn j e eq_refl). exists (d_out d), h, [], (c_te c), []. cbn [map concat te_chunks]. auto. }
    destruct size as [|[|p]|]; apply Hs; auto.
  Qed.

  Lemma K_settle fuel : forall d, K d -> alive d -> K (settle fuel d) /\ alive (settle fuel d).
  Proof.
    induction fuel as [|f IH]; intros d HK Ha; [auto|]. cbn [RespSeq.settle].
    destruct (d_st d) eqn:Est; auto. destruct (d_msgs d) as [|[j|e] rest]; auto.
    - unfold pop_dispatch. split; [apply K_dispatch|apply dispatch_alive]; exact Ha.
    - destruct (K_send_response (set_msgs d rest) None (mkResp e None false []) (BSized 0) SNone) as [H1 H2];
        [exact Ha|intros; discriminate|]. apply IH; assumption.
  Qed.

  (* failing freezes the response in progress; otherwise K is kept *)
  Lemma K_tick fuel : forall d, K d -> alive d -> K (tick fuel d).
  Proof.
    induction fuel as [|f IH]; intros d HK Ha; [exact HK|]. cbn [RespSeq.tick].
    destruct (d_st d) as [|j|j|j e] eqn:Est.
    - destruct (d_msgs d) as [|[j|e] rest]; [exact HK| |].
      + unfold pop_dispatch. apply IH; [apply K_dispatch|apply dispatch_alive]; exact Ha.
      + destruct (K_settle 1 d HK Ha). apply IH; assumption.
    - apply IH; unfold K, alive, call_service, append; cbn [d_st d_fail]; rewrite Ha; auto.
    - destruct (0 <? d_pend d).
      + unfold K, set_pend. cbn [d_st d_fail d_out d_codec]. rewrite Est, Ha. auto.
      + apply K_send_response; [exact Ha|]. intros j' e' H. inversion H; subst. reflexivity.
    - destruct (d_wbuf d <? wbs); [|exact HK].
      destruct HK as [Hs _]. rewrite Est in Hs.
      destruct Hs as (pre & h & ds & t0 & chunks & Ho & Ht0 & Hte).
      destruct (body_poll (h_kind (h_of hs j)) (d_body d)) as [[|b| |] b'].
      + unfold K, set_body. cbn [d_st d_fail d_out d_codec]. rewrite Est, Ha. split; [|exact I].
        exists pre, h, ds, t0, chunks. auto.
      + (* one more chunk *)
        assert (Hc : exists t' o, codec_encode_chunk (d_codec d) b = (set_te (d_codec d) t', o) /\
                                  te_chunks t0 (chunks ++ [b]) = (t', concat ds ++ o)).
        { rewrite te_chunks_snoc, Hte. unfold codec_encode_chunk. destruct b as [|x b0].
          - exists (c_te (d_codec d)), []. rewrite <- codec_eta, app_nil_r. auto.
          - destruct (te_encode (c_te (d_codec d)) (x :: b0)) as [t' o]. exists t', o. auto. }
        destruct Hc as (t' & o & Hc1 & Hc2). rewrite Hc1.
        unfold K, set_body, append. cbn [d_st d_fail d_out d_codec]. rewrite Est, Ha. split; [|exact I].
        exists pre, h, (ds ++ [o]), t0, (chunks ++ [b]). split; [|split; [exact Ht0|]].
        * rewrite Ho, map_app. cbn [map]. rewrite <- app_assoc. reflexivity.
        * rewrite Hc2, concat_app. cbn [concat c_te set_te]. rewrite app_nil_r. reflexivity.
      + destruct (codec_encode_eof (d_codec d)) as [[c o]|] eqn:Ee.
        * unfold K, set_st, set_body, append. cbn [d_st d_fail]. rewrite Ha. auto.
        * (* short body: Err(UnexpectedEof) *)
          unfold K, set_fail. cbn [d_st d_fail d_out d_codec]. rewrite Est. split.
          -- exists pre, h, ds, t0, chunks. auto.
          -- split; [eauto|]. intros _. unfold codec_encode_eof in Ee.
             destruct (te_encode_eof (c_te (d_codec d))) as [[t o]|]; [discriminate|reflexivity].
      + (* body error *)
        unfold K, set_fail. cbn [d_st d_fail d_out d_codec]. rewrite Est. split.
        * exists pre, h, ds, t0, chunks. auto.
        * split; [eauto|]. discriminate.
  Qed.

  Lemma tick_failed_stays fuel : forall d, K d -> alive d ->
    d_fail (tick fuel d) <> None -> settle (S (length (d_msgs (tick fuel d)))) (tick fuel d) = tick fuel d.
  Proof.
    intros d HK Ha Hf. pose proof (K_tick fuel d HK Ha) as [_ H2].
    destruct (d_fail (tick fuel d)) as [f|]; [|contradiction].
    destruct H2 as [(j & e & Hst) _]. cbn [RespSeq.settle]. rewrite Hst. reflexivity.
  Qed.

  Lemma K_step d e : K d -> K (step d e).
  Proof.
    intros HK. unfold RespSeq.step. destruct (d_fail d) eqn:Ef; [exact HK|].
    assert (Ha : alive d) by exact Ef.
    destruct e as [j| | |k].
    - set (d1 := set_codec d (codec_decode (d_codec d) (req_of reqs (N.to_nat j)))).
      change (d_st d1) with (d_st d).
      destruct (d_st d) as [|k|k|k e] eqn:Est.
      + apply K_dispatch. exact Ef.
      + unfold K, set_msgs, set_codec. cbn [d_st d_fail]. change (d_st d1) with (d_st d).
        change (d_fail d1) with (d_fail d). rewrite Est, Ef. auto.
      + unfold K, set_msgs, set_codec. cbn [d_st d_fail]. change (d_st d1) with (d_st d).
        change (d_fail d1) with (d_fail d). rewrite Est, Ef. auto.
      + (* a request decoded while a body is streamed: queued, encoder untouched *)
        destruct HK as [Hs _]. rewrite Est in Hs.
        unfold K, set_msgs, set_codec. cbn [d_st d_fail d_out d_codec]. change (d_st d1) with (d_st d).
        change (d_fail d1) with (d_fail d). change (d_out d1) with (d_out d). rewrite Est, Ef.
        split; [|exact I]. exact Hs.
    - apply K_settle; [|exact Ef].
      destruct HK as [Hs _]. unfold K, set_msgs. cbn [d_st d_fail d_out d_codec]. rewrite Ef. auto.
    - set (d1 := tick (length (d_msgs d) + 4)%nat d).
      pose proof (K_tick (length (d_msgs d) + 4)%nat d HK Ha) as H1. fold d1 in H1.
      destruct (d_fail d1) eqn:Ef1.
      + pose proof (tick_failed_stays (length (d_msgs d) + 4)%nat d HK Ha) as Hst. fold d1 in Hst.
        rewrite Hst; [exact H1|rewrite Ef1; discriminate].
      + apply K_settle; [exact H1|exact Ef1].
    - destruct HK as [Hs _]. unfold K, flush. cbn [d_st d_fail d_out d_codec]. rewrite Ef. auto.
  Qed.

  Lemma K_run es : forall d, K d -> K (run reqs hs wbs d es).
  Proof.
    induction es as [|e es IH]; intros d HK; [exact HK|].
    unfold run. cbn [fold_left]. fold (run reqs hs wbs (step d e) es). apply IH, K_step, HK.
  Qed.

  Lemma frozen es : forall d, d_fail d <> None -> run reqs hs wbs d es = d.
  Proof.
    induction es as [|e es IH]; intros d Hf; [reflexivity|].
    unfold run. cbn [fold_left]. fold (run reqs hs wbs (step d e) es).
    assert (Hs : step d e = d) by (unfold RespSeq.step; destruct (d_fail d); [reflexivity|contradiction]).
    rewrite Hs. apply IH, Hf.
  Qed.

  (* For every schedule: if the connection was aborted (body error, or body shorter than its
     declared size), the response in progress j is the last thing in write_buf: its head followed
     only by its own body units; those are the transfer encoding of the chunks polled so far
     WITHOUT end-of-body (no 0-chunk: the encoder is not in Chunked(eof) state; for a short body
     the Length encoder still expects bytes); and nothing is ever appended afterwards (no later
     response head, no terminator), whatever events follow. *)
  Theorem abort_never_completes ka es f :
    let d := run reqs hs wbs (d_init ka) es in
    d_fail d = Some f ->
    exists j e pre h ds t0 chunks,
      d_st d = SSend j e /\
      d_out d = pre ++ UHead (Some j) h :: map (UData j) ds /\
      t0 <> TChunked true /\
      te_chunks t0 chunks = (c_te (d_codec d), concat ds) /\
      c_te (d_codec d) <> TChunked true /\
      (f = FIo -> exists rem, c_te (d_codec d) = TLength rem /\ 0 < rem) /\
      forall es', run reqs hs wbs d es' = d.
  Proof.
    intros d Hf.
    assert (HK : K d).
    { apply K_run. unfold K, d_init. cbn [d_st d_fail]. auto. }
    destruct HK as [Hs Hfail]. rewrite Hf in Hfail. destruct Hfail as [(j & e & Hst) Hio].
    rewrite Hst in Hs. destruct Hs as (pre & h & ds & t0 & chunks & Ho & Ht0 & Hte).
    exists j, e, pre, h, ds, t0, chunks. repeat split; auto.
    - eapply te_chunks_not_terminated; eauto.
    - intro Hfio. specialize (Hio Hfio). destruct (c_te (d_codec d)) as [eof| rem|]; cbn [te_encode_eof] in Hio.
      + destruct eof; discriminate.
      + exists rem. split; [reflexivity|]. destruct (rem =? 0) eqn:E; [discriminate|lia].
      + discriminate.
    - intros es'. apply frozen. rewrite Hf. discriminate.
  Qed.
End Abort.

(* what the two non-terminated encodings look like to a client *)
Theorem unterminated_chunked_is_incomplete chunks t' data fuel :
  Forall (fun b => lenN b < 2 ^ 64) chunks ->
  te_chunks (TChunked false) chunks = (t', data) ->
  read_chunked fuel data [] = CShort.
Proof.
  intros Hall H. rewrite te_chunks_chunked in H. inversion H; subst.
  apply read_chunked_unterminated.
  clear -Hall. induction Hall as [|b r Hb Hr IH]; cbn [filter]; [constructor|].
  destruct b; cbn [nonempty]; [exact IH|constructor; [split; [discriminate|exact Hb]|exact IH]].
Qed.

Theorem short_length_is_incomplete n chunks rem data :
  te_chunks (TLength n) chunks = (TLength rem, data) -> 0 < rem -> lenN data < n.
Proof.
  intros H Hr. rewrite te_chunks_length in H. inversion H as [[H1 H2]].
  assert (Hlt : lenN (concat chunks) < n) by lia.
  unfold lenN in *. rewrite firstn_length. lia.
Qed.
