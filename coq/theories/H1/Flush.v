(* Model of `InnerDispatcher::poll_flush` (actix-http/src/h1/dispatcher.rs:349-377):

     let len = write_buf.len();  let mut written = 0;
     while written < len {
         match io.poll_write(cx, &write_buf[written..])? {      // `?` : Err(e) is returned at once
             Poll::Ready(0) => return Ready(Err(WriteZero)),
             Poll::Ready(n) => written += n,
             Poll::Pending  => { write_buf.advance(written); return Pending; }
         }
     }
     write_buf.clear();
     io.poll_flush(cx)

   The socket is an oracle: one answer of the script per `poll_write` call (a default answer when
   the script is exhausted) and one answer for the final `poll_flush`.  No proofs in this file. *)
From AV Require Import Lib.Base.

(* answer of one poll_write call on the slice it is offered *)
Inductive wans :=
| WAccept (k : N)     (* Ready(Ok(min k |slice|)) : a partial write when k < |slice| *)
| WPending            (* Pending (the socket has stored the task's waker) *)
| WZero               (* Ready(Ok(0)) *)
| WErr.               (* Ready(Err(_)) *)

(* answer of io.poll_flush *)
Inductive fans := FReady | FPending | FErr.

(* Poll<Result<(), io::Error>> of poll_flush *)
Inductive fres := FlReady | FlPending | FlWriteZero | FlIoErr.

Record fout := mk_fout
  { f_buf : bytes            (* write_buf afterwards *)
  ; f_wire : bytes           (* bytes the socket accepted during this call, in order *)
  ; f_res : fres
  ; f_script : list wans     (* unconsumed answers *)
  ; f_wreg : bool            (* a socket write-side operation returned Pending = writer waker registered *)
  ; f_calls : N }.           (* number of poll_write calls *)

Definition next_ans (script : list wans) (dflt : wans) : wans * list wans :=
  match script with [] => (dflt, []) | a :: r => (a, r) end.

Definition slice_from (written : N) (buf : bytes) : bytes := skipn (N.to_nat written) buf.
Definition take (n : N) (l : bytes) : bytes := firstn (N.to_nat n) l.

(* the `while written < len` loop; fuel = len + 1 suffices because every continuing iteration
   advances `written` by at least one *)
Fixpoint write_loop (fuel : nat) (buf : bytes) (written : N) (script : list wans) (dflt : wans)
         (wire : bytes) (calls : N) : fout :=
  match fuel with
  | O => mk_fout buf wire FlIoErr script false calls            (* not reached, see FlushProofs *)
  | S fuel' =>
      if written <? lenN buf then
        let '(a, script') := next_ans script dflt in
        let slice := slice_from written buf in
        match a with
        | WErr => mk_fout buf wire FlIoErr script' false (calls + 1)
        | WZero => mk_fout buf wire FlWriteZero script' false (calls + 1)
        | WAccept k =>
            let n := N.min k (lenN slice) in
            if n =? 0 then mk_fout buf wire FlWriteZero script' false (calls + 1)
            else write_loop fuel' buf (written + n) script' dflt (wire ++ take n slice) (calls + 1)
        | WPending =>
            (* write_buf.advance(written) *)
            mk_fout slice wire FlPending script' true (calls + 1)
        end
      else
        (* write_buf.clear(); io.poll_flush(cx) is answered by the caller *)
        mk_fout [] wire FlReady script false calls
  end.

Definition poll_flush (buf : bytes) (script : list wans) (dflt : wans) (fl : fans) : fout :=
  let o := write_loop (S (length buf)) buf 0 script dflt [] 0 in
  match f_res o with
  | FlReady =>
      match fl with
      | FReady => o
      | FPending => mk_fout (f_buf o) (f_wire o) FlPending (f_script o) true (f_calls o)
      | FErr => mk_fout (f_buf o) (f_wire o) FlIoErr (f_script o) false (f_calls o)
      end
  | _ => o
  end.

(* A history of the write side of one connection: response bytes are appended to write_buf
   (codec.encode / extend_from_slice), poll_flush is called with some socket behaviour. *)
Inductive fop :=
| FPut (bs : bytes)
| FFlush (script : list wans) (dflt : wans) (fl : fans).

Record fstate := mk_fstate
  { s_buf : bytes            (* write_buf *)
  ; s_wire : bytes           (* everything the socket accepted so far *)
  ; s_put : bytes            (* everything ever appended to write_buf *)
  ; s_failed : bool          (* a poll_flush returned an error (the connection future then fails) *)
  ; s_last : fres            (* result of the last poll_flush *)
  ; s_wreg : bool }.         (* writer registered by the last poll_flush *)

Definition finit : fstate := mk_fstate [] [] [] false FlReady false.

Definition is_err (r : fres) : bool :=
  match r with FlWriteZero | FlIoErr => true | _ => false end.

(* once a poll_flush has failed the connection future has completed with that error and is
   never polled again: later operations do nothing *)
Definition fstep (s : fstate) (o : fop) : fstate :=
  if s_failed s then s else
  match o with
  | FPut bs => mk_fstate (s_buf s ++ bs) (s_wire s) (s_put s ++ bs) (s_failed s) (s_last s) (s_wreg s)
  | FFlush script dflt fl =>
      let r := poll_flush (s_buf s) script dflt fl in
      mk_fstate (f_buf r) (s_wire s ++ f_wire r) (s_put s) (s_failed s || is_err (f_res r))
                (f_res r) (f_wreg r)
  end.

Definition frun (ops : list fop) : fstate := fold_left fstep ops finit.
