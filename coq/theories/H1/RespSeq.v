(* Sequencing layer of C02: the response side of the HTTP/1 dispatcher at the granularity of
   events.  Transcribed from actix-http/src/h1/dispatcher.rs:
     State::{None, ExpectCall, ServiceCall, SendPayload, SendErrorPayload}, the `messages` queue,
     poll_request (Message::Item branch: decode -> handle_request eagerly or queue; parse error ->
     DispatcherMessage::Error), handle_request, poll_response, send_response /
     send_error_response, send_continue, the write-buffer gate of SendPayload.
   One [EvTick] = one poll of the in-flight handler future or response body (preceded by the
   silent transitions that lead to it); [EvArrive j] = Codec::decode returns request j;
   [EvFlush k] = the socket accepts k bytes of write_buf.
   Abstracted away (see notes/C02.md): request payloads, timers, shutdown/linger/draining,
   upgrade hand-off, the read side; the expect service is the default one (always ready). *)
From Coq Require Import String.
From AV Require Import Lib.Base H1.Encoder.
Open Scope N_scope.

Inductive bact := BPend | BChunk (b : bytes) | BErr.      (* script exhausted = end of body *)
Inductive bkind := KPlain | KFilter.                      (* KFilter: SizedStream / BodyStream skip empty chunks *)

Record hscript := mkH {
  h_pend : N;            (* Pending results before the handler completes *)
  h_fail : bool;         (* completes with Err(e), e.into() = h_resp (send_error_response) *)
  h_resp : resp;
  h_kind : bkind;
  h_size : bsize;        (* MessageBody::size() *)
  h_body : list bact }.

Inductive event := EvArrive (j : N) | EvBad | EvTick | EvFlush (k : N).

Inductive dmsg := MItem (j : nat) | MError (status : N).
Inductive dst := SNone | SExpect (j : nat) | SService (j : nat) | SSend (j : nat) (errpath : bool).
Inductive failure := FBody | FIo.

(* what was appended to write_buf, tagged with the request it answers (None: error response
   that answers no dispatched request) *)
Inductive wunit :=
| UCont (j : nat)                       (* "HTTP/1.1 100 Continue\r\n\r\n" *)
| UHead (j : option nat) (h : head)
| UData (j : nat) (b : bytes).

Definition cont_head : head := mkHead (str "HTTP/1.1 100 Continue"%string) [].
Definition unit_bytes (u : wunit) : bytes :=
  match u with
  | UCont _ => render_head cont_head
  | UHead _ h => render_head h
  | UData _ b => b
  end.
Definition units_bytes (us : list wunit) : bytes := concat (map unit_bytes us).

Record dstate := mkD {
  d_codec : codec;
  d_st : dst;
  d_msgs : list dmsg;
  d_pend : N;              (* in-flight handler: Pending results left *)
  d_body : list bact;      (* in-flight body: script left *)
  d_wbuf : N;              (* write_buf.len() *)
  d_out : list wunit;      (* everything appended to write_buf, oldest first *)
  d_flushed : N;           (* bytes accepted by the socket *)
  d_started : list nat;    (* service calls started, oldest first *)
  d_fail : option failure }.

Definition d_init (ka : bool) : dstate :=
  mkD (codec_new ka) SNone [] 0 [] 0 [] 0 [] None.

Section Cfg.
  Variable reqs : list reqctx.
  Variable hs : list hscript.
  Variable wbs : N.           (* h1_write_buffer_size *)

  Definition dflt_req : reqctx := mkReq false V11 None false false.
  Definition dflt_h : hscript := mkH 0 false (mkResp 500 None false []) KPlain BNone [].
  Definition req_of (j : nat) : reqctx := nth j reqs dflt_req.
  Definition h_of (j : nat) : hscript := nth j hs dflt_h.

  (* RequestHead::expect(): set by the decoder only for HTTP/1.1 (repaired: F23) *)
  Definition req_expects (r : reqctx) : bool := rq_expect r && negb (lt_11 (rq_ver r)).

  Definition set_st (d : dstate) (s : dst) : dstate :=
    mkD (d_codec d) s (d_msgs d) (d_pend d) (d_body d) (d_wbuf d) (d_out d) (d_flushed d) (d_started d) (d_fail d).
  Definition set_msgs (d : dstate) (m : list dmsg) : dstate :=
    mkD (d_codec d) (d_st d) m (d_pend d) (d_body d) (d_wbuf d) (d_out d) (d_flushed d) (d_started d) (d_fail d).
  Definition set_fail (d : dstate) (f : failure) : dstate :=
    mkD (d_codec d) (d_st d) (d_msgs d) (d_pend d) (d_body d) (d_wbuf d) (d_out d) (d_flushed d) (d_started d) (Some f).
  Definition set_codec (d : dstate) (c : codec) : dstate :=
    mkD c (d_st d) (d_msgs d) (d_pend d) (d_body d) (d_wbuf d) (d_out d) (d_flushed d) (d_started d) (d_fail d).

  Definition append (d : dstate) (c : codec) (u : wunit) : dstate :=
    mkD c (d_st d) (d_msgs d) (d_pend d) (d_body d) (d_wbuf d + lenN (unit_bytes u)) (d_out d ++ [u])
        (d_flushed d) (d_started d) (d_fail d).

  (* flow.service.call(req): the handler future and (later) its body are scripts *)
  Definition call_service (d : dstate) (j : nat) : dstate :=
    mkD (d_codec d) (SService j) (d_msgs d) (h_pend (h_of j)) (h_body (h_of j)) (d_wbuf d) (d_out d)
        (d_flushed d) (d_started d ++ [j]) (d_fail d).

  (* State::None + a request: ExpectCall or ServiceCall *)
  Definition dispatch (d : dstate) (j : nat) : dstate :=
    if req_expects (req_of j) then set_st d (SExpect j) else call_service d j.

  (* send_response / send_error_response (no unread request payload, not draining) *)
  Definition send_response (d : dstate) (tag : option nat) (r : resp) (size : bsize) (next : dst) : dstate :=
    let '(c, h) := codec_encode_item (d_codec d) r size in
    let d1 := append d c (UHead tag h) in
    match size with
    | BNone | BSized 0 => set_st d1 SNone
    | _ => set_st d1 next
    end.

  (* poll_response, State::None, Some(DispatcherMessage::Item(req)): the codec context is
     re-derived from the request's own head (F12 repair), then ExpectCall / ServiceCall *)
  Definition pop_dispatch (d : dstate) (rest : list dmsg) (j : nat) : dstate :=
    let c := d_codec d in
    dispatch (set_codec (set_msgs d rest) (set_request_context c (request_context c (req_of j)))) j.

  (* poll_response with State::None: pop the queue until a request is dispatched.
     DispatcherMessage::Error(res): send_error_response(res, BoxBody::new(())); size of () = Sized(0) *)
  Fixpoint settle (fuel : nat) (d : dstate) : dstate :=
    match fuel with
    | O => d
    | S f => match d_st d, d_msgs d with
             | SNone, MError s :: rest =>
                 settle f (send_response (set_msgs d rest) None (mkResp s None false []) (BSized 0) SNone)
             | SNone, MItem j :: rest => pop_dispatch d rest j
             | _, _ => d
             end
    end.

  (* MessageBody::poll_next on the scripted body *)
  Inductive bres := BRPend | BRChunk (b : bytes) | BREnd | BRErr.
  Fixpoint body_poll (k : bkind) (s : list bact) : bres * list bact :=
    match s with
    | [] => (BREnd, [])
    | BPend :: r => (BRPend, r)
    | BErr :: r => (BRErr, r)
    | BChunk b :: r =>
        match k, b with
        | KFilter, [] => body_poll k r
        | _, _ => (BRChunk b, r)
        end
    end.

  Definition set_body (d : dstate) (b : list bact) : dstate :=
    mkD (d_codec d) (d_st d) (d_msgs d) (d_pend d) b (d_wbuf d) (d_out d) (d_flushed d) (d_started d) (d_fail d).
  Definition set_pend (d : dstate) (p : N) : dstate :=
    mkD (d_codec d) (d_st d) (d_msgs d) p (d_body d) (d_wbuf d) (d_out d) (d_flushed d) (d_started d) (d_fail d).

  (* one iteration-to-a-poll of poll_response's loop *)
  Fixpoint tick (fuel : nat) (d : dstate) : dstate :=
    match fuel with
    | O => d
    | S f =>
        match d_st d with
        | SNone =>
            match d_msgs d with
            | [] => d                                   (* all messages dealt with *)
            | MItem j :: rest => tick f (pop_dispatch d rest j)
            | MError _ :: _ => tick f (settle 1 d)
            end
        | SExpect j =>                                  (* ExpectHandler is ready at once *)
            tick f (call_service (append d (d_codec d) (UCont j)) j)
        | SService j =>
            if 0 <? d_pend d then set_pend d (d_pend d - 1)   (* Poll::Pending *)
            else let h := h_of j in
                 send_response d (Some j) (h_resp h) (h_size h) (SSend j (h_fail h))
        | SSend j e =>
            if d_wbuf d <? wbs then
              match body_poll (h_kind (h_of j)) (d_body d) with
              | (BRPend, b') => set_body d b'
              | (BRChunk b, b') =>
                  let '(c, out) := codec_encode_chunk (d_codec d) b in
                  set_body (append d c (UData j out)) b'
              | (BREnd, b') =>
                  match codec_encode_eof (d_codec d) with
                  | Some (c, out) => set_st (set_body (append d c (UData j out)) b') SNone
                  | None => set_fail d FIo                 (* DispatchError::Io(UnexpectedEof) *)
                  end
              | (BRErr, _) => set_fail d FBody              (* DispatchError::Body *)
              end
            else d                                          (* PollResponse::DrainWriteBuf *)
        end
    end.

  Definition flush (d : dstate) (k : N) : dstate :=
    let k := N.min k (d_wbuf d) in
    mkD (d_codec d) (d_st d) (d_msgs d) (d_pend d) (d_body d) (d_wbuf d - k) (d_out d) (d_flushed d + k)
        (d_started d) (d_fail d).

  Definition step (d : dstate) (e : event) : dstate :=
    match d_fail d with
    | Some _ => d                                          (* the connection future has resolved *)
    | None =>
        match e with
        | EvArrive j =>
            let j := N.to_nat j in
            (* poll_request remembers the context of the response in flight; Codec::decode stores
               the new request's context ... *)
            let ctx_in_flight := current_context (d_codec d) in
            let d1 := set_codec d (codec_decode (d_codec d) (req_of j)) in
            (* ... the request is handled eagerly, or queued and the context restored (F12 repair) *)
            match d_st d1 with
            | SNone => dispatch d1 j
            | _ => set_msgs (set_codec d1 (set_request_context (d_codec d1) ctx_in_flight))
                            (d_msgs d1 ++ [MItem j])
            end
        | EvBad => settle (S (S (length (d_msgs d)))) (set_msgs d (d_msgs d ++ [MError 400]))
        | EvTick =>
            let d1 := tick (length (d_msgs d) + 4)%nat d in
            (* after an error the state stays SendPayload, so this is the identity then *)
            settle (S (length (d_msgs d1))) d1
        | EvFlush k => flush d k
        end
    end.

  Definition run (d : dstate) (es : list event) : dstate := fold_left step es d.
End Cfg.
