(* H1/FramingProofs.v — every ambiguous or malformed length declaration is rejected. *)
From AV Require Import Lib.Base H1.Chunked H1.PayloadDec H1.Framing.

Definition is_cl (h : header) : Prop := lower (fst h) = n_content_length.
Definition is_te (h : header) : Prop := lower (fst h) = n_transfer_encoding.

Lemma headers_fold_app ver l1 : forall a l2,
  headers_fold ver a (l1 ++ l2) =
  match headers_fold ver a l1 with Some a' => headers_fold ver a' l2 | None => None end.
Proof.
  induction l1 as [|h l1 IH]; intros a l2; cbn [app headers_fold]; [reflexivity|].
  destruct (header_step ver a h); [apply IH|reflexivity].
Qed.

Lemma names_distinct :
  bytes_eqb n_content_length n_transfer_encoding = false /\
  bytes_eqb n_transfer_encoding n_content_length = false.
Proof. split; reflexivity. Qed.

(* ---- Content-Length ---------------------------------------------------------------------- *)
Lemma digits_u64_spec s : forall acc n, digits_u64 acc s = Some n ->
  forallb is_digit s = true /\ n <= u64_max \/ (s = [] /\ n = acc).
Proof.
  induction s as [|b s IH]; intros acc n H; cbn [digits_u64] in H.
  - right. inversion H; auto.
  - left. destruct (is_digit b) eqn:Ed; [|discriminate].
    destruct (acc * 10 + (b - 48) <=? u64_max) eqn:Eb; [|discriminate].
    cbn [forallb]. rewrite Ed. destruct (IH _ _ H) as [[Hd Hn]|[-> ->]]; split; auto; lia.
Qed.

(* what an accepted Content-Length header looks like *)
Theorem cl_accepted_is_decimal ver a h a' :
  is_cl h -> header_step ver a h = Some a' ->
  h_cl a = None /\ to_str_ok (snd h) = true /\ trim (snd h) <> [] /\
  forallb is_digit (trim (snd h)) = true /\
  exists len, h_cl a' = Some len /\ len <= u64_max /\ digits_u64 0 (trim (snd h)) = Some len.
Proof.
  unfold is_cl, header_step. intros Hn H. rewrite Hn in H. rewrite bytes_eqb_refl in H.
  destruct (h_cl a) eqn:Ecl; [discriminate|].
  destruct (to_str_ok (snd h)) eqn:Ets; [|discriminate].
  destruct (starts_with [43] (trim (snd h))) eqn:Ep; [discriminate|].
  destruct (parse_u64 (trim (snd h))) as [len|] eqn:Epu; [|discriminate].
  inversion H; subst a'. cbn [h_cl].
  unfold parse_u64 in Epu. destruct (trim (snd h)) as [|b r] eqn:Et; [discriminate|].
  assert (b =? 43 = false) as Eb.
  { cbn [starts_with] in Ep. destruct (43 =? b) eqn:E43; [discriminate|lia]. }
  rewrite Eb in Epu.
  destruct (digits_u64_spec _ _ _ Epu) as [[Hd Hl]|[Hx _]]; [|discriminate].
  repeat split; try assumption; try discriminate. exists len. auto.
Qed.

Lemma header_step_keeps_cl ver a h a' x :
  h_cl a = Some x -> header_step ver a h = Some a' -> h_cl a' = Some x.
Proof.
  unfold header_step. intros Hc H. rewrite Hc in H.
  repeat match type of H with
  | context [if ?c then _ else _] => destruct c
  end; try discriminate H; inversion H; subst; cbn [h_cl]; first [assumption|reflexivity|congruence].
Qed.

Lemma headers_fold_keeps_cl ver l : forall a a' x,
  h_cl a = Some x -> headers_fold ver a l = Some a' -> h_cl a' = Some x.
Proof.
  induction l as [|h l IH]; intros a a' x Hc H; cbn [headers_fold] in H.
  - inversion H; subst; assumption.
  - destruct (header_step ver a h) as [a1|] eqn:E; [|discriminate].
    eapply IH; [eapply header_step_keeps_cl; eassumption|exact H].
Qed.

(* repeated Content-Length (equal values or not) *)
Theorem cl_repeated_rejected ver l1 h1 l2 h2 l3 :
  is_cl h1 -> is_cl h2 -> set_headers ver (l1 ++ h1 :: l2 ++ h2 :: l3) = None.
Proof.
  intros H1 H2. unfold set_headers.
  rewrite headers_fold_app. destruct (headers_fold ver hacc0 l1) as [a1|]; [|reflexivity].
  cbn [headers_fold]. destruct (header_step ver a1 h1) as [a2|] eqn:E1; [|reflexivity].
  destruct (cl_accepted_is_decimal _ _ _ _ H1 E1) as (_ & _ & _ & _ & len & Hlen & _).
  rewrite headers_fold_app. destruct (headers_fold ver a2 l2) as [a3|] eqn:E2; [|reflexivity].
  pose proof (headers_fold_keeps_cl _ _ _ _ _ Hlen E2) as H3.
  cbn [headers_fold]. unfold header_step at 1. unfold is_cl in H2. rewrite H2, bytes_eqb_refl, H3. reflexivity.
Qed.

(* a Content-Length that is not 1*DIGIT within u64 (empty, signed, hex, trailing junk, too big,
   non-ASCII) *)
Theorem cl_malformed_rejected ver l1 h l2 :
  is_cl h ->
  (to_str_ok (snd h) = false \/ trim (snd h) = [] \/ forallb is_digit (trim (snd h)) = false \/
   digits_u64 0 (trim (snd h)) = None) ->
  set_headers ver (l1 ++ h :: l2) = None.
Proof.
  intros Hh Hbad. unfold set_headers. rewrite headers_fold_app.
  destruct (headers_fold ver hacc0 l1) as [a1|]; [|reflexivity].
  cbn [headers_fold]. destruct (header_step ver a1 h) as [a2|] eqn:E; [|reflexivity].
  destruct (cl_accepted_is_decimal _ _ _ _ Hh E) as (_ & Hs & Hne & Hd & len & _ & _ & Hdig).
  destruct Hbad as [Hb|[Hb|[Hb|Hb]]]; congruence.
Qed.

(* ---- Transfer-Encoding ------------------------------------------------------------------- *)
Lemma header_step_te_sets_seen a h a' :
  is_te h -> header_step V11 a h = Some a' -> h_seen_te a = false /\ h_seen_te a' = true.
Proof.
  unfold is_te, header_step. intros Hn H. rewrite Hn in H.
  destruct names_distinct as [_ Hd]. rewrite Hd in H. rewrite bytes_eqb_refl in H.
  destruct (h_seen_te a) eqn:Es; cbn [andb] in H; [discriminate|].
  cbn [version_eqb] in H.
  repeat match type of H with
  | context [if ?c then _ else _] => destruct c
  end; try discriminate H; inversion H; subst; cbn [h_seen_te]; auto.
Qed.

Lemma header_step_keeps_seen ver a h a' :
  h_seen_te a = true -> header_step ver a h = Some a' -> h_seen_te a' = true.
Proof.
  unfold header_step. intros Hc H. rewrite Hc in H.
  repeat match type of H with
  | context [match ?c with Some _ => _ | None => _ end] => destruct c
  | context [if ?c then _ else _] => destruct c
  end; try discriminate H; inversion H; subst; cbn [h_seen_te]; first [assumption|reflexivity|congruence].
Qed.

Lemma headers_fold_keeps_seen ver l : forall a a',
  h_seen_te a = true -> headers_fold ver a l = Some a' -> h_seen_te a' = true.
Proof.
  induction l as [|h l IH]; intros a a' Hc H; cbn [headers_fold] in H.
  - inversion H; subst; assumption.
  - destruct (header_step ver a h) as [a1|] eqn:E; [|discriminate].
    eapply IH; [eapply header_step_keeps_seen; eassumption|exact H].
Qed.

(* two Transfer-Encoding header fields (HTTP/1.1) *)
Theorem te_repeated_rejected l1 h1 l2 h2 l3 :
  is_te h1 -> is_te h2 -> set_headers V11 (l1 ++ h1 :: l2 ++ h2 :: l3) = None.
Proof.
  intros H1 H2. unfold set_headers.
  rewrite headers_fold_app. destruct (headers_fold V11 hacc0 l1) as [a1|]; [|reflexivity].
  cbn [headers_fold]. destruct (header_step V11 a1 h1) as [a2|] eqn:E1; [|reflexivity].
  destruct (header_step_te_sets_seen _ _ _ H1 E1) as [_ Hs].
  rewrite headers_fold_app. destruct (headers_fold V11 a2 l2) as [a3|] eqn:E2; [|reflexivity].
  pose proof (headers_fold_keeps_seen _ _ _ _ Hs E2) as H3.
  cbn [headers_fold]. unfold header_step at 1. unfold is_te in H2. rewrite H2.
  destruct names_distinct as [_ Hd]. rewrite Hd, bytes_eqb_refl, H3. reflexivity.
Qed.

(* a Transfer-Encoding value other than "chunked" / "identity" (gzip, "gzip, chunked", ...) *)
Theorem te_value_rejected l1 h l2 :
  is_te h ->
  eq_nocase (trim (snd h)) s_chunked = false -> eq_nocase (trim (snd h)) s_identity = false ->
  set_headers V11 (l1 ++ h :: l2) = None.
Proof.
  intros Hh Hc Hi. unfold set_headers. rewrite headers_fold_app.
  destruct (headers_fold V11 hacc0 l1) as [a1|]; [|reflexivity].
  cbn [headers_fold]. unfold header_step at 1. unfold is_te in Hh. rewrite Hh.
  destruct names_distinct as [_ Hd]. rewrite Hd, bytes_eqb_refl.
  destruct (h_seen_te a1); cbn [andb]; [reflexivity|]. cbn [version_eqb].
  destruct (to_str_ok (snd h)); [|reflexivity]. rewrite Hc, Hi. reflexivity.
Qed.

Lemma has_header_in n hs h : In h hs -> lower (fst h) = n -> has_header n hs = true.
Proof.
  intros Hin Hn. unfold has_header. apply existsb_exists. exists h. split; [assumption|].
  rewrite Hn. apply bytes_eqb_refl.
Qed.

(* Transfer-Encoding on an HTTP/1.0 request *)
Theorem te_on_http10_rejected method hs h :
  In h hs -> is_te h -> request_payload V10 method hs = None.
Proof.
  intros Hin Hte. unfold request_payload.
  destruct (set_headers V10 hs) as [[[l ka] e]|]; [|reflexivity].
  rewrite (has_header_in _ _ _ Hin Hte). cbn [version_eqb negb]. reflexivity.
Qed.

(* Content-Length together with Transfer-Encoding, in either order, whatever the values *)
Theorem cl_with_te_rejected ver method hs h1 h2 :
  In h1 hs -> is_cl h1 -> In h2 hs -> is_te h2 -> request_payload ver method hs = None.
Proof.
  intros Hi1 H1 Hi2 H2. unfold request_payload.
  destruct (set_headers ver hs) as [[[l ka] e]|]; [|reflexivity].
  rewrite (has_header_in _ _ _ Hi2 H2), (has_header_in _ _ _ Hi1 H1).
  destruct (version_eqb ver V10); [reflexivity|].
  destruct (msg_chunked hs) as [[|]|]; reflexivity.
Qed.

(* a Transfer-Encoding whose (first) value does not even mention chunked, e.g. identity *)
Theorem te_without_chunked_rejected ver method hs h :
  In h hs -> is_te h -> msg_chunked hs <> Some true -> request_payload ver method hs = None.
Proof.
  intros Hin Hte Hm. unfold request_payload.
  destruct (set_headers ver hs) as [[[l ka] e]|]; [|reflexivity].
  rewrite (has_header_in _ _ _ Hin Hte).
  destruct (version_eqb ver V10); [reflexivity|].
  destruct (msg_chunked hs) as [[|]|]; try reflexivity. congruence.
Qed.

(* HTTP/1.0 POST without a length *)
Theorem post10_without_length_rejected hs l ka e :
  set_headers V10 hs = Some (l, ka, e) -> plen_is_none l = true ->
  request_payload V10 m_POST hs = None.
Proof.
  intros Hs Hl. unfold request_payload. rewrite Hs.
  destruct (has_header n_transfer_encoding hs); cbn [version_eqb negb]; [reflexivity|].
  rewrite Hl. reflexivity.
Qed.

(* and the positive side: what an accepted request's payload is *)
Theorem accepted_payload_kinds ver method hs pt ka e :
  request_payload ver method hs = Some (pt, ka, e) ->
  match pt with
  | PTNone => True
  | PTPayload (KLength n) => 0 < n /\ n <= u64_max /\ has_header n_transfer_encoding hs = false
  | PTPayload (KChunked s sz) => s = Size /\ sz = 0 /\ ver = V11 /\ has_header n_content_length hs = false
  | PTPayload KEof => False
  | PTStream k => k = KEof
  end.
Proof.
  unfold request_payload. destruct (set_headers ver hs) as [[[l ka0] e0]|] eqn:Hs; [|discriminate].
  unfold set_headers in Hs. destruct (headers_fold ver hacc0 hs) as [a|] eqn:Hf; [|discriminate].
  inversion Hs; subst l ka0 e0. clear Hs. intro H.
  destruct (has_header n_transfer_encoding hs) eqn:Hte.
  - destruct (version_eqb ver V10) eqn:Ev; [discriminate|].
    destruct (msg_chunked hs) as [[|]|]; try discriminate.
    destruct (has_header n_content_length hs) eqn:Hcl; [discriminate|]. cbn [negb andb] in H.
    unfold plen_of in H. destruct (h_chunked a).
    + cbn [plen_is_zero kchunked0] in H. inversion H; subst. repeat split; try reflexivity.
      destruct ver; [discriminate|reflexivity].
    + destruct (h_ws a); cbn [plen_is_zero] in H.
      * inversion H; subst; reflexivity.
      * (* a Content-Length value can only come from a Content-Length header *)
        destruct (h_cl a) as [n|] eqn:Hn.
        -- exfalso. clear H. revert Hn Hcl.
           assert (G : forall l a0 a1 n, headers_fold ver a0 l = Some a1 -> h_cl a0 = None -> h_cl a1 = Some n ->
                         has_header n_content_length l = true).
           { induction l as [|h l IH]; intros a0 a1 n0 Hfold H0 H1; cbn [headers_fold] in Hfold.
             - inversion Hfold; subst; congruence.
             - destruct (header_step ver a0 h) as [a2|] eqn:Es; [|discriminate].
               unfold has_header. cbn [existsb].
               destruct (bytes_eqb (lower (fst h)) n_content_length) eqn:En; [reflexivity|].
               cbn [orb]. eapply IH; [exact Hfold| |exact H1].
               unfold header_step in Es. rewrite En in Es.
               repeat match type of Es with
               | context [if ?c then _ else _] => destruct c
               end; try discriminate Es; inversion Es; subst; cbn [h_cl]; assumption. }
           intros Hn Hcl. rewrite (G hs hacc0 a n Hf eq_refl Hn) in Hcl. discriminate.
        -- destruct (bytes_eqb method m_CONNECT); inversion H; subst; try reflexivity; exact I.
  - cbn [negb] in H.
    destruct (version_eqb ver V10 && bytes_eqb method m_POST && plen_is_none (plen_of a)); [discriminate|].
    unfold plen_of in H. destruct (h_chunked a) eqn:Hch.
    + (* chunked flag can only come from a TE header *)
      exfalso. clear H.
      assert (G : forall l a0 a1, headers_fold ver a0 l = Some a1 -> h_chunked a0 = false -> h_chunked a1 = true ->
                    has_header n_transfer_encoding l = true).
      { induction l as [|h l IH]; intros a0 a1 Hfold H0 H1; cbn [headers_fold] in Hfold.
        - inversion Hfold; subst; congruence.
        - destruct (header_step ver a0 h) as [a2|] eqn:Es; [|discriminate].
          unfold has_header. cbn [existsb].
          destruct (bytes_eqb (lower (fst h)) n_transfer_encoding) eqn:En; [reflexivity|].
          cbn [orb]. eapply IH; [exact Hfold| |exact H1].
          unfold header_step in Es. rewrite En in Es. cbn [andb] in Es.
          repeat match type of Es with
          | context [match ?c with Some _ => _ | None => _ end] => destruct c
          | context [if ?c then _ else _] => destruct c
          end; try discriminate Es; inversion Es; subst; cbn [h_chunked]; assumption. }
      rewrite (G hs hacc0 a Hf eq_refl Hch) in Hte. discriminate.
    + destruct (h_ws a); cbn [plen_is_zero] in H.
      * inversion H; subst; reflexivity.
      * destruct (h_cl a) as [n|] eqn:Hn.
        -- destruct (n =? 0) eqn:E0.
           ++ assert (n = 0) by lia. subst n. cbn [plen_is_zero] in H.
              destruct (bytes_eqb method m_CONNECT); inversion H; subst; try reflexivity; exact I.
           ++ assert (plen_is_zero (LPayload (KLength n)) = false) as Hz by (destruct n; [lia|reflexivity]).
              rewrite Hz in H. inversion H; subst. split; [lia|]. split; [|reflexivity].
              (* bound: from the fold *)
              assert (G : forall l a0 a1, headers_fold ver a0 l = Some a1 ->
                            (forall x, h_cl a0 = Some x -> x <= u64_max) -> forall x, h_cl a1 = Some x -> x <= u64_max).
              { induction l as [|h l IH]; intros a0 a1 Hfold H0 x Hx; cbn [headers_fold] in Hfold.
                - inversion Hfold; subst; auto.
                - destruct (header_step ver a0 h) as [a2|] eqn:Es; [|discriminate].
                  eapply IH; [exact Hfold| |exact Hx].
                  intros y Hy. destruct (bytes_eqb (lower (fst h)) n_content_length) eqn:En.
                  + apply bytes_eqb_eq in En.
                    destruct (cl_accepted_is_decimal _ _ _ _ En Es) as (_ & _ & _ & _ & len & Hl & Hb & _).
                    congruence.
                  + apply H0. unfold header_step in Es. rewrite En in Es.
                    repeat match type of Es with
                    | context [if ?c then _ else _] => destruct c
                    end; try discriminate Es; inversion Es; subst; cbn [h_cl] in Hy; assumption. }
              eapply (G hs hacc0 a Hf); [intros x Hx; discriminate|exact Hn].
        -- destruct (bytes_eqb method m_CONNECT); inversion H; subst; try reflexivity; exact I.
Qed.
