(* H1/ChunkedGenProofs.v — ties the hand-written one-byte step [Chunked.cstep] to the byte-class
   tables that tools/extract_consts.py regenerates from actix-http/src/h1/chunked.rs on every
   check run (Gen/ChunkedClasses.v).

   [interp_arms] gives the tables their Rust meaning: the first arm whose pattern contains the
   byte and whose guard holds is taken (`match` semantics); guards are the ones written in the
   source ("!first", "size > 0", "size == 0"; an unknown guard matches nothing and produces the
   marker [Pend], which [cstep] never returns); AHex arms feed `size_digit`.
   [cstep_matches_generated]: for every state and every byte value, [cstep] = interpretation of
   the generated table selected by the generated dispatch of `ChunkedState::step`.
   The proof is a finite check (11 states x 2 x 256 bytes, vm_compute) on a size-independent
   symbolic form; a changed byte class in the Rust source changes the table and breaks it. *)
From Coq Require Import String.
From AV Require Import Lib.Base Gen.ChunkedClasses H1.Chunked.
Open Scope N_scope.

(* size-independent form of a step result *)
Inductive sres := RErr | RGoto (s : cst) | RDigit (d : N) | RNone.

Definition realize (sz : N) (r : sres) : res (cst * N) :=
  match r with
  | RErr => Err
  | RGoto s => Ok (s, sz)
  | RDigit d => size_digit sz d
  | RNone => Pend
  end.

Definition lws_sym (b : byte) : sres :=
  if (b =? 9) || (b =? 32) then RGoto SizeLws
  else if b =? 59 then RGoto Extension
  else if b =? 13 then RGoto SizeLf
  else RErr.

(* [cstep] with the size abstracted to the one fact the arms test: pos = (0 <? size) *)
Definition cstep_sym (s : cst) (pos : bool) (b : byte) : sres :=
  match s with
  | Size => match hexval b with Some d => RDigit d | None => RErr end
  | SizeDigits => match hexval b with Some d => RDigit d | None => lws_sym b end
  | SizeLws => lws_sym b
  | Extension => if b =? 13 then RGoto SizeLf else if ext_forbidden b then RErr else RGoto Extension
  | SizeLf => if b =? 10 then (if pos then RGoto Body else RGoto EndCr) else RErr
  | BodyCr => if b =? 13 then RGoto BodyLf else RErr
  | BodyLf => if b =? 10 then RGoto Size else RErr
  | EndCr => if b =? 13 then RGoto EndLf else RErr
  | EndLf => if b =? 10 then RGoto End else RErr
  | Body | End => RErr
  end.

Lemma cstep_realize s sz b : cstep s sz b = realize sz (cstep_sym s (0 <? sz) b).
Proof.
  destruct s; cbn [cstep cstep_sym]; unfold lws_ext_cr, lws_sym;
    repeat match goal with
    | |- context [match hexval b with _ => _ end] => destruct (hexval b)
    | |- context [if ?c then _ else _] => destruct c
    end; reflexivity.
Qed.

(* ---- meaning of the generated tables -------------------------------------------------------- *)
Definition state_name (s : cst) : string :=
  match s with
  | Size => "Size" | SizeDigits => "SizeDigits" | SizeLws => "SizeLws" | Extension => "Extension"
  | SizeLf => "SizeLf" | Body => "Body" | BodyCr => "BodyCr" | BodyLf => "BodyLf"
  | EndCr => "EndCr" | EndLf => "EndLf" | End => "End"
  end%string.
Definition all_states : list cst :=
  [Size; SizeDigits; SizeLws; Extension; SizeLf; Body; BodyCr; BodyLf; EndCr; EndLf; End].
Definition state_of_name (n : string) : option cst :=
  find (fun s => String.eqb (state_name s) n) all_states.

Fixpoint assoc {A} (k : string) (l : list (string * A)) : option A :=
  match l with [] => None | (k', v) :: r => if String.eqb k k' then Some v else assoc k r end.

Definition in_ranges (b : N) (rs : list (N * N)) : bool :=
  existsb (fun r => (fst r <=? b) && (b <=? snd r)) rs.

Definition guard_holds (g : string) (first pos : bool) : option bool :=
  if String.eqb g "" then Some true
  else if String.eqb g "!first" then Some (negb first)
  else if String.eqb g "size > 0" then Some pos
  else if String.eqb g "size == 0" then Some (negb pos)
  else None.

Fixpoint interp_sym (rows : list row) (first pos : bool) (b : byte) : sres :=
  match rows with
  | [] => RNone
  | (rs, g, a) :: more =>
      match guard_holds g first pos with
      | None => RNone
      | Some ok =>
          if in_ranges b rs && ok then
            match a with
            | AErr => RErr
            | AGoto n => match state_of_name n with Some s => RGoto s | None => RNone end
            | AHex add sub => RDigit (b + add - sub)
            end
          else interp_sym more first pos b
      end
  end.

(* the table and the `first` argument that ChunkedState::step selects for a state *)
Definition arms_of (s : cst) : option (list row * bool) :=
  match assoc (state_name s) step_dispatch with
  | Some (fn, arg) =>
      match assoc fn arm_tables with
      | Some rows => Some (rows, String.eqb arg "true")
      | None => None
      end
  | None => None
  end.

Definition interp_arms (s : cst) (sz : N) (b : byte) : res (cst * N) :=
  match arms_of s with
  | Some (rows, first) => realize sz (interp_sym rows first (0 <? sz) b)
  | None => Err          (* Body / End: not byte! states (read_body, End) *)
  end.

(* ---- the finite check ------------------------------------------------------------------------ *)
Definition sres_eqb (x y : sres) : bool :=
  match x, y with
  | RErr, RErr | RNone, RNone => true
  | RGoto s, RGoto t => cst_eqb s t
  | RDigit d, RDigit e => d =? e
  | _, _ => false
  end.

Lemma sres_eqb_eq x y : sres_eqb x y = true -> x = y.
Proof.
  destruct x as [|s|d|], y as [|t|e|]; cbn; intro H; try discriminate; try reflexivity.
  - destruct s, t; try discriminate H; reflexivity.
  - apply N.eqb_eq in H. congruence.
Qed.

Definition bytes256 : list N := map N.of_nat (seq 0 256).

Definition check_state (s : cst) : bool :=
  match arms_of s with
  | Some (rows, first) =>
      forallb (fun pos => forallb (fun b => sres_eqb (cstep_sym s pos b) (interp_sym rows first pos b)) bytes256)
              [true; false]
  | None => match s with Body | End => true | _ => false end
  end.

Lemma tables_checked : forallb check_state all_states = true.
Proof. vm_compute. reflexivity. Qed.

Lemma in_bytes256 b : b < 256 -> In b bytes256.
Proof.
  intro H. unfold bytes256. rewrite <- (N2Nat.id b). apply in_map. apply in_seq. lia.
Qed.

Theorem cstep_matches_generated : forall s sz b, b < 256 -> cstep s sz b = interp_arms s sz b.
Proof.
  intros s sz b Hb.
  assert (Hs : check_state s = true).
  { pose proof tables_checked as T. rewrite forallb_forall in T. apply T. destruct s; cbn; tauto. }
  unfold check_state in Hs. unfold interp_arms. rewrite cstep_realize.
  destruct (arms_of s) as [[rows first]|].
  - rewrite forallb_forall in Hs.
    assert (Hp : In (0 <? sz) [true; false]) by (destruct (0 <? sz); cbn; tauto).
    specialize (Hs _ Hp). rewrite forallb_forall in Hs.
    rewrite (sres_eqb_eq _ _ (Hs b (in_bytes256 b Hb))). reflexivity.
  - destruct s; try discriminate Hs; reflexivity.
Qed.
