(* `Expect: 100-continue` in the connection model (actix-http/src/h1/dispatcher.rs: State::ExpectCall,
   handle_request 812-853, the ExpectCall arm of poll_response 775-798, send_continue 562).

   ExpectCall { fut: expect.call(req) } is polled exactly like ServiceCall { fut }:
     Ready(Ok(req))  -> `100 Continue` into write_buf, state := ServiceCall { service.call(req) },
                        polled in the same loop iteration;
     Ready(Err(e))   -> send_error_response(e.into())  (the SAME function the ServiceCall Err arm
                        calls: close_for_unread_payload = messages.is_empty() &&
                        should_close_for_unread_payload(payload, payload_drainable); state
                        SendErrorPayload when the error response has a body);
     Pending         -> return.
   So the pair ExpectCall;ServiceCall is ONE call future on behalf of the request which first pends
   as long as the expect future pends and then either fails (Err arm) or goes on as the handler.
   [desugar] writes exactly that future as a handler script of ConnState; [expect_err] is the Err arm
   as a transition of its own, and [service_arm_is_expect_err] shows that the model's run of a
   desugared reject IS that transition. The request (with its payload receiver) is owned by the
   expect future and dropped when it resolves to Err ([drop_rx]).

   Not modelled: the interim `HTTP/1.1 100 Continue` bytes in write_buf (the harness strips them
   from the compared wire and judges them in its oracle; accepted cases are generated without
   blocked writes), and the fact that a PENDING ExpectCall returns from poll_response without the
   extra poll_request of the ServiceCall arm (that call finds read_buf already decoded by the read
   phase of the same poll; 0 disagreements on the generated cases). *)
Require Import AV.Lib.Base AV.H1.ConnRec AV.H1.ConnState AV.H1.ConnSpec AV.H1.ConnProofs AV.H1.ConnLocal.
Require Import AV.H1.ConnQuiet.

(* expect script of a request: no Expect header, or the expect service pends [pend] polls and then
   accepts (status = 0) or rejects with Err(e), e.into() = response (status, body bytes, stream
   pends) *)
Inductive eact := XNone | XExpect (pend status body bpend : N).

Definition desugar1 (e : eact) (h : list hact) : list hact :=
  match e with
  | XNone => h
  | XExpect k st b p => repeat HPend (N.to_nat k) ++ (if st =? 0 then h else [HFail st b p])
  end.
Fixpoint desugar (ex : list eact) (hs : list (list hact)) : list (list hact) :=
  match hs with
  | [] => []
  | h :: r => match ex with
              | [] => h :: r
              | e :: ex' => desugar1 e h :: desugar ex' r
              end
  end.

(* ---- the Err arm of ExpectCall (dispatcher.rs:789-793 in poll_response, 843-847 in
   handle_request): the expect future of request [r] has resolved to Err; its request is dropped;
   send_error_response with whatever payload state the dispatcher has ---- *)
Definition expect_err (c : cfg) (r : req) (status b p : N) (s : st) : st :=
  respond c r ONone b p
    (set_hs (hs_set (rq_id r) [] (hs s)) (set_hfail status (upd_chan (rq_id r) drop_rx s))).

(* the model's run of a desugared reject is this transition *)
Lemma service_arm_is_expect_err c f r st b p tl s :
  dstate s = SService r -> hs_get (rq_id r) (hs s) = HFail st b p :: tl ->
  poll_response (S f) c s = poll_response f c (expect_err c r st b p s).
Proof.
  intros D H. cbn [poll_response]. rewrite D. unfold poll_handler. rewrite H. cbn [run_h].
  reflexivity.
Qed.

Lemma handle_request_is_expect_err c r st b p tl s :
  hs_get (rq_id r) (hs s) = HFail st b p :: tl ->
  handle_request c r s = expect_err c r st b p (start_service c false r s).
Proof.
  intros H. unfold handle_request, poll_handler.
  replace (hs (start_service c false r s)) with (hs s) by reflexivity.
  rewrite H. cbn [run_h]. reflexivity.
Qed.

(* ---- the close / drain decision of the Err arm ---- *)
(* payload still open and not drainable (content-length body), nothing queued behind: the error
   response announces close and, when it has no body, the connection is FINISHED and lingering /
   shutting down; with a body the same decision is taken at its end (C03_unread_at_error_body_end_closes) *)
Lemma expect_reject_unread_closes c r st b p s :
  st <> 0 -> payload s <> None -> drainable s = false -> messages s = [] ->
  let s' := expect_err c r st b p s in
  trace s' = trace s ++ THead (Some r) st (c_v11 s) (c_head s) CClose :: (if b =? 0 then [TComplete] else []) /\
  c_conn s' = CClose /\
  (b = 0 -> finished s' = true /\ (linger s' || shutdown s') = true /\ dstate s' = SNone) /\
  (b <> 0 -> dstate s' = SSendPayload (Some r) /\ berr s' = true /\ payload s' = payload s /\
             drainable s' = false /\ messages s' = []).
Proof.
  intros NZ P DR M s'.
  set (s0 := set_hs (hs_set (rq_id r) [] (hs s)) (set_hfail st (upd_chan (rq_id r) drop_rx s))).
  assert (CU : close_unread s0 = true).
  { unfold close_unread, s0. cbn. destruct (payload s) as [q|]; [|congruence].
    rewrite DR. apply Bool.negb_true_iff. apply Bool.andb_false_r. }
  assert (HF : (if hfail s0 =? 0 then 200 else hfail s0) = st).
  { unfold s0. cbn. destruct (st =? 0) eqn:E; [lia|reflexivity]. }
  assert (MS : messages s0 = []) by exact M.
  pose proof (unread_payload_closes c (Some r) st ONone b p s0 CU (fun _ => MS)) as (T & K & F).
  subst s'. unfold expect_err. fold s0. unfold respond. rewrite HF.
  split; [|split; [|split]].
  - exact T.
  - exact K.
  - intros B. destruct (F B) as (F1 & F2 & F3). repeat split; assumption.
  - intros B. assert (E : (b =? 0) = false) by lia. assert (E0 : (st =? 0) = false) by lia.
    unfold send_response. rewrite MS, CU, E. cbn. rewrite ?E0. cbn.
    repeat split; try reflexivity; assumption.
Qed.

(* in every case (chunked = drainable body included) the Err arm leaves the body with the codec:
   the payload sender, the installed payload decoder and read_buf are untouched, so the next head
   can only be decoded after the exact end of this body (C03_body_discipline + the decode loop) *)
Lemma expect_reject_keeps_decoder c r st b p s :
  let s' := expect_err c r st b p s in
  payload s' = payload s /\ c_pl s' = c_pl s /\ drainable s' = drainable s /\ rbuf s' = rbuf s /\
  reparsed s' = reparsed s.
Proof.
  cbn zeta. unfold expect_err, respond, send_response, complete_flags, finish_hook, encode_head, add_trace.
  repeat match goal with |- context [if ?x then _ else _] => destruct x end; cbn; repeat split; reflexivity.
Qed.

(* while a payload decoder is installed the decode loop never decodes a head: anything that is not
   body data stops it, body items go to the payload (never [reparsed]) *)
Lemma inside_body_no_head c f s upd it rest :
  c_pl s = true -> rbuf s = it :: rest ->
  match it with IData _ | IEnd => True | _ => decode_loop (S f) c s upd = (s, upd) end.
Proof.
  intros P R. destruct it; try exact I; cbn [decode_loop]; rewrite R, P; reflexivity.
Qed.

(* ---- the unbounded theorems cover runs with expect scripts: they quantify over ALL handler
   scripts, in particular over [desugar ex hs] ---- *)
Lemma expect_body_discipline c hs ex es :
  let s := run_events c es (init c (desugar ex hs)) in
  (payload s <> None -> c_pl s = true) /\ (payload s = None -> c_pl s = true -> read_disc s = true).
Proof. apply run_events_B. apply init_B. Qed.

Lemma expect_quiet_outside_F15 c hs ex es :
  fx c = tree_fixes -> has_signal c = false -> ~ Known_F15 c (desugar ex hs) es ->
  quiet_after_close (trace (run_events c es (init c (desugar ex hs)))) = true.
Proof. intros T N K. apply quiet_outside_F15; assumption. Qed.
