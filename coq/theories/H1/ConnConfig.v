(* C06 (b): actix-http/src/keep_alive.rs (KeepAlive normalisation) and config.rs (the three deadline
   functions, ServiceConfig::new / ServiceConfigBuilder::keep_alive), transcribed; how the
   dispatcher model of H1/ConnState.v uses them; and the property-level consequences:
     * a configuration without a timeout has NO timer of that kind on any reachable state (this is
       the "no bound" side of C06: "when a disconnect timeout is configured", "within the client
       request timeout", "once the keep-alive time elapses" all have a configured duration as
       their premise);
     * with keep-alive disabled every response is encoded with close, KEEP_ALIVE is never set and
       the epilogue closes the connection after the response.
   Durations are ms ([N]); [cache] is the DateService's cached instant. *)
Require Import AV.Lib.Base AV.H1.ConnRec AV.H1.ConnState AV.H1.ConnProofs AV.H1.ConnGraceful.

(* ---- keep_alive.rs ---- *)
Definition ka_is_enabled (k : ka_t) : bool := match k with KaDisabled => false | _ => true end.   (* !matches!(self, Disabled) *)
Definition ka_duration (k : ka_t) : option N := match k with KaTimeout d => Some d | _ => None end.
Definition ka_normalize (k : ka_t) : ka_t :=
  match k with KaTimeout N0 => KaDisabled | k => k end.
Definition ka_from_duration (d : N) : ka_t := ka_normalize (KaTimeout d).
Definition ka_from_option (o : option N) : ka_t :=
  ka_normalize (match o with Some d => ka_from_duration d | None => KaDisabled end).

(* ---- config.rs ---- *)
Definition keep_alive_deadline (k : ka_t) (cache : N) : option N :=
  match k with KaTimeout d => Some (cache + d) | KaOs => None | KaDisabled => None end.
Definition deadline_of (timeout cache : N) : option N :=          (* (timeout != ZERO).then(|| now + timeout) *)
  if negb (timeout =? 0) then Some (cache + timeout) else None.
Definition client_request_deadline (c : cfg) (cache : N) : option N := deadline_of (req_to c) cache.
Definition client_disconnect_deadline (c : cfg) (cache : N) : option N := deadline_of (disc_to c) cache.
(* ServiceConfig::new normalises; ServiceConfigBuilder::keep_alive stores what it is given *)
Definition config_new (k : ka_t) (rq dc : N) (hc sg : bool) (f : fixes) : cfg := mkCfg (ka_normalize k) rq dc hc sg f.
Definition config_builder (k : ka_t) (rq dc : N) (hc sg : bool) (f : fixes) : cfg := mkCfg k rq dc hc sg f.

Definition is_some {A} (o : option A) : bool := match o with Some _ => true | None => false end.

(* ---- normalisation ---- *)
Lemma ka_normalize_idem k : ka_normalize (ka_normalize k) = ka_normalize k.
Proof. destruct k as [[|p]| |]; reflexivity. Qed.
Lemma ka_normalize_disabled k : ka_normalize k = KaDisabled <-> (k = KaDisabled \/ k = KaTimeout 0).
Proof. destruct k as [[|p]| |]; cbn; split; intro H; auto; try discriminate; destruct H; discriminate. Qed.
Lemma ka_normalize_never_zero k : ka_normalize k <> KaTimeout 0.
Proof. destruct k as [[|p]| |]; cbn; discriminate. Qed.
Lemma ka_normalize_keeps k : k <> KaTimeout 0 -> ka_normalize k = k.
Proof. destruct k as [[|p]| |]; cbn; intro H; try reflexivity. congruence. Qed.
Lemma ka_from_duration_zero : ka_from_duration 0 = KaDisabled.
Proof. reflexivity. Qed.
Lemma ka_from_duration_pos d : d <> 0 -> ka_from_duration d = KaTimeout d.
Proof. destruct d; [congruence|reflexivity]. Qed.
Lemma ka_from_option_spec o :
  ka_from_option o = match o with Some d => if d =? 0 then KaDisabled else KaTimeout d | None => KaDisabled end.
Proof. destruct o as [[|p]|]; reflexivity. Qed.
(* keep-alive is enabled after normalisation iff a non-zero duration or Os was given *)
Lemma ka_enabled_normalized k : ka_is_enabled (ka_normalize k) = true <-> (k = KaOs \/ exists d, k = KaTimeout d /\ d <> 0).
Proof.
  destruct k as [[|p]| |]; cbn; split; intro H; try discriminate; auto.
  - destruct H as [H|(d & H & Z)]; [discriminate|]. inversion H; subst. congruence.
  - right. eexists. split; [reflexivity|discriminate].
  - destruct H as [H|(d & H & _)]; discriminate.
Qed.

(* ---- deadlines ---- *)
Lemma deadline_none_iff_zero t cache : deadline_of t cache = None <-> t = 0.
Proof. unfold deadline_of. destruct (t =? 0) eqn:E; cbn; split; intro H; try discriminate; try reflexivity.
  - apply N.eqb_eq. exact E. - apply N.eqb_neq in E. congruence. Qed.
Lemma deadline_some t cache d : deadline_of t cache = Some d -> t <> 0 /\ d = cache + t.
Proof. unfold deadline_of. destruct (t =? 0) eqn:E; cbn; intro H; inversion H. apply N.eqb_neq in E. auto. Qed.
Lemma keep_alive_deadline_some k cache : is_some (keep_alive_deadline k cache) = is_some (ka_duration k).
Proof. destruct k; reflexivity. Qed.

(* ---- how the dispatcher model uses them (every site of ConnState.v) ---- *)
Definition set_opt (f : timer -> st -> st) (o : option N) (s : st) : st :=
  match o with Some d => f (TActive d) s | None => s end.

Lemma model_ka_enabled c : ka_enabled c = ka_is_enabled (ka c).
Proof. reflexivity. Qed.
(* dispatcher.rs:291-293: the three TimerState::new(...deadline().is_some()) *)
Lemma model_init_timers c hs :
  head_t (init c hs) = t_new (is_some (client_request_deadline c 0)) /\
  ka_tm (init c hs) = t_new (ka_is_enabled (ka c)) /\
  sd_t (init c hs) = t_new (is_some (client_disconnect_deadline c 0)).
Proof. cbn. unfold client_request_deadline, client_disconnect_deadline, deadline_of. repeat split; repeat bm; reflexivity. Qed.
(* dispatcher.rs:1379: `if let Some(deadline) = config.client_request_deadline() { head_timer.set_and_init }` *)
Lemma model_head_arm c s :
  (if req_to c =? 0 then s else set_head_t (arm (req_to c) s) s) = set_opt set_head_t (client_request_deadline c (cached (now s))) s.
Proof. unfold client_request_deadline, deadline_of, set_opt, arm. destruct (req_to c =? 0); reflexivity. Qed.
(* dispatcher.rs:1415: `if let Some(timer) = config.keep_alive_deadline() { ka_timer.set_and_init }` *)
Lemma model_ka_arm c s :
  match ka c with KaTimeout d => set_ka_tm (arm d s) s | _ => s end = set_opt set_ka_tm (keep_alive_deadline (ka c) (cached (now s))) s.
Proof. unfold keep_alive_deadline, set_opt, arm. destruct (ka c); reflexivity. Qed.
(* dispatcher.rs:392 ensure_linger_timer *)
Lemma model_linger_arm c s : t_active (sd_t s) = false ->
  ensure_linger_timer c s =
  match client_disconnect_deadline c (cached (now s)) with Some d => (set_sd_t (TActive d) s, true) | None => (s, false) end.
Proof. intro A. unfold ensure_linger_timer, client_disconnect_deadline, deadline_of, arm. rewrite A. destruct (disc_to c =? 0); reflexivity. Qed.

(* ---- property level: no configured duration, no timer ---- *)
Definition NT (c : cfg) (s : st) : Prop :=
  (req_to c = 0 -> t_active (head_t s) = false) /\
  (disc_to c = 0 -> t_active (sd_t s) = false) /\
  (ka_duration (ka c) = None -> t_active (ka_tm s) = false) /\
  (ka_is_enabled (ka c) = false -> c_conn s = CClose).

Lemma NT_frame c s s' :
  (t_active (head_t s') = true -> t_active (head_t s) = true \/ req_to c <> 0) ->
  (t_active (sd_t s') = true -> t_active (sd_t s) = true \/ disc_to c <> 0) ->
  (t_active (ka_tm s') = true -> t_active (ka_tm s) = true \/ ka_duration (ka c) <> None) ->
  (c_conn s' = CKeepAlive -> c_conn s = CKeepAlive \/ ka_is_enabled (ka c) = true) ->
  NT c s -> NT c s'.
Proof.
  intros H1 H2 H3 H4 (A & B & C & D). repeat split; intro Z.
  - destruct (t_active (head_t s')) eqn:E; [|reflexivity]. destruct (H1 eq_refl) as [X|X]; [rewrite (A Z) in X; discriminate|congruence].
  - destruct (t_active (sd_t s')) eqn:E; [|reflexivity]. destruct (H2 eq_refl) as [X|X]; [rewrite (B Z) in X; discriminate|congruence].
  - destruct (t_active (ka_tm s')) eqn:E; [|reflexivity]. destruct (H3 eq_refl) as [X|X]; [rewrite (C Z) in X; discriminate|congruence].
  - destruct (c_conn s') eqn:E; [reflexivity|]. destruct (H4 eq_refl) as [X|X]; [rewrite (D Z) in X; discriminate|congruence].
Qed.

(* closes the side conditions of NT_frame after the function has been unfolded and split *)
Ltac ntside :=
  cbn; intros;
  try (left; assumption); try discriminate; try (right; discriminate); try (right; reflexivity);
  try (right; apply N.eqb_neq; assumption);
  try (right; match goal with H : ka _ = KaTimeout _ |- _ => rewrite H; cbn; discriminate end);
  try (right; unfold ka_enabled in *; assumption);
  try (right; match goal with H : ka _ = _ |- _ => rewrite H; reflexivity end);
  auto.
Ltac ntframe := apply NT_frame; repeat bm; ntside.

Lemma ctx_conn_ka c r : ctx_conn c r = CKeepAlive -> ka_is_enabled (ka c) = true.
Proof. unfold ctx_conn, ka_enabled. destruct (conn_of_req r); [discriminate|]. destruct (ka c); cbn; auto; discriminate. Qed.

Lemma send_response_NT c who st ro bl bp s : NT c s -> NT c (send_response c who st ro bl bp s).
Proof. unfold send_response, encode_head, complete_flags, finish_hook, add_trace. ntframe. Qed.

Lemma respond_NT c r k b p s : NT c s -> NT c (respond c r k b p s).
Proof. intro H. apply (send_response_NT c (Some r) (if hfail s =? 0 then 200 else hfail s) k b p) in H. revert H. unfold respond. apply NT_frame; ntside. Qed.

Lemma set_ctx_NT c r s : NT c s -> NT c (set_ctx c r s).
Proof. apply NT_frame; unfold set_ctx; ntside. right. apply ctx_conn_ka with (r := r). assumption. Qed.

Lemma handle_request_NT c r s : NT c s -> NT c (handle_request c r s).
Proof.
  unfold handle_request. intro H.
  destruct (poll_handler (rq_id r) (start_service c false r s)) as [s1 out] eqn:E.
  pose proof (poll_handler_frame _ _ _ _ E) as F.
  assert (B1 : NT c s1) by (rewrite F; revert H; apply NT_frame; unfold start_service, add_trace; ntside).
  destruct out as [[[k b] p]|]; [apply respond_NT|]; exact B1.
Qed.

Lemma decode_loop_NT c : forall fuel s upd, NT c s -> NT c (fst (decode_loop fuel c s upd)).
Proof.
  induction fuel as [|f IH]; intros s upd H; cbn [decode_loop]; [exact H|].
  destruct (rbuf s) as [|it rest] eqn:Er; [exact H|].
  destruct (c_pl s).
  - destruct it; try exact H; cbn; destruct (payload s); cbn;
      try (apply IH); revert H; apply NT_frame; unfold internal_error; ntside.
  - destruct it.
    + match goal with |- context [if is_none (dstate ?x) then _ else _] => assert (H0 : NT c x); [|set (x0 := x) in *] end.
      { revert H. apply NT_frame; unfold set_ctx, add_trace; repeat bm; ntside;
          try (right; eapply ctx_conn_ka; eassumption). }
      destruct (is_none (dstate x0)).
      * pose proof (handle_request_NT c r x0 H0) as H1. bm; [exact H1|]. apply IH. exact H1.
      * apply IH. revert H0. apply NT_frame; ntside.
    + destruct rest; [exact H|]. apply IH. revert H. apply NT_frame; ntside.
    + cbn. revert H. apply NT_frame; unfold parse_error, take_payload_err; repeat bm; ntside.
    + cbn. revert H. apply NT_frame; unfold parse_error, take_payload_err; repeat bm; ntside.
    + cbn. revert H. apply NT_frame; unfold parse_error, take_payload_err; repeat bm; ntside.
Qed.

Lemma poll_request_NT c s : NT c s -> NT c (fst (poll_request c s)).
Proof. unfold poll_request. intro H. repeat bm; try exact H. apply decode_loop_NT. exact H. Qed.

Lemma body_end_NT c s : NT c s -> NT c (body_end c s).
Proof. unfold body_end, complete_flags, finish_hook, add_trace. ntframe. Qed.

Lemma poll_response_NT c : forall fuel s, NT c s -> NT c (poll_response fuel c s).
Proof.
  induction fuel as [|f IH]; intros s H; cbn [poll_response]; rewrite ?body_if.
  - revert H. apply NT_frame; ntside.
  - destruct (dstate s) eqn:Ed.
    + destruct (draining s).
      * revert H. ntframe.
      * destruct (messages s) as [|[r|stt] ms] eqn:Em.
        -- revert H. ntframe.
        -- apply IH. unfold start_service. destruct (true && fx_ctx (fx c)).
           ++ apply (set_ctx_NT c r) in H. revert H. apply NT_frame; unfold add_trace; ntside.
           ++ revert H. apply NT_frame; unfold add_trace; ntside.
        -- apply IH. apply send_response_NT. revert H. apply NT_frame; ntside.
    + destruct (poll_handler (rq_id r) s) as [s1 out] eqn:E.
      pose proof (poll_handler_frame _ _ _ _ E) as F.
      assert (B1 : NT c s1) by (rewrite F; revert H; apply NT_frame; ntside).
      destruct out as [[[k b] p]|].
      * apply IH. apply respond_NT. exact B1.
      * destruct (poll_request c s1) as [s2 upd] eqn:E2.
        pose proof (poll_request_NT c s1 B1) as B2. rewrite E2 in B2. cbn in B2.
        destruct upd; [apply IH|]; exact B2.
    + bm.
      * revert H. apply NT_frame; ntside.
      * apply IH. apply body_end_NT. revert H. ntframe.
Qed.

Lemma read_available_NT c s : NT c s -> NT c (fst (fst (read_available s))).
Proof. unfold read_available, unfinish. intro H. repeat bm; cbn; try exact H. all: revert H; apply NT_frame; ntside. Qed.

Lemma flush_NT c wb s : NT c s -> NT c (fst (flush wb s)).
Proof. unfold flush. intro H. repeat bm; cbn; try exact H. all: try (revert H; apply NT_frame; ntside). Qed.

Lemma ensure_linger_NT c s : NT c s -> NT c (fst (ensure_linger_timer c s)).
Proof. unfold ensure_linger_timer, arm. intro H. repeat bm; cbn; try exact H. all: try (revert H; apply NT_frame; ntside). Qed.

Lemma step_NT c e s : NT c s -> NT c (step c e s).
Proof.
  intro H. unfold step. destruct (negb (res s =? 0)); [exact H|]. destruct e.
  - revert H. unfold env_step. ntframe.
  - revert H. unfold poll_graceful. ntframe.
  - unfold poll_head_timer. repeat bm; try exact H.
    all: try (revert H; apply NT_frame; ntside; fail).
    all: match goal with |- NT ?c0 (set_shutdown true ?x) => assert (NT c0 x) as B0 end;
         try (apply send_response_NT; revert H; apply NT_frame; ntside);
         try (revert B0; apply NT_frame; ntside).
  - revert H. unfold poll_ka_timer, arm. ntframe.
  - revert H. unfold poll_sd_timer. ntframe.
  - destruct (linger s); [|exact H]. unfold poll_linger.
    destruct (flush wblock s) as [s1 ok] eqn:E1.
    pose proof (flush_NT c wblock s H) as B1. rewrite E1 in B1; cbn in B1.
    destruct ok; cbn [negb]; [|exact B1].
    destruct (ensure_linger_timer c s1) as [s2 have] eqn:E2.
    pose proof (ensure_linger_NT c s1 B1) as B2. rewrite E2 in B2; cbn in B2.
    destruct have; cbn [negb]; [|revert B2; apply NT_frame; ntside].
    destruct (read_available s2) as [[s3 d] io] eqn:E3.
    pose proof (read_available_NT c s2 B2) as B3. rewrite E3 in B3; cbn in B3.
    revert B3. ntframe.
  - destruct (negb (linger s) && shutdown s); [|exact H]. unfold shutdown_io.
    destruct (write_disc s); [revert H; apply NT_frame; ntside|].
    match goal with |- context [flush wblock ?x] => assert (B1 : NT c x) by (destruct (fx_sd (fx c)); [apply ensure_linger_NT|]; exact H);
      pose proof (flush_NT c wblock x B1) as B2; destruct (flush wblock x) as [s2 ok] end.
    cbn in B2. repeat bm; try exact B2. all: try (revert B2; apply NT_frame; ntside).
  - destruct (linger s || shutdown s); [exact H|]. unfold read_phase.
    destruct (read_available s) as [[s1 d] io] eqn:E1.
    pose proof (read_available_NT c s H) as B1. rewrite E1 in B1; cbn in B1.
    destruct io; [revert B1; apply NT_frame; ntside|].
    match goal with |- context [poll_request c ?x] => assert (NT c x) as B2 end.
    { revert B1. unfold arm. ntframe. }
    apply poll_request_NT in B2.
    destruct d; [|exact B2]. revert B2. unfold take_payload_err. ntframe.
  - unfold response_phase.
    match goal with |- context [poll_response ?f c s] => pose proof (poll_response_NT c f s H) as B1 end.
    apply flush_NT. revert B1. unfold arm. ntframe.
  - revert H. unfold epilogue. ntframe.
Qed.

Lemma init_NT c hs0 : NT c (init c hs0).
Proof.
  unfold NT. cbn. unfold ka_enabled. repeat split; intros; try reflexivity.
  all: try (match goal with H : _ = 0 |- _ => rewrite H; reflexivity end).
  all: destruct (ka c); reflexivity.
Qed.

Lemma run_events_NT c es : forall s, NT c s -> NT c (run_events c es s).
Proof. induction es as [|e es IH]; intros s H; cbn; [exact H|]. apply IH. apply step_NT. exact H. Qed.

(* a timer that is not active is never ready: the timer function is the identity *)
Lemma inactive_not_ready t n : t_active t = false -> t_ready t n = false.
Proof. destruct t; cbn; [reflexivity|reflexivity|discriminate]. Qed.

(* with keep-alive disabled, whatever the handler asks for, the response head is encoded with close *)
Lemma disabled_ka_response_closes c who st ro bl bp s : c_conn s = CClose ->
  resp_conn c ro s = CClose /\ c_conn (send_response c who st ro bl bp s) = CClose.
Proof.
  intro C. split.
  - unfold resp_conn. rewrite C. repeat bm; reflexivity.
  - unfold send_response, encode_head, complete_flags, finish_hook, add_trace. repeat bm; cbn; auto.
Qed.
