(* H1/ChunkedSpec.v — what the chunked decoder is supposed to compute, stated without any
   reference to how the input is batched.

   1. [bw]: the BYTE-WISE semantics: one automaton step per input byte, data bytes appended to
      an accumulator, stop at [End].  Segmentation independence is the statement that every
      batched way of running the decoder computes [bw] of the concatenated input.
   2. The RFC 7230 section 4.1 grammar (without trailers - the implementation supports none) as
      a renderer from abstract chunk lists: [render_body chunks last]. *)
From AV Require Import Lib.Base H1.Chunked.

(* one byte: new state, new remaining size, data byte emitted *)
Definition bstep (s : cst) (sz : N) (b : byte) : res (cst * N * option byte) :=
  match s with
  | Body => if sz <=? 1 then Ok (BodyCr, 0, Some b) else Ok (Body, sz - 1, Some b)
  | End => Err
  | _ => match cstep s sz b with
         | Ok (s', sz') => Ok (s', sz', None)
         | Pend => Pend | Err => Err | Pan => Pan
         end
  end.

(* fold over the input; result: (state, size, unread rest, body so far, reached End?) *)
Fixpoint bw (s : cst) (sz : N) (buf acc : bytes) : res (cst * N * bytes * bytes * bool) :=
  match s with
  | End => Ok (End, sz, buf, acc, true)
  | _ =>
      match buf with
      | [] => Ok (s, sz, [], acc, false)
      | b :: rest =>
          match bstep s sz b with
          | Ok (s', sz', Some d) => bw s' sz' rest (acc ++ [d])
          | Ok (s', sz', None) => bw s' sz' rest acc
          | Pend => Pend | Err => Err | Pan => Pan
          end
      end
  end.

(* the decoder's data invariant: in [Body] at least one byte is still expected *)
Definition inv (s : cst) (sz : N) : Prop := s = Body -> 0 < sz.

(* ---- RFC 7230 section 4.1 ------------------------------------------------------------------
     chunked-body = *chunk last-chunk CRLF                     ; trailer-part omitted
     chunk        = chunk-size [ chunk-ext ] CRLF chunk-data CRLF
     chunk-size   = 1*HEXDIG
     last-chunk   = 1*("0") [ chunk-ext ] CRLF
   with the implementation's lenient reading of chunk-ext: optional SP/HT after the size, then
   optionally ";" followed by any bytes except CR and the control bytes of [ext_forbidden]. *)
Definition is_hex (b : byte) : bool := match hexval b with Some _ => true | None => false end.
Definition hexdig (b : byte) : N := match hexval b with Some d => d | None => 0 end.
Definition hexnum (acc : N) (ds : bytes) : N := fold_left (fun a d => a * 16 + hexdig d) ds acc.
Definition is_lws (b : byte) : bool := (b =? 9) || (b =? 32).
Definition ext_ok (b : byte) : bool := negb (b =? 13) && negb (ext_forbidden b).

Record size_line := mk_size_line {
  sl_digits : bytes;            (* 1*HEXDIG *)
  sl_lws : bytes;               (* *( SP / HT ) *)
  sl_ext : option bytes }.      (* ";" followed by these bytes *)

Definition size_line_wf (l : size_line) : Prop :=
  sl_digits l <> [] /\ forallb is_hex (sl_digits l) = true /\
  forallb is_lws (sl_lws l) = true /\
  match sl_ext l with Some e => forallb ext_ok e = true | None => True end.

Definition render_size_line (l : size_line) : bytes :=
  sl_digits l ++ sl_lws l ++ (match sl_ext l with Some e => 59 :: e | None => [] end) ++ [13; 10].

Record chunk := mk_chunk { ch_line : size_line; ch_data : bytes }.

Definition chunk_wf (c : chunk) : Prop :=
  size_line_wf (ch_line c) /\ ch_data c <> [] /\
  hexnum 0 (sl_digits (ch_line c)) = lenN (ch_data c) /\ lenN (ch_data c) <= u64_max.
Definition last_wf (l : size_line) : Prop := size_line_wf l /\ hexnum 0 (sl_digits l) = 0.

Definition render_chunk (c : chunk) : bytes := render_size_line (ch_line c) ++ ch_data c ++ [13; 10].
Definition render_body (cs : list chunk) (last : size_line) : bytes :=
  concat (map render_chunk cs) ++ render_size_line last ++ [13; 10].
Definition body_data (cs : list chunk) : bytes := concat (map ch_data cs).
