(* H1/PayloadDec.v — model of `PayloadDecoder` (actix-http/src/h1/decoder.rs, `Kind`,
   `impl Decoder for PayloadDecoder`).  Self-contained: Lib.Base + H1.Chunked.
   Reused by C01 (request bodies) and C17 (response bodies; there [KEof] is reachable too).

   Rust                                  Gallina
   -----------------------------------   ------------------------------------------------
   enum Kind { Length(u64),              [kind] = KLength n | KChunked s sz | KEof
               Chunked(ChunkedState,u64),
               Eof }
   PayloadItem::{Chunk(Bytes), Eof}      [pitem] = PChunk b | PEof
   PayloadDecoder::decode(&mut src)      [pdecode k src] = Ok (k', src', item) | Err | Pan
       Ok(None)                              item = None
       Err(io::Error)                        Err
   the `loop` of the Chunked arm         [chunked_loop] (fuelled; fuel S (length src) suffices,
                                         PayloadDecProofs.chunked_loop_ok; exhausted fuel is
                                         reported as [Pend], which the loop never returns
                                         otherwise)
   a caller draining the decoder         [prun]: calls [pdecode] until Ok(None) / Eof / Err,
                                         concatenating the chunks
   a caller over successive reads        [pfeed]

   constructors: PayloadDecoder::length(n) = KLength n, ::chunked() = [kchunked0], ::eof() = KEof *)
From AV Require Import Lib.Base H1.Chunked.

Inductive kind := KLength (n : N) | KChunked (s : cst) (sz : N) | KEof.
Definition kchunked0 : kind := KChunked Size 0.

Inductive pitem := PChunk (b : bytes) | PEof.

(* Kind::Chunked arm: loop { step; End => Eof; Some(buf) => Chunk; src.is_empty() => None } *)
Fixpoint chunked_loop (fuel : nat) (s : cst) (sz : N) (buf : bytes)
  : res (cst * N * bytes * option pitem) :=
  match fuel with
  | O => Pend
  | S f =>
      match step s sz buf with
      | Pend => Ok (s, sz, buf, None)                 (* Poll::Pending => return Ok(None) *)
      | Err => Err
      | Pan => Pan
      | Ok (s', sz', buf', oc) =>
          match s' with
          | End => Ok (s', sz', buf', Some PEof)
          | _ =>
              match oc with
              | Some c => Ok (s', sz', buf', Some (PChunk c))
              | None => match buf' with
                        | [] => Ok (s', sz', buf', None)
                        | _ => chunked_loop f s' sz' buf'
                        end
              end
          end
      end
  end.

Definition pdecode (k : kind) (src : bytes) : res (kind * bytes * option pitem) :=
  match k with
  | KLength n =>
      if n =? 0 then Ok (k, src, Some PEof)
      else match src with
           | [] => Ok (k, src, None)
           | _ =>
               let len := lenN src in
               if len <? n                                       (* *remaining > len *)
               then Ok (KLength (n - len), [], Some (PChunk src))
               else Ok (KLength 0, skipn (N.to_nat n) src, Some (PChunk (firstn (N.to_nat n) src)))
           end
  | KChunked s sz =>
      match chunked_loop (S (length src)) s sz src with
      | Ok (s', sz', src', it) => Ok (KChunked s' sz', src', it)
      | Pend => Pend | Err => Err | Pan => Pan
      end
  | KEof =>
      match src with
      | [] => Ok (k, src, None)
      | _ => Ok (KEof, [], Some (PChunk src))
      end
  end.

(* Drain: decode until Ok(None) (-> false) or Eof (-> true); [acc] collects the body bytes.
   Result: (decoder, unread rest, body so far, finished?) *)
Fixpoint prun (fuel : nat) (k : kind) (buf acc : bytes) : res (kind * bytes * bytes * bool) :=
  match fuel with
  | O => Pend
  | S f =>
      match pdecode k buf with
      | Ok (k', buf', None) => Ok (k', buf', acc, false)
      | Ok (k', buf', Some PEof) => Ok (k', buf', acc, true)
      | Ok (k', buf', Some (PChunk c)) => prun f k' buf' (acc ++ c)
      | Pend => Pend | Err => Err | Pan => Pan
      end
  end.

(* fuel that always suffices for [prun] on [buf] (PayloadDecProofs.prun_eq_bw) *)
Definition prun_fuel (buf : bytes) : nat := S (S (length buf)).

(* Successive reads: each segment is appended to the unread residue, then the decoder is
   drained.  After Eof the remaining segments are left unread (appended to the rest). *)
Fixpoint pfeed (segs : list bytes) (k : kind) (residue acc : bytes)
  : res (kind * bytes * bytes * bool) :=
  match segs with
  | [] => Ok (k, residue, acc, false)
  | seg :: more =>
      let buf := residue ++ seg in
      match prun (prun_fuel buf) k buf acc with
      | Ok (k', r, acc', false) => pfeed more k' r acc'
      | Ok (k', r, acc', true) => Ok (k', r ++ concat more, acc', true)
      | Pend => Pend | Err => Err | Pan => Pan
      end
  end.
