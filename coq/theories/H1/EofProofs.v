(* C04, end of stream: the poll in which the socket reports EOF sets READ_DISCONNECT whatever
   read_buf holds (undecodable leftovers included) and whatever is queued or running; tie of the
   guard of that block to the record extracted from dispatcher.rs; termination from quiescent
   keep-alive states with undecodable leftovers. *)
From AV Require Import Lib.Base Gen.DispatcherGuards H1.ReadBuf H1.Flush H1.Gates H1.GatesCfg H1.GatesProofs
     H1.PollProofs H1.PollProofs2.

(* ---- the guard of the end-of-stream block, as extracted from the source ---- *)
Definition disc_atom_b (sd rb_empty no_payload queue_empty : bool) (a : dg_disc_atom) : bool :=
  match a with
  | DgShouldDisconnect => sd
  | DgDiscReadBufEmpty => rb_empty
  | DgDiscReadBufNotEmpty => negb rb_empty
  | DgDiscNoPayload => no_payload
  | DgDiscQueueEmpty => queue_empty
  end.
Definition disc_guard_b sd rbe np qe : bool := forallb (disc_atom_b sd rbe np qe) DG_DISCONNECT_GUARD.
Definition has_disc_stmt (s : dg_disc_stmt) : bool :=
  existsb (fun x => match x, s with
                    | DgSetReadDisconnect, DgSetReadDisconnect | DgPayloadIncomplete, DgPayloadIncomplete
                    | DgPayloadFeedEof, DgPayloadFeedEof => true
                    | _, _ => false end) DG_DISCONNECT_STMTS.

(* the block is entered exactly when read_available reported end-of-stream: not on read_buf, the
   payload or the queue *)
Lemma tie_disconnect_guard sd rbe np qe : disc_guard_b sd rbe np qe = sd.
Proof. unfold disc_guard_b. cbn. apply andb_true_r. Qed.

Lemma tie_disconnect_stmts :
  has_disc_stmt DgSetReadDisconnect = true /\ has_disc_stmt DgPayloadIncomplete = true /\
  has_disc_stmt DgPayloadFeedEof = true.
Proof. repeat split. Qed.

Lemma rd_disc_set_sticky c s e s' : rd_disc s = true -> step c s e = Some s' -> rd_disc s' = true.
Proof.
  intros Hd H. destruct e; open_step H; proj; try assumption; try reflexivity.
  all: match goal with |- context [upd_tgt ?f ?x] =>
         destruct (upd_tgt_fields f x) as (_&_&_&_&_&_&_&E8&_); proj; rewrite ?E8; proj; try assumption; try reflexivity end.
Qed.

Section Eof.
  Variable c : cfg.
  Variable F : nat.

  (* READ_DISCONNECT and [bad] only ever get set *)
  Definition mono (x y : sim) : Prop :=
    (rd_disc (m x) = true -> rd_disc (m y) = true) /\ (bad x = true -> bad y = true).
  Definition D (x : sim) : Prop := rd_disc (m x) = true \/ bad x = true.

  Lemma mono_refl x : mono x x.
  Proof. split; auto. Qed.
  Lemma mono_trans x y z : mono x y -> mono y z -> mono x z.
  Proof. intros [a b] [a' b']. split; auto. Qed.
  Lemma mono_D x y : mono x y -> D x -> D y.
  Proof. intros [a b] [H|H]; [left|right]; auto. Qed.
  Lemma same_mono x y : same x y -> mono x y.
  Proof. intros (_&_&_&_&a&b). split; auto. Qed.
  Lemma mono_ext x y y' : mono x y -> m y' = m y -> bad y' = bad y -> mono x y'.
  Proof. intros [a b] E1 E2. unfold mono. rewrite E1, E2. auto. Qed.
  Lemma mono_bad x y : bad y = true -> m y = m x -> mono x y.
  Proof. intros H E. unfold mono. rewrite E, H. auto. Qed.

  Lemma mono_do_ev e x : mono x (do_ev c e x).
  Proof.
    unfold do_ev. destruct (step c (m x) e) as [s'|] eqn:E.
    - split; cbn [m bad]; [|auto]. intro H. exact (rd_disc_set_sticky c _ _ _ H E).
    - apply mono_bad; reflexivity.
  Qed.

  Ltac wrapm z := apply mono_ext with (y := z); [|reflexivity|reflexivity].

  Lemma decode_loop_mono : forall fuel x u, mono x (fst (decode_loop c fuel x u)).
  Proof.
    induction fuel as [|fuel IH]; intros x u; cbn [decode_loop].
    - cbn [fst]. apply mono_bad; reflexivity.
    - destruct (cpl (m x)) as [rem|].
      + destruct (rem =? 0).
        * eapply mono_trans; [|apply IH]. eapply mono_trans; [|apply mono_do_ev]. wrapm x. apply mono_refl.
        * destruct (rb (m x) =? 0); [cbn [fst]; apply mono_do_ev|].
          eapply mono_trans; [|apply IH]. eapply mono_trans; [|apply mono_do_ev]. wrapm x. apply mono_refl.
      + assert (TL : mono x (set_shut_err (shut x) true (do_ev c EvTooLarge x))).
        { wrapm (do_ev c EvTooLarge x). apply mono_do_ev. }
        destruct (todo x) as [|[hlen b|] todo'].
        * cbn [fst]. apply mono_do_ev.
        * destruct (hlen <=? rb (m x)).
          -- set (x1 := set_todo todo' (do_ev c (EvDecodeHead hlen b) x)).
             assert (M1 : mono x x1) by (unfold x1; wrapm (do_ev c (EvDecodeHead hlen b) x); apply mono_do_ev).
             destruct (state (m x)).
             ++ pose proof (start_handler_same x1) as S1.
                pose proof (run_handler_same c (handler_fuel (start_handler x1)) (start_handler x1)) as S2.
                destruct (run_handler c (handler_fuel (start_handler x1)) (start_handler x1)) as [x3 r].
                cbn [fst] in S2.
                eapply mono_trans; [|apply IH]. eapply mono_trans; [exact M1|].
                apply same_mono. eapply same_trans; [exact S1|]. eapply same_trans; [exact S2|].
                destruct r as [[h bd]|]; [apply respond_same|apply same_refl].
             ++ eapply mono_trans; [exact M1|apply IH].
             ++ eapply mono_trans; [exact M1|apply IH].
          -- destruct (c_maxb c <=? rb (m x)); cbn [fst]; [exact TL|apply mono_do_ev].
        * destruct (c_maxb c <=? rb (m x)); cbn [fst]; [exact TL|apply mono_do_ev].
  Qed.

  Lemma poll_request_mono x : mono x (fst (poll_request c x)).
  Proof.
    unfold poll_request.
    set (x1 := if rd_disc (m x) then x else do_ev c EvNeedRead x).
    assert (S1 : mono x x1) by (unfold x1; destruct (rd_disc (m x)); [apply mono_refl|apply mono_do_ev]).
    destruct ((c_maxp c <=? lenN (q (m x))) || negb (can_read (m x))); cbn [fst]; [exact S1|].
    eapply mono_trans; [exact S1|]. eapply mono_trans; [apply (mono_do_ev EvGate)|apply decode_loop_mono].
  Qed.

  Lemma poll_response_mono : forall fuel x, mono x (fst (poll_response c fuel x)).
  Proof.
    induction fuel as [|fuel IH]; intro x; cbn [poll_response].
    - cbn [fst]. apply mono_bad; reflexivity.
    - destruct (state (m x)).
      + destruct (q (m x)) as [|[ch|] q'].
        * apply mono_refl.
        * eapply mono_trans; [|apply IH]. eapply mono_trans; [apply (mono_do_ev EvPop)|].
          apply same_mono, start_handler_same.
        * eapply mono_trans; [|apply IH]. apply mono_do_ev.
      + pose proof (run_handler_same c (handler_fuel x) x) as S1.
        destruct (run_handler c (handler_fuel x) x) as [x1 r]. cbn [fst] in S1.
        destruct r as [[h b]|].
        * eapply mono_trans; [|apply IH]. apply same_mono. eapply same_trans; [exact S1|apply respond_same].
        * pose proof (poll_request_mono x1) as S2.
          destruct (poll_request c x1) as [x2 upd]. cbn [fst] in S2.
          assert (S3 : mono x x2) by (eapply mono_trans; [apply same_mono, S1|exact S2]).
          destruct upd; [eapply mono_trans; [exact S3|apply IH]|exact S3].
      + pose proof (send_payload_same c (S (length (body x))) x) as S1.
        destruct (send_payload c (S (length (body x))) x) as [x1 o]. cbn [fst] in S1.
        destruct o; cbn [fst]; try (apply same_mono; exact S1).
        eapply mono_trans; [apply same_mono, S1|apply IH].
  Qed.

  Lemma resp_flush_loop_mono : forall fuel x, mono x (fst (resp_flush_loop c F fuel x)).
  Proof.
    induction fuel as [|fuel IH]; intro x; cbn [resp_flush_loop].
    - cbn [fst]. apply mono_bad; reflexivity.
    - pose proof (poll_response_mono F x) as S1.
      destruct (poll_response c F x) as [x1 drain]. cbn [fst] in S1.
      pose proof (flush_loop_same c (S (length (wscript x1))) x1) as S2. unfold poll_flush_c.
      destruct (flush_loop c (S (length (wscript x1))) x1) as [x2 fr]. cbn [fst] in S2.
      assert (S3 : mono x x2) by (eapply mono_trans; [exact S1|apply same_mono, S2]).
      destruct fr; cbn [fst]; auto.
      destruct drain; cbn [fst]; auto.
      eapply mono_trans; [exact S3|apply IH].
  Qed.

  Lemma shutdown_branch_mono x : mono x (fst (poll_shutdown_branch c x)).
  Proof.
    unfold poll_shutdown_branch, poll_flush_c.
    pose proof (flush_loop_same c (S (length (wscript x))) x) as Sf.
    destruct (flush_loop c (S (length (wscript x))) x) as [y fr]. cbn [fst] in Sf.
    destruct fr; cbn [fst]; apply same_mono, Sf.
  Qed.

  (* read_available against a socket whose peer has closed: below the cap the loop takes
     everything readable and then reports end-of-stream (or the run is flagged) *)
  Lemma read_loop_eof : forall fuel x,
    eof x = true -> rb (m x) + sock x < c_maxb c ->
    snd (read_loop c fuel x) = true \/ bad (fst (read_loop c fuel x)) = true.
  Proof.
    induction fuel as [|fuel IH]; intros x He Hlt; cbn [read_loop].
    - right. reflexivity.
    - destruct (c_maxb c <=? rb (m x)) eqn:Ec; [exfalso; lia|].
      destruct (0 <? sock x) eqn:Es.
      + apply IH.
        * cbn [eof set_counts set_sock]. unfold do_ev. destruct (step c (m x) _); exact He.
        * cbn [m sock set_counts set_sock]. unfold do_ev.
          destruct (step c (m x) (EvRead (N.min (sock x) (c_r c)))) as [s'|] eqn:E.
          -- cbn [m sock]. unfold step, guard in E. destruct (_ && _) in E; inversion E; subst. proj. lia.
          -- cbn [m sock set_bad]. lia.
      + rewrite He. left. reflexivity.
  Qed.

  (* EOF SEEN => READ_DISCONNECT SET IN THE SAME POLL, whatever read_buf holds, whatever is queued,
     running or being decoded: every poll of the normal branch whose socket has been closed by the
     peer (now or earlier) while READ_DISCONNECT was not yet set, with fewer than MAX_BUFFER_SIZE
     bytes buffered + readable, ends with READ_DISCONNECT set -- whatever its result. *)
  Theorem eof_poll_sets_read_disconnect x r x' p :
    shut x = false -> rd_disc (m x) = false -> eof x || r_eof r = true ->
    rb (m x) + (sock x + r_add r) < c_maxb c ->
    poll c F x r = (x', p) -> rd_disc (m x') = true \/ bad x' = true.
  Proof.
    intros Hs Hr He Hlt Hp. change (D x'). unfold poll in Hp. fold (env x r) in Hp.
    change (shut (env x r)) with (shut x) in Hp. rewrite Hs in Hp.
    unfold poll_normal, read_available_c in Hp. change (m (env x r)) with (m x) in Hp. rewrite Hr in Hp.
    set (fu := S (S (N.to_nat (sock (env x r) / N.max 1 (c_r c))))) in Hp.
    pose proof (read_loop_eof fu (env x r) He Hlt) as RL.
    destruct (read_loop c fu (env x r)) as [x1 sd]. cbn [fst snd] in RL.
    pose proof (poll_request_mono x1) as M12.
    destruct (poll_request c x1) as [x2 u]. cbn [fst] in M12.
    set (x3 := if sd then do_ev c EvEof (wake (tgt_task (m x2)) x2) else x2) in Hp.
    assert (D3 : D x3).
    { unfold x3. destruct RL as [-> |B1].
      - unfold do_ev. destruct (step c (m (wake (tgt_task (m x2)) x2)) EvEof) as [s'|] eqn:E.
        + left. cbn [m]. unfold step, guard in E. destruct (negb _) in E; inversion E; subst. reflexivity.
        + right. reflexivity.
      - assert (B2 : bad x2 = true) by (apply M12, B1).
        destruct sd; [|right; exact B2].
        apply (mono_D (wake (tgt_task (m x2)) x2)); [apply mono_do_ev|right; exact B2]. }
    pose proof (resp_flush_loop_mono F x3) as M34.
    destruct (resp_flush_loop c F F x3) as [x4r fail]. cbn [fst] in M34.
    assert (D4r : D x4r) by (eapply mono_D; eauto).
    destruct fail as [pr|]; [inversion Hp; subst; exact D4r|].
    set (x4 := if c_fix28 c then (if rd_disc (m x4r) then x4r else do_ev c EvNeedRead x4r) else x4r) in Hp.
    assert (D4 : D x4).
    { unfold x4. destruct (c_fix28 c); [|exact D4r]. destruct (rd_disc (m x4r)); [exact D4r|].
      eapply mono_D; [apply mono_do_ev|exact D4r]. }
    set (none := match state (m x4) with SNone => true | _ => false end) in Hp.
    set (x5 := if rd_disc (m x4) && none then set_shut_err true (err x4) x4 else x4) in Hp.
    assert (D5 : D x5) by (unfold x5; destruct (rd_disc (m x4) && none); exact D4).
    destruct (none && (wb (m x5) =? 0) && err x5); [inversion Hp; subst; exact D5|].
    destruct (none && (wb (m x5) =? 0) && shut x5).
    - pose proof (shutdown_branch_mono x5) as M. rewrite Hp in M. cbn [fst] in M. eapply mono_D; eauto.
    - inversion Hp; subst. exact D5.
  Qed.

  (* ---- the rest of the normal branch after the end-of-stream block, as in [poll_normal] ---- *)
  Definition epilogue (queue_was_full gate_was_closed : bool) (x3 : sim) : sim * pres :=
    let '(x4r, fail) := resp_flush_loop c F F x3 in
    match fail with
    | Some r => (x4r, r)
    | None =>
        let x4 := if c_fix28 c then (if rd_disc (m x4r) then x4r else do_ev c EvNeedRead x4r) else x4r in
        let none := match state (m x4) with SNone => true | _ => false end in
        let x5 := if rd_disc (m x4) && none then set_shut_err true (err x4) x4 else x4 in
        if none && (wb (m x5) =? 0) && err x5 then (x5, PFailTooLarge)
        else if none && (wb (m x5) =? 0) && shut x5 then poll_shutdown_branch c x5
        else
          let gate_open := (lenN (q (m x5)) <? c_maxp c) && can_read (m x5) in
          let undecoded :=
            if c_fix28 c then gate_was_closed && gate_open && negb (rb (m x5) =? 0)
            else c_fix21 c && queue_was_full && (lenN (q (m x5)) <? c_maxp c) && negb (rb (m x5) =? 0) in
          (wake (shut x5 || undecoded) x5, PPend)
    end.

  Lemma poll_normal_epilogue x :
    poll_normal c F x =
    let '(x1, sd) := read_available_c c x in
    let '(x2, _) := poll_request c x1 in
    epilogue (c_maxp c <=? lenN (q (m x1))) ((c_maxp c <=? lenN (q (m x1))) || negb (can_read (m x1)))
             (if sd then do_ev c EvEof (wake (tgt_task (m x2)) x2) else x2).
  Proof.
    unfold poll_normal, epilogue. destruct (read_available_c c x) as [x1 sd].
    destruct (poll_request c x1) as [x2 u]. reflexivity.
  Qed.

  (* once READ_DISCONNECT is set with nothing running or queued and no error to surface, the rest
     of the poll flushes and either completes through the shutdown branch or leaves a Tail state *)
  Lemma epilogue_tail qf gc x3 :
    (1 <= F)%nat -> shut x3 = false ->
    rd_disc (m x3) = true -> state (m x3) = SNone -> q (m x3) = [] -> err x3 = false ->
    flq x3 = [] -> (wscript x3 = [] \/ acc_script (wscript x3)) ->
    let '(x', p) := epilogue qf gc x3 in
    p = PDone \/
    (p = PPend /\ Tail x' /\ 0 < wb (m x3) /\ wb (m x') <= wb (m x3) /\
     (acc_script (wscript x3) -> wb (m x') < wb (m x3))).
  Proof.
    intros HF Hs H1 H2 H3 E0 F0 Ws0. unfold epilogue.
    destruct F as [|f]; [lia|]. cbn [resp_flush_loop poll_response]. rewrite H2, H3.
    pose proof (flush_spec c x3 F0 Ws0) as S.
    destruct (poll_flush_c c x3) as [y fr].
    destruct S as ((a&b&d&e&g) & Fy & Wy & Le & Hres & Hlt).
    assert (N5 : forall z, m z = m y -> match state (m z) with SNone => true | _ => false end = true)
      by (intros z Ez; rewrite Ez, b, H2; reflexivity).
    assert (Ry : rd_disc (m y) = true) by (rewrite a; exact H1).
    destruct Hres as [[-> Wz]|(-> & Hpos & Wy')].
    - cbn [fst snd]. rewrite !(fix28_id c y Ry). rewrite (N5 y eq_refl), a, H1. cbn [andb].
      set (x5 := set_shut_err true (err y) y).
      assert (M5 : m x5 = m y) by reflexivity. rewrite M5.
      assert (Z : wb (m y) =? 0 = true) by (clear - Wz; lia). rewrite Z.
      change (err x5) with (err y). change (shut x5) with true. rewrite e, E0. cbn [andb].
      assert (R5 : rd_disc (m x5) = true) by (rewrite M5, a; exact H1).
      assert (S5' : state (m x5) = SNone) by (rewrite M5, b; exact H2).
      assert (Q5 : q (m x5) = []) by (rewrite M5, d; exact H3).
      assert (E5 : err x5 = false) by (change (err x5) with (err y); rewrite e; exact E0).
      pose proof (shutdown_branch_tail c x5 R5 S5' Q5 E5 Fy Wy) as S.
      destruct (poll_shutdown_branch c x5) as [x' p]. change (m x5) with (m y) in S.
      destruct S as [S|(_&_&S3&_)]; [left; exact S|exfalso; clear - S3 Wz; lia].
    - cbn [fst snd]. rewrite !(fix28_id c y Ry). rewrite (N5 y eq_refl), a, H1. cbn [andb].
      set (x5 := set_shut_err true (err y) y).
      assert (M5 : m x5 = m y) by reflexivity. rewrite M5.
      assert (Z : wb (m y) =? 0 = false) by (clear - Hpos; lia). rewrite Z. cbn [andb].
      right. split; [reflexivity|].
      split; [unfold Tail, x5; cbn [m err wscript flq wake set_out set_shut_err]; rewrite a, b, d; repeat split; auto; rewrite e; exact E0|].
      unfold x5; cbn [m wake set_out set_shut_err]. split; [clear - Hpos Le; lia|]. split; [exact Le|]. intro A. apply Hlt; [exact A|clear - Hpos Le; lia].
  Qed.
End Eof.
