(* H1/Framing.v — how the length of an HTTP/1 message body is decided from its parsed head.
   Model of `MessageType::set_headers` (decoder.rs:75, shared by requests and responses) and of
   the post-checks of `<Request as MessageType>::decode` (decoder.rs:273-323).
   Self-contained: Lib.Base + H1.Chunked + H1.PayloadDec.  Reused by C17, which needs
   [set_headers] and its own (response-side) post-checks.

   Input: the header list as httparse delivers it, in order: (name, value) byte strings, the
   value already stripped of leading/trailing SP/HT by the tokenizer.  Names are compared after
   ASCII lower-casing (`HeaderName::from_bytes` canonicalises).

   Rust                                         Gallina
   -------------------------------------------  ------------------------------------------
   ParseError::{Header, TooLarge, Io, others}   [perr] = EHeader | ETooLarge | EIo | EOther
   Version::{HTTP_10, HTTP_11}                  [version] = V10 | V11
   ConnectionType                               [ctype]
   locals of set_headers (ka, has_upgrade_      [hacc]
     websocket, expect, chunked, seen_te,
     content_length)
   one iteration of `for idx in raw_headers`    [header_step]  (None = return Err(Header))
   PayloadLength                                [plen]
   set_headers                                  [set_headers]
   PayloadType                                  [ptype]
   Request::decode after set_headers            [request_payload]
   HeaderValue::to_str                          [to_str_ok]  (every byte HT or 0x20..0x7e)
   str::trim                                    [trim]       (ASCII White_Space: 9..13, 32)
   eq_ignore_ascii_case                         [eq_nocase]
   str::parse::<u64>                            [parse_u64]  (optional '+', >= 1 digit, <= u64::MAX)
   HttpMessage::chunked                         [msg_chunked] (first TE value, lower-cased,
                                                 CONTAINS "chunked") *)
From AV Require Import Lib.Base H1.Chunked H1.PayloadDec.

Inductive perr := EHeader | ETooLarge | EIo | EOther.
Inductive version := V10 | V11.
Inductive ctype := CClose | CKeepAlive | CUpgrade.

Definition header := (bytes * bytes)%type.

(* ---- string helpers --------------------------------------------------------------- *)
Definition lower (s : bytes) : bytes := map lower_byte s.
Definition eq_nocase (a b : bytes) : bool := bytes_eqb (lower a) (lower b).
Definition visible (b : byte) : bool := ((32 <=? b) && (b <? 127)) || (b =? 9).
Definition to_str_ok (v : bytes) : bool := forallb visible v.
Definition is_ws (b : byte) : bool := ((9 <=? b) && (b <=? 13)) || (b =? 32).
Fixpoint trim_start (s : bytes) : bytes :=
  match s with b :: r => if is_ws b then trim_start r else s | [] => [] end.
(* [rev_append _ []] = linear-time [rev] *)
Definition trim (s : bytes) : bytes := rev_append (trim_start (rev_append (trim_start s) [])) [].
Definition is_digit (b : byte) : bool := (48 <=? b) && (b <=? 57).

(* decimal value of a digit string, None if a non-digit occurs or the value exceeds u64::MAX
   (checked_mul / checked_add in core::num::from_str_radix) *)
Fixpoint digits_u64 (acc : N) (s : bytes) : option N :=
  match s with
  | [] => Some acc
  | b :: r => if is_digit b
              then let v := acc * 10 + (b - 48) in if v <=? u64_max then digits_u64 v r else None
              else None
  end.
Definition parse_u64 (s : bytes) : option N :=
  match s with
  | [] => None
  | b :: r =>
      if b =? 43                              (* from_str accepts one leading '+' for unsigned *)
      then match r with [] => None | _ => digits_u64 0 r end
      else digits_u64 0 s
  end.

Fixpoint starts_with (p s : bytes) : bool :=
  match p, s with
  | [], _ => true
  | x :: p', y :: s' => (x =? y) && starts_with p' s'
  | _ :: _, [] => false
  end.
Fixpoint contains_sub (p s : bytes) : bool :=
  starts_with p s || match s with [] => false | _ :: r => contains_sub p r end.

(* header names, lower case *)
Definition n_content_length : bytes := [99;111;110;116;101;110;116;45;108;101;110;103;116;104].
Definition n_transfer_encoding : bytes :=
  [116;114;97;110;115;102;101;114;45;101;110;99;111;100;105;110;103].
Definition n_connection : bytes := [99;111;110;110;101;99;116;105;111;110].
Definition n_upgrade : bytes := [117;112;103;114;97;100;101].
Definition n_expect : bytes := [101;120;112;101;99;116].
Definition s_chunked : bytes := [99;104;117;110;107;101;100].
Definition s_identity : bytes := [105;100;101;110;116;105;116;121].
Definition s_keep_alive : bytes := [107;101;101;112;45;97;108;105;118;101].
Definition s_close : bytes := [99;108;111;115;101].
Definition s_websocket : bytes := [119;101;98;115;111;99;107;101;116].
Definition s_100_dash : bytes := [49;48;48;45].
Definition m_POST : bytes := [80;79;83;84].
Definition m_CONNECT : bytes := [67;79;78;78;69;67;84].
Definition m_HEAD : bytes := [72;69;65;68].

(* ---- set_headers ------------------------------------------------------------------- *)
Record hacc := mk_hacc {
  h_ka : option ctype; h_ws : bool; h_expect : bool;
  h_chunked : bool; h_seen_te : bool; h_cl : option N }.
Definition hacc0 : hacc := mk_hacc None false false false false None.

Definition version_eqb (a b : version) : bool :=
  match a, b with V10, V10 | V11, V11 => true | _, _ => false end.

(* body of the `for` loop; the arms are tried in the order of the `match name` *)
Definition header_step (ver : version) (a : hacc) (h : header) : option hacc :=
  let name := lower (fst h) in
  let value := snd h in
  if bytes_eqb name n_content_length then
    match h_cl a with
    | Some _ => None                                            (* multiple Content-Length *)
    | None =>
        if to_str_ok value then
          let val := trim value in
          if starts_with [43] val then None                     (* starts_with('+') *)
          else match parse_u64 val with
               | Some len => Some (mk_hacc (h_ka a) (h_ws a) (h_expect a) (h_chunked a) (h_seen_te a) (Some len))
               | None => None
               end
        else None
    end
  else if bytes_eqb name n_transfer_encoding && h_seen_te a then None
  else if bytes_eqb name n_transfer_encoding && version_eqb ver V11 then
    if to_str_ok value then
      let val := trim value in
      if eq_nocase val s_chunked
      then Some (mk_hacc (h_ka a) (h_ws a) (h_expect a) true true (h_cl a))
      else if eq_nocase val s_identity
      then Some (mk_hacc (h_ka a) (h_ws a) (h_expect a) (h_chunked a) true (h_cl a))
      else None
    else None
  else if bytes_eqb name n_connection then
    let ka := if to_str_ok value then
                let conn := trim value in
                if eq_nocase conn s_keep_alive then Some CKeepAlive
                else if eq_nocase conn s_close then Some CClose
                else if eq_nocase conn n_upgrade then Some CUpgrade
                else None
              else None in
    Some (mk_hacc ka (h_ws a) (h_expect a) (h_chunked a) (h_seen_te a) (h_cl a))
  else if bytes_eqb name n_upgrade then
    let ws := if to_str_ok value then (if eq_nocase (trim value) s_websocket then true else h_ws a)
              else h_ws a in
    Some (mk_hacc (h_ka a) ws (h_expect a) (h_chunked a) (h_seen_te a) (h_cl a))
  else if bytes_eqb name n_expect then
    let e := if starts_with s_100_dash value then true else h_expect a in
    Some (mk_hacc (h_ka a) (h_ws a) e (h_chunked a) (h_seen_te a) (h_cl a))
  else Some a.
  (* NB: a Transfer-Encoding header of an HTTP/1.0 message matches no arm (`_ => {}`): it is
     appended to the map unexamined and never sets seen_te. *)

Fixpoint headers_fold (ver : version) (a : hacc) (hs : list header) : option hacc :=
  match hs with
  | [] => Some a
  | h :: r => match header_step ver a h with Some a' => headers_fold ver a' r | None => None end
  end.

Inductive plen := LPayload (k : kind) | LUpgradeWs | LNone.

(* the decision at the end of set_headers: chunked > upgrade-websocket > content-length > none *)
Definition plen_of (a : hacc) : plen :=
  if h_chunked a then LPayload kchunked0
  else if h_ws a then LUpgradeWs
  else match h_cl a with Some len => LPayload (KLength len) | None => LNone end.

(* result: the payload length plus what set_connection_type / set_expect receive *)
Definition set_headers (ver : version) (hs : list header) : option (plen * option ctype * bool) :=
  match headers_fold ver hacc0 hs with
  | Some a => Some (plen_of a, h_ka a, h_expect a && version_eqb ver V11)
      (* `if expect && version >= Version::HTTP_11 { self.set_expect() }` *)
  | None => None
  end.

(* ---- Request::decode, after set_headers ---------------------------------------------- *)
Inductive ptype := PTNone | PTPayload (k : kind) | PTStream (k : kind).

Definition has_header (n : bytes) (hs : list header) : bool :=
  existsb (fun h : header => bytes_eqb (lower (fst h)) n) hs.
Definition first_value (n : bytes) (hs : list header) : option bytes :=
  match filter (fun h : header => bytes_eqb (lower (fst h)) n) hs with
  | h :: _ => Some (snd h) | [] => None end.

(* HttpMessage::chunked: Ok(bool) | Err(ParseError::Header) = None *)
Definition msg_chunked (hs : list header) : option bool :=
  match first_value n_transfer_encoding hs with
  | Some v => if to_str_ok v then Some (contains_sub s_chunked (lower v)) else None
  | None => Some false
  end.

Definition plen_is_none (l : plen) : bool := match l with LNone => true | _ => false end.
Definition plen_is_zero (l : plen) : bool :=
  match l with LPayload (KLength 0) => true | _ => false end.

Definition request_payload (ver : version) (method : bytes) (hs : list header)
  : option (ptype * option ctype * bool) :=
  match set_headers ver hs with
  | None => None
  | Some (length, ka, expect) =>
      let te_ok :=
        if has_header n_transfer_encoding hs then
          if version_eqb ver V10 then false                       (* TE not allowed in 1.0 *)
          else match msg_chunked hs with
               | None => false
               | Some false => false                              (* TE must be chunked *)
               | Some true => negb (has_header n_content_length hs)   (* both CL and TE *)
               end
        else true in
      if negb te_ok then None
      else if version_eqb ver V10 && bytes_eqb method m_POST && plen_is_none length then None
      else
        let length := if plen_is_zero length then LNone else length in
        let decoder :=
          match length with
          | LPayload k => PTPayload k
          | LUpgradeWs => PTStream KEof
          | LNone => if bytes_eqb method m_CONNECT then PTStream KEof else PTNone
          end in
        Some (decoder, ka, expect)
  end.
