(* Tie of the event-level connection model (H1/ConnState.v) to the SOURCE TEXT of
   actix-http/src/h1/dispatcher.rs: Gen/ConnStateTables.v (generated on every check by
   tools/gen/conn_state.py) holds the statement lists with guards of the transcribed regions; this
   file interprets them over the model state and proves the model's transition functions equal to
   the interpretation, for the tree as it is (fixes F12 + F14 in, F15 not). An edit of one of those
   source lines regenerates a table (or makes the translator report MISSING) and breaks a lemma. *)
Require Import AV.Lib.Base AV.H1.ConnRec AV.H1.ConnState AV.Gen.ConnStateTables.

Definition flag_get (f : cflag) (s : st) : bool :=
  match f with
  | FStarted => started s | FFinished => finished s | FKeepAlive => keep_alive s | FShutdown => shutdown s
  | FReadDisc => read_disc s | FWriteDisc => write_disc s | FLinger => linger s | FDraining => draining s
  end.
Definition flag_set (f : cflag) (v : bool) (s : st) : st :=
  match f with
  | FStarted => set_started v s | FFinished => set_finished v s | FKeepAlive => set_keep_alive v s
  | FShutdown => set_shutdown v s | FReadDisc => set_read_disc v s | FWriteDisc => set_write_disc v s
  | FLinger => set_linger v s | FDraining => set_draining v s
  end.
Fixpoint flags_set (fs : list cflag) (v : bool) (s : st) : st :=
  match fs with [] => s | f :: r => flags_set r v (flag_set f v s) end.
Definition timer_get (t : ctimer) (s : st) : timer :=
  match t with TmHead => head_t s | TmKa => ka_tm s | TmSd => sd_t s end.
Definition timer_set (t : ctimer) (v : timer) (s : st) : st :=
  match t with TmHead => set_head_t v s | TmKa => set_ka_tm v s | TmSd => set_sd_t v s end.

(* locals of the interpreted region *)
Record env := mkEnv { e_cu : bool; e_np : bool; e_ctx : conn_t * bool * bool; e_req : req; e_status : N; e_notified : bool }.
Definition req0 : req := mkReq 0 false true ONone RBNone.
Definition env0 : env := mkEnv false false (CClose, true, false) req0 0 false.
Definition with_req (r : req) (e : env) := mkEnv (e_cu e) (e_np e) (e_ctx e) r (e_status e) (e_notified e).
Definition with_status (n : N) (e : env) := mkEnv (e_cu e) (e_np e) (e_ctx e) (e_req e) n (e_notified e).
Definition with_notified (b : bool) (e : env) := mkEnv (e_cu e) (e_np e) (e_ctx e) (e_req e) (e_status e) b.
Definition with_cu (b : bool) (e : env) := mkEnv b (e_np e) (e_ctx e) (e_req e) (e_status e) (e_notified e).
Definition with_np (b : bool) (e : env) := mkEnv (e_cu e) b (e_ctx e) (e_req e) (e_status e) (e_notified e).
Definition with_ctx (x : conn_t * bool * bool) (e : env) := mkEnv (e_cu e) (e_np e) x (e_req e) (e_status e) (e_notified e).

(* guards; [sc] interprets the call should_close_for_unread_payload(..) *)
Fixpoint gi (c : cfg) (sc : st -> bool) (e : env) (g : cguard) (s : st) : bool :=
  match g with
  | GAny fs => existsb (fun f => flag_get f s) fs
  | GActive t => t_active (timer_get t s)
  | GEnabled t => t_enabled (timer_get t s)
  | GDisc => negb (disc_to c =? 0)
  | GStateNone => is_none (dstate s)
  | GExpect => false                      (* Expect: 100-continue is not modelled *)
  | GNotified => e_notified e
  | GUpgrade => false                     (* upgrade is not modelled *)
  | GLocalDraining => draining s
  | GPayloadSome => negb (is_nil_opt (payload s))
  | GPayloadDropped => payload_dropped s
  | GDrainable => drainable s
  | GMessagesEmpty => is_nil (messages s)
  | GShouldClose => sc s
  | GCu => e_cu e
  | GNp => e_np e
  | GNot a => negb (gi c sc e a s)
  | GAnd a b => gi c sc e a s && gi c sc e b s
  | GOr a b => gi c sc e a s || gi c sc e b s
  end.
Definition should_close (c : cfg) (s : st) : bool := gi c (fun _ => false) env0 CS_SHOULD_CLOSE s.
Arguments should_close : simpl never.
Definition G (c : cfg) (e : env) (g : cguard) (s : st) : bool := gi c (should_close c) e g s.

Inductive oc := OFall | ORet | ORetBool (b : bool) | ORetTimeout | OBreak | OContinue | ODoNothing.

Definition set_ctx3 (x : conn_t * bool * bool) (s : st) : st :=
  let '(k, v, h) := x in set_c_conn k (set_c_v11 v (set_c_head h s)).

(* one statement; flag statements of enter_linger are interpreted from ITS table *)
Definition flags_only (l : list cstmt) (s : st) : st :=
  fold_left (fun s a => match a with SInsert fs => flags_set fs true s | SRemove fs => flags_set fs false s | _ => s end) l s.

Fixpoint ex (c : cfg) (a : cstmt) (x : env * st) {struct a} : (env * st) * oc :=
  let '(e, s) := x in
  match a with
  | SClear t => ((e, timer_set t TInactive s), OFall)
  | SArmDisc t => ((e, timer_set t (arm (disc_to c) s) s), OFall)
  | SInsert fs => ((e, flags_set fs true s), OFall)
  | SRemove fs => ((e, flags_set fs false s), OFall)
  | SEnterLinger => ((e, flags_only CS_ENTER_LINGER s), OFall)
  | SSend408 => ((e, send_response c None 408 ONone 0 0 s), OFall)
  | SSendErrMsg => ((e, send_response c None (e_status e) ONone 0 0 s), OFall)
  | SReturn => (x, ORet)
  | SRetDiscTimeout => ((e, set_res 4 s), ORetTimeout)
  | SRetTrue => (x, ORetBool true)
  | SRetFalse => (x, ORetBool false)
  | SRetDoNothing => (x, ODoNothing)
  | SBreak => (x, OBreak)
  | SContinue => (x, OContinue)
  | SMsgClear => ((e, set_messages [] s), OFall)
  | SSetKaIdle =>
      let k := match payload s with None => is_ka (c_conn s) | Some _ => false end in
      let s := set_keep_alive k s in ((e, if k then add_trace TKeepAlive s else s), OFall)
  | SSignalOff => ((e, set_sig_armed false s), OFall)
  | SPushErr n => ((e, set_messages (messages s ++ [MError n]) s), OFall)
  | SSetErr k => ((e, set_err (Some k) s), OFall)
  | STakePayloadErr => ((e, take_payload_err false s), OFall)
  | SEncodeEof => (x, OFall)              (* the terminating bytes of the body: not part of the model's wire items *)
  | SLetCu => ((with_cu (should_close c s) e, s), OFall)
  | SLetNp => ((with_np (is_nil (messages s)) e, s), OFall)
  | SStateNone => ((e, set_dstate SNone s), OFall)
  | SSaveCtx => ((with_ctx (c_conn s, c_v11 s, c_head s) e, s), OFall)
  | SRestoreCtx => ((e, set_ctx3 (e_ctx e) s), OFall)
  | SDeriveCtx => ((with_ctx (ctx_conn c (e_req e), rq_v11 (e_req e), rq_head (e_req e)) e, s), OFall)
  | SSetCtx => ((e, set_ctx3 (e_ctx e) s), OFall)
  | SPushItem => ((e, set_messages (messages s ++ [MItem (e_req e)]) s), OFall)
  | SHandleRequest => ((e, handle_request c (e_req e) s), OFall)
  | SCallService => ((e, add_trace (TStart (e_req e)) (set_ps (ps s ++ [rq_id (e_req e)]) s)), OFall)
  | SStateService => ((e, set_dstate (SService (e_req e)) s), OFall)
  | SCallExpect | SStateExpect => (x, OFall)
  | SIf g th el =>
      (fix go (l : list cstmt) (x : env * st) : (env * st) * oc :=
         match l with
         | [] => (x, OFall)
         | b :: r => let '(x', o) := ex c b x in match o with OFall => go r x' | _ => (x', o) end
         end) (if G c e g s then th else el) x
  end.
Fixpoint exl (c : cfg) (l : list cstmt) (x : env * st) : (env * st) * oc :=
  match l with
  | [] => (x, OFall)
  | b :: r => let '(x', o) := ex c b x in match o with OFall => exl c r x' | _ => (x', o) end
  end.
Definition run (c : cfg) (e : env) (l : list cstmt) (s : st) : st := snd (fst (exl c l (e, s))).
Definition out (c : cfg) (e : env) (l : list cstmt) (s : st) : oc := snd (exl c l (e, s)).

Definition tree (c : cfg) : Prop := fx c = mkFixes true false true.

Ltac bm :=
  match goal with
  | |- context [if ?b then _ else _] => destruct b eqn:?
  | |- context [match ?x with _ => _ end] => destruct x eqn:?
  end.

(* ------------------------------------------------------------------ (a) the three timers *)
Lemma head_timer_tie c s : tree c ->
  poll_head_timer c s = if t_ready (head_t s) (now s) then run c env0 CS_HEAD_TIMER s else s.
Proof.
  intro T. unfold poll_head_timer. rewrite T. cbn [fx_sd]. destruct (t_ready (head_t s) (now s)); [|reflexivity].
  unfold run, CS_HEAD_TIMER. cbn. destruct (shutdown s); cbn; [reflexivity|]. destruct (read_disc s); reflexivity.
Qed.

Lemma ka_timer_tie c s : tree c ->
  poll_ka_timer c s = if t_ready (ka_tm s) (now s) then run c env0 CS_KA_TIMER s else s.
Proof.
  intro T. unfold poll_ka_timer. rewrite T. cbn [fx_sd]. destruct (t_ready (ka_tm s) (now s)); [|reflexivity].
  unfold run, CS_KA_TIMER. cbn. destruct (disc_to c =? 0); cbn; [reflexivity|]. destruct (t_active (sd_t s)); reflexivity.
Qed.

Lemma sd_timer_tie c s :
  poll_sd_timer s = if t_ready (sd_t s) (now s) then run c env0 CS_SD_TIMER s else s.
Proof.
  unfold poll_sd_timer. destruct (t_ready (sd_t s) (now s)); [|reflexivity].
  unfold run, CS_SD_TIMER. cbn. destruct (linger s); reflexivity.
Qed.

(* ------------------------------------------------------------------ (b) ensure_linger_timer, enter_linger *)
Lemma ensure_linger_tie c s :
  ensure_linger_timer c s = (run c env0 CS_ENSURE_LINGER s,
                             match out c env0 CS_ENSURE_LINGER s with ORetBool b => b | _ => false end).
Proof.
  unfold ensure_linger_timer, run, out, CS_ENSURE_LINGER. cbn.
  destruct (t_active (sd_t s)); cbn; [reflexivity|]. destruct (disc_to c =? 0); reflexivity.
Qed.

Lemma enter_linger_tie c s :
  set_finished true (set_linger true (set_keep_alive false s)) = run c env0 CS_ENTER_LINGER s.
Proof. reflexivity. Qed.

(* ------------------------------------------------------------------ (c) the error arms of poll_request *)
Lemma parse_error_tie c s : parse_error s = run c env0 CS_ERR_PARSE s /\ out c env0 CS_ERR_PARSE s = OBreak.
Proof. split; reflexivity. Qed.
Lemma internal_error_tie c s :
  internal_error s = run c env0 CS_ERR_CHUNK s /\ internal_error s = run c env0 CS_ERR_EOF s /\
  out c env0 CS_ERR_CHUNK s = OBreak /\ out c env0 CS_ERR_EOF s = OBreak.
Proof. repeat split; reflexivity. Qed.
(* the 431 arm (not exercised by the scenarios) is the parse-error arm with another status *)
Lemma too_large_tie :
  CS_ERR_TOO_LARGE = map (fun a => match a with SPushErr _ => SPushErr 431 | a => a end) CS_ERR_PARSE.
Proof. reflexivity. Qed.

(* ------------------------------------------------------------------ (d) should_close_for_unread_payload and its call sites *)
Lemma should_close_tie c s : should_close c s = close_unread s.
Proof.
  unfold should_close, CS_SHOULD_CLOSE, close_unread. cbn. unfold payload_dropped.
  destruct (payload s) eqn:P; cbn; reflexivity.
Qed.
Lemma cu_call_sites_tie c e s : tree c ->
  G c e CS_CU_SEND_RESPONSE s = (close_unread s && (if fx_ctx (fx c) then is_nil (messages s) else true)) /\
  G c e CS_CU_SEND_ERROR s = (close_unread s && (if fx_ctx (fx c) then is_nil (messages s) else true)) /\
  G c (with_cu (G c e CS_CU_SEND_RESPONSE s) e) CS_CLOSE_AFTER_RESPONSE s = (draining s || G c e CS_CU_SEND_RESPONSE s) /\
  G c (with_cu (G c e CS_CU_SEND_ERROR s) e) CS_CLOSE_AFTER_ERROR s = (draining s || G c e CS_CU_SEND_ERROR s).
Proof.
  intro T. rewrite T. cbn [fx_ctx]. unfold G, CS_CU_SEND_RESPONSE, CS_CU_SEND_ERROR, CS_CLOSE_AFTER_RESPONSE, CS_CLOSE_AFTER_ERROR.
  cbn [gi e_cu with_cu]. rewrite should_close_tie. cbn [negb andb].
  repeat split; try apply andb_comm.
  all: destruct (draining s); reflexivity.
Qed.

(* ------------------------------------------------------------------ (e) the two end-of-body arms *)
Lemma body_end_tie c s : tree c ->
  body_end c s = add_trace TComplete (run c env0 CS_BODY_END s) /\ out c env0 CS_BODY_END s = OContinue.
Proof.
  intro T. unfold body_end, complete_flags, finish_hook. rewrite T. cbn [fx_close andb].
  unfold run, out, CS_BODY_END. cbn. rewrite should_close_tie.
  change (close_unread (set_dstate SNone s)) with (close_unread s).
  destruct (is_nil (messages s)); destruct (close_unread s); cbn; try (split; reflexivity).
  destruct (disc_to c =? 0); split; reflexivity.
Qed.
Lemma body_end_err_tie c s : tree c ->
  body_end_err c s = add_trace TComplete (run c env0 CS_BODY_END_ERR s) /\ out c env0 CS_BODY_END_ERR s = OContinue.
Proof.
  intro T. unfold body_end_err, complete_flags, finish_hook. rewrite T. cbn [fx_close andb].
  unfold run, out, CS_BODY_END_ERR. cbn. rewrite should_close_tie.
  change (close_unread (set_dstate SNone s)) with (close_unread s).
  destruct (is_nil (messages s)); destruct (close_unread s); cbn; try (split; reflexivity).
  destruct (disc_to c =? 0); split; reflexivity.
Qed.

(* ------------------------------------------------------------------ (f) graceful shutdown *)
Lemma draining_arm_tie c f s : dstate s = SNone ->
  G c env0 CS_DRAINING_GUARD s = draining s /\
  (draining s = true -> poll_response (S f) c s = run c env0 CS_DRAINING_ARM s /\ out c env0 CS_DRAINING_ARM s = ODoNothing).
Proof.
  intro D. split; [unfold G, CS_DRAINING_GUARD; cbn; apply orb_false_r|].
  intro Dr. cbn [poll_response]. rewrite D, Dr. unfold run, out, CS_DRAINING_ARM. cbn.
  destruct (linger s); split; reflexivity.
Qed.
Lemma idle_arm_tie c f s : dstate s = SNone -> draining s = false -> messages s = [] ->
  poll_response (S f) c s = run c env0 CS_POP_NONE s /\ out c env0 CS_POP_NONE s = ODoNothing.
Proof.
  intros D Dr M. cbn [poll_response]. rewrite D, Dr, M. unfold run, out, CS_POP_NONE. cbn.
  destruct (payload s); [split; reflexivity|]. destruct (is_ka (c_conn s)); split; reflexivity.
Qed.
Lemma pop_error_tie c st s : send_response c None st ONone 0 0 s = run c (with_status st env0) CS_POP_ERROR s.
Proof. reflexivity. Qed.
Lemma graceful_signal_tie c sig s :
  poll_graceful sig s = run c (with_notified (sig_armed s && sig) env0) CS_GRACEFUL_SIGNAL s.
Proof.
  unfold poll_graceful, run, CS_GRACEFUL_SIGNAL. cbn. destruct (sig_armed s && sig); cbn; [|reflexivity].
  destruct (ka_tm s) eqn:E; cbn; rewrite ?E; reflexivity.
Qed.
Lemma drain_gate_tie c s : G c env0 CS_REQUEST_DRAIN_GATE s = (draining s && is_none (dstate s)).
Proof. unfold G, CS_REQUEST_DRAIN_GATE. cbn. rewrite orb_false_r. reflexivity. Qed.

(* ------------------------------------------------------------------ (g) the F12 context statements *)
(* a queued request is dispatched with the context derived from its own head *)
Lemma pop_item_tie c r s : tree c ->
  start_service c true r s = run c (with_req r env0) CS_POP_ITEM s.
Proof. intro T. unfold start_service, set_ctx. rewrite T. reflexivity. Qed.

(* the decode loop saves the context first; after a decoded head (the codec has overwritten the
   context) the request is handled at once on an idle dispatcher, otherwise the saved context is
   restored and the request queued: exactly the two cases of the model's decode step *)
Lemma decode_ctx_tie c r s : tree c ->
  let e := fst (fst (exl c CS_DECODE_LOOP_PREFIX (with_req r env0, s))) in
  let decoded := set_ctx c r s in                 (* codec.decode wrote the new request's context *)
  CS_DECODE_LOOP_PREFIX = [SSaveCtx] /\
  (is_none (dstate s) = true -> run c e CS_DISPATCH_OR_QUEUE decoded = handle_request c r (set_ctx c r s)) /\
  (is_none (dstate s) = false ->
     run c e CS_DISPATCH_OR_QUEUE decoded =
     set_messages (messages s ++ [MItem r]) (if fx_ctx (fx c) && negb (is_none (dstate s)) then s else set_ctx c r s)).
Proof.
  intro T. cbn zeta. split; [reflexivity|]. rewrite T. cbn [fx_ctx andb].
  unfold run, CS_DISPATCH_OR_QUEUE, CS_DECODE_LOOP_PREFIX, G. cbn.
  change (dstate (set_ctx c r s)) with (dstate s).
  split; intro N; rewrite N; cbn; reflexivity.
Qed.

(* ------------------------------------------------------------------ the pinned summaries *)
Theorem timers_match_source c s : tree c ->
  poll_head_timer c s = (if t_ready (head_t s) (now s) then run c env0 CS_HEAD_TIMER s else s) /\
  poll_ka_timer c s = (if t_ready (ka_tm s) (now s) then run c env0 CS_KA_TIMER s else s) /\
  poll_sd_timer s = (if t_ready (sd_t s) (now s) then run c env0 CS_SD_TIMER s else s) /\
  ensure_linger_timer c s = (run c env0 CS_ENSURE_LINGER s, match out c env0 CS_ENSURE_LINGER s with ORetBool b => b | _ => false end) /\
  set_finished true (set_linger true (set_keep_alive false s)) = run c env0 CS_ENTER_LINGER s /\
  (forall sig, poll_graceful sig s = run c (with_notified (sig_armed s && sig) env0) CS_GRACEFUL_SIGNAL s) /\
  G c env0 CS_REQUEST_DRAIN_GATE s = (draining s && is_none (dstate s)) /\
  (forall f, dstate s = SNone -> draining s = true -> poll_response (S f) c s = run c env0 CS_DRAINING_ARM s) /\
  (forall f, dstate s = SNone -> draining s = false -> messages s = [] -> poll_response (S f) c s = run c env0 CS_POP_NONE s).
Proof.
  intro T. split; [apply head_timer_tie; exact T|]. split; [apply ka_timer_tie; exact T|]. split; [apply sd_timer_tie|].
  split; [apply ensure_linger_tie|]. split; [reflexivity|]. split; [intro; apply graceful_signal_tie|].
  split; [apply drain_gate_tie|]. split.
  - intros f D Dr. apply (draining_arm_tie c f s D). exact Dr.
  - intros f D Dr M. apply (idle_arm_tie c f s D Dr M).
Qed.

Theorem transitions_match_source c s : tree c ->
  parse_error s = run c env0 CS_ERR_PARSE s /\
  internal_error s = run c env0 CS_ERR_CHUNK s /\ internal_error s = run c env0 CS_ERR_EOF s /\
  CS_ERR_TOO_LARGE = map (fun a => match a with SPushErr _ => SPushErr 431 | a => a end) CS_ERR_PARSE /\
  should_close c s = close_unread s /\
  (forall e, G c e CS_CU_SEND_RESPONSE s = (close_unread s && (if fx_ctx (fx c) then is_nil (messages s) else true)) /\
             G c e CS_CU_SEND_ERROR s = (close_unread s && (if fx_ctx (fx c) then is_nil (messages s) else true)) /\
             G c (with_cu (G c e CS_CU_SEND_RESPONSE s) e) CS_CLOSE_AFTER_RESPONSE s = (draining s || G c e CS_CU_SEND_RESPONSE s) /\
             G c (with_cu (G c e CS_CU_SEND_ERROR s) e) CS_CLOSE_AFTER_ERROR s = (draining s || G c e CS_CU_SEND_ERROR s)) /\
  body_end c s = add_trace TComplete (run c env0 CS_BODY_END s) /\
  body_end_err c s = add_trace TComplete (run c env0 CS_BODY_END_ERR s) /\
  (forall st, send_response c None st ONone 0 0 s = run c (with_status st env0) CS_POP_ERROR s) /\
  (forall r, start_service c true r s = run c (with_req r env0) CS_POP_ITEM s) /\
  (forall r, CS_DECODE_LOOP_PREFIX = [SSaveCtx] /\
     (is_none (dstate s) = true ->
        run c (fst (fst (exl c CS_DECODE_LOOP_PREFIX (with_req r env0, s)))) CS_DISPATCH_OR_QUEUE (set_ctx c r s) = handle_request c r (set_ctx c r s)) /\
     (is_none (dstate s) = false ->
        run c (fst (fst (exl c CS_DECODE_LOOP_PREFIX (with_req r env0, s)))) CS_DISPATCH_OR_QUEUE (set_ctx c r s) =
        set_messages (messages s ++ [MItem r]) (if fx_ctx (fx c) && negb (is_none (dstate s)) then s else set_ctx c r s))).
Proof.
  intro T. split; [apply parse_error_tie|]. split; [apply internal_error_tie|]. split; [apply internal_error_tie|].
  split; [apply too_large_tie|]. split; [apply should_close_tie|]. split; [intro e; apply cu_call_sites_tie; exact T|].
  split; [apply body_end_tie; exact T|]. split; [apply body_end_err_tie; exact T|].
  split; [intro; apply pop_error_tie|]. split; [intro; apply pop_item_tie; exact T|].
  intro r. exact (decode_ctx_tie c r s T).
Qed.
