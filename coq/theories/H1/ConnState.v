(* Event-level model of `h1::Dispatcher` (actix-http/src/h1/dispatcher.rs): one Gallina function
   per code region, composed by [poll] in the order of `Dispatcher::poll`. Branch order and flag
   updates are transcribed from the Rust code AS IT IS; the three repairs are switchable through
   [fx c] so that the same development states the refutations (unrepaired tree) and the positive
   theorems (repaired tree). No proofs in this file.

   Abstractions (see notes/C03.md): bytes are protocol items; the request-body channel never
   applies back-pressure (bodies < 32 KiB, `PayloadStatus::Pause` unreachable); `write_buf` stays
   below `h1_write_buffer_size` (no `DrainWriteBuf`); a write either takes everything or blocks;
   `poll_flush` of the socket is always ready; Expect/upgrade are not modelled. *)
Require Import AV.Lib.Base AV.H1.ConnRec.
Require Import AV.Gen.Consts.

Definition TICK : N := AV.Gen.Consts.DATE_SERVICE_TICK_MS.
Definition MAXP : N := AV.Gen.Consts.H1_MAX_PIPELINED_MESSAGES.

(* ---- config.rs:270-290: deadlines are computed from the DateService's cached clock ---- *)
Definition cached (now : N) : N := (now / TICK) * TICK.
Definition ka_enabled (c : cfg) : bool := match ka c with KaDisabled => false | _ => true end.

(* ---- timer.rs ---- *)
Definition t_new (enabled : bool) : timer := if enabled then TInactive else TDisabled.
Definition t_enabled (t : timer) : bool := match t with TDisabled => false | _ => true end.
Definition t_active (t : timer) : bool := match t with TActive _ => true | _ => false end.
Definition t_ready (t : timer) (now : N) : bool :=
  match t with TActive d => d <=? now | _ => false end.

Definition is_none (d : dst) : bool := match d with SNone => true | _ => false end.
Definition is_close (k : conn_t) : bool := match k with CClose => true | _ => false end.
Definition is_ka (k : conn_t) : bool := match k with CKeepAlive => true | _ => false end.
Definition is_nil {A} (l : list A) : bool := match l with [] => true | _ => false end.

(* ---- request-body channels (h1/payload.rs), keyed by request id ---- *)
Definition chan0 : chan := mkChan 0 true false false.   (* request without body: Payload::None *)
Fixpoint chan_of (rid : N) (l : list (N * chan)) : chan :=
  match l with [] => chan0 | (k, ch) :: r => if k =? rid then ch else chan_of rid r end.
Fixpoint chan_upd (rid : N) (f : chan -> chan) (l : list (N * chan)) : list (N * chan) :=
  match l with
  | [] => []
  | (k, ch) :: r => if k =? rid then (k, f ch) :: r else (k, ch) :: chan_upd rid f r
  end.
Definition upd_chan (rid : N) (f : chan -> chan) (s : st) : st := set_chans (chan_upd rid f (chans s)) s.
Definition feed_data (ch : chan) := mkChan (ch_items ch + 1) (ch_eof ch) (ch_err ch) (ch_dropped ch).
Definition feed_eof (ch : chan) := mkChan (ch_items ch) true (ch_err ch) (ch_dropped ch).
Definition feed_err (ch : chan) := mkChan (ch_items ch) (ch_eof ch) true (ch_dropped ch).
Definition drop_rx (ch : chan) := mkChan (ch_items ch) (ch_eof ch) (ch_err ch) true.
(* `payload.take()` followed by `set_error` (and `feed_eof` when [eof]) *)
Definition take_payload_err (eof : bool) (s : st) : st :=
  match payload s with
  | None => s
  | Some p => set_payload None (upd_chan p (fun ch => if eof then feed_eof (feed_err ch) else feed_err ch) s)
  end.
Definition payload_dropped (s : st) : bool :=
  match payload s with Some p => ch_dropped (chan_of p (chans s)) | None => false end.

Definition add_trace (e : tev) (s : st) : st := set_trace (trace s ++ [e]) s.

(* ---- codec.rs:120-134: connection context written when a request head is decoded ---- *)
Definition conn_of_req (r : req) : conn_t :=
  match rq_copt r with
  | OClose => CClose
  | OKeepAlive => CKeepAlive
  | ONone => if rq_v11 r then CKeepAlive else CClose
  end.
Definition ctx_conn (c : cfg) (r : req) : conn_t :=
  match conn_of_req r with CKeepAlive => if ka_enabled c then CKeepAlive else CClose | k => k end.
Definition set_ctx (c : cfg) (r : req) (s : st) : st :=
  set_c_conn (ctx_conn c r) (set_c_v11 (rq_v11 r) (set_c_head (rq_head r) s)).

(* ---- dispatcher.rs:1474 should_close_for_unread_payload ---- *)
Definition close_unread (s : st) : bool :=
  match payload s with
  | None => false
  | Some p => negb (ch_dropped (chan_of p (chans s)) && drainable s)
  end.

(* ---- codec.rs:153-186 encode(Message::Item) as called by send_response_inner (dispatcher.rs:437) ---- *)
Definition conn_hdr (k : conn_t) (v11 : bool) : N :=
  match k, v11 with CKeepAlive, false => 2 | CClose, true => 1 | _, _ => 0 end.
Definition encode_head (who : option req) (status : N) (ropt : copt) (blen : N) (s : st) : st :=
  let k := match ropt with OClose => CClose | _ => c_conn s end in
  let s := set_c_conn k s in
  let s := set_wbuf (wbuf s ++ [WHead status (c_v11 s) (conn_hdr k (c_v11 s)) blen]) s in
  let s := set_bskip (c_head s) s in
  add_trace (THead who status (c_v11 s) (c_head s) k) s.

(* repair F15 (fixes/F12-F15.patch): a completed response on a connection that is not kept alive
   drops the queued messages and stops reading *)
Definition finish_hook (c : cfg) (s : st) : st :=
  if fx_close (fx c) && is_close (c_conn s) then
    let s := set_messages [] s in
    if linger s then s else set_read_disc true s
  else s.

(* dispatcher.rs:484-497 / 667-685: flags when a response is complete; [cu] = close for unread payload *)
Definition complete_flags (c : cfg) (cu : bool) (s : st) : st :=
  let s := if cu then
             if disc_to c =? 0 then set_finished true (set_shutdown true s)
             else (* enter_linger, dispatcher.rs:379 *)
                  set_finished true (set_linger true (set_keep_alive false s))
           else set_finished true s in
  finish_hook c (add_trace TComplete s).

(* dispatcher.rs:459-507 send_response / 509-557 send_error_response (identical up to the state
   they install; error responses here always have an empty body) *)
Definition send_response (c : cfg) (who : option req) (status : N) (ropt : copt) (blen bp : N) (s : st) : st :=
  (* repair F12: as at the end-of-body site, an unread payload is attributed to the response being
     sent only when no later request has been queued (otherwise it is that later request's body) *)
  let cu := close_unread s && (if fx_ctx (fx c) then is_nil (messages s) else true) in
  let ropt' := if draining s || cu then OClose else ropt in
  let s := encode_head who status ropt' blen s in
  if blen =? 0 then complete_flags c cu (set_dstate SNone s)
  else set_dstate (SSendPayload who) (set_bpend bp (set_bleft blen s)).

(* ---- handler futures: scripts (harness/src/bin/c03/engine.rs run_handler) ---- *)
Fixpoint run_h (rid : N) (acts : list hact) (s : st) : st * list hact * option (copt * N * N) :=
  match acts with
  | [] => (upd_chan rid drop_rx s, [], Some (ONone, 0, 0))
  | HPend :: r => (s, r, None)
  | HRead :: r =>
      let ch := chan_of rid (chans s) in
      if ch_dropped ch then run_h rid r s
      else if 0 <? ch_items ch then
        run_h rid r (upd_chan rid (fun ch => mkChan (ch_items ch - 1) (ch_eof ch) (ch_err ch) (ch_dropped ch)) s)
      else if ch_err ch then
        run_h rid r (upd_chan rid (fun ch => mkChan 0 (ch_eof ch) false (ch_dropped ch)) s)
      else if ch_eof ch then run_h rid r s
      else (s, acts, None)
  | HReadAll :: r =>
      let ch := chan_of rid (chans s) in
      if ch_dropped ch then run_h rid r s
      else
        let s := upd_chan rid (fun ch => mkChan 0 (ch_eof ch) false (ch_dropped ch)) s in
        if ch_err ch || ch_eof ch then run_h rid r s else (s, acts, None)
  | HDrop :: r => run_h rid r (upd_chan rid drop_rx s)
  | HUntil t :: r => if t <=? now s then run_h rid r s else (s, acts, None)
  | HRespond k b p :: _ => (upd_chan rid drop_rx s, [], Some (k, b, p))
  | HFail st b p :: _ => (set_hfail st (upd_chan rid drop_rx s), [], Some (ONone, b, p))
  end.

Fixpoint hs_get (rid : N) (l : list (N * list hact)) : list hact :=
  match l with [] => [] | (k, a) :: r => if k =? rid then a else hs_get rid r end.
Fixpoint hs_set (rid : N) (a : list hact) (l : list (N * list hact)) : list (N * list hact) :=
  match l with
  | [] => [(rid, a)]
  | (k, b) :: r => if k =? rid then (k, a) :: r else (k, b) :: hs_set rid a r
  end.
(* one poll of the service-call future of request [rid] *)
Definition poll_handler (rid : N) (s : st) : st * option (copt * N * N) :=
  let '(s', rest, out) := run_h rid (hs_get rid (hs s)) s in
  (set_hs (hs_set rid rest (hs s')) s', out).

(* `flow.service.call(req)`; [pop] = the request comes from the message queue (dispatcher.rs:586-597)
   rather than straight from the decoder (handle_request, dispatcher.rs:793). Repair F12: a queued
   request's context is re-derived from its head when it is dispatched. *)
Definition start_service (c : cfg) (pop : bool) (r : req) (s : st) : st :=
  let s := if pop && fx_ctx (fx c) then set_ctx c r s else s in
  add_trace (TStart r) (set_ps (ps s ++ [rq_id r]) (set_dstate (SService r) s)).

(* the service future resolved (dispatcher.rs:625-635 / 851-864): Ok(res) -> send_response, state
   SendPayload; Err(err) -> send_error_response with err.into(), state SendErrorPayload *)
Definition respond (c : cfg) (r : req) (k : copt) (b p : N) (s : st) : st :=
  let status := if hfail s =? 0 then 200 else hfail s in
  set_hfail 0 (set_berr (negb (hfail s =? 0)) (send_response c (Some r) status k b p s)).

(* dispatcher.rs:793-873 handle_request: start the call and poll it once eagerly *)
Definition handle_request (c : cfg) (r : req) (s : st) : st :=
  let s := start_service c false r s in
  let '(s, out) := poll_handler (rq_id r) s in
  match out with
  | Some (k, b, p) => respond c r k b p s
  | None => s
  end.

(* dispatcher.rs:1009-1024 (and 989-1007): parse error branch of poll_request *)
Definition parse_error (s : st) : st :=
  let s := take_payload_err false s in
  set_err (Some 3) (set_read_disc true (set_messages (messages s ++ [MError 400]) s)).
(* dispatcher.rs:949-957 / 964-972: chunk or eof without a payload sender *)
Definition internal_error (s : st) : st :=
  set_err (Some 5) (set_messages (messages s ++ [MError 500]) (set_read_disc true s)).

Definition has_body (r : req) : bool := match rq_body r with RBNone => false | _ => true end.
Definition is_chunked (r : req) : bool := match rq_body r with RBChunked => true | _ => false end.

(* dispatcher.rs:896-1026: the decode loop of poll_request; codec.rs:113-149 decode *)
Fixpoint decode_loop (fuel : nat) (c : cfg) (s : st) (upd : bool) : st * bool :=
  match fuel with
  | O => (s, upd)
  | S f =>
    match rbuf s with
    | [] => (s, upd)                                            (* Ok(None) *)
    | it :: rest =>
      if c_pl s then
        (* codec.rs:114-122: a payload decoder is installed *)
        match it with
        | IData _ =>
            let s := set_rbuf rest s in
            match payload s with
            | Some p => decode_loop f c (upd_chan p feed_data s) true
            | None => (internal_error s, true)
            end
        | IEnd =>
            let s := set_c_pl false (set_rbuf rest s) in
            match payload s with
            | Some p => decode_loop f c (set_drainable false (set_payload None (upd_chan p feed_eof s))) true
            | None => (internal_error s, true)
            end
        | _ => (s, upd)          (* never generated: a head where body bytes are due *)
        end
      else
        match it with
        | IReq r =>
            let s := set_rbuf rest s in
            (* codec.rs:124-134; repair F12: the context of the response in flight is restored
               after a request that is only queued has been decoded *)
            let s := if fx_ctx (fx c) && negb (is_none (dstate s)) then s else set_ctx c r s in
            let s := set_c_pl (has_body r) s in
            let s := set_head_t TInactive s in                  (* dispatcher.rs:904 head_timer.clear *)
            let s := add_trace (TDecode r) s in
            let s := if has_body r
                     then set_drainable (is_chunked r)
                            (set_payload (Some (rq_id r))
                               (set_chans ((rq_id r, mkChan 0 false false false) :: chans s) s))
                     else set_drainable false s in
            if is_none (dstate s) then
              let s := handle_request c r s in
              (* repair F15: stop decoding once the response just sent has ended the read side *)
              if fx_close (fx c) && (read_disc s || linger s || shutdown s) then (s, true)
              else decode_loop f c s true
            else decode_loop f c (set_messages (messages s ++ [MItem r]) s) true
        | IPart =>
            match rest with
            | [] => (s, upd)                                    (* Ok(None): head incomplete *)
            | _ :: _ => decode_loop f c (set_rbuf rest s) upd   (* the rest of the head has arrived *)
            end
        | IBad => (parse_error (set_rbuf rest s), upd)
        | IData _ | IEnd =>
            (* body bytes met where a request head is expected: they would be parsed as a request *)
            (parse_error (set_reparsed true (set_rbuf rest s)), upd)
        end
    end
  end.

(* dispatcher.rs:878-890: gates of poll_request (can_read without back-pressure = not READ_DISCONNECT) *)
Definition poll_request (c : cfg) (s : st) : st * bool :=
  if draining s && is_none (dstate s) then (s, false)
  else if (MAXP <=? lenN (messages s)) || read_disc s then (s, false)
  else decode_loop (S (length (rbuf s))) c s false.

(* dispatcher.rs:660-688: end of the response body in SendPayload *)
Definition body_end (c : cfg) (s : st) : st :=
  let cu := close_unread s in
  let np := is_nil (messages s) in
  complete_flags c (np && cu) (set_dstate SNone s).

(* dispatcher.rs:718-746: end of the body of an ERROR response in SendErrorPayload (the same text as
   the SendPayload arm, transcribed separately because it is a separate arm of the code) *)
Definition body_end_err (c : cfg) (s : st) : st :=
  let cu := close_unread s in
  let np := is_nil (messages s) in
  complete_flags c (np && cu) (set_dstate SNone s).

(* dispatcher.rs:565-791 poll_response *)
Fixpoint poll_response (fuel : nat) (c : cfg) (s : st) : st :=
  match fuel with
  | O => set_res 9 s
  | S f =>
    match dstate s with
    | SNone =>
        if draining s then                                       (* 572-581 *)
          let s := set_keep_alive false (set_messages [] s) in
          if linger s then s else set_shutdown true s
        else
          match messages s with
          | MItem r :: ms => poll_response f c (start_service c true r (set_messages ms s))
          | MError status :: ms => poll_response f c (send_response c None status ONone 0 0 (set_messages ms s))
          | [] =>                                                (* 611-619 *)
              let k := match payload s with None => is_ka (c_conn s) | Some _ => false end in
              let s := set_keep_alive k s in
              if k then add_trace TKeepAlive s else s
          end
    | SService r =>
        let '(s, out) := poll_handler (rq_id r) s in
        match out with
        | Some (k, b, p) => poll_response f c (respond c r k b p s)
        | None =>
            let '(s, upd) := poll_request c s in                 (* 639-646 *)
            if upd then poll_response f c s else s
        end
    | SSendPayload who =>
        if 0 <? bpend s then set_bpend (bpend s - 1) s           (* body stream Pending *)
        else
          let s := if 0 <? bleft s
                   then set_bleft 0 (if bskip s then s else set_wbuf (wbuf s ++ [WBody (bleft s)]) s)
                   else s in
          poll_response f c (if berr s then body_end_err c s else body_end c s)
    end
  end.

(* dispatcher.rs:349-377 poll_flush: true = Ready *)
Definition flush (wblock : bool) (s : st) : st * bool :=
  if is_nil (wbuf s) then (s, true)
  else if wblock then (s, false)
  else (set_wbuf [] (set_pw (pw s ++ wbuf s) s), true).

(* dispatcher.rs:1159-1242 read_available: (state, should_disconnect, io error) *)
Definition unfinish (s : st) : st := if payload_dropped s then s else set_finished false s.
Definition read_available (s : st) : st * bool * bool :=
  if read_disc s then (s, false, false)
  else
    let got := negb (is_nil (sock s)) in
    let s1 := if got then unfinish (set_sock [] (set_rbuf (rbuf s ++ sock s) s)) else s in
    match sock_end s with
    | RPending => (s1, false, false)
    | REof => (unfinish s1, true, false)
    | RErr => if got then (s1, true, false) else (s1, false, true)
    end.

(* dispatcher.rs:1125-1142 *)
Definition poll_graceful (sig : bool) (s : st) : st :=
  if sig_armed s && sig then
    let s := set_draining true (set_keep_alive false (set_sig_armed false s)) in
    if t_enabled (ka_tm s) then set_ka_tm TInactive s else s
  else s.

Definition arm (to : N) (s : st) : timer := TActive (cached (now s) + to).

(* dispatcher.rs:1031-1053; repair F14: the timer is cleared when it fires and a connection that
   is already shutting down, or whose read side is closed (error response queued), gets no 408 *)
Definition poll_head_timer (c : cfg) (s : st) : st :=
  if t_ready (head_t s) (now s) then
    if fx_sd (fx c) then
      let s := set_head_t TInactive s in
      if shutdown s || read_disc s then s else set_shutdown true (send_response c None 408 ONone 0 0 s)
    else set_shutdown true (send_response c None 408 ONone 0 0 s)
  else s.

(* dispatcher.rs:1055-1096; repair F14: cleared when it fires (otherwise it re-arms the shutdown
   timer on every later poll) *)
Definition poll_ka_timer (c : cfg) (s : st) : st :=
  if t_ready (ka_tm s) (now s) then
    let s := set_shutdown true s in
    let s := if disc_to c =? 0 then set_write_disc true s
             else if fx_sd (fx c) && t_active (sd_t s) then s   (* repair F14: keep the earlier deadline *)
             else set_sd_t (arm (disc_to c) s) s in
    if fx_sd (fx c) then set_ka_tm TInactive s else s
  else s.

(* dispatcher.rs:1098-1123 *)
Definition poll_sd_timer (s : st) : st :=
  if t_ready (sd_t s) (now s) then
    if linger s then set_sd_t TInactive (set_shutdown true (set_linger false s))
    else set_res 4 s                                             (* DisconnectTimeout *)
  else s.

(* dispatcher.rs:384-398 *)
Definition ensure_linger_timer (c : cfg) (s : st) : st * bool :=
  if t_active (sd_t s) then (s, true)
  else if disc_to c =? 0 then (s, false)
  else (set_sd_t (arm (disc_to c) s) s, true).

(* dispatcher.rs:400-435 poll_linger *)
Definition poll_linger (c : cfg) (wblock : bool) (s : st) : st :=
  let '(s, ok) := flush wblock s in
  if negb ok then s
  else
    let '(s, have) := ensure_linger_timer c s in
    if negb have then set_shutdown true (set_linger false s)
    else
      let '(s, disc, ioerr) := read_available s in
      if ioerr then set_res 2 s
      else
        let s := if is_nil (rbuf s) then s else add_trace (TDiscard (length (rbuf s))) (set_rbuf [] s) in
        if disc then set_shutdown true (set_read_disc true (set_linger false s)) else s.

(* dispatcher.rs:1312-1321 shutdown branch; repair F14: the disconnect deadline is armed here *)
Definition shutdown_io (c : cfg) (wblock sdpend : bool) (s : st) : st :=
  if write_disc s then set_res 1 s
  else
    let s := if fx_sd (fx c) then fst (ensure_linger_timer c s) else s in
    let '(s, ok) := flush wblock s in
    if negb ok then s
    else if sdpend then s else set_res 1 s.

(* dispatcher.rs:1323-1355: read, keep-alive clear, STARTED/head timer, poll_request, disconnect *)
Definition read_phase (c : cfg) (s : st) : st :=
  let '(s, disc, ioerr) := read_available s in
  if ioerr then set_res 2 s
  else
    let s := if negb (is_nil (rbuf s)) && keep_alive s
             then set_ka_tm TInactive (set_keep_alive false s) else s in
    let s := if started s then s
             else let s := set_started true s in
                  if req_to c =? 0 then s else set_head_t (arm (req_to c) s) s in
    let s := fst (poll_request c s) in
    if disc then take_payload_err true (set_read_disc true s) else s.

(* dispatcher.rs:1357-1405 (without DrainWriteBuf) *)
Definition response_phase (c : cfg) (wblock : bool) (s : st) : st :=
  let s := poll_response (2 * (length (messages s) + length (rbuf s)) + 8) c s in
  let s := if keep_alive s && finished s
           then match ka c with KaTimeout d => set_ka_tm (arm d s) s | _ => s end
           else s in
  fst (flush wblock s).

Definition is_nil_opt {A} (o : option A) : bool := match o with None => true | _ => false end.

(* dispatcher.rs:1407-1463: returns (state, re-enter poll?) *)
Definition epilogue (c : cfg) (s : st) : st * bool :=
  if write_disc s then (set_res 1 s, false)
  else
    let none := is_none (dstate s) in
    let s := if read_disc s && (negb (half_closed c) || none) then set_shutdown true s else s in
    if none && is_nil (wbuf s) then
      match err s with
      | Some e => (set_res e (set_err None s), false)
      | None =>
          if finished s && negb (keep_alive s) && is_nil_opt (payload s)
          then (set_shutdown true (set_finished false s), true)
          else (s, shutdown s)
      end
    else (s, false).

(* ---- Dispatcher::poll (dispatcher.rs:1277-1471). [fuel] bounds the `return self.poll(cx)`
   re-entries (at most two follow each other: FINISHED -> SHUTDOWN, then the shutdown branch). ---- *)
Fixpoint poll_body (fuel : nat) (c : cfg) (r : round) (s : st) : st :=
  match fuel with
  | O => set_res 9 s
  | S f =>
    let s := poll_graceful (r_signal r) s in
    let s := poll_head_timer c s in
    let s := poll_ka_timer c s in
    let s := poll_sd_timer s in
    if negb (res s =? 0) then s
    else if linger s then poll_linger c (r_wblock r) s
    else if shutdown s then shutdown_io c (r_wblock r) (r_sdpend r) s
    else
      let s := read_phase c s in
      if negb (res s =? 0) then s
      else
        let s := response_phase c (r_wblock r) s in
        if negb (res s =? 0) then s
        else
          let '(s, again) := epilogue c s in
          if again then poll_body f c r s else s
  end.

(* one round: the environment moves, then exactly one poll *)
Definition env_step (r : round) (s : st) : st :=
  let s := set_now (now s + r_adv r) s in
  let s := set_sock (sock s ++ r_arrive r) s in
  let s := match r_rd r with RPending => s | e => set_sock_end e s end in
  set_pw [] (set_ps [] s).

Definition poll (c : cfg) (r : round) (s : st) : st :=
  if negb (res s =? 0) then s else poll_body 4 c r (env_step r s).

Fixpoint number {A} (i : N) (l : list A) : list (N * A) :=
  match l with [] => [] | x :: r => (i, x) :: number (i + 1) r end.

Definition init (c : cfg) (hs : list (list hact)) : st :=
  mkSt false false false false false false false false
       SNone None false []
       (t_new (negb (req_to c =? 0))) (t_new (ka_enabled c)) (t_new (negb (disc_to c =? 0))) (has_signal c)
       [] []
       CClose true false false
       None 0
       [] RPending
       (number 0 hs) []
       0 0 false
       0 [] []
       [] false
       0 false.

Fixpoint run_polls (c : cfg) (rs : list round) (s : st) : st :=
  match rs with [] => s | r :: rest => run_polls c rest (poll c r s) end.

(* ---- the same code regions as events, for statements over ARBITRARY event sequences. Guards are
   the conditions under which `Dispatcher::poll` reaches the region (the response phase and the
   epilogue are left unguarded: an over-approximation). [poll] is a particular composition of
   these steps (ConnProofs.poll_by_steps). ---- *)
Inductive ev :=
| EEnv (r : round)
| EGraceful (sig : bool)
| EHeadTimer | EKaTimer | ESdTimer
| ELinger (wblock : bool)
| EShutdownIo (wblock sdpend : bool)
| EReadPhase
| EResponsePhase (wblock : bool)
| EEpilogue.

Definition step (c : cfg) (e : ev) (s : st) : st :=
  if negb (res s =? 0) then s
  else match e with
       | EEnv r => env_step r s
       | EGraceful sig => poll_graceful sig s
       | EHeadTimer => poll_head_timer c s
       | EKaTimer => poll_ka_timer c s
       | ESdTimer => poll_sd_timer s
       | ELinger wb => if linger s then poll_linger c wb s else s
       | EShutdownIo wb sp => if negb (linger s) && shutdown s then shutdown_io c wb sp s else s
       | EReadPhase => if linger s || shutdown s then s else read_phase c s
       | EResponsePhase wb => response_phase c wb s
       | EEpilogue => fst (epilogue c s)
       end.

Fixpoint run_events (c : cfg) (es : list ev) (s : st) : st :=
  match es with [] => s | e :: r => run_events c r (step c e s) end.
