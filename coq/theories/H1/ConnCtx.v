(* F12 repaired (fx_ctx): every response to a request is encoded with the context of THAT request,
   whatever was decoded in the meantime. Invariant over arbitrary event sequences. *)
Require Import AV.Lib.Base AV.H1.ConnRec AV.H1.ConnState AV.H1.ConnSpec AV.H1.ConnProofs AV.H1.ConnGraceful.

Definition Ctx (c : cfg) (s : st) : Prop :=
  match dstate s with
  | SService r => c_v11 s = rq_v11 r /\ c_head s = rq_head r /\ (is_close (c_conn s) || is_ka (ctx_conn c r)) = true
  | _ => True
  end.
Definition E (c : cfg) (s s' : st) : Prop := Ctx c s' /\ ext (own_ctx_ev c) s s'.

Lemma E_refl c s : Ctx c s -> E c s s.
Proof. intro H. split; [exact H|apply ext_refl]. Qed.
Lemma E_trans c s1 s2 s3 : E c s1 s2 -> E c s2 s3 -> E c s1 s3.
Proof. intros [_ E1] [D E2]. split; [exact D|eapply ext_trans; eauto]. Qed.
Lemma E_same c s s' : Ctx c s' -> trace s' = trace s -> E c s s'.
Proof. intros D T. split; [exact D|apply ext_same; exact T]. Qed.

Lemma Ctx_frame c s s' : dstate s' = dstate s -> c_v11 s' = c_v11 s -> c_head s' = c_head s -> c_conn s' = c_conn s ->
  Ctx c s -> Ctx c s'.
Proof. unfold Ctx. intros -> -> -> ->. auto. Qed.

Lemma Ctx_none c s : dstate s = SNone -> Ctx c s.
Proof. unfold Ctx. intros ->. exact I. Qed.

Lemma ctx_conn_total c r : (is_close (ctx_conn c r) || is_ka (ctx_conn c r)) = true.
Proof. destruct (ctx_conn c r); reflexivity. Qed.

Lemma bool_eqb_refl b : Bool.eqb b b = true.
Proof. destruct b; reflexivity. Qed.

(* response of the request in flight *)
Lemma send_response_E_own c r st ro bl bp s : dstate s = SService r -> Ctx c s ->
  E c s (send_response c (Some r) st ro bl bp s).
Proof.
  intros D C. unfold Ctx in C. rewrite D in C. destruct C as (A & B & K). split.
  - unfold Ctx, send_response, encode_head, complete_flags, finish_hook, add_trace. repeat bm; cbn in *; auto; congruence.
  - eexists. split; [apply send_response_trace|].
    cbn. rewrite A, B, !bool_eqb_refl. cbn.
    assert (X : (is_close (resp_conn c ro s) || is_ka (ctx_conn c r)) = true).
    { unfold resp_conn. repeat bm; cbn; auto. }
    rewrite X. destruct (bl =? 0); reflexivity.
Qed.

Lemma respond_E_own c r ro bl bp s : dstate s = SService r -> Ctx c s -> E c s (respond c r ro bl bp s).
Proof.
  intros D C. destruct (send_response_E_own c r (if hfail s =? 0 then 200 else hfail s) ro bl bp s D C) as [C1 [l [T Q]]].
  split.
  - revert C1. apply Ctx_frame; reflexivity.
  - exists l. split; [rewrite respond_trace; exact T|exact Q].
Qed.

(* error responses carry no request *)
Lemma send_response_E_none c st ro bl bp s : E c s (send_response c None st ro bl bp s).
Proof.
  split.
  - unfold Ctx, send_response, encode_head, complete_flags, finish_hook, add_trace. repeat bm; cbn in *; auto; congruence.
  - eexists. split; [apply send_response_trace|]. cbn. destruct (bl =? 0); reflexivity.
Qed.

Lemma handle_request_E c r s : dstate s = SNone -> c_v11 s = rq_v11 r -> c_head s = rq_head r -> c_conn s = ctx_conn c r ->
  E c s (handle_request c r s).
Proof.
  intros D A B K. unfold handle_request.
  set (s0 := start_service c false r s).
  assert (D0 : dstate s0 = SService r) by reflexivity.
  assert (C0 : Ctx c s0) by (unfold Ctx; rewrite D0; cbn; rewrite K; auto using ctx_conn_total).
  assert (T0 : trace s0 = trace s ++ [TStart r]) by reflexivity.
  destruct (poll_handler (rq_id r) s0) as [s1 out] eqn:P.
  pose proof (poll_handler_frame _ _ _ _ P) as F.
  assert (D1 : dstate s1 = SService r) by (rewrite F; exact D0).
  assert (C1 : Ctx c s1) by (rewrite F; revert C0; apply Ctx_frame; reflexivity).
  assert (E01 : E c s s1).
  { split; [exact C1|]. apply ext_one with (e := TStart r); [rewrite F; exact T0|reflexivity]. }
  destruct out as [[[k b] p]|]; [|exact E01].
  eapply E_trans; [exact E01|]. apply respond_E_own; assumption.
Qed.

Lemma decode_loop_E c : fx_ctx (fx c) = true -> forall fuel s upd, Ctx c s -> E c s (fst (decode_loop fuel c s upd)).
Proof.
  intros FX. induction fuel as [|f IH]; intros s upd C; cbn [decode_loop]; [apply E_refl; exact C|].
  destruct (rbuf s) as [|it rest] eqn:Er; [apply E_refl; exact C|].
  destruct (c_pl s) eqn:Ec.
  - destruct it; try (apply E_refl; exact C).
    + cbn. destruct (payload s) eqn:Ep.
      * eapply E_trans; [|apply IH]; [apply E_same; [|reflexivity]|]; revert C; apply Ctx_frame; reflexivity.
      * cbn. apply E_same; [|reflexivity]. revert C; apply Ctx_frame; reflexivity.
    + cbn. destruct (payload s) eqn:Ep.
      * eapply E_trans; [|apply IH]; [apply E_same; [|reflexivity]|]; revert C; apply Ctx_frame; reflexivity.
      * cbn. apply E_same; [|reflexivity]. revert C; apply Ctx_frame; reflexivity.
  - destruct it.
    + (* IReq *) rewrite FX. cbn [andb].
      destruct (is_none (dstate (set_rbuf rest s))) eqn:N.
      * (* nothing in flight: the codec takes the context of this request, which is dispatched *)
        cbn [negb].
        match goal with |- context [handle_request c r ?x] =>
          assert (Dx : dstate x = SNone) by (unfold set_ctx, add_trace; repeat bm; cbn in *; destruct (dstate s); cbn in *; congruence);
          assert (Ax : c_v11 x = rq_v11 r) by (unfold set_ctx, add_trace; repeat bm; reflexivity);
          assert (Bx : c_head x = rq_head r) by (unfold set_ctx, add_trace; repeat bm; reflexivity);
          assert (Kx : c_conn x = ctx_conn c r) by (unfold set_ctx, add_trace; repeat bm; reflexivity);
          assert (Tx : trace x = trace s ++ [TDecode r]) by (unfold set_ctx, add_trace; repeat bm; reflexivity);
          pose proof (handle_request_E c r x Dx Ax Bx Kx) as EH; set (x0 := x) in * end.
        assert (Nx : is_none (dstate x0) = true) by (rewrite Dx; reflexivity). rewrite Nx.
        assert (E0 : E c s x0).
        { split; [unfold Ctx; rewrite Dx; exact I|]. apply ext_one with (e := TDecode r); [exact Tx|reflexivity]. }
        bm; [eapply E_trans; eauto|].
        eapply E_trans; [exact E0|]. eapply E_trans; [exact EH|]. apply IH. apply EH.
      * (* a response is in flight: its context is kept, the request is queued *)
        cbn [negb].
        match goal with |- context [if is_none (dstate ?x) then _ else _] =>
          assert (Nx : is_none (dstate x) = false) by (unfold add_trace; repeat bm; cbn in *; exact N);
          assert (Cx : Ctx c x) by (revert C; apply Ctx_frame; unfold add_trace; repeat bm; reflexivity);
          assert (Tx : trace x = trace s ++ [TDecode r]) by (unfold add_trace; repeat bm; reflexivity);
          rewrite Nx; set (x0 := x) in * end.
        eapply E_trans; [|apply IH; revert Cx; apply Ctx_frame; reflexivity].
        split; [revert Cx; apply Ctx_frame; reflexivity|].
        apply ext_one with (e := TDecode r); [exact Tx|reflexivity].
    + destruct rest; [apply E_refl; exact C|].
      eapply E_trans; [|apply IH]; [apply E_same; [|reflexivity]|]; revert C; apply Ctx_frame; reflexivity.
    + cbn. apply E_same; [|unfold parse_error, take_payload_err; repeat bm; reflexivity].
      revert C; apply Ctx_frame; unfold parse_error, take_payload_err; repeat bm; reflexivity.
    + cbn. apply E_same; [|unfold parse_error, take_payload_err; repeat bm; reflexivity].
      revert C; apply Ctx_frame; unfold parse_error, take_payload_err; repeat bm; reflexivity.
    + cbn. apply E_same; [|unfold parse_error, take_payload_err; repeat bm; reflexivity].
      revert C; apply Ctx_frame; unfold parse_error, take_payload_err; repeat bm; reflexivity.
Qed.

Lemma poll_request_E c s : fx_ctx (fx c) = true -> Ctx c s -> E c s (fst (poll_request c s)).
Proof.
  intros FX C. unfold poll_request.
  destruct (draining s && is_none (dstate s)); [apply E_refl; exact C|].
  destruct ((MAXP <=? lenN (messages s)) || read_disc s); [apply E_refl; exact C|].
  apply decode_loop_E; assumption.
Qed.

Lemma poll_response_E c : fx_ctx (fx c) = true -> forall fuel s, Ctx c s -> E c s (poll_response fuel c s).
Proof.
  intros FX. induction fuel as [|f IH]; intros s C; cbn [poll_response]; rewrite ?body_if.
  - apply E_same; [|reflexivity]. revert C; apply Ctx_frame; reflexivity.
  - destruct (dstate s) eqn:Ed.
    + destruct (draining s).
      * apply E_same; [|repeat bm; reflexivity]. apply Ctx_none. repeat bm; exact Ed.
      * destruct (messages s) as [|[r|stt] ms] eqn:Em.
        -- cbv zeta. match goal with |- context [set_keep_alive ?k s] => destruct k end.
           ++ split; [apply Ctx_none; exact Ed|]. apply ext_one with (e := TKeepAlive); reflexivity.
           ++ apply E_same; [apply Ctx_none; exact Ed|reflexivity].
        -- (* pop: the context is re-derived from the request's own head *)
           match goal with |- context [start_service c true r ?x] =>
             assert (C1 : Ctx c (start_service c true r x));
             [unfold Ctx, start_service, set_ctx, add_trace; rewrite FX; cbn; auto using ctx_conn_total|];
             assert (T1 : trace (start_service c true r x) = trace s ++ [TStart r]) by (unfold start_service, set_ctx, add_trace; rewrite FX; reflexivity);
             set (x1 := start_service c true r x) in * end.
           eapply E_trans; [|apply IH; exact C1].
           split; [exact C1|]. apply ext_one with (e := TStart r); [exact T1|reflexivity].
        -- eapply E_trans; [|apply IH; apply send_response_E_none].
           eapply E_trans; [|apply send_response_E_none].
           apply E_same; [|reflexivity]. apply Ctx_none. exact Ed.
    + destruct (poll_handler (rq_id r) s) as [s1 out] eqn:P.
      pose proof (poll_handler_frame _ _ _ _ P) as F.
      assert (D1 : dstate s1 = SService r) by (rewrite F; exact Ed).
      assert (C1 : Ctx c s1) by (rewrite F; revert C; apply Ctx_frame; reflexivity).
      assert (E1 : E c s s1) by (apply E_same; [exact C1|rewrite F; reflexivity]).
      destruct out as [[[k b] p]|].
      * pose proof (respond_E_own c r k b p s1 D1 C1) as E2.
        eapply E_trans; [exact E1|]. eapply E_trans; [exact E2|]. apply IH. apply E2.
      * destruct (poll_request c s1) as [s2 upd] eqn:P2.
        pose proof (poll_request_E c s1 FX C1) as E2. rewrite P2 in E2. cbn in E2.
        destruct upd; [|eapply E_trans; eauto].
        eapply E_trans; [exact E1|]. eapply E_trans; [exact E2|]. apply IH. apply E2.
    + bm.
      * apply E_same; [|reflexivity]. unfold Ctx. cbn. rewrite Ed. exact I.
      * match goal with |- context [body_end c ?x] =>
          assert (Cb : Ctx c (body_end c x)) by (apply Ctx_none; unfold body_end, complete_flags, finish_hook, add_trace; repeat bm; reflexivity);
          assert (Tb : trace (body_end c x) = trace s ++ [TComplete]) by (unfold body_end, complete_flags, finish_hook, add_trace; repeat bm; reflexivity);
          set (xb := body_end c x) in * end.
        eapply E_trans; [|apply IH; exact Cb].
        split; [exact Cb|]. apply ext_one with (e := TComplete); [exact Tb|reflexivity].
Qed.

Theorem step_E c e s : fx_ctx (fx c) = true -> Ctx c s -> E c s (step c e s).
Proof.
  intros FX C. unfold step. destruct (negb (res s =? 0)); [apply E_refl; exact C|]. destruct e.
  - apply E_same; [|unfold env_step; repeat bm; reflexivity]. revert C; apply Ctx_frame; unfold env_step; repeat bm; reflexivity.
  - apply E_same; [|unfold poll_graceful; repeat bm; reflexivity]. revert C; apply Ctx_frame; unfold poll_graceful; repeat bm; reflexivity.
  - unfold poll_head_timer. repeat bm; try (apply E_refl; exact C).
    all: try (apply E_same; [|reflexivity]; revert C; apply Ctx_frame; reflexivity).
    all: match goal with |- E _ _ (set_shutdown true (send_response _ None ?stt ?ro ?bl ?bp ?x)) =>
           pose proof (send_response_E_none c stt ro bl bp x) as E1 end.
    all: eapply E_trans; [apply E_same with (s' := _); [|reflexivity]; revert C; apply Ctx_frame; reflexivity|].
    all: eapply E_trans; [exact E1|]; apply E_same; [|reflexivity]; destruct E1 as [C1 _]; revert C1; apply Ctx_frame; reflexivity.
  - apply E_same; [|unfold poll_ka_timer; repeat bm; reflexivity]. revert C; apply Ctx_frame; unfold poll_ka_timer; repeat bm; reflexivity.
  - apply E_same; [|unfold poll_sd_timer; repeat bm; reflexivity]. revert C; apply Ctx_frame; unfold poll_sd_timer; repeat bm; reflexivity.
  - destruct (linger s); [|apply E_refl; exact C]. unfold poll_linger.
    destruct (flush wblock s) as [s1 ok] eqn:E1.
    assert (A1 : Ctx c s1 /\ trace s1 = trace s) by (unfold flush in E1; repeat bmh E1; inv E1; cbn; auto).
    destruct A1 as [C1 T1]. destruct ok; cbn [negb]; [|apply E_same; assumption].
    destruct (ensure_linger_timer c s1) as [s2 have] eqn:E2.
    assert (A2 : Ctx c s2 /\ trace s2 = trace s) by (unfold ensure_linger_timer in E2; repeat bmh E2; inv E2; cbn; auto).
    destruct A2 as [C2 T2]. destruct have; cbn [negb]; [|apply E_same; [revert C2; apply Ctx_frame; reflexivity|exact T2]].
    destruct (read_available s2) as [[s3 d] io] eqn:E3.
    assert (A3 : Ctx c s3 /\ trace s3 = trace s) by (unfold read_available, unfinish in E3; repeat bmh E3; inv E3; cbn; auto).
    destruct A3 as [C3 T3]. destruct io; [apply E_same; [revert C3; apply Ctx_frame; reflexivity|exact T3]|].
    destruct (is_nil (rbuf s3)).
    + apply E_same; destruct d; cbn; try assumption; revert C3; apply Ctx_frame; reflexivity.
    + split; [destruct d; revert C3; apply Ctx_frame; reflexivity|].
      apply ext_one with (e := TDiscard (length (rbuf s3))); [|reflexivity]. destruct d; cbn; rewrite T3; reflexivity.
  - destruct (negb (linger s) && shutdown s); [|apply E_refl; exact C].
    apply E_same.
    + revert C. apply Ctx_frame; unfold shutdown_io, ensure_linger_timer, flush; repeat bm; cbn; auto.
      all: repeat match goal with E : (_, _) = (_, _) |- _ => inv E end; cbn; auto.
    + unfold shutdown_io, ensure_linger_timer, flush; repeat bm; cbn; auto.
      all: repeat match goal with E : (_, _) = (_, _) |- _ => inv E end; cbn; auto.
  - destruct (linger s || shutdown s); [apply E_refl; exact C|]. unfold read_phase.
    destruct (read_available s) as [[s1 d] io] eqn:E1.
    assert (A1 : Ctx c s1 /\ trace s1 = trace s) by (unfold read_available, unfinish in E1; repeat bmh E1; inv E1; cbn; auto).
    destruct A1 as [C1 T1].
    destruct io; [apply E_same; [revert C1; apply Ctx_frame; reflexivity|exact T1]|].
    match goal with |- context [poll_request c ?x] =>
      assert (C2 : Ctx c x) by (revert C1; apply Ctx_frame; repeat bm; reflexivity);
      assert (T2 : trace x = trace s) by (repeat bm; cbn; exact T1);
      pose proof (poll_request_E c x FX C2) as E2; set (x0 := x) in * end.
    assert (E0 : E c s x0) by (apply E_same; assumption).
    destruct d; [|eapply E_trans; eauto].
    eapply E_trans; [exact E0|]. eapply E_trans; [exact E2|].
    destruct E2 as [Cz _].
    apply E_same; [|unfold take_payload_err; repeat bm; reflexivity].
    revert Cz. apply Ctx_frame; unfold take_payload_err; repeat bm; reflexivity.
  - unfold response_phase.
    match goal with |- context [poll_response ?f c s] => pose proof (poll_response_E c FX f s C) as E1; set (s1 := poll_response f c s) in * end.
    eapply E_trans; [exact E1|]. destruct E1 as [Cz _].
    apply E_same; [|unfold flush; repeat bm; reflexivity].
    revert Cz. apply Ctx_frame; unfold flush; repeat bm; reflexivity.
  - apply E_same; [|unfold epilogue; repeat bm; reflexivity].
    revert C. apply Ctx_frame; unfold epilogue; repeat bm; reflexivity.
Qed.

Theorem run_events_E c es : fx_ctx (fx c) = true -> forall s, Ctx c s -> E c s (run_events c es s).
Proof.
  intro F. induction es as [|e es IH]; intros s C; cbn; [apply E_refl; exact C|].
  pose proof (step_E c e s F C) as E1. eapply E_trans; [exact E1|]. apply IH. apply E1.
Qed.

Theorem own_context_always c hs0 es : fx_ctx (fx c) = true ->
  own_context c (trace (run_events c es (init c hs0))) = true.
Proof.
  intro F. destruct (run_events_E c es F (init c hs0) I) as [_ [l [T Q]]].
  rewrite T. cbn. exact Q.
Qed.
