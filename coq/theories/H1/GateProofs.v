(* H1/GateProofs.v — once a request has been rejected nothing behind it is ever decoded. *)
From AV Require Import Lib.Base H1.Chunked H1.PayloadDec H1.Framing H1.Codec H1.Gate.

Section GateProofs.
  Variable head : bytes -> head_res.
  Variables maxb maxp : N.
  Notation gstep := (gstep head maxb maxp).
  Notation gexec := (gexec head maxb maxp).

  (* a rejection always comes with READ_DISCONNECT *)
  Definition ginv (g : gate) : Prop := g_rejected g <> None -> g_read_disconnect g = true.

  Lemma gstep_inv g o : ginv g -> ginv (gstep g o).
  Proof.
    unfold ginv. intro H. destruct o as [bs| |pl lo|n]; cbn [Gate.gstep].
    - unfold read_available. destruct (g_read_disconnect g) eqn:E; cbn; auto.
    - cbn. auto.
    - unfold poll_request.
      destruct ((maxp <=? g_queued g) || negb (can_read g pl)) eqn:E; [exact H|].
      apply orb_false_iff in E as [_ E]. apply negb_false_iff in E.
      unfold can_read in E. destruct (g_read_disconnect g) eqn:Ed; [discriminate|].
      destruct (run head maxb (run_fuel (g_read_buf g)) (g_codec g) (g_read_buf g) (g_msgs g)); cbn; auto.
      all: intro Hr; try rewrite Ed; specialize (H Hr); discriminate.
    - cbn. exact H.
  Qed.

  Lemma gexec_inv ops : forall g, ginv g -> ginv (gexec ops g).
  Proof.
    induction ops as [|o ops IH]; intros g H; [exact H|].
    change (gexec (o :: ops) g) with (gexec ops (gstep g o)).
    apply IH. apply gstep_inv. exact H.
  Qed.

  (* with READ_DISCONNECT set the decoder is never run again: the application-visible message
     sequence, the codec and the recorded rejection are frozen, whatever is read, polled or left
     in the read buffer *)
  Lemma gstep_frozen g o : g_read_disconnect g = true ->
    g_read_disconnect (gstep g o) = true /\ g_msgs (gstep g o) = g_msgs g /\
    g_rejected (gstep g o) = g_rejected g /\ g_codec (gstep g o) = g_codec g /\
    g_read_buf (gstep g o) = g_read_buf g.
  Proof.
    intro H. destruct o as [bs| |pl lo|n]; cbn [Gate.gstep].
    - unfold read_available. rewrite H. auto.
    - cbn. auto.
    - unfold poll_request, can_read. rewrite H. cbn [negb]. rewrite orb_true_r. auto.
    - cbn. auto.
  Qed.

  Theorem frozen_after_disconnect ops : forall g, g_read_disconnect g = true ->
    g_msgs (gexec ops g) = g_msgs g /\ g_rejected (gexec ops g) = g_rejected g /\
    g_read_buf (gexec ops g) = g_read_buf g.
  Proof.
    induction ops as [|o ops IH]; intros g H; [auto|].
    destruct (gstep_frozen g o H) as (H1 & H2 & H3 & _ & H5).
    destruct (IH _ H1) as (I1 & I2 & I3).
    change (gexec (o :: ops) g) with (gexec ops (gstep g o)).
    rewrite I1, I2, I3. auto.
  Qed.

  (* the clause of C01: from the initial state, under every schedule of reads, polls, payload
     back-pressure answers, queue lengths and buffer leftovers: as soon as a rejection has
     happened, no later operation changes what the application sees *)
  Theorem nothing_after_reject ops1 ops2 e :
    g_rejected (gexec ops1 gate0) = Some e ->
    g_msgs (gexec (ops1 ++ ops2) gate0) = g_msgs (gexec ops1 gate0) /\
    g_rejected (gexec (ops1 ++ ops2) gate0) = Some e.
  Proof.
    intro H. unfold Gate.gexec. rewrite fold_left_app. fold (gexec ops1 gate0). fold (gexec ops2 (gexec ops1 gate0)).
    assert (Hd : g_read_disconnect (gexec ops1 gate0) = true).
    { apply (gexec_inv ops1 gate0); [intro; contradiction|]. rewrite H. discriminate. }
    destruct (frozen_after_disconnect ops2 _ Hd) as (H1 & H2 & _). rewrite H1, H2. auto.
  Qed.
End GateProofs.
