(* C02, upgrade hand-off: the sequencing + flush model (H1/RespWire.v) extended with
   DispatcherMessage::Upgrade, PollResponse::Upgrade and InnerDispatcher::upgrade()
   (actix-http/src/h1/dispatcher.rs):

     poll_request, Message::Item, MessageType::Stream if flow.upgrade.is_some():
         if !state.is_none() { codec.set_request_context(ctx_in_flight) }
         messages.push_back(DispatcherMessage::Upgrade(req, ctx));  break;
     poll_response, State::None, pop_front = Some(Upgrade(req, ctx)):
         codec.set_request_context(ctx);  return Ok(PollResponse::Upgrade(req))
         (reached in the same poll_response loop in which the response in front completed or, when
          nothing was in flight, in the poll that decoded the request: always BEFORE the
          poll_flush that follows poll_response in Dispatcher::poll)
     upgrade():
         let mut parts = FramedParts::with_read_buf(io.take().unwrap(), mem::take(codec), mem::take(read_buf));
         parts.write_buf = mem::take(write_buf);
         flow.upgrade.call((req, Framed::from_parts(parts)))

   The Upgrade message is always the last of the queue (poll_request breaks after pushing it and
   the codec decodes payload afterwards), so the queue is [d_msgs ++ Upgrade] and the message is
   kept beside d_msgs in [u_upg].  Abstracted: bytes that follow the upgrade request are only
   carried along ([rest]); the re-decoding of such bytes while the Upgrade message waits behind a
   pending response is not modelled (the harness sends them only when nothing can be pending).
   After the hand-off the dispatcher is gone: the only events are bytes accepted by the socket
   from the upgrade service's Framed ([UAfter]).  No proofs in this file. *)
From Coq Require Import String.
From AV Require Import Lib.Base H1.Encoder H1.RespSeq H1.Flush H1.RespWire.
Open Scope N_scope.

(* fields of InnerDispatcher that upgrade() moves into the FramedParts, in source order; tied to
   the statement list of the source by tools/gen/h1_encoder.py (H1/UpgradeGenProofs.v) *)
Inductive ufield := MvIo | MvCodec | MvReadBuf | MvWriteBuf.
Definition ufield_code (f : ufield) : N :=
  match f with MvIo => 0 | MvCodec => 1 | MvReadBuf => 2 | MvWriteBuf => 3 end.
Definition upgrade_moves : list ufield := [MvIo; MvCodec; MvReadBuf; MvWriteBuf].
Definition moved (f : ufield) (moves : list ufield) : bool :=
  existsb (fun g => ufield_code g =? ufield_code f) moves.

(* FramedParts: a field that is not moved keeps the value FramedParts::with_read_buf / Default
   gives it (empty buffer, Codec::default()); without io there is no Framed at all *)
Record parts := mkParts {
  p_io : bool;
  p_codec : codec;
  p_read_buf : bytes;
  p_write_buf : bytes }.

Definition upgrade_parts (moves : list ufield) (c : codec) (rb wb : bytes) : parts :=
  mkParts (moved MvIo moves)
          (if moved MvCodec moves then c else codec_new true)
          (if moved MvReadBuf moves then rb else [])
          (if moved MvWriteBuf moves then wb else []).

Record handoff := mkHO {
  ho_req : nat;            (* the upgrade request handed to flow.upgrade *)
  ho_parts : parts;
  ho_after : N }.          (* bytes the socket accepted after the hand-off *)

Inductive uevent :=
| UEv (e : wevent)                 (* an event of the dispatcher proper *)
| UUpg (j : N) (rest : bytes)      (* Codec::decode returns upgrade request j; [rest] stays in read_buf *)
| UAfter (k : N).                  (* after the hand-off: the socket accepts k more bytes *)

Record ustate := mkUS {
  u_w : wstate;
  u_upg : option (nat * bytes);    (* DispatcherMessage::Upgrade at the tail of `messages`; read_buf *)
  u_ho : option handoff }.

Section Cfg.
  Variable reqs : list reqctx.
  Variable hs : list hscript.
  Variable wbs : N.

  (* poll_request on the upgrade request: decode stores its context; restored when a response is
     in flight *)
  Definition decode_upg (d : dstate) (j : nat) : dstate :=
    let ctx_in_flight := current_context (d_codec d) in
    let d1 := set_codec d (codec_decode (d_codec d) (req_of reqs j)) in
    match d_st d1 with
    | SNone => d1
    | _ => set_codec d1 (set_request_context (d_codec d1) ctx_in_flight)
    end.

  (* poll_response with State::None and the Upgrade message at the front of the queue *)
  Definition try_handoff (u : ustate) : ustate :=
    match u_ho u, u_upg u with
    | None, Some (j, rest) =>
        let d := w_d (u_w u) in
        if wdead (u_w u) then u else
        match d_st d, d_msgs d with
        | SNone, [] =>
            let c := d_codec d in
            let c' := set_request_context c (request_context c (req_of reqs j)) in
            mkUS (u_w u) (u_upg u)
                 (Some (mkHO j (upgrade_parts upgrade_moves c' rest (s_buf (w_f (u_w u)))) 0))
        | _, _ => u
        end
    | _, _ => u
    end.

  Definition ustep (u : ustate) (e : uevent) : ustate :=
    match u_ho u with
    | Some h =>
        match e with
        | UAfter k => mkUS (u_w u) (u_upg u) (Some (mkHO (ho_req h) (ho_parts h) (ho_after h + k)))
        | _ => u                                     (* the dispatcher no longer exists *)
        end
    | None =>
        match e with
        | UEv e' =>
            match u_upg u, e' with
            | Some _, WArrive _ => u                 (* the codec decodes payload now: no further *)
            | Some _, WBad => u                      (* request heads                              *)
            | _, _ => try_handoff (mkUS (wstep reqs hs wbs (u_w u) e') (u_upg u) None)
            end
        | UUpg j rest =>
            match u_upg u with
            | Some _ => u
            | None =>
                if wdead (u_w u) then u else
                let j := N.to_nat j in
                try_handoff (mkUS (mkW (decode_upg (w_d (u_w u)) j) (w_f (u_w u))) (Some (j, rest)) None)
            end
        | UAfter _ => u
        end
    end.

  Definition urun (u : ustate) (es : list uevent) : ustate := fold_left ustep es u.
  Definition uinit (ka : bool) : ustate := mkUS (winit ka) None None.
End Cfg.

(* what the upgrade service of the harness sends through the Framed it is given:
   framed.send((Response::new(101) + connection: upgrade, BodySize::None)) then a raw marker *)
Definition upg_resp : resp := mkResp 101 (Some CUpgrade) false [].
Definition upg_head (h : handoff) : head :=
  snd (codec_encode_item (p_codec (ho_parts h)) upg_resp BNone).
