(* H1/CodecSegProofs.v — segmentation independence of the WHOLE request codec: composition of the
   head phase (CodecProofs) and the body phases (PayloadDecProofs) over a pipeline.

   Main result: [feed_eq_run] — for every list of read segments, feeding them one by one gives the
   same outcome as draining the concatenated stream at once. *)
From AV Require Import Lib.Base H1.Chunked H1.ChunkedSpec H1.ChunkedProofs H1.PayloadDec
  H1.PayloadDecProofs H1.Framing H1.FramingProofs H1.Codec H1.CodecProofs.

(* ---- how much of the input a byte-wise run consumes ------------------------------------------ *)
Lemma bw_len buf : forall s sz acc s' sz' r acc' e,
  bw s sz buf acc = Ok (s', sz', r, acc', e) ->
  (length r <= length buf)%nat /\ (s <> End -> e = true -> (length r < length buf)%nat).
Proof.
  induction buf as [|b buf IH]; intros s sz acc s' sz' r acc' e H.
  - destruct s; cbn [bw] in H; inversion H; subst; cbn [length];
      (split; [lia | intros Hs He; try discriminate He; try congruence]).
  - destruct s; cbn [bw] in H.
    all: try (destruct (bstep _ sz b) as [|[[s1 z1] [d|]]| |]; try discriminate H;
              apply IH in H; destruct H as [H1 _]; cbn [length]; (split; [lia|intros _ _; lia])).
    inversion H; subst. split; [lia|]. intros Hs; congruence.
Qed.

(* ---- one decode call of any payload decoder, in terms of the byte-wise semantics -------------- *)
Definition kdone (k : kind) : Prop :=
  match k with KLength n => n = 0 | KChunked s _ => s = End | KEof => False end.

Definition pdecode_spec (k : kind) (buf d : bytes) (r : res (kind * bytes * option pitem)) : Prop :=
  match r with
  | Ok (k', buf', None) => buf' = [] /\ kinv k' /\ body_bw k buf d = Ok (k', [], d, false)
  | Ok (k', buf', Some (PChunk ch)) =>
      body_bw k buf d = body_bw k' buf' (d ++ ch) /\ (length buf' < length buf)%nat /\ kinv k'
  | Ok (k', buf', Some PEof) =>
      body_bw k buf d = Ok (k', buf', d, true) /\ ((length buf' < length buf)%nat \/ (kdone k /\ buf' = buf))
  | Err => body_bw k buf d = Err
  | Pan | Pend => False
  end.

Lemma pdecode_ok k buf d : kinv k -> pdecode_spec k buf d (pdecode k buf).
Proof.
  intro Hk. destruct k as [n|s sz|].
  - (* Length *)
    cbn [pdecode]. destruct (n =? 0) eqn:E0.
    + assert (n = 0) by lia. subst n. cbn [pdecode_spec body_bw].
      replace (lenN buf <? 0) with false by (unfold lenN; lia).
      cbn [N.to_nat skipn firstn]. rewrite app_nil_r. split; [reflexivity|]. right. split; reflexivity.
    + destruct buf as [|b rest].
      * cbn [pdecode_spec body_bw]. replace (lenN [] <? n) with true by (unfold lenN; cbn [length]; lia).
        rewrite app_nil_r. replace (n - lenN []) with n by (unfold lenN; cbn [length]; lia).
        repeat split.
      * remember (b :: rest) as buf. destruct (lenN buf <? n) eqn:El; cbn [pdecode_spec body_bw].
        -- rewrite El. replace (lenN [] <? n - lenN buf) with true by (unfold lenN in *; cbn [length]; lia).
           rewrite app_nil_r. replace (n - lenN buf - lenN []) with (n - lenN buf) by (unfold lenN; cbn [length]; lia).
           repeat split. subst buf; cbn [length]; lia.
        -- rewrite El. unfold lenN in *.
           replace (N.of_nat (length (skipn (N.to_nat n) buf)) <? 0) with false by lia.
           cbn [N.to_nat skipn firstn]. rewrite app_nil_r.
           repeat split. rewrite skipn_length. subst buf. cbn [length] in *. lia.
  - (* Chunked *)
    cbn [pdecode kinv] in *.
    pose proof (chunked_loop_ok (S (length buf)) s sz buf d ltac:(lia) Hk) as H.
    destruct (chunked_loop (S (length buf)) s sz buf) as [|[[[s' sz'] buf'] [[c|]|]]| |];
      cbn [loop_spec] in H; cbn [pdecode_spec body_bw]; try contradiction.
    + destruct H as (Hb & Hl & Hi & _). rewrite Hb. repeat split; assumption.
    + destruct H as (-> & Hb). rewrite Hb. cbn [lift_bw]. split; [reflexivity|].
      destruct (bw_len _ _ _ _ _ _ _ _ _ Hb) as [_ Hlt].
      destruct s; try (left; apply Hlt; [discriminate|reflexivity]).
      right. split; [reflexivity|]. rewrite bw_End in Hb. inversion Hb; reflexivity.
    + destruct H as (-> & Hne & Hb). rewrite Hb. cbn [lift_bw kinv]. repeat split.
      eapply bw_inv; eassumption.
    + rewrite H. reflexivity.
  - (* Eof *)
    cbn [pdecode]. destruct buf as [|b rest]; cbn [pdecode_spec body_bw].
    + rewrite app_nil_r. repeat split.
    + rewrite app_nil_r. repeat split. cbn [length]. lia.
Qed.

(* ---- the normalised accumulator ------------------------------------------------------------------ *)
Definition add_body (acc : list message) (d : bytes) : list message := push acc (MChunk d).

Lemma add_body_add acc d1 d2 : add_body (add_body acc d1) d2 = add_body acc (d1 ++ d2).
Proof.
  unfold add_body. cbn [push]. destruct (rev acc) as [|l before] eqn:E.
  - rewrite E. reflexivity.
  - rewrite rev_app_distr. cbn [rev app]. rewrite rev_involutive. cbn [m_req m_body m_done].
    rewrite app_assoc. reflexivity.
Qed.

Lemma add_body_nil acc : add_body acc [] = acc.
Proof.
  unfold add_body. cbn [push]. destruct (rev acc) as [|l before] eqn:E; [reflexivity|].
  rewrite app_nil_r. rewrite <- (rev_involutive acc), E. cbn [rev]. destruct l; reflexivity.
Qed.

(* forget the body bytes of the message that was being received (used only to compare two
   outcomes that end in an I/O-class error: see [onorm]) *)
Definition drop_last_body (acc : list message) : list message :=
  match rev acc with
  | l :: before => rev before ++ [mk_message (m_req l) [] (m_done l)]
  | [] => acc
  end.

Lemma drop_last_body_add acc d : drop_last_body (add_body acc d) = drop_last_body acc.
Proof.
  unfold drop_last_body, add_body. cbn [push]. destruct (rev acc) as [|l before] eqn:E.
  - rewrite E. reflexivity.
  - rewrite rev_app_distr. cbn [rev app]. rewrite rev_involutive. reflexivity.
Qed.

Section Seg.
  Variable head : bytes -> head_res.
  Variable maxb : N.
  Hypothesis HL : HeadLaws head.

  Notation cdecode := (codec_decode head maxb).
  Notation crun := (run head maxb).

  Definition cinv (c : codec) : Prop := match c_payload c with Some k => kinv k | None => True end.
  Definition set_payload (c : codec) (p : option kind) : codec := mk_codec p (c_stream c).

  (* termination measure of the drain loop *)
  Definition pend (c : codec) : nat :=
    match c_payload c with
    | Some (KLength n) => if (n =? 0)%N then 1%nat else 0%nat
    | Some (KChunked End _) => 1%nat
    | _ => 0%nat
    end.
  Definition measure (c : codec) (buf : bytes) : nat := (2 * length buf + pend c)%nat.

  Lemma request_payload_kinv ver m hs pt ka e :
    request_payload ver m hs = Some (pt, ka, e) ->
    match pt with PTNone => True | PTPayload k | PTStream k => kinv k end.
  Proof.
    intro H. pose proof (accepted_payload_kinds _ _ _ _ _ _ H) as A.
    destruct pt as [|k|k]; [exact I| |subst; exact I].
    destruct k as [n|s sz|]; [exact I| |exact I].
    destruct A as (-> & -> & _). cbn [kinv]. intro; discriminate.
  Qed.

  Lemma pend_le1 c : (pend c <= 1)%nat.
  Proof.
    unfold pend. destruct (c_payload c) as [[n|[] ?|]|]; try destruct (n =? 0); lia.
  Qed.

  (* one step: the invariant is kept and the measure decreases whenever an item is produced *)
  Lemma cdecode_progress c buf c' buf' m :
    cinv c -> cdecode c buf = DOk (c', buf', Some m) ->
    cinv c' /\ (measure c' buf' < measure c buf)%nat.
  Proof.
    unfold Codec.codec_decode, cinv, measure. intros Hc H.
    destruct (c_payload c) as [k|] eqn:Ek.
    - pose proof (pdecode_ok k buf [] Hc) as S.
      destruct (pdecode k buf) as [|[[k' b'] [[ch|]|]]| |]; try discriminate H; inversion H; subst;
        cbn [pdecode_spec] in S; cbn [c_payload].
      + destruct S as (_ & Hl & Hk). split; [exact Hk|].
        pose proof (pend_le1 (mk_codec (Some k') (c_stream c))). lia.
      + destruct S as (_ & [Hl|[Hd ->]]); (split; [exact I|]).
        * pose proof (pend_le1 (mk_codec None (c_stream c))).
          unfold pend at 1. cbn [c_payload]. lia.
        * unfold pend. cbn [c_payload]. rewrite Ek.
          destruct k as [n|s sz|]; cbn [kdone] in Hd; try contradiction; subst; try rewrite N.eqb_refl; lia.
    - unfold Codec.request_decode in H.
      destruct (head buf) as [|n mm t v hs|e] eqn:Hh; try discriminate H.
      + destruct (maxb <=? lenN buf); discriminate H.
      + destruct (request_payload v mm hs) as [[[pt ka] ex]|] eqn:Hr; [|discriminate H].
        pose proof (request_payload_kinv _ _ _ _ _ _ Hr) as Hk.
        pose proof (accepted_payload_kinds _ _ _ _ _ _ Hr) as A.
        pose proof (hl_len _ HL _ _ _ _ _ _ Hh) as Hn.
        inversion H; subst. rewrite skipn_length.
        destruct pt as [|k|k]; cbn [c_payload pend]; (split; [try exact I; exact Hk|]).
        * lia.
        * destruct k as [n0|s sz|]; [destruct A as (Hp & _); replace (n0 =? 0) with false by lia; lia
                                    |destruct A as (-> & _); lia|lia].
        * subst k. lia.
  Qed.

  Lemma cdecode_none_inv c buf c' buf' :
    cinv c -> cdecode c buf = DOk (c', buf', None) -> cinv c'.
  Proof.
    unfold Codec.codec_decode, cinv. intros Hc H.
    destruct (c_payload c) as [k|] eqn:Ek.
    - pose proof (pdecode_ok k buf [] Hc) as S.
      destruct (pdecode k buf) as [|[[k' b'] [[ch|]|]]| |]; try discriminate H; inversion H; subst.
      cbn [pdecode_spec] in S. cbn [c_payload]. apply S.
    - destruct (Codec.request_decode head maxb buf) as [[[[r pt] rest]|]|e|]; try discriminate H.
      inversion H; subst. rewrite Ek. exact I.
  Qed.

  (* enough fuel: the drain loop never runs out *)
  Lemma run_enough : forall f c buf acc, cinv c -> (measure c buf < f)%nat -> crun f c buf acc <> OFuel.
  Proof.
    induction f as [|f IH]; intros c buf acc Hc Hm; [lia|].
    cbn [Codec.run]. destruct (cdecode c buf) as [[[c' buf'] [m|]]|e|] eqn:Hd; try discriminate.
    destruct (cdecode_progress _ _ _ _ _ Hc Hd) as [Hc' Hlt]. apply IH; [assumption|lia].
  Qed.

  Lemma run_mono : forall f c buf acc k, crun f c buf acc <> OFuel -> crun (f + k) c buf acc = crun f c buf acc.
  Proof.
    induction f as [|f IH]; intros c buf acc k H; [cbn [Codec.run] in H; congruence|].
    cbn [Nat.add Codec.run] in *. destruct (cdecode c buf) as [[[c' buf'] [m|]]|e|]; try reflexivity.
    apply IH. exact H.
  Qed.

  (* canonical fuel *)
  Definition runI (c : codec) (buf : bytes) (acc : list message) : outcome :=
    crun (S (measure c buf)) c buf acc.

  Lemma run_canon f c buf acc : cinv c -> (measure c buf < f)%nat -> crun f c buf acc = runI c buf acc.
  Proof.
    intros Hc Hm. unfold runI.
    replace f with (S (measure c buf) + (f - S (measure c buf)))%nat by lia.
    apply run_mono. apply run_enough; [assumption|lia].
  Qed.

  (* unfolding equation of the canonical run *)
  Lemma runI_step c buf acc : cinv c ->
    runI c buf acc =
    match cdecode c buf with
    | DErr e => OError e acc
    | DPanic => OPanic
    | DOk (c', buf', None) => ONeedMore c' buf' acc
    | DOk (c', buf', Some m) => runI c' buf' (push acc m)
    end.
  Proof.
    intro Hc. unfold runI at 1. cbn [Codec.run].
    destruct (cdecode c buf) as [[[c' buf'] [m|]]|e|] eqn:Hd; try reflexivity.
    destruct (cdecode_progress _ _ _ _ _ Hc Hd) as [Hc' Hlt]. apply run_canon; [assumption|lia].
  Qed.

  (* ---- a body phase of the codec, in terms of the byte-wise semantics ------------------------ *)
  Lemma set_payload_set c p q : set_payload (set_payload c p) q = set_payload c q.
  Proof. reflexivity. Qed.

  Lemma pay : forall m c k buf acc d,
    c_payload c = Some k -> kinv k -> (measure c buf < m)%nat ->
    match body_bw k buf d with
    | Ok (k', r, d', false) =>
        runI c buf (add_body acc d) = ONeedMore (set_payload c (Some k')) r (add_body acc d') /\ kinv k'
    | Ok (k', r, d', true) =>
        runI c buf (add_body acc d) = runI (set_payload c None) r (push (add_body acc d') MEof) /\
        (measure (set_payload c None) r < measure c buf)%nat
    | Err => exists d', runI c buf (add_body acc d) = OError EIo (add_body acc d')
    | Pan | Pend => False
    end.
  Proof.
    induction m as [|m IH]; intros c k buf acc d Ek Hk Hm; [lia|].
    assert (Hc : cinv c) by (unfold cinv; rewrite Ek; exact Hk).
    rewrite (runI_step c buf _ Hc).
    pose proof (pdecode_ok k buf d Hk) as S.
    unfold Codec.codec_decode. rewrite Ek.
    destruct (pdecode k buf) as [|[[k' b'] [[ch|]|]]| |] eqn:Hp; cbn [pdecode_spec] in S; try contradiction.
    - (* a chunk: continue *)
      destruct S as (Hb & Hl & Hk'). rewrite Hb.
      fold (add_body (add_body acc d) ch). rewrite add_body_add.
      assert (Hm' : (measure (mk_codec (Some k') (c_stream c)) b' < measure c buf)%nat).
      { unfold measure. pose proof (pend_le1 (mk_codec (Some k') (c_stream c))). lia. }
      specialize (IH (mk_codec (Some k') (c_stream c)) k' b' acc (d ++ ch) eq_refl Hk' ltac:(lia)).
      destruct (body_bw k' b' (d ++ ch)) as [|[[[k2 r] d2] [|]]| |]; try exact IH.
      destruct IH as [IH1 IH2]. split; [exact IH1|].
      unfold set_payload in *. cbn [c_stream] in *. lia.
    - (* end of body *)
      destruct S as (Hb & Hcase). rewrite Hb. split; [reflexivity|].
      unfold measure, set_payload. unfold pend at 1. cbn [c_payload].
      destruct Hcase as [Hl|[Hd ->]]; [lia|].
      unfold pend. rewrite Ek.
      destruct k as [n|s sz|]; cbn [kdone] in Hd; try contradiction; subst; try rewrite N.eqb_refl; lia.
    - (* need more *)
      destruct S as (-> & Hk' & Hb). rewrite Hb. split; [reflexivity|exact Hk'].
    - rewrite S. exists d. reflexivity.
  Qed.

  (* ---- what a run leaves unread is a suffix of its input ---------------------------------------- *)
  Lemma bw_suffix buf : forall s sz acc s' sz' r acc' e,
    bw s sz buf acc = Ok (s', sz', r, acc', e) -> exists p, buf = p ++ r.
  Proof.
    induction buf as [|b buf IH]; intros s sz acc s' sz' r acc' e H.
    - destruct s; cbn [bw] in H; inversion H; subst; exists []; reflexivity.
    - destruct s; cbn [bw] in H.
      all: try (destruct (bstep _ sz b) as [|[[s1 z1] [d|]]| |]; try discriminate H;
                apply IH in H; destruct H as [p ->]; exists (b :: p); reflexivity).
      inversion H; subst. exists []. reflexivity.
  Qed.

  Lemma body_bw_suffix k buf d k' r d' e :
    body_bw k buf d = Ok (k', r, d', e) -> exists p, buf = p ++ r.
  Proof.
    destruct k as [n|s sz|]; unfold body_bw; intro H.
    - destruct (lenN buf <? n); inversion H; subst.
      + exists buf. rewrite app_nil_r. reflexivity.
      + exists (firstn (N.to_nat n) buf). symmetry. apply firstn_skipn.
    - destruct (bw s sz buf d) as [|[[[[s1 z1] r1] a1] e1]| |] eqn:Hb; cbn [lift_bw] in H; try discriminate H.
      inversion H; subst. eapply bw_suffix; eassumption.
    - inversion H; subst. exists buf. rewrite app_nil_r. reflexivity.
  Qed.

  (* ---- no request head straddles the MAX_BUFFER_SIZE threshold (outside finding F19):
     at every position, the tokenizer's answer on the remaining stream is either "incomplete" or
     already determined by the first maxb-1 bytes.  Holds for every stream shorter than maxb-1. *)
  Definition NoBand (s : bytes) : Prop :=
    forall p s', s = p ++ s' ->
      head s' = HPartial \/ head (firstn (N.to_nat (maxb - 1)) s') = head s'.

  Lemma NoBand_suffix p s : NoBand (p ++ s) -> NoBand s.
  Proof. intros H q s' E. apply (H (p ++ q)). rewrite E, app_assoc. reflexivity. Qed.

  Lemma NoBand_short s : (length s < N.to_nat (maxb - 1))%nat -> NoBand s.
  Proof.
    intros Hl p s' E. right. rewrite firstn_all2; [reflexivity|].
    subst s. rewrite app_length in Hl. lia.
  Qed.

  (* outcomes are compared up to the body bytes of the message that was being received when an
     I/O-class (chunk framing) error occurred; everything else is compared exactly *)
  Definition onorm (o : outcome) : outcome :=
    match o with OError EIo ms => OError EIo (drop_last_body ms) | _ => o end.

  (* ---- continuation law for the whole codec ----------------------------------------------------- *)
  Theorem runI_app : forall m c b1 b2 acc,
    cinv c -> NoBand (b1 ++ b2) -> 0 < maxb -> (measure c b1 < m)%nat ->
    onorm (runI c (b1 ++ b2) acc) =
    onorm (match runI c b1 acc with
           | ONeedMore c' r acc' => runI c' (r ++ b2) acc'
           | o => o
           end).
  Proof.
    induction m as [|m IH]; intros c b1 b2 acc Hc Hnb Hpos Hm; [lia|].
    destruct (c_payload c) as [k|] eqn:Ek.
    - (* body phase *)
      assert (Hk : kinv k) by (unfold cinv in Hc; rewrite Ek in Hc; exact Hc).
      pose proof (pay (S (measure c b1)) c k b1 acc [] Ek Hk ltac:(lia)) as P1.
      pose proof (pay (S (measure c (b1 ++ b2))) c k (b1 ++ b2) acc [] Ek Hk ltac:(lia)) as P.
      rewrite add_body_nil in P1, P. rewrite body_bw_app in P.
      destruct (body_bw k b1 []) as [|[[[k1 r1] d1] [|]]| |] eqn:B1; try contradiction.
      + (* body complete within b1 *)
        destruct P1 as [P1 Hlt]. destruct P as [P _]. rewrite P, P1.
        destruct (body_bw_suffix _ _ _ _ _ _ _ B1) as [p Ep].
        apply IH; try assumption.
        * exact I.
        * subst b1. rewrite <- app_assoc in Hnb. eapply NoBand_suffix; exact Hnb.
        * lia.
      + (* body continues into b2 *)
        destruct P1 as [P1 Hk1]. rewrite P1.
        destruct (body_bw_false _ _ _ _ _ _ B1) as [-> _].
        pose proof (pay (S (measure (set_payload c (Some k1)) ([] ++ b2))) (set_payload c (Some k1)) k1 ([] ++ b2) acc d1
                      eq_refl Hk1 ltac:(lia)) as P2.
        destruct (body_bw k1 ([] ++ b2) d1) as [|[[[k2 r2] d2] [|]]| |]; try contradiction.
        * destruct P as [P _]. destruct P2 as [P2 _]. rewrite P, P2. reflexivity.
        * destruct P as [P _]. destruct P2 as [P2 _]. rewrite P, P2. reflexivity.
        * destruct P as [dx P]. destruct P2 as [dy P2]. rewrite P, P2. cbn [onorm].
          rewrite !drop_last_body_add. reflexivity.
      + (* chunk framing error within b1 *)
        destruct P1 as [dx P1]. destruct P as [dy P]. rewrite P, P1. cbn [onorm].
        rewrite !drop_last_body_add. reflexivity.
    - (* head phase *)
      assert (E1 : runI c b1 acc =
                   match Codec.request_decode head maxb b1 with
                   | DErr e => OError e acc | DPanic => OPanic
                   | DOk None => ONeedMore c b1 acc
                   | DOk (Some (r, pt, rest)) =>
                       runI (match pt with
                             | PTNone => mk_codec None (c_stream c)
                             | PTPayload k => mk_codec (Some k) (c_stream c)
                             | PTStream k => mk_codec (Some k) true
                             end) rest (push acc (MItem r))
                   end).
      { rewrite (runI_step c b1 acc Hc). unfold Codec.codec_decode. rewrite Ek.
        destruct (Codec.request_decode head maxb b1) as [[[[r pt] rest]|]|e|]; reflexivity. }
      assert (E2 : runI c (b1 ++ b2) acc =
                   match Codec.request_decode head maxb (b1 ++ b2) with
                   | DErr e => OError e acc | DPanic => OPanic
                   | DOk None => ONeedMore c (b1 ++ b2) acc
                   | DOk (Some (r, pt, rest)) =>
                       runI (match pt with
                             | PTNone => mk_codec None (c_stream c)
                             | PTPayload k => mk_codec (Some k) (c_stream c)
                             | PTStream k => mk_codec (Some k) true
                             end) rest (push acc (MItem r))
                   end).
      { rewrite (runI_step c (b1 ++ b2) acc Hc). unfold Codec.codec_decode. rewrite Ek.
        destruct (Codec.request_decode head maxb (b1 ++ b2)) as [[[[r pt] rest]|]|e|]; reflexivity. }
      destruct (Codec.request_decode head maxb b1) as [[[[r pt] rest]|]|e|] eqn:Hd.
      + (* a request head completes within b1 *)
        rewrite E1, E2. rewrite (request_decode_item_stable head maxb HL _ b2 _ _ _ Hd).
        set (c' := match pt with
                   | PTNone => mk_codec None (c_stream c)
                   | PTPayload k => mk_codec (Some k) (c_stream c)
                   | PTStream k => mk_codec (Some k) true
                   end).
        assert (Hstep : Codec.codec_decode head maxb c b1 = DOk (c', rest, Some (MItem r))).
        { unfold Codec.codec_decode. rewrite Ek, Hd. reflexivity. }
        destruct (cdecode_progress _ _ _ _ _ Hc Hstep) as [Hc' Hlt].
        apply IH; try assumption; [|lia].
        unfold Codec.request_decode in Hd.
        destruct (head b1) as [|n mm t v hs|e0]; try discriminate Hd.
        { destruct (maxb <=? lenN b1); discriminate Hd. }
        destruct (request_payload v mm hs) as [[[pt0 ka] ex]|]; [|discriminate Hd].
        inversion Hd; subst.
        rewrite <- (firstn_skipn n b1) in Hnb. rewrite <- app_assoc in Hnb.
        eapply NoBand_suffix; exact Hnb.
      + (* incomplete head below the threshold: wait; the continuation re-reads the same bytes *)
        rewrite E1. reflexivity.
      + (* rejected *)
        rewrite E1, E2.
        assert (Hsame : Codec.request_decode head maxb (b1 ++ b2) = DErr e); [|rewrite Hsame; reflexivity].
        destruct e; try (apply (request_decode_reject_stable head maxb HL _ b2 _ Hd); discriminate).
        (* TooLarge *)
        unfold Codec.request_decode in Hd.
        destruct (head b1) as [|n mm t v hs|e0] eqn:Hh.
        * destruct (maxb <=? lenN b1) eqn:Hlen; [|discriminate Hd]. unfold lenN in Hlen.
          assert (Hpre : b1 = firstn (N.to_nat (maxb - 1)) (b1 ++ b2) ++ skipn (N.to_nat (maxb - 1)) b1).
          { rewrite firstn_app. replace (N.to_nat (maxb - 1) - length b1)%nat with 0%nat by lia.
            cbn [firstn]. rewrite app_nil_r. symmetry. apply firstn_skipn. }
          destruct (head (b1 ++ b2)) as [|n mm t v hs|e0] eqn:Hs.
          -- apply request_decode_too_large; [assumption|]. unfold lenN. rewrite app_length. lia.
          -- exfalso. destruct (Hnb [] (b1 ++ b2) eq_refl) as [Hp|Hdet]; [congruence|].
             rewrite Hs in Hdet. rewrite Hpre in Hh.
             rewrite (hl_complete_stable _ HL _ _ _ _ _ _ _ Hdet) in Hh. discriminate Hh.
          -- exfalso. destruct (Hnb [] (b1 ++ b2) eq_refl) as [Hp|Hdet]; [congruence|].
             rewrite Hs in Hdet. rewrite Hpre in Hh.
             rewrite (hl_bad_stable _ HL _ _ _ Hdet) in Hh. discriminate Hh.
        * destruct (request_payload v mm hs) as [[[pt0 ka] ex]|]; discriminate Hd.
        * inversion Hd; subst. unfold Codec.request_decode. rewrite (hl_bad_stable _ HL _ b2 _ Hh). reflexivity.
      + exfalso. unfold Codec.request_decode in Hd.
        destruct (head b1) as [|n mm t v hs|e0]; [destruct (maxb <=? lenN b1)| |]; try discriminate Hd.
        destruct (request_payload v mm hs) as [[[pt0 ka] ex]|]; discriminate Hd.
  Qed.

  (* ---- one decode call leaves a suffix; a "need more" answer is quiescent ------------------------ *)
  Lemma step_suffix s sz buf s' sz' buf' oc :
    step s sz buf = Ok (s', sz', buf', oc) -> exists p, buf = p ++ buf'.
  Proof.
    destruct s; cbn [step]; intro H.
    all: try (destruct buf as [|b rest]; [discriminate H|];
              destruct (cstep _ sz b) as [|[s1 z1]| |]; try discriminate H;
              inversion H; subst; exists [b]; reflexivity).
    - destruct buf as [|b rest]; [inversion H; subst; exists []; reflexivity|].
      destruct (lenN (b :: rest) <? sz); inversion H; subst.
      + exists (b :: rest). rewrite app_nil_r. reflexivity.
      + exists (firstn (N.to_nat sz) (b :: rest)). symmetry. apply firstn_skipn.
    - inversion H; subst. exists []. reflexivity.
  Qed.

  Lemma chunked_loop_suffix : forall f s sz buf s' sz' buf' it,
    chunked_loop f s sz buf = Ok (s', sz', buf', it) -> exists p, buf = p ++ buf'.
  Proof.
    induction f as [|f IH]; intros s sz buf s' sz' buf' it H; [discriminate H|].
    cbn [chunked_loop] in H.
    destruct (step s sz buf) as [|[[[s1 z1] b1] oc]| |] eqn:Hs; try discriminate H.
    - inversion H; subst. exists []. reflexivity.
    - destruct (step_suffix _ _ _ _ _ _ _ Hs) as [p ->].
      assert (G : forall o, Ok (s1, z1, b1, o) = Ok (s', sz', buf', it) -> exists p0, p ++ b1 = p0 ++ buf')
        by (intros o E; inversion E; subst; exists p; reflexivity).
      destruct s1; try (eapply G; exact H);
        (destruct oc as [c|]; [eapply G; exact H|]);
        (destruct b1 as [|x b1]; [eapply G; exact H|]);
        (apply IH in H; destruct H as [q ->]; exists (p ++ q); rewrite app_assoc; reflexivity).
  Qed.

  Lemma pdecode_suffix k buf k' buf' it : pdecode k buf = Ok (k', buf', it) -> exists p, buf = p ++ buf'.
  Proof.
    destruct k as [n|s sz|]; cbn [pdecode]; intro H.
    - destruct (n =? 0); [inversion H; subst; exists []; reflexivity|].
      destruct buf as [|b rest]; [inversion H; subst; exists []; reflexivity|].
      destruct (lenN (b :: rest) <? n); inversion H; subst.
      + exists (b :: rest). rewrite app_nil_r. reflexivity.
      + exists (firstn (N.to_nat n) (b :: rest)). symmetry. apply firstn_skipn.
    - destruct (chunked_loop (S (length buf)) s sz buf) as [|[[[s1 z1] b1] o]| |] eqn:Hl; try discriminate H.
      inversion H; subst. eapply chunked_loop_suffix; exact Hl.
    - destruct buf as [|b rest]; inversion H; subst; [exists []|exists (b :: rest)]; rewrite ?app_nil_r; reflexivity.
  Qed.

  Lemma cdecode_suffix c buf c' buf' it : cdecode c buf = DOk (c', buf', it) -> exists p, buf = p ++ buf'.
  Proof.
    unfold Codec.codec_decode. intro H. destruct (c_payload c) as [k|].
    - destruct (pdecode k buf) as [|[[k' b'] [[ch|]|]]| |] eqn:Hp; try discriminate H;
        inversion H; subst; eapply pdecode_suffix; exact Hp.
    - unfold Codec.request_decode in H.
      destruct (head buf) as [|n mm t v hs|e0]; try discriminate H.
      + destruct (maxb <=? lenN buf); [discriminate H|]. inversion H; subst. exists []. reflexivity.
      + destruct (request_payload v mm hs) as [[[pt0 ka] ex]|]; [|discriminate H].
        inversion H; subst. exists (firstn n buf). symmetry. apply firstn_skipn.
  Qed.

  Lemma pdecode_open_nil k : kopen k -> pdecode k [] = Ok (k, [], None).
  Proof.
    destruct k as [n|s sz|]; cbn [kopen pdecode]; intro H.
    - replace (n =? 0) with false by lia. reflexivity.
    - cbn [length chunked_loop]. destruct s; try reflexivity. congruence.
    - reflexivity.
  Qed.

  Lemma cdecode_none_quiescent c buf c' r :
    cinv c -> cdecode c buf = DOk (c', r, None) -> cdecode c' r = DOk (c', r, None).
  Proof.
    unfold Codec.codec_decode, cinv. intros Hc H. destruct (c_payload c) as [k|] eqn:Ek.
    - pose proof (pdecode_ok k buf [] Hc) as S.
      destruct (pdecode k buf) as [|[[k' b'] [[ch|]|]]| |]; try discriminate H. inversion H; subst.
      cbn [pdecode_spec] in S. destruct S as (-> & Hk' & Hb).
      destruct (body_bw_false _ _ _ _ _ _ Hb) as [_ Ho].
      cbn [c_payload c_stream]. rewrite (pdecode_open_nil _ Ho). reflexivity.
    - destruct (Codec.request_decode head maxb buf) as [[[[rq pt] rest]|]|e|] eqn:Hd; try discriminate H.
      inversion H; subst. rewrite Ek, Hd. reflexivity.
  Qed.

  Lemma runI_need : forall m c b acc c' r acc',
    cinv c -> (measure c b < m)%nat -> runI c b acc = ONeedMore c' r acc' ->
    cinv c' /\ (exists p, b = p ++ r) /\ runI c' r acc' = ONeedMore c' r acc'.
  Proof.
    induction m as [|m IH]; intros c b acc c' r acc' Hc Hm H; [lia|].
    rewrite (runI_step c b acc Hc) in H.
    destruct (cdecode c b) as [[[c1 b1] [it|]]|e|] eqn:Hd; try discriminate H.
    - destruct (cdecode_progress _ _ _ _ _ Hc Hd) as [Hc1 Hlt].
      destruct (IH c1 b1 (push acc it) c' r acc' Hc1 ltac:(lia) H) as (Hc' & [p Ep] & Hq).
      destruct (cdecode_suffix _ _ _ _ _ Hd) as [q Eq].
      split; [exact Hc'|]. split; [|exact Hq]. exists (q ++ p). rewrite Eq, Ep, app_assoc. reflexivity.
    - inversion H; subst. pose proof (cdecode_none_inv _ _ _ _ Hc Hd) as Hc'.
      split; [exact Hc'|]. split; [eapply cdecode_suffix; exact Hd|].
      rewrite (runI_step c' r acc' Hc'). rewrite (cdecode_none_quiescent _ _ _ _ Hc Hd). reflexivity.
  Qed.

  (* ---- THE theorem: any segmentation = the whole stream ------------------------------------------- *)
  Theorem feed_eq_runI : forall segs c r acc,
    cinv c -> 0 < maxb -> NoBand (r ++ concat segs) -> runI c r acc = ONeedMore c r acc ->
    onorm (feed head maxb segs c r acc) = onorm (runI c (r ++ concat segs) acc).
  Proof.
    induction segs as [|seg more IH]; intros c r acc Hc Hpos Hnb Hq.
    - cbn [Codec.feed concat]. rewrite app_nil_r, Hq. reflexivity.
    - cbn [Codec.feed concat]. rewrite app_assoc.
      rewrite (run_canon (run_fuel (r ++ seg)) c (r ++ seg) acc Hc)
        by (unfold run_fuel, measure; pose proof (pend_le1 c); lia).
      cbn [concat] in Hnb. rewrite app_assoc in Hnb.
      rewrite (runI_app (S (measure c (r ++ seg))) c (r ++ seg) (concat more) acc Hc Hnb Hpos ltac:(lia)).
      destruct (runI c (r ++ seg) acc) as [c' r' acc'|e ms| |] eqn:Ho; try reflexivity.
      destruct (runI_need _ _ _ _ _ _ _ Hc (Nat.lt_succ_diag_r _) Ho) as (Hc' & [p Ep] & Hq').
      apply IH; try assumption.
      rewrite Ep, <- app_assoc in Hnb. eapply NoBand_suffix; exact Hnb.
  Qed.

  Corollary feed_eq_run : forall segs,
    0 < maxb -> head [] = HPartial -> NoBand (concat segs) ->
    onorm (feed head maxb segs codec0 [] []) =
    onorm (crun (run_fuel (concat segs)) codec0 (concat segs) []).
  Proof.
    intros segs Hpos H0 Hnb.
    assert (Hc : cinv codec0) by exact I.
    rewrite (run_canon (run_fuel (concat segs)) codec0 (concat segs) [] Hc)
      by (unfold run_fuel, measure; pose proof (pend_le1 codec0); lia).
    apply (feed_eq_runI segs codec0 [] [] Hc Hpos Hnb).
    rewrite (runI_step codec0 [] [] Hc). unfold Codec.codec_decode, Codec.request_decode. cbn [c_payload codec0].
    rewrite H0. replace (maxb <=? lenN []) with false by (unfold lenN; cbn [length]; lia). reflexivity.
  Qed.
End Seg.
