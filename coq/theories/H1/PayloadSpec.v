(* C07 — what the request-body channel must do, stated on TRACES (operation, result, woken
   wakers) without reference to the channel's internal state.

   Reference channel = one byte queue [q]:
     feed_data d   appends d;   unread_data d   puts d back in front;
     a poll that delivers d     must find d at the front of q and removes it;
     a poll that reports an ending (error or clean end) or Pending must find q empty.
   (Once the reader is dropped nothing is polled any more; the queue is then irrelevant.) *)
From AV Require Import Lib.Base H1.Payload.

Section Spec.
Context {Chunk : Type}.
Variable cbytes : Chunk -> bytes.      (* the bytes of a chunk *)

Notation op := (op Chunk).
Notation res := (res Chunk).
Notation event := (event Chunk).

(* ---------- bytes ---------- *)

Fixpoint strip_prefix (p q : bytes) : option bytes :=
  match p, q with
  | [], _ => Some q
  | x :: p', y :: q' => if x =? y then strip_prefix p' q' else None
  | _ :: _, [] => None
  end.

(* one event against the reference queue; None = the event contradicts the reference *)
Definition ref_step (q : bytes) (ev : event) : option bytes :=
  match ev with
  | (OFeedData d, RUnit, _) => Some (q ++ cbytes d)
  | (OUnread d, RUnit, _) => Some (cbytes d ++ q)
  | (OPoll _, RPoll (PData d), _) => strip_prefix (cbytes d) q
  | (OPoll _, RPoll _, _) => match q with [] => Some [] | _ => None end
  | (OPoll _, RPanic, _) => None
  | _ => Some q
  end.

Fixpoint ref_run (q : bytes) (t : list event) : option bytes :=
  match t with
  | [] => Some q
  | ev :: r => match ref_step q ev with Some q' => ref_run q' r | None => None end
  end.

(* projections of a trace *)
Definition delivered (t : list event) : bytes :=
  concat (map (fun ev : event => match ev with (OPoll _, RPoll (PData d), _) => cbytes d | _ => [] end) t).
Definition fed (t : list event) : bytes :=
  concat (map (fun ev : event => match ev with (OFeedData d, RUnit, _) => cbytes d | _ => [] end) t).
Definition is_unread (o : op) : bool := match o with OUnread _ => true | _ => false end.
Definition is_reader_drop (o : op) : bool := match o with OReaderDrop => true | _ => false end.
Definition is_poll (o : op) : bool := match o with OPoll _ => true | _ => false end.
Definition is_need_read (o : op) : bool := match o with ONeedRead _ => true | _ => false end.
Definition is_sender_drop (o : op) : bool := match o with OSenderDrop => true | _ => false end.
Definition is_feed_eof (o : op) : bool := match o with OFeedEof => true | _ => false end.

Definition ev_op (ev : event) : op := fst (fst ev).
Definition ev_res (ev : event) : res := snd (fst ev).
Definition ev_woken (ev : event) : list waker := snd ev.

(* an ending reported to the reader *)
Definition is_end (r : res) : bool := match r with RPoll PEnd => true | _ => false end.
Definition is_err (r : res) : bool := match r with RPoll (PErr _) => true | _ => false end.

(* events by which the feeding side signals how the body ends (executed: result RUnit) *)
Definition signals_eof (ev : event) : bool :=
  match ev with (OFeedEof, RUnit, _) => true | _ => false end.
Definition sets_error (ev : event) : bool :=
  match ev with (OSetError _, RUnit, _) => true | _ => false end.
Definition reports_err (ev : event) : bool := is_err (ev_res ev).

(* ---------- the known class `drop-after-error-consumed` (a predicate on the CASE) ----------
   Histories in which, before the sender is dropped, an error was already set on a channel
   created with eof = false, with neither feed_eof nor a reader drop in between. Only in these
   can a reader be left Pending by the sender drop (see C07_refuted_drop_after_error_consumed). *)
Fixpoint known_scan (seen_err : bool) (os : list op) : bool :=
  match os with
  | [] => false
  | OSenderDrop :: _ => seen_err
  | OFeedEof :: _ => false
  | OReaderDrop :: _ => false
  | OSetError _ :: r => known_scan true r
  | _ :: r => known_scan seen_err r
  end.
Definition known_case (e : bool) (os : list op) : bool := negb e && known_scan false os.

(* ---------- wake-up vocabulary ----------
   [quiet who t]: during t the reader does not poll again, is not dropped, and [who] is not woken *)
Definition quiet_reader (r : waker) (t : list event) : Prop :=
  forall ev, In ev t -> is_poll (ev_op ev) = false /\ is_reader_drop (ev_op ev) = false /\ ~ In r (ev_woken ev).
(* during t the feeder does not call need_read again, the reader is not dropped, f is not woken *)
Definition quiet_feeder (f : waker) (t : list event) : Prop :=
  forall ev, In ev t -> is_need_read (ev_op ev) = false /\ is_reader_drop (ev_op ev) = false /\ ~ In f (ev_woken ev).
(* data, end or error signalled through the sender handle *)
Definition is_signal (o : op) : bool :=
  match o with OFeedData _ | OFeedEof | OSetError _ => true | _ => false end.

End Spec.

(* ---------- the re-polling feeder (DESIGN.md, C07): an environment in which the holder of the
   sender calls need_read(f) again whenever its waker f is woken — what h1::Dispatcher does
   (`can_read` on every poll). [la] is the feeder's belief: the last answer it got. *)
Section Repoll.
Context {Chunk : Type}.
Variable clen : Chunk -> N.
Variable limit : N.

Definition rstep (f : waker) (st : sys Chunk * option status) (o : op Chunk) : sys Chunk * option status :=
  let '(s, la) := st in
  let '(s1, x, w) := step clen limit s o in
  let la1 := match o, x with ONeedRead _, RStatus a => Some a | _, _ => la end in
  if existsb (N.eqb f) w then
    let '(s2, x2, _) := step clen limit s1 (ONeedRead f) in
    (s2, match x2 with RStatus a => Some a | _ => la1 end)
  else (s1, la1).

Definition exec_repoll (f : waker) (e : bool) (os : list (op Chunk)) : sys Chunk * option status :=
  fold_left (rstep f) os (create e, None).

End Repoll.
