(* Event-level model of one HTTP/1 connection (actix-http/src/h1/dispatcher.rs, codec.rs, timer.rs,
   config.rs): types, the state record and its field setters. No proofs in this file.

   The state mirrors `InnerDispatcher` + the connection context of `Codec`:
     started .. draining   = the eight `Flags` bits (dispatcher.rs:41-73)
     dstate                = `State` (None / ServiceCall / SendPayload; ExpectCall, SendErrorPayload and
                             Upgrade are not modelled: the scripts never use Expect/upgrade and error
                             responses have an empty body)
     payload, drainable    = `payload: Option<PayloadSender>` (the id of the request whose body is being
                             received), `payload_drainable`
     messages              = `messages: VecDeque<DispatcherMessage>`
     head_t ka_tm sd_t     = the three `TimerState`s; deadlines in virtual ms
     sig_armed             = `graceful_shutdown.is_some()`
     rbuf / wbuf           = `read_buf` / `write_buf`, abstracted to sequences of protocol items
     c_conn c_v11 c_head   = `Codec.conn_type`, `.version`, `Flags::HEAD`; c_pl = `Codec.payload.is_some()`
     err                   = `error`
   Environment (scripts, not dispatcher state): now, sock/sock_end (bytes in the socket not yet read,
   and what follows them), hs (remaining handler scripts), chans (request-body channels),
   bpend/bleft/bskip (response body stream in flight and whether the encoder swallows it: HEAD),
   hfail (status of the error the handler future has just resolved with, 0 = Ok), berr (the body in
   flight belongs to an error response: `State::SendErrorPayload` rather than `SendPayload`).
   Ghost: res (0 = future still pending, 1 = Ok(()), >= 2 error class), pw/ps (wire items flushed
   and service calls started during the current poll), trace (history), reparsed. *)
Require Import AV.Lib.Base.

Inductive ka_t := KaTimeout (d : N) | KaOs | KaDisabled.
(* which of the three repairs (fixes/F12-F15.patch, fixes/F14.patch) the modelled tree contains *)
Record fixes := mkFixes { fx_ctx : bool; fx_close : bool; fx_sd : bool }.
Record cfg := mkCfg { ka : ka_t; req_to : N; disc_to : N; half_closed : bool; has_signal : bool; fx : fixes }.

Inductive copt := ONone | OClose | OKeepAlive.          (* Connection option of a message head *)
Inductive rbody := RBNone | RBLen | RBChunked.          (* request body framing *)
Record req := mkReq { rq_id : N; rq_head : bool; rq_v11 : bool; rq_copt : copt; rq_body : rbody }.
Inductive conn_t := CClose | CKeepAlive.                (* ConnectionType; Upgrade not modelled *)

(* what a handler future does on successive polls *)
Inductive hact := HPend | HRead | HReadAll | HDrop | HUntil (t : N)
                | HRespond (c : copt) (body : N) (bpend : N)
                | HFail (status : N) (body : N) (bpend : N).   (* Err(e), e.into() = response with that status/body *)

(* protocol items carried by the byte stream *)
Inductive item := IReq (r : req) | IPart | IData (n : N) | IEnd | IBad.
Inductive rend := RPending | REof | RErr.
Record round := mkRound { r_adv : N; r_arrive : list item; r_rd : rend; r_wblock : bool;
                          r_sdpend : bool; r_signal : bool }.

Inductive timer := TDisabled | TInactive | TActive (deadline : N).
Inductive dst := SNone | SService (r : req) | SSendPayload (who : option req).
Inductive dmsg := MItem (r : req) | MError (status : N).
Record chan := mkChan { ch_items : N; ch_eof : bool; ch_err : bool; ch_dropped : bool }.
(* wire: response head (status, HTTP/1.1?, connection header 0 none / 1 close / 2 keep-alive,
   content-length) or a run of body bytes *)
Inductive witem := WHead (status : N) (v11 : bool) (conn : N) (clen : N) | WBody (n : N).
(* history *)
Inductive tev :=
| TDecode (r : req)                                   (* a request head was decoded *)
| TStart (r : req)                                    (* service.call(req) *)
| THead (who : option req) (status : N) (v11 hd : bool) (conn : conn_t)  (* response head encoded *)
| TComplete                                           (* response complete (state back to None) *)
| TKeepAlive                                          (* KEEP_ALIVE flag set by the idle decision *)
| TDiscard (n : nat).                                 (* LINGER dropped n unread items *)

#[projections(primitive)] Record st := mkSt {
  started : bool;
  finished : bool;
  keep_alive : bool;
  shutdown : bool;
  read_disc : bool;
  write_disc : bool;
  linger : bool;
  draining : bool;
  dstate : dst;
  payload : option N;
  drainable : bool;
  messages : list dmsg;
  head_t : timer;
  ka_tm : timer;
  sd_t : timer;
  sig_armed : bool;
  rbuf : list item;
  wbuf : list witem;
  c_conn : conn_t;
  c_v11 : bool;
  c_head : bool;
  c_pl : bool;
  err : option N;
  now : N;
  sock : list item;
  sock_end : rend;
  hs : list (N * list hact);
  chans : list (N * chan);
  bpend : N;
  bleft : N;
  bskip : bool;
  res : N;
  pw : list witem;
  ps : list N;
  trace : list tev;
  reparsed : bool;
  hfail : N;
  berr : bool }.

Definition set_started (v : bool) (s : st) : st :=
  mkSt v (finished s) (keep_alive s) (shutdown s) (read_disc s) (write_disc s) (linger s) (draining s) (dstate s) (payload s) (drainable s) (messages s) (head_t s) (ka_tm s) (sd_t s) (sig_armed s) (rbuf s) (wbuf s) (c_conn s) (c_v11 s) (c_head s) (c_pl s) (err s) (now s) (sock s) (sock_end s) (hs s) (chans s) (bpend s) (bleft s) (bskip s) (res s) (pw s) (ps s) (trace s) (reparsed s) (hfail s) (berr s).
Definition set_finished (v : bool) (s : st) : st :=
  mkSt (started s) v (keep_alive s) (shutdown s) (read_disc s) (write_disc s) (linger s) (draining s) (dstate s) (payload s) (drainable s) (messages s) (head_t s) (ka_tm s) (sd_t s) (sig_armed s) (rbuf s) (wbuf s) (c_conn s) (c_v11 s) (c_head s) (c_pl s) (err s) (now s) (sock s) (sock_end s) (hs s) (chans s) (bpend s) (bleft s) (bskip s) (res s) (pw s) (ps s) (trace s) (reparsed s) (hfail s) (berr s).
Definition set_keep_alive (v : bool) (s : st) : st :=
  mkSt (started s) (finished s) v (shutdown s) (read_disc s) (write_disc s) (linger s) (draining s) (dstate s) (payload s) (drainable s) (messages s) (head_t s) (ka_tm s) (sd_t s) (sig_armed s) (rbuf s) (wbuf s) (c_conn s) (c_v11 s) (c_head s) (c_pl s) (err s) (now s) (sock s) (sock_end s) (hs s) (chans s) (bpend s) (bleft s) (bskip s) (res s) (pw s) (ps s) (trace s) (reparsed s) (hfail s) (berr s).
Definition set_shutdown (v : bool) (s : st) : st :=
  mkSt (started s) (finished s) (keep_alive s) v (read_disc s) (write_disc s) (linger s) (draining s) (dstate s) (payload s) (drainable s) (messages s) (head_t s) (ka_tm s) (sd_t s) (sig_armed s) (rbuf s) (wbuf s) (c_conn s) (c_v11 s) (c_head s) (c_pl s) (err s) (now s) (sock s) (sock_end s) (hs s) (chans s) (bpend s) (bleft s) (bskip s) (res s) (pw s) (ps s) (trace s) (reparsed s) (hfail s) (berr s).
Definition set_read_disc (v : bool) (s : st) : st :=
  mkSt (started s) (finished s) (keep_alive s) (shutdown s) v (write_disc s) (linger s) (draining s) (dstate s) (payload s) (drainable s) (messages s) (head_t s) (ka_tm s) (sd_t s) (sig_armed s) (rbuf s) (wbuf s) (c_conn s) (c_v11 s) (c_head s) (c_pl s) (err s) (now s) (sock s) (sock_end s) (hs s) (chans s) (bpend s) (bleft s) (bskip s) (res s) (pw s) (ps s) (trace s) (reparsed s) (hfail s) (berr s).
Definition set_write_disc (v : bool) (s : st) : st :=
  mkSt (started s) (finished s) (keep_alive s) (shutdown s) (read_disc s) v (linger s) (draining s) (dstate s) (payload s) (drainable s) (messages s) (head_t s) (ka_tm s) (sd_t s) (sig_armed s) (rbuf s) (wbuf s) (c_conn s) (c_v11 s) (c_head s) (c_pl s) (err s) (now s) (sock s) (sock_end s) (hs s) (chans s) (bpend s) (bleft s) (bskip s) (res s) (pw s) (ps s) (trace s) (reparsed s) (hfail s) (berr s).
Definition set_linger (v : bool) (s : st) : st :=
  mkSt (started s) (finished s) (keep_alive s) (shutdown s) (read_disc s) (write_disc s) v (draining s) (dstate s) (payload s) (drainable s) (messages s) (head_t s) (ka_tm s) (sd_t s) (sig_armed s) (rbuf s) (wbuf s) (c_conn s) (c_v11 s) (c_head s) (c_pl s) (err s) (now s) (sock s) (sock_end s) (hs s) (chans s) (bpend s) (bleft s) (bskip s) (res s) (pw s) (ps s) (trace s) (reparsed s) (hfail s) (berr s).
Definition set_draining (v : bool) (s : st) : st :=
  mkSt (started s) (finished s) (keep_alive s) (shutdown s) (read_disc s) (write_disc s) (linger s) v (dstate s) (payload s) (drainable s) (messages s) (head_t s) (ka_tm s) (sd_t s) (sig_armed s) (rbuf s) (wbuf s) (c_conn s) (c_v11 s) (c_head s) (c_pl s) (err s) (now s) (sock s) (sock_end s) (hs s) (chans s) (bpend s) (bleft s) (bskip s) (res s) (pw s) (ps s) (trace s) (reparsed s) (hfail s) (berr s).
Definition set_dstate (v : dst) (s : st) : st :=
  mkSt (started s) (finished s) (keep_alive s) (shutdown s) (read_disc s) (write_disc s) (linger s) (draining s) v (payload s) (drainable s) (messages s) (head_t s) (ka_tm s) (sd_t s) (sig_armed s) (rbuf s) (wbuf s) (c_conn s) (c_v11 s) (c_head s) (c_pl s) (err s) (now s) (sock s) (sock_end s) (hs s) (chans s) (bpend s) (bleft s) (bskip s) (res s) (pw s) (ps s) (trace s) (reparsed s) (hfail s) (berr s).
Definition set_payload (v : option N) (s : st) : st :=
  mkSt (started s) (finished s) (keep_alive s) (shutdown s) (read_disc s) (write_disc s) (linger s) (draining s) (dstate s) v (drainable s) (messages s) (head_t s) (ka_tm s) (sd_t s) (sig_armed s) (rbuf s) (wbuf s) (c_conn s) (c_v11 s) (c_head s) (c_pl s) (err s) (now s) (sock s) (sock_end s) (hs s) (chans s) (bpend s) (bleft s) (bskip s) (res s) (pw s) (ps s) (trace s) (reparsed s) (hfail s) (berr s).
Definition set_drainable (v : bool) (s : st) : st :=
  mkSt (started s) (finished s) (keep_alive s) (shutdown s) (read_disc s) (write_disc s) (linger s) (draining s) (dstate s) (payload s) v (messages s) (head_t s) (ka_tm s) (sd_t s) (sig_armed s) (rbuf s) (wbuf s) (c_conn s) (c_v11 s) (c_head s) (c_pl s) (err s) (now s) (sock s) (sock_end s) (hs s) (chans s) (bpend s) (bleft s) (bskip s) (res s) (pw s) (ps s) (trace s) (reparsed s) (hfail s) (berr s).
Definition set_messages (v : list dmsg) (s : st) : st :=
  mkSt (started s) (finished s) (keep_alive s) (shutdown s) (read_disc s) (write_disc s) (linger s) (draining s) (dstate s) (payload s) (drainable s) v (head_t s) (ka_tm s) (sd_t s) (sig_armed s) (rbuf s) (wbuf s) (c_conn s) (c_v11 s) (c_head s) (c_pl s) (err s) (now s) (sock s) (sock_end s) (hs s) (chans s) (bpend s) (bleft s) (bskip s) (res s) (pw s) (ps s) (trace s) (reparsed s) (hfail s) (berr s).
Definition set_head_t (v : timer) (s : st) : st :=
  mkSt (started s) (finished s) (keep_alive s) (shutdown s) (read_disc s) (write_disc s) (linger s) (draining s) (dstate s) (payload s) (drainable s) (messages s) v (ka_tm s) (sd_t s) (sig_armed s) (rbuf s) (wbuf s) (c_conn s) (c_v11 s) (c_head s) (c_pl s) (err s) (now s) (sock s) (sock_end s) (hs s) (chans s) (bpend s) (bleft s) (bskip s) (res s) (pw s) (ps s) (trace s) (reparsed s) (hfail s) (berr s).
Definition set_ka_tm (v : timer) (s : st) : st :=
  mkSt (started s) (finished s) (keep_alive s) (shutdown s) (read_disc s) (write_disc s) (linger s) (draining s) (dstate s) (payload s) (drainable s) (messages s) (head_t s) v (sd_t s) (sig_armed s) (rbuf s) (wbuf s) (c_conn s) (c_v11 s) (c_head s) (c_pl s) (err s) (now s) (sock s) (sock_end s) (hs s) (chans s) (bpend s) (bleft s) (bskip s) (res s) (pw s) (ps s) (trace s) (reparsed s) (hfail s) (berr s).
Definition set_sd_t (v : timer) (s : st) : st :=
  mkSt (started s) (finished s) (keep_alive s) (shutdown s) (read_disc s) (write_disc s) (linger s) (draining s) (dstate s) (payload s) (drainable s) (messages s) (head_t s) (ka_tm s) v (sig_armed s) (rbuf s) (wbuf s) (c_conn s) (c_v11 s) (c_head s) (c_pl s) (err s) (now s) (sock s) (sock_end s) (hs s) (chans s) (bpend s) (bleft s) (bskip s) (res s) (pw s) (ps s) (trace s) (reparsed s) (hfail s) (berr s).
Definition set_sig_armed (v : bool) (s : st) : st :=
  mkSt (started s) (finished s) (keep_alive s) (shutdown s) (read_disc s) (write_disc s) (linger s) (draining s) (dstate s) (payload s) (drainable s) (messages s) (head_t s) (ka_tm s) (sd_t s) v (rbuf s) (wbuf s) (c_conn s) (c_v11 s) (c_head s) (c_pl s) (err s) (now s) (sock s) (sock_end s) (hs s) (chans s) (bpend s) (bleft s) (bskip s) (res s) (pw s) (ps s) (trace s) (reparsed s) (hfail s) (berr s).
Definition set_rbuf (v : list item) (s : st) : st :=
  mkSt (started s) (finished s) (keep_alive s) (shutdown s) (read_disc s) (write_disc s) (linger s) (draining s) (dstate s) (payload s) (drainable s) (messages s) (head_t s) (ka_tm s) (sd_t s) (sig_armed s) v (wbuf s) (c_conn s) (c_v11 s) (c_head s) (c_pl s) (err s) (now s) (sock s) (sock_end s) (hs s) (chans s) (bpend s) (bleft s) (bskip s) (res s) (pw s) (ps s) (trace s) (reparsed s) (hfail s) (berr s).
Definition set_wbuf (v : list witem) (s : st) : st :=
  mkSt (started s) (finished s) (keep_alive s) (shutdown s) (read_disc s) (write_disc s) (linger s) (draining s) (dstate s) (payload s) (drainable s) (messages s) (head_t s) (ka_tm s) (sd_t s) (sig_armed s) (rbuf s) v (c_conn s) (c_v11 s) (c_head s) (c_pl s) (err s) (now s) (sock s) (sock_end s) (hs s) (chans s) (bpend s) (bleft s) (bskip s) (res s) (pw s) (ps s) (trace s) (reparsed s) (hfail s) (berr s).
Definition set_c_conn (v : conn_t) (s : st) : st :=
  mkSt (started s) (finished s) (keep_alive s) (shutdown s) (read_disc s) (write_disc s) (linger s) (draining s) (dstate s) (payload s) (drainable s) (messages s) (head_t s) (ka_tm s) (sd_t s) (sig_armed s) (rbuf s) (wbuf s) v (c_v11 s) (c_head s) (c_pl s) (err s) (now s) (sock s) (sock_end s) (hs s) (chans s) (bpend s) (bleft s) (bskip s) (res s) (pw s) (ps s) (trace s) (reparsed s) (hfail s) (berr s).
Definition set_c_v11 (v : bool) (s : st) : st :=
  mkSt (started s) (finished s) (keep_alive s) (shutdown s) (read_disc s) (write_disc s) (linger s) (draining s) (dstate s) (payload s) (drainable s) (messages s) (head_t s) (ka_tm s) (sd_t s) (sig_armed s) (rbuf s) (wbuf s) (c_conn s) v (c_head s) (c_pl s) (err s) (now s) (sock s) (sock_end s) (hs s) (chans s) (bpend s) (bleft s) (bskip s) (res s) (pw s) (ps s) (trace s) (reparsed s) (hfail s) (berr s).
Definition set_c_head (v : bool) (s : st) : st :=
  mkSt (started s) (finished s) (keep_alive s) (shutdown s) (read_disc s) (write_disc s) (linger s) (draining s) (dstate s) (payload s) (drainable s) (messages s) (head_t s) (ka_tm s) (sd_t s) (sig_armed s) (rbuf s) (wbuf s) (c_conn s) (c_v11 s) v (c_pl s) (err s) (now s) (sock s) (sock_end s) (hs s) (chans s) (bpend s) (bleft s) (bskip s) (res s) (pw s) (ps s) (trace s) (reparsed s) (hfail s) (berr s).
Definition set_c_pl (v : bool) (s : st) : st :=
  mkSt (started s) (finished s) (keep_alive s) (shutdown s) (read_disc s) (write_disc s) (linger s) (draining s) (dstate s) (payload s) (drainable s) (messages s) (head_t s) (ka_tm s) (sd_t s) (sig_armed s) (rbuf s) (wbuf s) (c_conn s) (c_v11 s) (c_head s) v (err s) (now s) (sock s) (sock_end s) (hs s) (chans s) (bpend s) (bleft s) (bskip s) (res s) (pw s) (ps s) (trace s) (reparsed s) (hfail s) (berr s).
Definition set_err (v : option N) (s : st) : st :=
  mkSt (started s) (finished s) (keep_alive s) (shutdown s) (read_disc s) (write_disc s) (linger s) (draining s) (dstate s) (payload s) (drainable s) (messages s) (head_t s) (ka_tm s) (sd_t s) (sig_armed s) (rbuf s) (wbuf s) (c_conn s) (c_v11 s) (c_head s) (c_pl s) v (now s) (sock s) (sock_end s) (hs s) (chans s) (bpend s) (bleft s) (bskip s) (res s) (pw s) (ps s) (trace s) (reparsed s) (hfail s) (berr s).
Definition set_now (v : N) (s : st) : st :=
  mkSt (started s) (finished s) (keep_alive s) (shutdown s) (read_disc s) (write_disc s) (linger s) (draining s) (dstate s) (payload s) (drainable s) (messages s) (head_t s) (ka_tm s) (sd_t s) (sig_armed s) (rbuf s) (wbuf s) (c_conn s) (c_v11 s) (c_head s) (c_pl s) (err s) v (sock s) (sock_end s) (hs s) (chans s) (bpend s) (bleft s) (bskip s) (res s) (pw s) (ps s) (trace s) (reparsed s) (hfail s) (berr s).
Definition set_sock (v : list item) (s : st) : st :=
  mkSt (started s) (finished s) (keep_alive s) (shutdown s) (read_disc s) (write_disc s) (linger s) (draining s) (dstate s) (payload s) (drainable s) (messages s) (head_t s) (ka_tm s) (sd_t s) (sig_armed s) (rbuf s) (wbuf s) (c_conn s) (c_v11 s) (c_head s) (c_pl s) (err s) (now s) v (sock_end s) (hs s) (chans s) (bpend s) (bleft s) (bskip s) (res s) (pw s) (ps s) (trace s) (reparsed s) (hfail s) (berr s).
Definition set_sock_end (v : rend) (s : st) : st :=
  mkSt (started s) (finished s) (keep_alive s) (shutdown s) (read_disc s) (write_disc s) (linger s) (draining s) (dstate s) (payload s) (drainable s) (messages s) (head_t s) (ka_tm s) (sd_t s) (sig_armed s) (rbuf s) (wbuf s) (c_conn s) (c_v11 s) (c_head s) (c_pl s) (err s) (now s) (sock s) v (hs s) (chans s) (bpend s) (bleft s) (bskip s) (res s) (pw s) (ps s) (trace s) (reparsed s) (hfail s) (berr s).
Definition set_hs (v : list (N * list hact)) (s : st) : st :=
  mkSt (started s) (finished s) (keep_alive s) (shutdown s) (read_disc s) (write_disc s) (linger s) (draining s) (dstate s) (payload s) (drainable s) (messages s) (head_t s) (ka_tm s) (sd_t s) (sig_armed s) (rbuf s) (wbuf s) (c_conn s) (c_v11 s) (c_head s) (c_pl s) (err s) (now s) (sock s) (sock_end s) v (chans s) (bpend s) (bleft s) (bskip s) (res s) (pw s) (ps s) (trace s) (reparsed s) (hfail s) (berr s).
Definition set_chans (v : list (N * chan)) (s : st) : st :=
  mkSt (started s) (finished s) (keep_alive s) (shutdown s) (read_disc s) (write_disc s) (linger s) (draining s) (dstate s) (payload s) (drainable s) (messages s) (head_t s) (ka_tm s) (sd_t s) (sig_armed s) (rbuf s) (wbuf s) (c_conn s) (c_v11 s) (c_head s) (c_pl s) (err s) (now s) (sock s) (sock_end s) (hs s) v (bpend s) (bleft s) (bskip s) (res s) (pw s) (ps s) (trace s) (reparsed s) (hfail s) (berr s).
Definition set_bpend (v : N) (s : st) : st :=
  mkSt (started s) (finished s) (keep_alive s) (shutdown s) (read_disc s) (write_disc s) (linger s) (draining s) (dstate s) (payload s) (drainable s) (messages s) (head_t s) (ka_tm s) (sd_t s) (sig_armed s) (rbuf s) (wbuf s) (c_conn s) (c_v11 s) (c_head s) (c_pl s) (err s) (now s) (sock s) (sock_end s) (hs s) (chans s) v (bleft s) (bskip s) (res s) (pw s) (ps s) (trace s) (reparsed s) (hfail s) (berr s).
Definition set_bleft (v : N) (s : st) : st :=
  mkSt (started s) (finished s) (keep_alive s) (shutdown s) (read_disc s) (write_disc s) (linger s) (draining s) (dstate s) (payload s) (drainable s) (messages s) (head_t s) (ka_tm s) (sd_t s) (sig_armed s) (rbuf s) (wbuf s) (c_conn s) (c_v11 s) (c_head s) (c_pl s) (err s) (now s) (sock s) (sock_end s) (hs s) (chans s) (bpend s) v (bskip s) (res s) (pw s) (ps s) (trace s) (reparsed s) (hfail s) (berr s).
Definition set_bskip (v : bool) (s : st) : st :=
  mkSt (started s) (finished s) (keep_alive s) (shutdown s) (read_disc s) (write_disc s) (linger s) (draining s) (dstate s) (payload s) (drainable s) (messages s) (head_t s) (ka_tm s) (sd_t s) (sig_armed s) (rbuf s) (wbuf s) (c_conn s) (c_v11 s) (c_head s) (c_pl s) (err s) (now s) (sock s) (sock_end s) (hs s) (chans s) (bpend s) (bleft s) v (res s) (pw s) (ps s) (trace s) (reparsed s) (hfail s) (berr s).
Definition set_res (v : N) (s : st) : st :=
  mkSt (started s) (finished s) (keep_alive s) (shutdown s) (read_disc s) (write_disc s) (linger s) (draining s) (dstate s) (payload s) (drainable s) (messages s) (head_t s) (ka_tm s) (sd_t s) (sig_armed s) (rbuf s) (wbuf s) (c_conn s) (c_v11 s) (c_head s) (c_pl s) (err s) (now s) (sock s) (sock_end s) (hs s) (chans s) (bpend s) (bleft s) (bskip s) v (pw s) (ps s) (trace s) (reparsed s) (hfail s) (berr s).
Definition set_pw (v : list witem) (s : st) : st :=
  mkSt (started s) (finished s) (keep_alive s) (shutdown s) (read_disc s) (write_disc s) (linger s) (draining s) (dstate s) (payload s) (drainable s) (messages s) (head_t s) (ka_tm s) (sd_t s) (sig_armed s) (rbuf s) (wbuf s) (c_conn s) (c_v11 s) (c_head s) (c_pl s) (err s) (now s) (sock s) (sock_end s) (hs s) (chans s) (bpend s) (bleft s) (bskip s) (res s) v (ps s) (trace s) (reparsed s) (hfail s) (berr s).
Definition set_ps (v : list N) (s : st) : st :=
  mkSt (started s) (finished s) (keep_alive s) (shutdown s) (read_disc s) (write_disc s) (linger s) (draining s) (dstate s) (payload s) (drainable s) (messages s) (head_t s) (ka_tm s) (sd_t s) (sig_armed s) (rbuf s) (wbuf s) (c_conn s) (c_v11 s) (c_head s) (c_pl s) (err s) (now s) (sock s) (sock_end s) (hs s) (chans s) (bpend s) (bleft s) (bskip s) (res s) (pw s) v (trace s) (reparsed s) (hfail s) (berr s).
Definition set_trace (v : list tev) (s : st) : st :=
  mkSt (started s) (finished s) (keep_alive s) (shutdown s) (read_disc s) (write_disc s) (linger s) (draining s) (dstate s) (payload s) (drainable s) (messages s) (head_t s) (ka_tm s) (sd_t s) (sig_armed s) (rbuf s) (wbuf s) (c_conn s) (c_v11 s) (c_head s) (c_pl s) (err s) (now s) (sock s) (sock_end s) (hs s) (chans s) (bpend s) (bleft s) (bskip s) (res s) (pw s) (ps s) v (reparsed s) (hfail s) (berr s).
Definition set_reparsed (v : bool) (s : st) : st :=
  mkSt (started s) (finished s) (keep_alive s) (shutdown s) (read_disc s) (write_disc s) (linger s) (draining s) (dstate s) (payload s) (drainable s) (messages s) (head_t s) (ka_tm s) (sd_t s) (sig_armed s) (rbuf s) (wbuf s) (c_conn s) (c_v11 s) (c_head s) (c_pl s) (err s) (now s) (sock s) (sock_end s) (hs s) (chans s) (bpend s) (bleft s) (bskip s) (res s) (pw s) (ps s) (trace s) v (hfail s) (berr s).
Definition set_hfail (v : N) (s : st) : st :=
  mkSt (started s) (finished s) (keep_alive s) (shutdown s) (read_disc s) (write_disc s) (linger s) (draining s) (dstate s) (payload s) (drainable s) (messages s) (head_t s) (ka_tm s) (sd_t s) (sig_armed s) (rbuf s) (wbuf s) (c_conn s) (c_v11 s) (c_head s) (c_pl s) (err s) (now s) (sock s) (sock_end s) (hs s) (chans s) (bpend s) (bleft s) (bskip s) (res s) (pw s) (ps s) (trace s) (reparsed s) v (berr s).
Definition set_berr (v : bool) (s : st) : st :=
  mkSt (started s) (finished s) (keep_alive s) (shutdown s) (read_disc s) (write_disc s) (linger s) (draining s) (dstate s) (payload s) (drainable s) (messages s) (head_t s) (ka_tm s) (sd_t s) (sig_armed s) (rbuf s) (wbuf s) (c_conn s) (c_v11 s) (c_head s) (c_pl s) (err s) (now s) (sock s) (sock_end s) (hs s) (chans s) (bpend s) (bleft s) (bskip s) (res s) (pw s) (ps s) (trace s) (reparsed s) (hfail s) v.
