(* C07 — translator tie: the statement lists, test order, comparison operators and wake sites
   that tools/gen/payload.py reads from actix-http/src/h1/payload.rs on every check run
   (Gen/PayloadTables.v), interpreted over the model's state, ARE the model's functions
   (H1/Payload.v). Permuting the tests of poll_next, changing `<` into `<=`, deleting a
   wake()/wake_io() call or a `len` bookkeeping line in the Rust source regenerates the table
   and breaks one of the lemmas below (pinned in Props/C07.v). *)
From AV Require Import Lib.Base Gen.Consts Gen.PayloadTables H1.Payload.

Section Tie.
Context {Chunk : Type}.
Variable clen : Chunk -> N.

Notation Inner := (Inner Chunk).
Notation sys := (sys Chunk).
Notation LIMIT := H1_PAYLOAD_MAX_BUFFER_SIZE.

Definition cmp (c : pl_cmp) (a b : N) : bool :=
  match c with
  | CmpLt => a <? b | CmpLe => a <=? b | CmpGt => b <? a | CmpGe => b <=? a
  | CmpEq => a =? b | CmpNe => negb (a =? b)
  end.

(* what a body may refer to: `data`, `cx`, `err`, the `waker` bound by an `if let` *)
Record env := mkEnv { e_data : option Chunk; e_cx : waker; e_err : perr; e_waker : option waker }.

Definition st := (Inner * list waker)%type.

Definition with_data (en : env) (f : Chunk -> R st) : R st :=
  match e_data en with Some d => f d | None => Panic end.

(* one statement of the Rust source on the model's state; Panic also stands for "this statement
   makes no sense here" (a table that needs it cannot equal the model) *)
Definition exec_stmt (en : env) (s : pl_stmt) (x : st) : R st :=
  let '(i, wk) := x in
  match s with
  | SLenAddData => with_data en (fun d => Val (set_len (len i + clen d) i, wk))
  | SLenSubData => with_data en (fun d => if len i <? clen d then Panic else Val (set_len (len i - clen d) i, wk))
  | SPushBack => with_data en (fun d => Val (set_items (items i ++ [d]) i, wk))
  | SPushFront => with_data en (fun d => Val (set_items (d :: items i) i, wk))
  | SNeedReadCmp c n => Val (set_need_read (cmp c (len i) n) i, wk)
  | SNeedReadTrue => Val (set_need_read true i, wk)
  | SRegister => Val (register (e_cx en) i, wk)
  | SRegisterIo => Val (register_io (e_cx en) i, wk)
  | SWake => let '(i', w) := wake i in Val (i', wk ++ w)
  | SWakeIo => let '(i', w) := wake_io i in Val (i', wk ++ w)
  | SWakerWake => match e_waker en with Some w => Val (i, wk ++ [w]) | None => Panic end
  | SSenderClosedTrue => Val (set_sender_closed true i, wk)
  | SEofTrue => Val (set_eof true i, wk)
  | SErrSomeErr => Val (set_err (Some (e_err en)) i, wk)
  | SSetErrorIncomplete => let '(i', w) := set_error EIncomplete i in Val (i', wk ++ w)
  | SCloseSender => let '(i', w) := close_sender i in Val (i', wk ++ w)
  | SRetData | SRetErr | SRetEnd | SRetPending | SRetRead | SRetPause | SRetDropped => Val x
  end.

Fixpoint exec_stmts (en : env) (l : list pl_stmt) (x : st) : R st :=
  match l with
  | [] => Val x
  | s :: r => rbind (exec_stmt en s x) (exec_stmts en r)
  end.

Definition exec_item (en : env) (it : pl_item) (x : st) : R st :=
  match it with
  | Do s => exec_stmt en s x
  | IfDo g body =>
      let '(i, wk) := x in
      match g with
      | GNeedReadAndNotEof => if need_read i && negb (eof i) then exec_stmts en body x else Val x
      | GNotSenderClosed => if negb (sender_closed i) then exec_stmts en body x else Val x
      | GTaskTake =>          (* if let Some(waker) = self.task.take() *)
          match task i with
          | Some w => exec_stmts (mkEnv (e_data en) (e_cx en) (e_err en) (Some w)) body (set_task None i, wk)
          | None => Val x
          end
      | GIoTaskTake =>
          match io_task i with
          | Some w => exec_stmts (mkEnv (e_data en) (e_cx en) (e_err en) (Some w)) body (set_io_task None i, wk)
          | None => Val x
          end
      | GUpgrade => Panic     (* a test on the Weak handle: interpreted at the level of [sys] *)
      end
  end.

Fixpoint exec_items (en : env) (l : list pl_item) (x : st) : R st :=
  match l with
  | [] => Val x
  | it :: r => rbind (exec_item en it x) (exec_items en r)
  end.

(* the value a body returns: its last statement *)
Definition ret_of (l : list pl_item) : option pl_stmt :=
  match last l (Do SWake) with Do s => Some s | IfDo _ _ => None end.

Definition env0 (cx : waker) : env := mkEnv None cx EIncomplete None.

Definition finish_poll (en : env) (body : list pl_item) (i : Inner) : R (Inner * pollres Chunk * list waker) :=
  match exec_items en body (i, []) with
  | Panic => Panic
  | Val (i', wk) =>
      match ret_of body, e_data en with
      | Some SRetData, Some d => Val (i', PData d, wk)
      | Some SRetErr, _ => Val (i', PErr (e_err en), wk)
      | Some SRetEnd, _ => Val (i', PEnd, wk)
      | Some SRetPending, _ => Val (i', PPending, wk)
      | _, _ => Panic
      end
  end.

(* the if / else-if chain of Inner::poll_next, tests tried in the listed order *)
Fixpoint interp_poll (ch : list (pl_test * list pl_item)) (cx : waker) (i : Inner)
  : R (Inner * pollres Chunk * list waker) :=
  match ch with
  | [] => Panic
  | (t, body) :: rest =>
      match t with
      | TItemsPopFront =>       (* if let Some(data) = self.items.pop_front() *)
          match items i with
          | d :: r => finish_poll (mkEnv (Some d) cx EIncomplete None) body (set_items r i)
          | [] => interp_poll rest cx i
          end
      | TErrTake =>             (* else if let Some(err) = self.err.take() *)
          match err i with
          | Some e => finish_poll (mkEnv None cx e None) body (set_err None i)
          | None => interp_poll rest cx i
          end
      | TEof => if eof i then finish_poll (env0 cx) body i else interp_poll rest cx i
      | TElse => finish_poll (env0 cx) body i
      | TUpgrade | TNeedReadFlag => Panic
      end
  end.

Definition status_of (l : list pl_item) : option status :=
  match ret_of l with
  | Some SRetRead => Some Read | Some SRetPause => Some Pause | Some SRetDropped => Some Dropped
  | _ => None
  end.

(* PayloadSender::need_read on a live sender handle *)
Definition interp_need_read (tbl : pl_test * (pl_test * list pl_item * list pl_item) * list pl_item)
  (cx : waker) (s : sys) : option (sys * res Chunk * list waker) :=
  let '(t1, (t2, a, b), c) := tbl in
  match t1, t2 with
  | TUpgrade, TNeedReadFlag =>
      match inner s with
      | Some i =>
          let body := if need_read i then a else b in
          match exec_items (env0 cx) body (i, []), status_of body with
          | Val (i', wk), Some stt => Some (mkSys (Some i') true, RStatus stt, wk)
          | _, _ => None
          end
      | None =>
          match status_of c with Some stt => Some (s, RStatus stt, []) | None => None end
      end
  | _, _ => None
  end.

(* Drop for PayloadSender on a live sender handle *)
Definition interp_sender_drop (tbl : list pl_item) (s : sys) : option (sys * res Chunk * list waker) :=
  match tbl with
  | [IfDo GUpgrade body] =>
      match inner s with
      | Some i =>
          match exec_stmts (env0 0) body (i, []) with
          | Val (i', wk) => Some (mkSys (Some i') false, RUnit, wk)
          | Panic => None
          end
      | None => Some (mkSys None false, RUnit, [])
      end
  | _ => None
  end.

(* ------------------------------------------------------------------ the tie *)

Ltac crush i :=
  destruct i as [ln ef er sc nr its [tk|] [io|]]; try reflexivity;
  cbn; repeat match goal with |- context [if ?c then _ else _] => destruct c eqn:? end; reflexivity.

Lemma tie_limit : PAYLOAD_MAX_BUFFER_SIZE = LIMIT.
Proof. reflexivity. Qed.

Lemma tie_wake i : exec_items (env0 0) PAYLOAD_WAKE (i, []) = Val (wake i).
Proof. crush i. Qed.

Lemma tie_wake_io i : exec_items (env0 0) PAYLOAD_WAKE_IO (i, []) = Val (wake_io i).
Proof. crush i. Qed.

Lemma tie_set_error e i :
  exec_items (mkEnv None 0 e None) PAYLOAD_SET_ERROR (i, []) = Val (set_error e i).
Proof. crush i. Qed.

Lemma tie_close_sender i : exec_items (env0 0) PAYLOAD_CLOSE_SENDER (i, []) = Val (close_sender i).
Proof. destruct i as [ln ef er [|] nr its [tk|] io]; reflexivity. Qed.

Lemma tie_feed_eof i : exec_items (env0 0) PAYLOAD_FEED_EOF (i, []) = Val (feed_eof i).
Proof. crush i. Qed.

Lemma tie_feed_data d i :
  exec_items (mkEnv (Some d) 0 EIncomplete None) PAYLOAD_FEED_DATA (i, []) = Val (feed_data clen LIMIT d i).
Proof. crush i. Qed.

Lemma tie_unread_data d i :
  exec_items (mkEnv (Some d) 0 EIncomplete None) PAYLOAD_UNREAD_DATA (i, []) = Val (unread_data clen d i, []).
Proof. crush i. Qed.

(* test order (items, err.take(), eof, else), `len -= data.len()`, the `<` against the limit,
   the conditional register and both wake_io() sites *)
Lemma tie_poll_next cx i : interp_poll PAYLOAD_POLL_NEXT cx i = poll_next clen LIMIT cx i.
Proof.
  destruct i as [ln ef er sc nr [|d its] [w|] [f|]]; destruct er as [e|]; destruct ef;
    cbv -[N.eqb N.ltb N.sub N.add N.leb];
    repeat match goal with |- context [if ?c then _ else _] => destruct c eqn:? end; reflexivity.
Qed.

Lemma tie_poll_order : PAYLOAD_POLL_NEXT_ORDER = [TItemsPopFront; TErrTake; TEof; TElse].
Proof. reflexivity. Qed.

Lemma tie_need_read cx s : sender s = true ->
  interp_need_read PAYLOAD_NEED_READ cx s = Some (step clen LIMIT s (ONeedRead cx)).
Proof.
  destruct s as [[i|] snd]; cbn [sender]; intros ->; [|reflexivity].
  destruct i as [ln ef er sc [|] its tk [io|]]; reflexivity.
Qed.

Lemma tie_sender_drop s : sender s = true ->
  interp_sender_drop PAYLOAD_SENDER_DROP s = Some (step clen LIMIT s OSenderDrop).
Proof.
  destruct s as [[i|] snd]; cbn [sender]; intros ->; [|reflexivity].
  destruct i as [ln ef er [|] nr its [tk|] io]; reflexivity.
Qed.

End Tie.
