(* C07 — truthful ending: a clean end only after feed_eof; an error that was set (or
   Incomplete when the sender vanishes first) is reported before any clean end. *)
From AV Require Import Lib.Base H1.Payload H1.PayloadSpec H1.PayloadProofs.

Section Ending.
Context {Chunk : Type}.
Variable clen : Chunk -> N.
Variable limit : N.

Notation Inner := (Inner Chunk).
Notation sys := (sys Chunk).
Notation op := (op Chunk).
Notation res := (res Chunk).
Notation event := (event Chunk).
Notation step := (step clen limit).
Notation exec := (exec clen limit).
Notation run := (run clen limit).
Notation steps := (steps clen limit).
Notation SInv := (SInv clen limit).
Notation signals_eof := (@signals_eof Chunk).
Notation sets_error := (@sets_error Chunk).
Notation reports_err := (@reports_err Chunk).

Ltac cases H :=
  match type of H with
  | Payload.step _ _ ?s ?o = _ =>
      destruct s as [[[ln ef er sc nr its tk io]|] snd]; destruct o; open_step H
  end.

Ltac cases_s H :=
  match type of H with
  | Payload.step _ _ ?s _ = _ =>
      destruct s as [[[ln ef er sc nr its tk io]|] snd]; open_step H
  end.

(* ------------------------------------------------------------ absorbing facts *)

Lemma step_gone s o s' x w : step s o = (s', x, w) -> inner s = None -> inner s' = None.
Proof. intros H Hi. cases H; congruence. Qed.

Lemma steps_gone s t s' : steps s t s' -> inner s = None -> inner s' = None.
Proof. induction 1; intro Hi; [exact Hi | apply IHsteps; eapply step_gone; eauto]. Qed.

Lemma step_sender_false s o s' x w : step s o = (s', x, w) -> sender s = false -> sender s' = false.
Proof. intros H Hs. cases H; congruence. Qed.

Lemma steps_sender_false s t s' : steps s t s' -> sender s = false -> sender s' = false.
Proof. induction 1; intro Hi; [exact Hi | apply IHsteps; eapply step_sender_false; eauto]. Qed.

(* a poll that returns Ready/Pending proves the reader exists *)
Lemma step_poll_alive s cx s' p w : step s (OPoll cx) = (s', RPoll p, w) -> exists i, inner s = Some i.
Proof. intro H. destruct s as [[i|] snd]; [eexists; reflexivity|]. open_step H; congruence. Qed.

(* an executed sender operation proves the sender exists *)
Lemma step_sender_alive s o s' w : step s o = (s', RUnit, w) ->
  match o with OFeedData _ | OFeedEof | OSetError _ | OSenderDrop => sender s = true | _ => True end.
Proof. intro H. cases H; try exact I; try reflexivity; try congruence. Qed.

(* ------------------------------------------------------------ clean end only after feed_eof *)

Lemma step_eof_origin s o s' x w : step s o = (s', x, w) ->
  forall i', inner s' = Some i' -> eof i' = true ->
  (exists i, inner s = Some i /\ eof i = true) \/ signals_eof (o, x, w) = true.
Proof.
  intros H i' Hi' He. cases H; try congruence; try (right; reflexivity);
    try (left; eexists; split; [reflexivity | cbn; congruence]).
Qed.

Lemma steps_eof_origin s t s' : steps s t s' ->
  forall i', inner s' = Some i' -> eof i' = true ->
  (exists i, inner s = Some i /\ eof i = true) \/ exists ev, In ev t /\ signals_eof ev = true.
Proof.
  induction 1 as [s|s o s1 x w t s2 Hs Hst IH]; intros i' Hi' He.
  - left. eauto.
  - destruct (IH _ Hi' He) as [[i1 [Hi1 He1]]|[ev [Hin Hev]]].
    + destruct (step_eof_origin _ _ _ _ _ Hs _ Hi1 He1) as [Hl|Hr]; [left; exact Hl|].
      right. exists (o, x, w). split; [left; reflexivity | exact Hr].
    + right. exists ev. split; [right; exact Hin | exact Hev].
Qed.

Lemma step_poll_end s cx s' w : step s (OPoll cx) = (s', RPoll PEnd, w) ->
  exists i, inner s = Some i /\ eof i = true /\ err i = None /\ items i = [].
Proof. intro H. cases_s H; try congruence. eexists; repeat split; reflexivity. Qed.

Theorem clean_end_truthful e os s t t1 cx wk t2 :
  run e os = (s, t) -> t = t1 ++ (OPoll cx, RPoll PEnd, wk) :: t2 ->
  e = true \/ exists ev, In ev t1 /\ signals_eof ev = true.
Proof.
  intros H ->. apply exec_steps in H. apply steps_app_inv in H as [s1 [Ha Hb]].
  inversion Hb; subst. match goal with Hs : step s1 _ = _ |- _ => apply step_poll_end in Hs as [i [Hi [He _]]] end.
  destruct (steps_eof_origin _ _ _ Ha _ Hi He) as [[i0 [Hi0 He0]]|Hr]; [|right; exact Hr].
  left. cbn in Hi0. inversion Hi0; subst. exact He0.
Qed.

(* ------------------------------------------------------------ the error that was set is seen *)

Lemma step_err_persist s o s' x w i e :
  step s o = (s', x, w) -> SInv s -> inner s = Some i -> err i = Some e ->
  reports_err (o, x, w) = false -> sets_error (o, x, w) = false ->
  forall i', inner s' = Some i' -> err i' = Some e.
Proof.
  unfold PayloadProofs.SInv. intros H HI Hi He Hr Hs i' Hi'.
  destruct s as [[[ln ef er sc nr its tk io]|] snd]; cbn [inner] in *; [|discriminate].
  destruct HI as [H1 H2 H3 H4]. cbn in H1, H2, H3, H4. inversion Hi; subst i. cbn in He. subst er.
  assert (sc = true) by (apply H4; discriminate). subst sc.
  destruct o; open_step H; dmg; try congruence; try reflexivity.
Qed.

Lemma steps_err_persist s t s' : steps s t s' -> SInv s ->
  forall i e, inner s = Some i -> err i = Some e ->
  (forall ev, In ev t -> reports_err ev = false /\ sets_error ev = false) ->
  forall i', inner s' = Some i' -> err i' = Some e.
Proof.
  induction 1 as [s|s o s1 x w t s2 Hs Hst IH]; intros HI i e Hi He Hq i' Hi'.
  - congruence.
  - destruct (inner s1) as [i1|] eqn:E1.
    + destruct (Hq (o, x, w) (or_introl eq_refl)) as [Hr Hse].
      eapply IH; [eapply step_inv; eauto | reflexivity | eapply step_err_persist; eauto | | exact Hi'].
      intros ev Hin. apply Hq. right. exact Hin.
    + pose proof (steps_gone _ _ _ Hst E1). congruence.
Qed.

Lemma step_poll_with_err s cx s' p w i e :
  step s (OPoll cx) = (s', RPoll p, w) -> inner s = Some i -> err i = Some e ->
  (exists d, p = PData d) \/ p = PErr e.
Proof.
  intros H Hi He. destruct s as [[[ln ef er sc nr its tk io]|] snd]; cbn [inner] in *; [|discriminate].
  inversion Hi; subst i. cbn in He. subst er. open_step H; try congruence; eauto.
Qed.

Lemma step_set_error s e s' w : step s (OSetError e) = (s', RUnit, w) ->
  forall i, inner s = Some i -> exists i', inner s' = Some i' /\ err i' = Some e.
Proof. intros H i Hi. cases_s H; try congruence. eexists; split; reflexivity. Qed.

(* After an executed set_error(e), and until another error is set or one is reported, every
   poll returns queued data or exactly Err(e): never a clean end, never Pending. *)
Theorem error_seen e os s t t1 x w1 t2 cx p w2 t3 :
  run e os = (s, t) ->
  t = t1 ++ (OSetError x, RUnit, w1) :: t2 ++ (OPoll cx, RPoll p, w2) :: t3 ->
  (forall ev, In ev t2 -> reports_err ev = false /\ sets_error ev = false) ->
  (exists d, p = PData d) \/ p = PErr x.
Proof.
  intros H -> Hq. apply exec_steps in H. pose proof (create_inv clen limit e) as HI0.
  apply steps_app_inv in H as [s1 [Ha Hb]]. inversion Hb; subst.
  match goal with Hs : step s1 _ = _, Hr : steps _ (t2 ++ _) _ |- _ =>
    rename Hs into Hse; apply steps_app_inv in Hr as [s3 [Hc Hd]] end.
  inversion Hd; subst. match goal with Hs : step s3 _ = _ |- _ => rename Hs into Hp end.
  destruct (step_poll_alive _ _ _ _ _ Hp) as [i3 Hi3].
  pose proof (steps_inv _ _ _ _ _ Ha HI0) as HI1.
  pose proof (step_inv _ _ _ _ _ _ _ Hse HI1) as HI2.
  destruct (inner s1) as [i1|] eqn:E1.
  - destruct (step_set_error _ _ _ _ Hse _ E1) as [i2 [Hi2 He2]].
    eapply step_poll_with_err; [exact Hp | exact Hi3 |].
    eapply steps_err_persist; [exact Hc | exact HI2 | exact Hi2 | exact He2 | exact Hq | exact Hi3].
  - pose proof (step_gone _ _ _ _ _ Hse E1) as E2. pose proof (steps_gone _ _ _ Hc E2). congruence.
Qed.

(* ------------------------------------------------------------ the sender vanishes first *)

Lemma step_closed_origin s o s' x w : step s o = (s', x, w) ->
  forall i', inner s' = Some i' -> sender_closed i' = true -> sender s' = true ->
  (exists i, inner s = Some i /\ sender_closed i = true) \/
  signals_eof (o, x, w) = true \/ sets_error (o, x, w) = true.
Proof.
  intros H i' Hi' Hc Hsd. cases H; try congruence; try (right; left; reflexivity); try (right; right; reflexivity);
    try (left; eexists; split; [reflexivity | cbn; congruence]).
Qed.

Lemma step_sender_true_back s o s' x w : step s o = (s', x, w) -> sender s' = true -> sender s = true.
Proof. intros H Hs. destruct (sender s) eqn:E; [reflexivity|]. pose proof (step_sender_false _ _ _ _ _ H E). congruence. Qed.

Lemma steps_closed_origin s t s' : steps s t s' ->
  forall i', inner s' = Some i' -> sender_closed i' = true -> sender s' = true ->
  (exists i, inner s = Some i /\ sender_closed i = true) \/
  exists ev, In ev t /\ (signals_eof ev = true \/ sets_error ev = true).
Proof.
  induction 1 as [s|s o s1 x w t s2 Hs Hst IH]; intros i' Hi' Hc Hsd.
  - left. eauto.
  - destruct (IH _ Hi' Hc Hsd) as [[i1 [Hi1 Hc1]]|[ev [Hin Hev]]].
    + assert (Hsd1 : sender s1 = true).
      { destruct (sender s1) eqn:E; [reflexivity|]. pose proof (steps_sender_false _ _ _ Hst E). congruence. }
      destruct (step_closed_origin _ _ _ _ _ Hs _ Hi1 Hc1 Hsd1) as [Hl|Hr]; [left; exact Hl|].
      right. exists (o, x, w). split; [left; reflexivity | exact Hr].
    + right. exists ev. split; [right; exact Hin | exact Hev].
Qed.

Lemma step_sender_drop s s' w : step s OSenderDrop = (s', RUnit, w) ->
  sender s = true /\ sender s' = false /\
  forall i, inner s = Some i -> sender_closed i = false ->
    exists i', inner s' = Some i' /\ err i' = Some EIncomplete /\ eof i' = eof i.
Proof.
  intro H. cases_s H; try congruence; repeat split; intros i Hi Hc; inversion Hi; subst; cbn in *; try congruence.
  all: try (exfalso; subst; cbn in *; congruence).
  eexists; repeat split; reflexivity.
Qed.

Lemma step_eof_stays_false s o s' x w i :
  step s o = (s', x, w) -> sender s = false -> inner s = Some i -> eof i = false ->
  forall i', inner s' = Some i' -> eof i' = false.
Proof.
  intros H Hs Hi He i' Hi'. destruct s as [[[ln ef er sc nr its tk io]|] snd]; cbn [inner sender] in *; [|discriminate].
  inversion Hi; subst i. cbn in He. subst. destruct o; open_step H; dmg; try congruence; reflexivity.
Qed.

Lemma steps_eof_stays_false s t s' : steps s t s' -> sender s = false ->
  forall i, inner s = Some i -> eof i = false -> forall i', inner s' = Some i' -> eof i' = false.
Proof.
  induction 1 as [s|s o s1 x w t s2 Hs Hst IH]; intros Hsd i Hi He i' Hi'.
  - congruence.
  - destruct (inner s1) as [i1|] eqn:E1.
    + eapply IH; [eapply step_sender_false; eauto | reflexivity | eapply step_eof_stays_false; eauto | exact Hi'].
    + pose proof (steps_gone _ _ _ Hst E1). congruence.
Qed.

Lemma step_no_set_error_without_sender s o s' x w :
  step s o = (s', x, w) -> sender s = false -> sets_error (o, x, w) = false.
Proof. intros H Hs. cases H; try congruence; reflexivity. Qed.

Lemma steps_no_set_error_without_sender s t s' : steps s t s' -> sender s = false ->
  forall ev, In ev t -> sets_error ev = false.
Proof.
  induction 1 as [s|s o s1 x w t s2 Hs Hst IH]; intros Hsd ev Hin; [inversion Hin|].
  destruct Hin as [<-|Hin]; [eapply step_no_set_error_without_sender; eauto|].
  eapply IH; [eapply step_sender_false; eauto | exact Hin].
Qed.

(* The sender is dropped before any ending was signalled (channel created with eof = false,
   no executed feed_eof / set_error before): from then on no poll ever reports a clean end, and
   until an error is reported every poll returns queued data or exactly Err(Incomplete). *)
Theorem sender_vanished_first os s t t1 w1 t2 :
  run false os = (s, t) ->
  t = t1 ++ (OSenderDrop, RUnit, w1) :: t2 ->
  (forall ev, In ev t1 -> signals_eof ev = false /\ sets_error ev = false) ->
  (forall ev, In ev t2 -> ev_res ev <> RPoll PEnd) /\
  (forall t2a cx p w2 t3, t2 = t2a ++ (OPoll cx, RPoll p, w2) :: t3 ->
     (forall ev, In ev t2a -> reports_err ev = false) ->
     (exists d, p = PData d) \/ p = PErr EIncomplete).
Proof.
  intros H -> Hq. apply exec_steps in H. pose proof (create_inv clen limit false) as HI0.
  apply steps_app_inv in H as [s1 [Ha Hb]]. inversion Hb; subst.
  match goal with Hs : step s1 _ = _, Hr : steps _ t2 _ |- _ => rename Hs into Hd; rename Hr into Hc end.
  pose proof (steps_inv _ _ _ _ _ Ha HI0) as HI1.
  pose proof (step_inv _ _ _ _ _ _ _ Hd HI1) as HI2.
  destruct (step_sender_drop _ _ _ Hd) as [Hsd1 [Hsd2 Hdrop]].
  destruct (inner s1) as [i1|] eqn:E1.
  - (* nothing was signalled before the drop *)
    assert (Hc1 : sender_closed i1 = false).
    { destruct (sender_closed i1) eqn:Ec; [|reflexivity]. exfalso.
      destruct (steps_closed_origin _ _ _ Ha _ E1 Ec Hsd1) as [[i0 [Hi0 Hc0]]|[ev [Hin [Hev|Hev]]]].
      - cbn in Hi0. inversion Hi0; subst. cbn in Hc0. discriminate.
      - destruct (Hq _ Hin). congruence.
      - destruct (Hq _ Hin). congruence. }
    assert (He1 : eof i1 = false).
    { destruct (eof i1) eqn:Ee; [|reflexivity]. exfalso.
      destruct (steps_eof_origin _ _ _ Ha _ E1 Ee) as [[i0 [Hi0 He0]]|[ev [Hin Hev]]].
      - cbn in Hi0. inversion Hi0; subst. cbn in He0. discriminate.
      - destruct (Hq _ Hin). congruence. }
    destruct (Hdrop _ eq_refl Hc1) as [i2 [Hi2 [Herr2 Heof2]]]. rewrite He1 in Heof2.
    split.
    + intros ev Hin Hres. apply in_split in Hin as [ta [tb ->]].
      apply steps_app_inv in Hc as [s3 [Hc3 Hc4]]. inversion Hc4; subst. cbn in Hres. subst.
      match goal with Hs : step s3 _ = _ |- _ => rename Hs into Hp end.
      assert (exists cx, o = OPoll cx) as [cx ->].
      { destruct s3 as [[[ln ef er sc nr its tk io]|] snd]; destruct o; open_step Hp; try congruence; eauto. }
      destruct (step_poll_end _ _ _ _ Hp) as [i3 [Hi3 [He3 _]]].
      pose proof (steps_eof_stays_false _ _ _ Hc3 Hsd2 _ Hi2 Heof2 _ Hi3). congruence.
    + intros t2a cx p w2 t3 -> Hnr.
      apply steps_app_inv in Hc as [s3 [Hc3 Hc4]]. inversion Hc4; subst.
      match goal with Hs : step s3 _ = _ |- _ => rename Hs into Hp end.
      destruct (step_poll_alive _ _ _ _ _ Hp) as [i3 Hi3].
      eapply step_poll_with_err; [exact Hp | exact Hi3 |].
      eapply steps_err_persist; [exact Hc3 | exact HI2 | exact Hi2 | exact Herr2 | | exact Hi3].
      intros ev Hin. split; [apply Hnr; exact Hin|].
      eapply steps_no_set_error_without_sender; [exact Hc3 | exact Hsd2 | exact Hin].
  - (* the reader was dropped before: nothing is polled any more *)
    pose proof (step_gone _ _ _ _ _ Hd E1) as E2. split.
    + intros ev Hin Hres. apply in_split in Hin as [ta [tb ->]].
      apply steps_app_inv in Hc as [s3 [Hc3 Hc4]]. inversion Hc4; subst. cbn in Hres. subst.
      match goal with Hs : step s3 _ = _ |- _ => rename Hs into Hp end.
      pose proof (steps_gone _ _ _ Hc3 E2) as E3.
      destruct s3 as [[i3|] snd]; cbn in E3; [discriminate|]. destruct o; open_step Hp; congruence.
    + intros t2a cx p w2 t3 -> Hnr.
      apply steps_app_inv in Hc as [s3 [Hc3 Hc4]]. inversion Hc4; subst.
      match goal with Hs : step s3 _ = _ |- _ => rename Hs into Hp end.
      destruct (step_poll_alive _ _ _ _ _ Hp) as [i3 Hi3].
      pose proof (steps_gone _ _ _ Hc3 E2). congruence.
Qed.

End Ending.
