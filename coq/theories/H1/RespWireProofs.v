(* Proofs for the composition of the sequencing layer with the C04 flush layer. *)
From Coq Require Import String Sorting.Sorted.
From AV Require Import Lib.Base H1.Encoder H1.RespSeq H1.RespSeqProofs H1.Flush H1.FlushProofs H1.RespWire.
Open Scope N_scope.

Lemma units_bytes_app a b : units_bytes (a ++ b) = units_bytes a ++ units_bytes b.
Proof. unfold units_bytes. rewrite map_app, concat_app. reflexivity. Qed.

(* ---------------------------------------------------------------- dispatcher steps only append *)
Definition ext (d d' : dstate) : Prop :=
  exists new, d_out d' = d_out d ++ new /\
              d_wbuf d' = d_wbuf d + lenN (units_bytes new) /\
              d_flushed d' = d_flushed d.

Lemma ext_refl d : ext d d.
Proof. exists []. rewrite app_nil_r. repeat split. unfold units_bytes, lenN. cbn. lia. Qed.

Lemma ext_trans a b c : ext a b -> ext b c -> ext a c.
Proof.
  intros (n1 & A1 & A2 & A3) (n2 & B1 & B2 & B3). exists (n1 ++ n2).
  rewrite B1, A1, app_assoc. split; [reflexivity|]. split; [|congruence].
  rewrite B2, A2, units_bytes_app. unfold lenN. rewrite app_length. lia.
Qed.

Lemma ext_same d d' :
  d_out d' = d_out d -> d_wbuf d' = d_wbuf d -> d_flushed d' = d_flushed d -> ext d d'.
Proof.
  intros A B C. exists []. rewrite app_nil_r. repeat split; auto.
  rewrite B. unfold units_bytes, lenN. cbn. lia.
Qed.

Lemma ext_append d c u : ext d (append d c u).
Proof.
  exists [u]. unfold append. cbn [d_out d_wbuf d_flushed]. repeat split.
  unfold units_bytes. cbn [map concat]. rewrite app_nil_r. reflexivity.
Qed.

Section Ext.
  Variable reqs : list reqctx.
  Variable hs : list hscript.
  Variable wbs : N.

  Lemma ext_dispatch d j : ext d (dispatch reqs hs d j).
  Proof. unfold dispatch. destruct (req_expects _); apply ext_same; reflexivity. Qed.

  Lemma ext_send_response d tag r size next : ext d (send_response d tag r size next).
  Proof.
    unfold send_response. destruct (codec_encode_item _ _ _) as [c h].
    eapply ext_trans; [apply (ext_append d c (UHead tag h))|].
    destruct size as [|[|p]|]; apply ext_same; reflexivity.
  Qed.

  Lemma ext_settle fuel : forall d, ext d (settle reqs hs fuel d).
  Proof.
    induction fuel as [|f IH]; intros d; [apply ext_refl|]. cbn [settle].
    destruct (d_st d); try apply ext_refl. destruct (d_msgs d) as [|[j|e] rest]; try apply ext_refl.
    - unfold pop_dispatch. eapply ext_trans; [|apply ext_dispatch]. apply ext_same; reflexivity.
    - eapply ext_trans; [|apply IH]. eapply ext_trans; [|apply ext_send_response].
      apply ext_same; reflexivity.
  Qed.

  Lemma ext_tick fuel : forall d, ext d (tick reqs hs wbs fuel d).
  Proof.
    induction fuel as [|f IH]; intros d; [apply ext_refl|]. cbn [tick].
    destruct (d_st d) as [|j|j|j e].
    - destruct (d_msgs d) as [|[j|e] rest]; [apply ext_refl| |].
      + eapply ext_trans; [|apply IH]. unfold pop_dispatch.
        eapply ext_trans; [|apply ext_dispatch]. apply ext_same; reflexivity.
      + eapply ext_trans; [apply (ext_settle 1)|apply IH].
    - eapply ext_trans; [|apply IH].
      eapply ext_trans; [apply (ext_append d (d_codec d) (UCont j))|]. apply ext_same; reflexivity.
    - destruct (0 <? d_pend d); [apply ext_same; reflexivity|apply ext_send_response].
    - destruct (d_wbuf d <? wbs); [|apply ext_refl].
      destruct (body_poll _ _) as [[|b| |] b'].
      + apply ext_same; reflexivity.
      + destruct (codec_encode_chunk _ _) as [c out].
        eapply ext_trans; [apply (ext_append d c (UData j out))|]. apply ext_same; reflexivity.
      + destruct (codec_encode_eof _) as [[c out]|]; [|apply ext_same; reflexivity].
        eapply ext_trans; [apply (ext_append d c (UData j out))|]. apply ext_same; reflexivity.
      + apply ext_same; reflexivity.
  Qed.

  Lemma ext_step d e : (forall k, e <> EvFlush k) -> ext d (step reqs hs wbs d e).
  Proof.
    intros He. unfold step. destruct (d_fail d); [apply ext_refl|].
    destruct e as [j| | |k]; [| | |exfalso; eapply He; reflexivity].
    - set (d1 := set_codec d _). change (d_st d1) with (d_st d).
      assert (H1 : ext d d1) by (apply ext_same; reflexivity).
      destruct (d_st d); [eapply ext_trans; [exact H1|apply ext_dispatch]|..];
        (eapply ext_trans; [exact H1|apply ext_same; reflexivity]).
    - eapply ext_trans; [|apply ext_settle]. apply ext_same; reflexivity.
    - eapply ext_trans; [apply ext_tick|apply ext_settle].
  Qed.

  (* ---------------------------------------------------------------- the composed invariant *)
  Definition WInv (w : wstate) : Prop :=
    (exists ops, w_f w = frun ops) /\
    s_put (w_f w) = units_bytes (d_out (w_d w)) /\
    d_flushed (w_d w) = lenN (s_wire (w_f w)) /\
    (s_failed (w_f w) = false -> d_wbuf (w_d w) = lenN (s_buf (w_f w))).

  Lemma frun_snoc ops o : frun (ops ++ [o]) = fstep (frun ops) o.
  Proof. unfold frun. rewrite fold_left_app. reflexivity. Qed.

  Lemma new_bytes_ext d d' new : d_out d' = d_out d ++ new -> new_bytes d d' = units_bytes new.
  Proof.
    intro H. unfold new_bytes. rewrite H, units_bytes_app, skipn_app, skipn_all, Nat.sub_diag.
    reflexivity.
  Qed.

  Lemma wdead_false w : wdead w = false -> d_fail (w_d w) = None /\ s_failed (w_f w) = false.
  Proof. unfold wdead. destruct (d_fail (w_d w)); [discriminate|auto]. Qed.

  Lemma wstep_inv w e : WInv w -> WInv (wstep reqs hs wbs w e).
  Proof.
    intros HI. unfold wstep. destruct (wdead w) eqn:Hd; [exact HI|].
    destruct (wdead_false w Hd) as [Hdf Hsf].
    destruct HI as ((ops & Hops) & Hput & Hfl & Hwb). specialize (Hwb Hsf).
    assert (Hput_case : forall e', (forall k, e' <> EvFlush k) ->
              WInv (mkW (step reqs hs wbs (w_d w) e')
                        (fstep (w_f w) (FPut (new_bytes (w_d w) (step reqs hs wbs (w_d w) e')))))).
    { intros e' He'. destruct (ext_step (w_d w) e' He') as (new & E1 & E2 & E3).
      rewrite (new_bytes_ext _ _ _ E1). unfold WInv. cbn [w_d w_f].
      split; [exists (ops ++ [FPut (units_bytes new)]); rewrite frun_snoc, Hops; reflexivity|].
      unfold fstep. rewrite Hsf. cbn [s_put s_wire s_buf s_failed].
      split; [rewrite Hput, E1, units_bytes_app; reflexivity|]. split; [congruence|].
      intros _. rewrite E2, Hwb. unfold lenN. rewrite app_length. lia. }
    destruct e as [j| | |script dflt fl]; try (apply Hput_case; intros; discriminate).
    (* a poll_flush *)
    destruct (poll_flush_spec (s_buf (w_f w)) script dflt fl) as (rest & Hb & H3). cbn zeta in H3.
    set (r := poll_flush (s_buf (w_f w)) script dflt fl) in *.
    assert (Hlen : lenN (s_buf (w_f w)) = lenN (f_wire r) + lenN rest).
    { pose proof (f_equal (@length N) Hb) as HL. rewrite app_length in HL. unfold lenN. lia. }
    assert (Hk : lenN (f_wire r) <= d_wbuf (w_d w)) by (rewrite Hwb; lia).
    unfold WInv. cbn [w_d w_f].
    split; [exists (ops ++ [FFlush script dflt fl]); rewrite frun_snoc, Hops; reflexivity|].
    unfold fstep. rewrite Hsf. fold r. cbn [s_put s_wire s_buf s_failed].
    unfold flush. cbn [d_out d_flushed d_wbuf].
    split; [exact Hput|]. rewrite (N.min_l _ _ Hk).
    split; [rewrite Hfl; unfold lenN; rewrite app_length; lia|].
    intro Hnf. cbn [orb] in Hnf. rewrite Hwb.
    destruct (f_res r); cbn [is_err] in Hnf; try discriminate.
    - destruct H3 as (-> & -> & _). unfold lenN in *. cbn [length] in *. lia.
    - destruct H3 as (-> & _). lia.
  Qed.

  Lemma wrun_inv wes : forall w, WInv w -> WInv (wrun reqs hs wbs w wes).
  Proof.
    induction wes as [|e r IH]; intros w H; [exact H|].
    unfold wrun. cbn [fold_left]. apply IH, wstep_inv, H.
  Qed.

  Lemma winit_inv ka : WInv (winit ka).
  Proof. unfold WInv, winit. cbn. split; [exists []; reflexivity|]. repeat split; reflexivity. Qed.

  (* once the future has resolved with an error nothing moves any more: whatever is in write_buf
     (the rest of the aborted response, and complete earlier responses not yet flushed) is lost *)
  Lemma dead_frozen wes : forall w, wdead w = true -> wrun reqs hs wbs w wes = w.
  Proof.
    induction wes as [|e r IH]; intros w H; [reflexivity|].
    unfold wrun. cbn [fold_left]. assert (Hs : wstep reqs hs wbs w e = w) by (unfold wstep; rewrite H; reflexivity).
    rewrite Hs. apply IH, H.
  Qed.

  (* ---------------------------------------------------------------- the dispatcher part is a run *)
  Fixpoint warr_ok (n : nat) (es : list wevent) : Prop :=
    match es with
    | [] => True
    | WArrive j :: r => N.to_nat j = n /\ warr_ok (S n) r
    | _ :: r => warr_ok n r
    end.
  Fixpoint warrivals (es : list wevent) : nat :=
    match es with [] => O | WArrive _ :: r => S (warrivals r) | _ :: r => warrivals r end.

  Lemma wrun_as_run wes : forall w,
    exists es, w_d (wrun reqs hs wbs w wes) = run reqs hs wbs (w_d w) es /\
               (forall n, warr_ok n wes -> arr_ok n es) /\ (arrivals es <= warrivals wes)%nat.
  Proof.
    induction wes as [|e r IH]; intros w.
    - exists []. repeat split; auto.
    - destruct (wdead w) eqn:Hd.
      + rewrite dead_frozen by exact Hd. exists []. repeat split; cbn; auto; lia.
      + destruct (wdead_false w Hd) as [Hdf _].
        unfold wrun. cbn [fold_left]. fold (wrun reqs hs wbs (wstep reqs hs wbs w e) r).
        destruct (IH (wstep reqs hs wbs w e)) as (es & E1 & E2 & E3).
        set (e' := match e with
                   | WFlush script dflt fl => EvFlush (lenN (f_wire (poll_flush (s_buf (w_f w)) script dflt fl)))
                   | _ => ev_of e end).
        assert (Hstep : w_d (wstep reqs hs wbs w e) = step reqs hs wbs (w_d w) e').
        { unfold wstep. rewrite Hd. destruct e; cbn [w_d ev_of e']; try reflexivity.
          unfold step. rewrite Hdf. reflexivity. }
        exists (e' :: es). split; [|split].
        * rewrite E1, Hstep. reflexivity.
        * intros n Hn. destruct e; cbn [warr_ok] in Hn; cbn [e' ev_of arr_ok]; auto.
          destruct Hn as [H1 H2]. split; [exact H1|apply E2; exact H2].
        * destruct e; cbn [e' ev_of arrivals warrivals]; lia.
  Qed.

  (* End to end, for every event schedule and every socket behaviour: the bytes the socket has
     accepted are a prefix of the concatenation of the response units in dispatch order (which is
     well-sequenced: one response per dispatched request, in request order, never interleaved);
     while the connection is alive, accepted ++ write_buf is exactly that concatenation, and the
     sequencing model's write_buf length is the flush model's; once the connection future has
     failed nothing is accepted any more. *)
  Theorem wire_is_prefix_of_responses ka wes :
    warr_ok O wes ->
    let w := wrun reqs hs wbs (winit ka) wes in
    let d := w_d w in let fs := w_f w in
    well_sequenced (d_out d) /\
    (forall j h, In (UHead (Some j) h) (d_out d) -> In j (d_started d)) /\
    StronglySorted lt (d_started d) /\
    (forall j, In j (d_started d) -> (j < warrivals wes)%nat) /\
    prefix_of (s_wire fs) (units_bytes (d_out d)) /\
    (wdead w = false -> s_wire fs ++ s_buf fs = units_bytes (d_out d) /\ d_wbuf d = lenN (s_buf fs)) /\
    (wdead w = true -> forall wes', wrun reqs hs wbs w wes' = w).
  Proof.
    intros Ha w d fs.
    destruct (wrun_as_run wes (winit ka)) as (es & E1 & E2 & E3). fold w in E1. cbn [winit w_d] in E1.
    destruct (order_one_per_request reqs hs wbs ka es (E2 O Ha)) as (O1 & O2 & O3 & O4 & _).
    cbv zeta in O1, O2, O3, O4. rewrite <- E1 in O1, O2, O3, O4.
    destruct (wrun_inv wes (winit ka) (winit_inv ka)) as ((ops & Hops) & Hput & Hfl & Hwb). fold w in Hops, Hput, Hfl, Hwb.
    destruct (flush_exactly_once_in_order ops) as (P1 & P2 & _). cbv zeta in P1, P2. rewrite <- Hops in P1, P2.
    split; [exact O1|]. split; [exact O2|]. split; [exact O3|].
    split; [intros j Hj; specialize (O4 j Hj); lia|].
    split; [unfold d, fs; rewrite <- Hput; exact P1|].
    split.
    - intro Hd. destruct (wdead_false w Hd) as [_ Hsf]. unfold d, fs. rewrite <- Hput. auto.
    - intros Hd wes'. apply dead_frozen. exact Hd.
  Qed.
End Ext.
