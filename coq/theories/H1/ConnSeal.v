(* C03, repaired tree (all three repairs): a connection that has encoded a closing response is in a
   "sealed" state; sealed states are closed under every event and no response head / service call
   is ever added to the history from them. *)
Require Import AV.Lib.Base AV.H1.ConnRec AV.H1.ConnState AV.H1.ConnProofs AV.H1.ConnGraceful.

Definition all_fixes (c : cfg) : Prop := fx_ctx (fx c) = true /\ fx_close (fx c) = true /\ fx_sd (fx c) = true.

Definition is_send (d : dst) : bool := match d with SSendPayload _ => true | _ => false end.
(* shape 1: the body of the closing response is still being streamed *)
Definition S1 (s : st) : Prop :=
  is_send (dstate s) = true /\ c_conn s = CClose /\ t_active (head_t s) = false /\ started s = true.
(* shape 2: the closing response is complete *)
Definition S2 (s : st) : Prop :=
  dstate s = SNone /\ messages s = [] /\ (read_disc s || linger s || shutdown s) = true /\
  t_active (head_t s) = false /\ started s = true.
Definition Sealed (s : st) : Prop := S1 s \/ S2 s.

(* events that add neither a response head nor a service call *)
Definition silent (e : tev) : bool := match e with THead _ _ _ _ _ | TStart _ => false | _ => true end.
Definition Z (s s' : st) : Prop := Sealed s' /\ ext silent s s'.

Lemma Z_refl s : Sealed s -> Z s s.
Proof. intro H. split; [exact H|apply ext_refl]. Qed.
Lemma Z_trans s1 s2 s3 : Z s1 s2 -> Z s2 s3 -> Z s1 s3.
Proof. intros [_ E1] [D E2]. split; [exact D|eapply ext_trans; eauto]. Qed.
Lemma Z_same s s' : Sealed s' -> trace s' = trace s -> Z s s'.
Proof. intros D T. split; [exact D|apply ext_same; exact T]. Qed.

Ltac s1 H := destruct H as (?A & ?B & ?C & ?D); unfold S1; repeat split; cbn; auto.
Ltac s2 H := destruct H as (?A & ?B & ?C & ?D & ?E); unfold S2; repeat split; cbn; auto.

(* shape 1: later requests are only queued, the context of the response in flight is kept *)
Lemma decode_loop_S1 c : fx_ctx (fx c) = true -> forall fuel s upd, S1 s ->
  S1 (fst (decode_loop fuel c s upd)) /\ ext silent s (fst (decode_loop fuel c s upd)).
Proof.
  intros FX. induction fuel as [|f IH]; intros s upd S; cbn [decode_loop]; [split; [exact S|apply ext_refl]|].
  destruct (rbuf s) as [|it rest] eqn:Er; [split; [exact S|apply ext_refl]|].
  assert (NN : is_none (dstate s) = false) by (destruct S as (A & _); destruct (dstate s); cbn in *; congruence).
  destruct (c_pl s) eqn:Ec.
  - destruct it; try (split; [exact S|apply ext_refl]).
    + cbn. destruct (payload s) eqn:Ep.
      * match goal with |- context [decode_loop f c ?x true] => destruct (IH x true) as [gg nn]; [s1 S|] end.
        split; [exact gg|]. eapply ext_trans; [|exact nn]. apply ext_same; reflexivity.
      * cbn. split; [s1 S|apply ext_same; reflexivity].
    + cbn. destruct (payload s) eqn:Ep.
      * match goal with |- context [decode_loop f c ?x true] => destruct (IH x true) as [gg nn]; [s1 S|] end.
        split; [exact gg|]. eapply ext_trans; [|exact nn]. apply ext_same; reflexivity.
      * cbn. split; [s1 S|apply ext_same; reflexivity].
  - destruct it.
    + rewrite FX. replace (is_none (dstate (set_rbuf rest s))) with false by (symmetry; exact NN). cbn [andb negb].
      match goal with |- context [if is_none (dstate ?x) then _ else _] =>
        assert (S0 : S1 x) by (unfold add_trace; repeat bm; s1 S);
        assert (T0 : trace x = trace s ++ [TDecode r]) by (unfold add_trace; repeat bm; cbn; reflexivity);
        set (x0 := x) in * end.
      assert (NN0 : is_none (dstate x0) = false) by (destruct S0 as (A & _); destruct (dstate x0); cbn in *; congruence).
      rewrite NN0.
      match goal with |- context [decode_loop f c ?y true] => destruct (IH y true) as [gg nn]; [s1 S0|] end.
      split; [exact gg|]. eapply ext_trans; [|exact nn].
      apply ext_trans with (s2 := x0); [apply ext_one with (e := TDecode r); [exact T0|reflexivity]|apply ext_same; reflexivity].
    + destruct rest; [split; [exact S|apply ext_refl]|].
      match goal with |- context [decode_loop f c ?x upd] => destruct (IH x upd) as [gg nn]; [s1 S|] end.
      split; [exact gg|]. eapply ext_trans; [|exact nn]. apply ext_same; reflexivity.
    + cbn. unfold parse_error, take_payload_err. split; [|apply ext_same]; repeat bm; try s1 S; reflexivity.
    + cbn. unfold parse_error, take_payload_err. split; [|apply ext_same]; repeat bm; try s1 S; reflexivity.
    + cbn. unfold parse_error, take_payload_err. split; [|apply ext_same]; repeat bm; try s1 S; reflexivity.
Qed.

Lemma poll_request_sealed c s : fx_ctx (fx c) = true -> Sealed s ->
  (linger s || shutdown s = false \/ is_none (dstate s) = false) -> Z s (fst (poll_request c s)).
Proof.
  intros FX S G. unfold poll_request.
  destruct (draining s && is_none (dstate s)); [apply Z_refl; exact S|].
  destruct S as [S|S].
  - destruct ((MAXP <=? lenN (messages s)) || read_disc s); [apply Z_refl; left; exact S|].
    destruct (decode_loop_S1 c FX (Datatypes.S (length (rbuf s))) s false S) as [A B].
    split; [left; exact A|exact B].
  - (* shape 2: the read side is closed, the gate refuses *)
    assert (R : read_disc s = true).
    { destruct S as (A & B & C & D & E). destruct G as [G|G]; [|rewrite A in G; discriminate].
      destruct (read_disc s); [reflexivity|]. cbn in C. rewrite C in G. discriminate. }
    rewrite R, orb_true_r. apply Z_refl. right. exact S.
Qed.

Lemma body_end_S c s : fx_close (fx c) = true -> S1 s -> S2 (body_end c s) /\ ext silent s (body_end c s).
Proof.
  intros FX (A & B & C & D). unfold body_end, complete_flags, finish_hook, add_trace.
  split.
  - repeat bm; cbn in *; rewrite ?B, ?FX in *; cbn in *; try discriminate; unfold S2; repeat split; cbn; auto;
      rewrite ?orb_true_r; auto.
    all: try (match goal with H : linger _ = true |- _ => cbn in H; rewrite H end); rewrite ?orb_true_r; auto.
  - apply ext_one with (e := TComplete); [|reflexivity]. repeat bm; cbn; reflexivity.
Qed.

Lemma poll_response_Z c : fx_close (fx c) = true -> forall fuel s, Sealed s -> Z s (poll_response fuel c s).
Proof.
  intros FX. induction fuel as [|f IH]; intros s S; cbn [poll_response]; rewrite ?body_if.
  - apply Z_same; [|reflexivity]. destruct S as [S|S]; [left; s1 S|right; s2 S].
  - destruct S as [S|S].
    + destruct S as (A & B & C & D). destruct (dstate s) eqn:Ed; try discriminate.
      bm.
      * apply Z_same; [|reflexivity]. left. unfold S1. cbn. rewrite Ed. repeat split; cbn; auto.
      * match goal with |- context [body_end c ?x] =>
          assert (Sx : S1 x) by (unfold S1; repeat bm; cbn; rewrite ?Ed; repeat split; auto);
          assert (Tx : trace x = trace s) by (repeat bm; reflexivity);
          destruct (body_end_S c x FX Sx) as [S2x Ex]; set (x0 := x) in * end.
        eapply Z_trans; [|apply IH; right; exact S2x].
        split; [right; exact S2x|]. eapply ext_trans; [apply ext_same; exact Tx|exact Ex].
    + destruct S as (A & B & C & D & E). rewrite A, B.
      destruct (draining s).
      * apply Z_same; [|repeat bm; reflexivity]. right. unfold S2. repeat bm; cbn; repeat split; auto.
        all: rewrite ?orb_true_r; auto.
      * match goal with |- context [set_keep_alive ?k s] => destruct k eqn:Ek end.
        -- split; [right; unfold S2, add_trace; cbn; repeat split; auto|].
           apply ext_one with (e := TKeepAlive); reflexivity.
        -- apply Z_same; [|reflexivity]. right. unfold S2; cbn; repeat split; auto.
Qed.

Lemma sealed_frame s s' : dstate s' = dstate s -> c_conn s' = c_conn s -> messages s' = messages s ->
  head_t s' = head_t s -> started s' = started s ->
  ((read_disc s || linger s || shutdown s) = true -> (read_disc s' || linger s' || shutdown s') = true) ->
  Sealed s -> Sealed s'.
Proof.
  intros E1 E2 E3 E4 E5 F [S|S]; [left|right].
  - destruct S as (A & B & C & D). unfold S1. rewrite E1, E2, E4, E5. auto.
  - destruct S as (A & B & C & D & E). unfold S2. rewrite E1, E3, E4, E5. auto.
Qed.

Ltac fin := intros; rewrite ?orb_true_r; auto;
  repeat match goal with H : linger _ = _ |- _ => rewrite H in * | H : shutdown _ = _ |- _ => rewrite H in * end; rewrite ?orb_true_r; auto.

Theorem step_Z c e s : all_fixes c -> Sealed s -> Z s (step c e s).
Proof.
  intros (FC & FK & FS) S. unfold step. destruct (negb (res s =? 0)); [apply Z_refl; exact S|]. destruct e.
  - apply Z_same; [|unfold env_step; repeat bm; reflexivity].
    revert S. apply sealed_frame; unfold env_step; repeat bm; cbn; auto.
  - apply Z_same; [|unfold poll_graceful; repeat bm; reflexivity].
    revert S. apply sealed_frame; unfold poll_graceful; repeat bm; cbn; auto.
  - (* the head timer is not active in a sealed state *)
    assert (T : t_ready (head_t s) (now s) = false).
    { assert (t_active (head_t s) = false) by (destruct S as [S|S]; [s1 S|s2 S]).
      destruct (head_t s); cbn in *; congruence. }
    unfold poll_head_timer. rewrite T. apply Z_refl. exact S.
  - apply Z_same; [|unfold poll_ka_timer; repeat bm; reflexivity].
    revert S. apply sealed_frame; unfold poll_ka_timer; repeat bm; cbn; auto; intros; rewrite ?orb_true_r; auto.
  - apply Z_same; [|unfold poll_sd_timer; repeat bm; reflexivity].
    revert S. apply sealed_frame; unfold poll_sd_timer; repeat bm; cbn; auto; fin.
  - destruct (linger s) eqn:L; [|apply Z_refl; exact S]. unfold poll_linger.
    destruct (flush wblock s) as [s1 ok] eqn:E1.
    assert (A1 : Sealed s1 /\ trace s1 = trace s /\ linger s1 = true).
    { unfold flush in E1. repeat bmh E1; inv E1; cbn; auto. }
    destruct A1 as (S1' & T1 & L1). destruct ok; cbn [negb]; [|apply Z_same; assumption].
    destruct (ensure_linger_timer c s1) as [s2 have] eqn:E2.
    assert (A2 : Sealed s2 /\ trace s2 = trace s /\ linger s2 = true).
    { unfold ensure_linger_timer in E2. repeat bmh E2; inv E2; cbn; auto. }
    destruct A2 as (S2' & T2 & L2). destruct have; cbn [negb].
    2:{ apply Z_same; [|cbn; assumption]. revert S2'. apply sealed_frame; cbn; auto. intros; rewrite ?orb_true_r; auto. }
    destruct (read_available s2) as [[s3 d] io] eqn:E3.
    assert (A3 : Sealed s3 /\ trace s3 = trace s /\ linger s3 = true).
    { unfold read_available, unfinish in E3. repeat bmh E3; inv E3; cbn; auto. }
    destruct A3 as (S3' & T3 & L3). destruct io; [apply Z_same; [|cbn; assumption]; revert S3'; apply sealed_frame; cbn; auto|].
    assert (F : forall x, Sealed x -> linger x = true -> Sealed (if d then set_shutdown true (set_read_disc true (set_linger false x)) else x)).
    { intros x Sx Lx. destruct d; [|exact Sx]. revert Sx. apply sealed_frame; cbn; auto. }
    destruct (is_nil (rbuf s3)).
    + apply Z_same; [apply F; assumption|destruct d; cbn; assumption].
    + split.
      * apply F; [|cbn; exact L3]. revert S3'. apply sealed_frame; cbn; auto.
      * apply ext_one with (e := TDiscard (length (rbuf s3))); [|reflexivity]. destruct d; cbn; rewrite T3; reflexivity.
  - destruct (negb (linger s) && shutdown s); [|apply Z_refl; exact S].
    apply Z_same.
    + revert S. apply sealed_frame; unfold shutdown_io, ensure_linger_timer, flush; repeat bm; cbn; auto.
      all: repeat match goal with E : (_, _) = (_, _) |- _ => inv E end; cbn; auto.
    + unfold shutdown_io, ensure_linger_timer, flush; repeat bm; cbn; auto.
      all: repeat match goal with E : (_, _) = (_, _) |- _ => inv E end; cbn; auto.
  - destruct (linger s || shutdown s) eqn:LS; [apply Z_refl; exact S|]. unfold read_phase.
    destruct (read_available s) as [[s1 d] io] eqn:E1.
    assert (A1 : Sealed s1 /\ trace s1 = trace s /\ linger s1 || shutdown s1 = false).
    { unfold read_available, unfinish in E1. repeat bmh E1; inv E1; cbn; auto. }
    destruct A1 as (S1' & T1 & L1).
    destruct io; [apply Z_same; [|cbn; assumption]; revert S1'; apply sealed_frame; cbn; auto|].
    assert (ST : started s1 = true) by (destruct S1' as [X|X]; [s1 X|s2 X]).
    match goal with |- context [if started ?y then _ else _] =>
      assert (ST' : started y = true) by (repeat bm; cbn; exact ST); rewrite ST' end.
    match goal with |- context [poll_request c ?x] =>
      assert (S2' : Sealed x) by (revert S1'; apply sealed_frame; repeat bm; cbn; auto);
      assert (T2 : trace x = trace s) by (repeat bm; cbn; exact T1);
      assert (L2 : linger x || shutdown x = false) by (repeat bm; cbn; exact L1);
      pose proof (poll_request_sealed c x FC S2' (or_introl L2)) as Z2; set (x0 := x) in * end.
    assert (Z0 : Z s x0) by (apply Z_same; assumption).
    destruct d; [|eapply Z_trans; eauto].
    eapply Z_trans; [exact Z0|]. eapply Z_trans; [exact Z2|].
    destruct Z2 as [Sz _].
    apply Z_same; [|unfold take_payload_err; repeat bm; reflexivity].
    revert Sz. apply sealed_frame; unfold take_payload_err; repeat bm; cbn; auto.
  - unfold response_phase.
    match goal with |- context [poll_response ?f c s] => pose proof (poll_response_Z c FK f s S) as Z1; set (s1 := poll_response f c s) in * end.
    eapply Z_trans; [exact Z1|]. destruct Z1 as [Sz _].
    apply Z_same; [|unfold flush; repeat bm; reflexivity].
    revert Sz. apply sealed_frame; unfold flush; repeat bm; cbn; auto.
  - apply Z_same; [|unfold epilogue; repeat bm; reflexivity].
    revert S. apply sealed_frame; unfold epilogue; repeat bm; cbn; auto; intros; rewrite ?orb_true_r; auto.
Qed.

Theorem run_events_Z c es : all_fixes c -> forall s, Sealed s -> Z s (run_events c es s).
Proof.
  intro F. induction es as [|e es IH]; intros s S; cbn; [apply Z_refl; exact S|].
  pose proof (step_Z c e s F S) as Z1. eapply Z_trans; [exact Z1|]. apply IH. apply Z1.
Qed.
