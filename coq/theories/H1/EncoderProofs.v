(* Proofs about the encoder model against the independent response reader of RespSpec. *)
From Coq Require Import String Ascii.
From AV Require Import Lib.Base H1.Encoder H1.RespSpec.
Open Scope N_scope.

(* ================================================================ digits *)
Definition hexv (b : N) : N := match hex_val b with Some d => d | None => 0 end.
Definition hexf (a b : N) : N := a * 16 + hexv b.
Definition all_hex (ds : bytes) : Prop := Forall (fun b => hex_val b <> None) ds.

Lemma hex_val_digit d : d < 16 -> hex_val (hex_digit_upper d) = Some d.
Proof.
  intro H. unfold hex_digit_upper, hex_val.
  destruct (d <? 10) eqn:E.
  - replace ((48 <=? 48 + d) && (48 + d <=? 57)) with true by lia. f_equal. lia.
  - replace ((48 <=? 55 + d) && (55 + d <=? 57)) with false by lia.
    replace ((65 <=? 55 + d) && (55 + d <=? 70)) with true by lia. f_equal. lia.
Qed.

Lemma read_hex_digits ds : forall x rest acc seen,
  all_hex ds -> hex_val x = None ->
  read_hex (ds ++ x :: rest) acc seen =
  match ds with
  | [] => if seen then HOk acc (x :: rest) else HBad
  | _ => HOk (fold_left hexf ds acc) (x :: rest)
  end.
Proof.
  induction ds as [|d ds IH]; intros x rest acc seen Hall Hx.
  - cbn [app read_hex]. rewrite Hx. reflexivity.
  - inversion Hall as [|? ? Hd Hds]; subst. cbn [app read_hex].
    destruct (hex_val d) as [v|] eqn:Ev; [|contradiction].
    assert (Hf : hexf acc d = acc * 16 + v) by (unfold hexf, hexv; rewrite Ev; reflexivity).
    rewrite IH by assumption. cbn [fold_left]. rewrite Hf.
    destruct ds; reflexivity.
Qed.

Lemma digits_aux_hex fuel : forall n acc,
  n < 16 ^ N.of_nat fuel ->
  fold_left hexf (digits_aux 16 hex_digit_upper fuel n acc) 0 = fold_left hexf acc n.
Proof.
  induction fuel as [|f IH]; intros n acc Hn.
  - cbn [digits_aux]. change (N.of_nat 0) with 0 in Hn. rewrite N.pow_0_r in Hn.
    replace n with 0 by lia. reflexivity.
  - cbn [digits_aux]. destruct (n <? 16) eqn:E.
    + cbn [fold_left]. unfold hexf at 2, hexv. rewrite N.mod_small by lia.
      rewrite hex_val_digit by lia. f_equal.
    + rewrite IH.
      * cbn [fold_left]. f_equal. unfold hexf, hexv.
        rewrite hex_val_digit by (apply N.mod_lt; lia).
        pose proof (N.div_mod n 16). lia.
      * rewrite Nat2N.inj_succ, N.pow_succ_r' in Hn.
        apply N.div_lt_upper_bound; lia.
Qed.

Lemma digits_aux_all_hex fuel : forall n acc,
  all_hex acc -> all_hex (digits_aux 16 hex_digit_upper fuel n acc).
Proof.
  induction fuel as [|f IH]; intros n acc Ha; cbn [digits_aux]; [exact Ha|].
  assert (Hd : all_hex (hex_digit_upper (n mod 16) :: acc)).
  { constructor; [|exact Ha]. rewrite hex_val_digit by (apply N.mod_lt; lia). discriminate. }
  destruct (n <? 16); [exact Hd|apply IH; exact Hd].
Qed.

Lemma digits_aux_nonempty base dig fuel : forall n acc,
  fuel <> O -> digits_aux base dig fuel n acc <> [].
Proof.
  induction fuel as [|f IH]; intros n acc Hf; [contradiction|]. cbn [digits_aux].
  destruct (n <? base); [discriminate|].
  destruct f; [cbn [digits_aux]; discriminate|apply IH; discriminate].
Qed.

Lemma read_hex_upper n x rest :
  n < 2 ^ 64 -> hex_val x = None ->
  read_hex (hex_upper n ++ x :: rest) 0 false = HOk n (x :: rest).
Proof.
  intros Hn Hx. unfold hex_upper.
  rewrite read_hex_digits by (try assumption; apply digits_aux_all_hex; constructor).
  pose proof (digits_aux_nonempty 16 hex_digit_upper 16 n []) as Hne.
  destruct (digits_aux 16 hex_digit_upper 16 n []) eqn:E; [exfalso; apply Hne; [discriminate|reflexivity]|].
  rewrite <- E. rewrite digits_aux_hex; [reflexivity|].
  change (N.of_nat 16) with 16. change (16 ^ 16) with (2 ^ 64). exact Hn.
Qed.

(* decimal *)
Lemma dec_val_digit d : d < 10 -> dec_val (dec_digit d) = Some d.
Proof.
  intro H. unfold dec_val, dec_digit.
  replace ((48 <=? 48 + d) && (48 + d <=? 57)) with true by lia. f_equal. lia.
Qed.

Lemma digits_aux_dec fuel : forall n acc,
  n < 10 ^ N.of_nat fuel ->
  parse_dec_aux (digits_aux 10 dec_digit fuel n acc) 0 = parse_dec_aux acc n.
Proof.
  induction fuel as [|f IH]; intros n acc Hn.
  - cbn [digits_aux]. change (N.of_nat 0) with 0 in Hn. rewrite N.pow_0_r in Hn.
    replace n with 0 by lia. reflexivity.
  - cbn [digits_aux]. destruct (n <? 10) eqn:E.
    + cbn [parse_dec_aux]. rewrite N.mod_small by lia. rewrite dec_val_digit by lia. f_equal.
    + rewrite IH.
      * cbn [parse_dec_aux]. rewrite dec_val_digit by (apply N.mod_lt; lia). f_equal.
        pose proof (N.div_mod n 10). lia.
      * rewrite Nat2N.inj_succ, N.pow_succ_r' in Hn.
        apply N.div_lt_upper_bound; lia.
Qed.

Lemma parse_dec_dec n : n < 2 ^ 64 -> parse_dec (dec n) = Some n.
Proof.
  intro Hn. unfold parse_dec, dec.
  pose proof (digits_aux_nonempty 10 dec_digit 20 n []) as Hne.
  destruct (digits_aux 10 dec_digit 20 n []) eqn:E; [exfalso; apply Hne; [discriminate|reflexivity]|].
  rewrite <- E. rewrite digits_aux_dec; [reflexivity|].
  change (N.of_nat 20) with 20. assert (2 ^ 64 < 10 ^ 20) by (vm_compute; reflexivity). lia.
Qed.

Definition no_ows (v : bytes) : Prop := Forall (fun b => is_ows b = false) v.

Lemma drop_ows_no v : no_ows v -> drop_ows v = v.
Proof. intro H. destruct H as [|b r Hb Hr]; [reflexivity|]. cbn [drop_ows]. rewrite Hb. reflexivity. Qed.

Lemma trim_no_ows v : no_ows v -> trim v = v.
Proof.
  intro H. unfold trim. rewrite (drop_ows_no v H).
  rewrite drop_ows_no; [apply rev_involutive|]. unfold no_ows. apply Forall_rev. exact H.
Qed.

Lemma digits_aux_no_ows_dec fuel : forall n acc,
  no_ows acc -> no_ows (digits_aux 10 dec_digit fuel n acc).
Proof.
  induction fuel as [|f IH]; intros n acc Ha; cbn [digits_aux]; [exact Ha|].
  assert (Hd : no_ows (dec_digit (n mod 10) :: acc)).
  { constructor; [|exact Ha]. unfold is_ows, dec_digit. pose proof (N.mod_lt n 10). lia. }
  destruct (n <? 10); [exact Hd|apply IH; exact Hd].
Qed.

Lemma trim_dec n : trim (dec n) = dec n.
Proof. apply trim_no_ows. apply digits_aux_no_ows_dec. constructor. Qed.

(* ================================================================ body encodings *)
Definition nonempty (b : bytes) : bool := match b with [] => false | _ => true end.
Definition enc_chunk (b : bytes) : bytes := hex_upper (lenN b) ++ CRLF ++ b ++ CRLF.
Definition last_chunk : bytes := str "0" ++ CRLF ++ CRLF.
Definition set_te (c : codec) (t : te) : codec :=
  mkCodec (c_ka_enabled c) (c_head c) (c_stream c) (c_ver c) (c_conn c) t.

Lemma concat_filter_nonempty chunks : concat (filter nonempty chunks) = concat chunks.
Proof. induction chunks as [|b r IH]; [reflexivity|]. destruct b; cbn; [exact IH|]. rewrite IH. reflexivity. Qed.

Lemma codec_eta c : c = set_te c (c_te c).
Proof. destruct c; reflexivity. Qed.

(* Chunked(false): every non-empty chunk is framed, empty ones are skipped by the codec *)
Lemma chunks_chunked chunks : forall c,
  c_te c = TChunked false ->
  codec_encode_chunks c chunks = (c, concat (map enc_chunk (filter nonempty chunks))).
Proof.
  induction chunks as [|b r IH]; intros c Hc; [reflexivity|].
  cbn [codec_encode_chunks]. destruct b as [|x b'].
  - cbn [codec_encode_chunk filter nonempty]. rewrite IH by exact Hc. reflexivity.
  - cbn [codec_encode_chunk]. rewrite Hc. cbn [te_encode].
    assert (Hc' : mkCodec (c_ka_enabled c) (c_head c) (c_stream c) (c_ver c) (c_conn c) (TChunked false) = c).
    { rewrite <- Hc. destruct c; reflexivity. }
    rewrite Hc'. rewrite IH by exact Hc. cbn [filter nonempty map concat]. unfold enc_chunk.
    rewrite <- !app_assoc. reflexivity.
Qed.

(* Eof: bytes as they are *)
Lemma chunks_eof chunks : forall c,
  c_te c = TEof -> codec_encode_chunks c chunks = (c, concat chunks).
Proof.
  induction chunks as [|b r IH]; intros c Hc; [reflexivity|].
  cbn [codec_encode_chunks]. destruct b as [|x b'].
  - cbn [codec_encode_chunk]. rewrite IH by exact Hc. reflexivity.
  - cbn [codec_encode_chunk]. rewrite Hc. cbn [te_encode].
    assert (Hc' : mkCodec (c_ka_enabled c) (c_head c) (c_stream c) (c_ver c) (c_conn c) TEof = c).
    { rewrite <- Hc. destruct c; reflexivity. }
    rewrite Hc'. rewrite IH by exact Hc. reflexivity.
Qed.

Lemma lenN_app {A} (a b : list A) : lenN (a ++ b) = lenN a + lenN b.
Proof. unfold lenN. rewrite app_length. lia. Qed.

(* Length(n): exactly the first n bytes, remaining decreases accordingly *)
Lemma firstn_app_le {A} (n : nat) (a b : list A) :
  (n <= length a)%nat -> firstn n (a ++ b) = firstn n a.
Proof. intro H. rewrite firstn_app. replace (n - length a)%nat with O by lia. cbn. apply app_nil_r. Qed.

Lemma chunks_length chunks : forall c n,
  c_te c = TLength n ->
  codec_encode_chunks c chunks =
  (set_te c (TLength (n - N.min n (lenN (concat chunks)))), firstn (N.to_nat n) (concat chunks)).
Proof.
  induction chunks as [|b r IH]; intros c n Hc.
  - cbn [codec_encode_chunks concat]. unfold lenN. cbn [length]. rewrite N.min_0_r, N.sub_0_r.
    rewrite <- Hc, <- codec_eta. rewrite firstn_nil. reflexivity.
  - cbn [codec_encode_chunks]. destruct b as [|x b'].
    + cbn [codec_encode_chunk concat app]. rewrite (IH c n Hc). reflexivity.
    + cbn [codec_encode_chunk]. rewrite Hc. cbn [te_encode].
      set (b := x :: b'). destruct (0 <? n) eqn:En.
      * rewrite (IH _ (n - N.min n (lenN b))) by reflexivity.
        cbn [concat]. unfold set_te; cbn [c_ka_enabled c_head c_stream c_ver c_conn]. f_equal.
        -- f_equal. f_equal. rewrite lenN_app.
           destruct (N.min_spec n (lenN b)) as [[? ->]|[? ->]];
           destruct (N.min_spec (n - lenN b) (lenN (concat r))) as [[? ?]|[? ?]];
           destruct (N.min_spec n (lenN b + lenN (concat r))) as [[? ->]|[? ->]];
           destruct (N.min_spec (n - n) (lenN (concat r))) as [[? ?]|[? ?]]; lia.
        -- unfold lenN. destruct (N.leb_spec n (N.of_nat (length b))) as [Hle|Hgt].
           ++ rewrite N.min_l by lia. rewrite firstn_app_le by lia.
              replace (n - n) with 0 by lia. cbn [N.to_nat firstn]. apply app_nil_r.
           ++ rewrite N.min_r by lia. rewrite Nat2N.id.
              rewrite firstn_all. rewrite firstn_app.
              rewrite (firstn_all2 b) by lia. f_equal. f_equal. lia.
      * assert (n = 0) by lia. subst n.
        rewrite (IH _ 0) by reflexivity. cbn [N.to_nat firstn]. unfold set_te; cbn. reflexivity.
Qed.

(* ================================================================ reading chunked back *)
Lemma read_size_line_enc n rest :
  n < 2 ^ 64 -> read_size_line (hex_upper n ++ CRLF ++ rest) = HOk n rest.
Proof.
  intros Hn. unfold read_size_line, CRLF. cbn [app].
  rewrite read_hex_upper by (try assumption; reflexivity). reflexivity.
Qed.

Lemma read_chunked_chunks chunks : forall fuel acc rest,
  Forall (fun b => b <> [] /\ lenN b < 2 ^ 64) chunks ->
  (length chunks < fuel)%nat ->
  read_chunked fuel (concat (map enc_chunk chunks) ++ last_chunk ++ rest) acc =
  CDone (acc ++ concat chunks) rest.
Proof.
  induction chunks as [|b r IH]; intros fuel acc rest Hall Hf.
  - destruct fuel; [inversion Hf|]. cbn [map concat app read_chunked].
    unfold last_chunk. rewrite <- !app_assoc.
    change (str "0") with (hex_upper 0).
    rewrite read_size_line_enc by lia. cbn [N.eqb].
    change (0 =? 0) with true. cbv iota.
    unfold CRLF. cbn [app read_trailers length]. rewrite app_nil_r. reflexivity.
  - destruct fuel; [inversion Hf|]. inversion Hall as [|? ? [Hne Hlen] Hr]; subst.
    cbn [map concat read_chunked]. unfold enc_chunk at 1. rewrite <- !app_assoc.
    rewrite read_size_line_enc by assumption.
    assert (Hpos : 0 < lenN b).
    { unfold lenN. destruct b; [contradiction|cbn [length]; lia]. }
    replace (lenN b =? 0) with false by lia.
    replace (lenN (b ++ CRLF ++ concat (map enc_chunk r) ++ last_chunk ++ rest) <? lenN b) with false
      by (rewrite lenN_app; lia).
    unfold lenN at 1 2. rewrite Nat2N.id.
    rewrite skipn_app, skipn_all, Nat.sub_diag. cbn [skipn app].
    rewrite firstn_app, firstn_all, Nat.sub_diag. cbn [firstn]. rewrite app_nil_r.
    unfold CRLF at 1. cbn [app].
    rewrite IH by (try assumption; cbn [length] in Hf; lia).
    rewrite <- app_assoc. reflexivity.
Qed.

(* ================================================================ the head: framing decision *)
Definition lower_names (hs : list (bytes * bytes)) : Prop :=
  Forall (fun kv : bytes * bytes => map lower_byte (fst kv) = fst kv) hs.
Definition user_has (name : string) (r : resp) : bool :=
  existsb (fun kv : bytes * bytes => name_is (fst kv) name) (rs_headers r).

Definition conn_fields (ct : conn_t) (ver : version) : list (bytes * bytes) :=
  match ct with
  | CUpgrade => [(str "connection", str "upgrade")]
  | CKeepAlive => if lt_11 ver then [(str "connection", str "keep-alive")] else []
  | CClose => if lt_11 ver then [] else [(str "connection", str "close")]
  end.
Definition user_fields (skip_len : bool) (r : resp) : list (bytes * bytes) :=
  filter (fun kv : bytes * bytes =>
            let k := fst kv in
            if name_is k "connection" then false
            else if (name_is k "transfer-encoding" || name_is k "content-length") && skip_len then false
            else true) (rs_headers r).
Definition date_fields (r : resp) : list (bytes * bytes) :=
  if existsb (fun kv : bytes * bytes => name_is (fst kv) "date") (rs_headers r) then []
  else [(str "date", date_mask)].

Lemma field_values_app name a b :
  field_values name (a ++ b) = field_values name a ++ field_values name b.
Proof. unfold field_values. rewrite filter_app, map_app. reflexivity. Qed.

Lemma field_values_filter_none name (p : bytes * bytes -> bool) hs :
  lower_names hs ->
  (forall kv, p kv = true -> name_is (fst kv) name = false) ->
  field_values name (filter p hs) = [].
Proof.
  intros Hl Hp. induction Hl as [|kv hs Hkv Hl IH]; [reflexivity|].
  cbn [filter]. destruct (p kv) eqn:E; [|exact IH].
  unfold field_values in *. cbn [filter]. rewrite Hkv.
  specialize (Hp kv E). unfold name_is, str in Hp. unfold sstr. rewrite Hp. exact IH.
Qed.

Lemma fv_conn name ct ver :
  name_is (str "connection") name = false -> field_values name (conn_fields ct ver) = [].
Proof.
  intro H. unfold name_is, str in H.
  destruct ct, ver; cbn [conn_fields lt_11]; try reflexivity;
    unfold field_values; cbn [filter fst]; unfold sstr;
    change (map lower_byte (str "connection")) with (str "connection"); unfold str; rewrite H; reflexivity.
Qed.

Lemma fv_date name r :
  name_is (str "date") name = false -> field_values name (date_fields r) = [].
Proof.
  intro H. unfold name_is, str in H. unfold date_fields.
  destruct (existsb _ _); [reflexivity|].
  unfold field_values; cbn [filter fst]; unfold sstr.
  change (map lower_byte (str "date")) with (str "date"); unfold str; rewrite H; reflexivity.
Qed.

Lemma fv_user_skip name r :
  lower_names (rs_headers r) ->
  (name = "transfer-encoding" \/ name = "content-length")%string ->
  field_values name (user_fields true r) = [].
Proof.
  intros Hl Hn. apply field_values_filter_none; [exact Hl|].
  intros kv. cbv beta zeta.
  destruct (name_is (fst kv) "connection"); [discriminate|].
  destruct Hn as [-> | ->].
  - destruct (name_is (fst kv) "transfer-encoding"); [discriminate|reflexivity].
  - destruct (name_is (fst kv) "content-length"); [rewrite orb_true_r; discriminate|reflexivity].
Qed.

Lemma fv_user_absent name r skip :
  lower_names (rs_headers r) -> user_has name r = false ->
  field_values name (user_fields skip r) = [].
Proof.
  intros Hl Hn. apply field_values_filter_none; [exact Hl|].
  intros kv _. unfold user_has in Hn.
  (* kv ranges over all pairs; only those in the list matter: strengthen through existsb *)
Abort.

Lemma field_values_absent name hs :
  lower_names hs -> existsb (fun kv : bytes * bytes => name_is (fst kv) name) hs = false ->
  field_values name hs = [].
Proof.
  intros Hl. induction Hl as [|kv hs Hkv Hl IH]; [reflexivity|].
  cbn [existsb]. intro H. apply orb_false_iff in H as [H1 H2].
  unfold field_values in *. cbn [filter]. rewrite Hkv.
  unfold name_is, str in H1. unfold sstr. rewrite H1. apply IH. exact H2.
Qed.

Lemma lower_names_filter p hs : lower_names hs -> lower_names (filter p hs).
Proof. intro H. induction H; cbn [filter]; [constructor|]. destruct (p x); [constructor|]; assumption. Qed.

Lemma existsb_filter_false {A} (q p : A -> bool) l :
  existsb q l = false -> existsb q (filter p l) = false.
Proof.
  induction l as [|a l IH]; [reflexivity|]. cbn [existsb filter]. intro H.
  apply orb_false_iff in H as [H1 H2]. destruct (p a); [cbn [existsb]; rewrite H1|]; auto.
Qed.

Lemma fv_user_absent name r skip :
  lower_names (rs_headers r) -> user_has name r = false ->
  field_values name (user_fields skip r) = [].
Proof.
  intros Hl Hn. apply field_values_absent.
  - apply lower_names_filter. exact Hl.
  - apply existsb_filter_false. exact Hn.
Qed.

(* statuses that may carry a body: the three status-dependent branches are not taken *)
Lemma status_classes s :
  no_body_status s = false ->
  is_informational s || (s =? 204) = false /\ (s =? 304) = false /\ status_no_body s = false.
Proof.
  unfold no_body_status, status_no_body, is_informational. intro H.
  apply orb_false_iff in H as [H H304]. apply orb_false_iff in H as [Hinf H204].
  rewrite Hinf, H204, H304. repeat split; reflexivity.
Qed.

Lemma encode_headers_normal r ver sz ct :
  no_body_status (rs_status r) = false ->
  encode_headers r ver sz ct =
  match sz with
  | BStream =>
      if negb (rs_nochunk r) && lt_11 ver then conn_fields ct ver ++ user_fields true r ++ date_fields r
      else if negb (rs_nochunk r) then
        (str "transfer-encoding", str "chunked") :: conn_fields ct ver ++ user_fields true r ++ date_fields r
      else conn_fields ct ver ++ user_fields false r ++ date_fields r
  | BSized n => (str "content-length", dec n) :: conn_fields ct ver ++ user_fields true r ++ date_fields r
  | BNone => conn_fields ct ver ++ user_fields true r ++ date_fields r
  end.
Proof.
  intro Hs. destruct (status_classes _ Hs) as (H1 & H2 & _).
  unfold encode_headers. rewrite H1, H2.
  destruct sz; cbv zeta beta iota; try reflexivity.
  destruct (rs_nochunk r), ver; reflexivity.
Qed.

(* ================================================================ main statements *)
Definition cut (sz : bsize) (all : bytes) : bytes :=
  match sz with BSized n => firstn (N.to_nat n) all | BNone => [] | BStream => all end.
Definition item_codec0 (c : codec) (r : resp) (sz : bsize) : codec := fst (codec_encode_item0 c r sz).
Definition item_head0 (c : codec) (r : resp) (sz : bsize) : head := snd (codec_encode_item0 c r sz).

Lemma item_te0 c r sz :
  c_te (item_codec0 c r sz) = choose_te (c_head c) (c_stream c) r (c_ver c) sz.
Proof. unfold item_codec0, codec_encode_item0, msg_encode. reflexivity. Qed.

Lemma item_fields0 c r sz :
  hd_fields (item_head0 c r sz) = encode_headers r (c_ver c) sz (c_conn (item_codec0 c r sz)).
Proof. unfold item_head0, item_codec0, codec_encode_item0, msg_encode. reflexivity. Qed.

Lemma item_ctx0 c r sz :
  c_head (item_codec0 c r sz) = c_head c /\ c_stream (item_codec0 c r sz) = c_stream c /\
  c_ver (item_codec0 c r sz) = c_ver c.
Proof. unfold item_codec0, codec_encode_item0, msg_encode. repeat split. Qed.

Lemma fv_te_gen r ct ver skip :
  lower_names (rs_headers r) ->
  (skip = true \/ user_has "transfer-encoding" r = false) ->
  field_values "transfer-encoding" (conn_fields ct ver ++ user_fields skip r ++ date_fields r) = [].
Proof.
  intros Hl Hs. rewrite !field_values_app, fv_conn, fv_date by reflexivity.
  destruct Hs as [-> | H]; [rewrite fv_user_skip by auto|rewrite fv_user_absent by auto]; reflexivity.
Qed.

Lemma fv_cl_gen r ct ver skip :
  lower_names (rs_headers r) ->
  (skip = true \/ user_has "content-length" r = false) ->
  field_values "content-length" (conn_fields ct ver ++ user_fields skip r ++ date_fields r) = [].
Proof.
  intros Hl Hs. rewrite !field_values_app, fv_conn, fv_date by reflexivity.
  destruct Hs as [-> | H]; [rewrite fv_user_skip by auto|rewrite fv_user_absent by auto]; reflexivity.
Qed.

Lemma enc_chunks_length l : (length l <= length (concat (map enc_chunk l)))%nat.
Proof.
  induction l as [|b l IH]; [cbn; lia|]. cbn [map concat length]. rewrite app_length.
  assert (1 <= length (enc_chunk b))%nat; [|lia].
  unfold enc_chunk, CRLF. rewrite !app_length. cbn [length]. lia.
Qed.

Lemma firstn_lenN {A} n (l : list A) : n <= lenN l -> lenN (firstn (N.to_nat n) l) = n.
Proof. unfold lenN. intro H. rewrite firstn_length. lia. Qed.

Lemma framing_close s fields :
  no_body_status s = false ->
  field_values "transfer-encoding" fields = [] -> field_values "content-length" fields = [] ->
  framing_of false s fields = Some FClose.
Proof. intros H1 H2 H3. unfold framing_of. cbn [orb]. rewrite H1, H2, H3. reflexivity. Qed.

Lemma framing_chunked s rest :
  no_body_status s = false ->
  field_values "transfer-encoding" rest = [] ->
  framing_of false s ((str "transfer-encoding", str "chunked") :: rest) = Some FChunked.
Proof.
  intros H1 H2. unfold framing_of. cbn [orb]. rewrite H1.
  change ((str "transfer-encoding", str "chunked") :: rest)
    with ([(str "transfer-encoding", str "chunked")] ++ rest).
  rewrite field_values_app, H2. reflexivity.
Qed.

Lemma framing_length s n rest :
  no_body_status s = false -> n < 2 ^ 64 ->
  field_values "transfer-encoding" rest = [] -> field_values "content-length" rest = [] ->
  framing_of false s ((str "content-length", dec n) :: rest) = Some (FLength n).
Proof.
  intros H1 Hn H2 H3. unfold framing_of. cbn [orb]. rewrite H1.
  change ((str "content-length", dec n) :: rest) with ([(str "content-length", dec n)] ++ rest).
  rewrite !field_values_app, H2, H3.
  change (field_values "transfer-encoding" [(str "content-length", dec n)]) with (@nil bytes).
  change (field_values "content-length" [(str "content-length", dec n)]) with [trim (dec n)].
  cbn [app]. rewrite trim_dec, parse_dec_dec by exact Hn. reflexivity.
Qed.

(* The body a conforming client decodes is the concatenation of the chunks (cut to the declared
   size); a short body makes encode_eof fail and never looks complete. *)
Theorem te_roundtrip0 c r sz chunks :
  c_head c = false -> (sz = BStream -> c_stream c = false \/ rs_nochunk r = true) ->
  no_body_status (rs_status r) = false ->
  lower_names (rs_headers r) ->
  (rs_nochunk r = true -> sz = BStream ->
   user_has "transfer-encoding" r = false /\ user_has "content-length" r = false) ->
  (forall n, sz = BSized n -> n < 2 ^ 64) ->
  Forall (fun b => lenN b < 2 ^ 64) chunks ->
  sz <> BNone ->
  let fields := hd_fields (item_head0 c r sz) in
  let c2 := fst (codec_encode_chunks (item_codec0 c r sz) chunks) in
  let body := snd (codec_encode_chunks (item_codec0 c r sz) chunks) in
  match codec_encode_eof c2 with
  | Some (_, tail) =>
      (forall n, sz = BSized n -> n <= lenN (concat chunks)) /\
      exists f, read_message false (rs_status r) fields (body ++ tail) true =
                RComplete f (cut sz (concat chunks)) (lenN (body ++ tail))
  | None =>
      exists n, sz = BSized n /\ lenN (concat chunks) < n /\
                forall closed, read_message false (rs_status r) fields body closed = RIncomplete
  end.
Proof.
  intros Hh Hst Hs Hl Hopt Hn Hch Hnone fields c2 body.
  destruct (status_classes _ Hs) as (_ & _ & Hnb).
  assert (Hte := item_te0 c r sz). rewrite Hh in Hte.
  unfold choose_te in Hte. rewrite Hnb in Hte. cbn [orb negb] in Hte.
  assert (Hf : fields = encode_headers r (c_ver c) sz (c_conn (item_codec0 c r sz))) by apply item_fields0.
  rewrite encode_headers_normal in Hf by exact Hs.
  unfold read_message.
  destruct sz as [|n|]; [contradiction| |].
  - (* Sized n *)
    assert (Hte' : c_te (item_codec0 c r (BSized n)) = TLength n) by (rewrite Hte; destruct n; reflexivity).
    pose proof (chunks_length chunks _ _ Hte') as Hc.
    unfold c2, body. rewrite Hc. cbn [fst snd]. unfold codec_encode_eof, set_te. cbn [c_te te_encode_eof].
    specialize (Hn n eq_refl).
    rewrite Hf, framing_length by (auto using fv_te_gen, fv_cl_gen).
    destruct (N.min_spec n (lenN (concat chunks))) as [[Hlt Hmin]|[Hle Hmin]]; rewrite Hmin.
    + (* more than enough bytes *)
      replace (n - n =? 0) with true by lia. split; [intros m Hm; inversion Hm; subst; lia|].
      exists (FLength n). rewrite app_nil_r.
      rewrite firstn_lenN by lia. replace (n <? n) with false by lia.
      cbn [cut]. rewrite firstn_firstn, Nat.min_id. reflexivity.
    + destruct (N.eqb_spec (n - lenN (concat chunks)) 0) as [E|E].
      * (* exactly enough *)
        assert (n = lenN (concat chunks)) by lia. subst n.
        split; [intros m Hm; inversion Hm; subst; lia|].
        exists (FLength (lenN (concat chunks))). rewrite app_nil_r.
        rewrite firstn_lenN by lia. replace (lenN (concat chunks) <? lenN (concat chunks)) with false by lia.
        cbn [cut]. rewrite firstn_firstn, Nat.min_id. reflexivity.
      * (* short *)
        exists n. split; [reflexivity|]. split; [lia|]. intros closed.
        assert (Hlen : lenN (firstn (N.to_nat n) (concat chunks)) = lenN (concat chunks)).
        { unfold lenN. rewrite firstn_length. unfold lenN in Hle. lia. }
        rewrite Hlen. replace (lenN (concat chunks) <? n) with true by lia. reflexivity.
  - (* Stream *)
    clear Hn. destruct (rs_nochunk r) eqn:Enc; cbn [negb andb] in Hte, Hf.
    + (* no_chunking: Eof framing *)
      destruct (Hopt eq_refl eq_refl) as [Hu1 Hu2].
      pose proof (chunks_eof chunks _ Hte) as Hc. unfold c2, body. rewrite Hc. cbn [fst snd].
      unfold codec_encode_eof. rewrite Hte. cbn [te_encode_eof].
      rewrite Hf, framing_close by (auto using fv_te_gen, fv_cl_gen).
      split; [intros m Hm; discriminate|]. exists FClose. rewrite app_nil_r. reflexivity.
    + destruct (Hst eq_refl) as [Hs0|Hs0]; [|discriminate]. rewrite Hs0 in Hte.
      destruct (c_ver c) eqn:Ev; cbn [lt_11 negb andb] in Hte, Hf.
      * (* HTTP/1.0: Eof framing *)
        pose proof (chunks_eof chunks _ Hte) as Hc. unfold c2, body. rewrite Hc. cbn [fst snd].
        unfold codec_encode_eof. rewrite Hte. cbn [te_encode_eof].
        rewrite Hf, framing_close by (auto using fv_te_gen, fv_cl_gen).
        split; [intros m Hm; discriminate|]. exists FClose. rewrite app_nil_r. reflexivity.
      * (* HTTP/1.1: chunked *)
        pose proof (chunks_chunked chunks _ Hte) as Hc. unfold c2, body. rewrite Hc. cbn [fst snd].
        unfold codec_encode_eof. rewrite Hte. cbn [te_encode_eof].
        rewrite Hf, framing_chunked by (auto using fv_te_gen).
        split; [intros m Hm; discriminate|]. exists FChunked.
        set (l := filter nonempty chunks).
        assert (Hall : Forall (fun b => b <> [] /\ lenN b < 2 ^ 64) l).
        { unfold l. clear -Hch. induction Hch as [|b r Hb Hr IH]; cbn [filter]; [constructor|].
          destruct b; cbn [nonempty]; [exact IH|constructor; [split; [discriminate|exact Hb]|exact IH]]. }
        pose proof (read_chunked_chunks l (S (length (concat (map enc_chunk l) ++ last_chunk))) [] [] Hall) as Hr.
        rewrite app_nil_r in Hr. fold last_chunk. rewrite Hr.
        -- cbn [app]. unfold l. rewrite concat_filter_nonempty. cbn [cut].
           change (lenN (@nil N)) with 0. rewrite N.sub_0_r. reflexivity.
        -- apply Nat.lt_succ_r. etransitivity; [apply enc_chunks_length|].
           rewrite app_length. apply Nat.le_add_r.
Qed.

(* ================================================================ no body bytes *)
Lemma chunks_empty_te chunks : forall c,
  c_te c = TLength 0 -> codec_encode_chunks c chunks = (c, []).
Proof.
  intros c Hc. rewrite (chunks_length chunks c 0 Hc). cbn [N.to_nat firstn].
  replace (0 - N.min 0 (lenN (concat chunks))) with 0 by lia.
  rewrite <- Hc, <- codec_eta. reflexivity.
Qed.

(* HEAD request, or a 1xx (other than 101) / 204 response: whatever body the handler
   supplies, not one byte follows the head, and end-of-body is accepted *)
Theorem no_body_bytes0 c r sz chunks :
  c_head c = true \/ status_no_body (rs_status r) = true ->
  codec_encode_chunks (item_codec0 c r sz) chunks = (item_codec0 c r sz, []) /\
  codec_encode_eof (item_codec0 c r sz) = Some (item_codec0 c r sz, []).
Proof.
  intro H.
  assert (Hte : c_te (item_codec0 c r sz) = TLength 0).
  { rewrite item_te0. unfold choose_te.
    destruct H as [-> | ->]; [|rewrite orb_true_r]; reflexivity. }
  split; [apply chunks_empty_te; exact Hte|].
  unfold codec_encode_eof. rewrite Hte. cbn [te_encode_eof]. change (0 =? 0) with true. cbv iota.
  rewrite <- Hte. destruct (item_codec0 c r sz); reflexivity.
Qed.

(* ... and the reader, told the method, expects none *)
Lemma reader_no_body head_req s fields after closed :
  head_req = true \/ no_body_status s = true ->
  read_message head_req s fields after closed = RComplete FNoBody [] 0.
Proof.
  intro H. unfold read_message, framing_of.
  destruct H as [-> | ->]; [|rewrite orb_true_r]; reflexivity.
Qed.

(* ================================================================ HTTP/1.0: never chunked *)
Theorem http10_never_chunked0 c r sz :
  c_ver c = V10 ->
  (forall e, c_te (item_codec0 c r sz) <> TChunked e) /\
  (lower_names (rs_headers r) ->
   rs_nochunk r = false \/ user_has "transfer-encoding" r = false ->
   rs_status r <> 304 ->
   field_values "transfer-encoding" (hd_fields (item_head0 c r sz)) = []).
Proof.
  intro Hv. split.
  - intros e. rewrite item_te0, Hv. unfold choose_te.
    destruct (c_head c || status_no_body (rs_status r)); [discriminate|]. cbn [negb].
    destruct sz as [|n|]; [discriminate|destruct n; discriminate|].
    cbn [lt_11 negb andb]. rewrite !andb_false_r. discriminate.
  - intros Hl Hu H304. rewrite item_fields0, Hv. unfold encode_headers.
    fold (conn_fields (c_conn (item_codec0 c r sz)) V10). fold (date_fields r).
    destruct (is_informational (rs_status r) || (rs_status r =? 204)) eqn:E1.
    + cbv iota beta zeta. fold (user_fields true r). cbn [app]. apply fv_te_gen; auto.
    + replace (rs_status r =? 304) with false by lia.
      destruct sz as [|n|]; cbv iota beta zeta.
      * fold (user_fields true r). cbn [app]. apply fv_te_gen; auto.
      * fold (user_fields true r).
        change ([(str "content-length", dec n)] ++ ?x) with ([(str "content-length", dec n)] ++ x).
        rewrite field_values_app. rewrite fv_te_gen by auto. reflexivity.
      * cbn [lt_11]. rewrite andb_true_r. destruct (rs_nochunk r) eqn:En; cbn [negb]; cbv iota beta zeta.
        -- fold (user_fields false r). cbn [app]. apply fv_te_gen; [exact Hl|].
           destruct Hu as [Hu|Hu]; [discriminate|right; exact Hu].
        -- fold (user_fields true r). cbn [app]. apply fv_te_gen; auto.
Qed.

(* ================================================================ user framing headers *)
(* Unless the handler opted out of framing (no_chunking with a streaming body) or the response
   is a 304 (documented retention of content-length), no user-supplied Content-Length /
   Transfer-Encoding / Connection header reaches the wire: the only such fields are the ones
   the encoder generates from the chosen framing. *)
Theorem user_framing_headers_ignored0 c r sz :
  lower_names (rs_headers r) ->
  rs_status r <> 304 ->
  (rs_nochunk r = false \/ sz <> BStream \/ (is_informational (rs_status r) || (rs_status r =? 204)) = true) ->
  let fields := hd_fields (item_head0 c r sz) in
  let ct := c_conn (item_codec0 c r sz) in
  exists len_fields,
    fields = len_fields ++ conn_fields ct (c_ver c) ++ user_fields true r ++ date_fields r /\
    field_values "transfer-encoding" (user_fields true r) = [] /\
    field_values "content-length" (user_fields true r) = [] /\
    field_values "connection" (user_fields true r) = [] /\
    (len_fields = [] \/ len_fields = [(str "transfer-encoding", str "chunked")] \/
     exists n, sz = BSized n /\ len_fields = [(str "content-length", dec n)]).
Proof.
  intros Hl H304 Hopt fields ct. unfold fields. rewrite item_fields0. fold ct.
  assert (Hu : field_values "transfer-encoding" (user_fields true r) = [] /\
               field_values "content-length" (user_fields true r) = [] /\
               field_values "connection" (user_fields true r) = []).
  { split; [apply fv_user_skip; auto|]. split; [apply fv_user_skip; auto|].
    apply field_values_filter_none; [exact Hl|]. intros kv. cbv beta zeta.
    destruct (name_is (fst kv) "connection"); [discriminate|reflexivity]. }
  destruct Hu as (Hu1 & Hu2 & Hu3).
  unfold encode_headers. fold (conn_fields ct (c_ver c)). fold (date_fields r).
  destruct (is_informational (rs_status r) || (rs_status r =? 204)) eqn:E1.
  - cbv iota beta zeta. fold (user_fields true r). exists []. repeat split; auto.
  - replace (rs_status r =? 304) with false by lia.
    destruct sz as [|n|]; cbv iota beta zeta.
    + fold (user_fields true r). exists []. repeat split; auto.
    + fold (user_fields true r). exists [(str "content-length", dec n)]. repeat split; auto.
      right; right. exists n. split; reflexivity.
    + destruct Hopt as [Hn | [Hn | Hn]]; [|contradiction|discriminate].
      rewrite Hn. cbn [negb andb]. destruct (lt_11 (c_ver c)); cbv iota beta zeta; fold (user_fields true r).
      * exists []. repeat split; auto.
      * exists [(str "transfer-encoding", str "chunked")]. repeat split; auto.
Qed.

(* ================================================================ own request + own response only *)
(* The context written by decode is a function of the request (and of the connection-wide
   keep-alive setting / sticky STREAM flag): whatever the codec went through before, the head and
   the transfer encoding chosen for a response encoded right after its own request was decoded
   are the same. *)
Theorem framing_from_own_context0 c c' rq r sz :
  c_ka_enabled c = c_ka_enabled c' -> c_stream c = c_stream c' ->
  item_head0 (codec_decode c rq) r sz = item_head0 (codec_decode c' rq) r sz /\
  c_te (item_codec0 (codec_decode c rq) r sz) = c_te (item_codec0 (codec_decode c' rq) r sz) /\
  c_conn (item_codec0 (codec_decode c rq) r sz) = c_conn (item_codec0 (codec_decode c' rq) r sz).
Proof.
  intros Hk Hs. unfold item_head0, item_codec0, codec_encode_item0, codec_decode, msg_encode.
  cbn [c_ka_enabled c_head c_stream c_ver c_conn c_te fst snd]. rewrite Hk, Hs. repeat split.
Qed.

(* ================================================================ the real Codec::encode(Item) *)
(* Codec::encode first applies [stream_adjust] (F18b repair), then the encoder proper. *)
Definition item_codec (c : codec) (r : resp) (sz : bsize) : codec := fst (codec_encode_item c r sz).
Definition item_head (c : codec) (r : resp) (sz : bsize) : head := snd (codec_encode_item c r sz).

Lemma item_codec_eq c r sz : item_codec c r sz = item_codec0 c (stream_adjust c r sz) sz.
Proof. reflexivity. Qed.
Lemma item_head_eq c r sz : item_head c r sz = item_head0 c (stream_adjust c r sz) sz.
Proof. reflexivity. Qed.

Lemma sa_cases c r sz :
  (stream_adjust c r sz = r /\ (c_stream c = false \/ sz <> BStream)) \/
  (stream_adjust c r sz = mkResp (rs_status r) (rs_conn r) true (rs_headers r) /\
   c_stream c = true /\ sz = BStream).
Proof.
  unfold stream_adjust. destruct (c_stream c); [|left; auto].
  destruct sz; cbn [andb]; [left; split; [reflexivity|right; discriminate]..|right; auto].
Qed.
Lemma sa_status c r sz : rs_status (stream_adjust c r sz) = rs_status r.
Proof. destruct (sa_cases c r sz) as [[-> _]|[-> _]]; reflexivity. Qed.
Lemma sa_headers c r sz : rs_headers (stream_adjust c r sz) = rs_headers r.
Proof. destruct (sa_cases c r sz) as [[-> _]|[-> _]]; reflexivity. Qed.

Lemma item_te c r sz :
  c_te (item_codec c r sz) = choose_te (c_head c) (c_stream c) (stream_adjust c r sz) (c_ver c) sz.
Proof. apply item_te0. Qed.

Theorem te_roundtrip c r sz chunks :
  c_head c = false ->
  no_body_status (rs_status r) = false ->
  lower_names (rs_headers r) ->
  (rs_nochunk r = true \/ c_stream c = true -> sz = BStream ->
   user_has "transfer-encoding" r = false /\ user_has "content-length" r = false) ->
  (forall n, sz = BSized n -> n < 2 ^ 64) ->
  Forall (fun b => lenN b < 2 ^ 64) chunks ->
  sz <> BNone ->
  let fields := hd_fields (item_head c r sz) in
  let c2 := fst (codec_encode_chunks (item_codec c r sz) chunks) in
  let body := snd (codec_encode_chunks (item_codec c r sz) chunks) in
  match codec_encode_eof c2 with
  | Some (_, tail) =>
      (forall n, sz = BSized n -> n <= lenN (concat chunks)) /\
      exists f, read_message false (rs_status r) fields (body ++ tail) true =
                RComplete f (cut sz (concat chunks)) (lenN (body ++ tail))
  | None =>
      exists n, sz = BSized n /\ lenN (concat chunks) < n /\
                forall closed, read_message false (rs_status r) fields body closed = RIncomplete
  end.
Proof.
  intros Hh Hs Hl Hopt Hn Hch Hnone.
  rewrite item_head_eq, item_codec_eq. rewrite <- (sa_status c r sz).
  apply te_roundtrip0; auto.
  - intros ->. destruct (sa_cases c r BStream) as [[E [H|H]]|[E _]]; [left; exact H|contradiction|].
    right. rewrite E. reflexivity.
  - rewrite sa_status. exact Hs.
  - rewrite sa_headers. exact Hl.
  - intros Hnc Hsz. unfold user_has. rewrite sa_headers. apply Hopt; [|exact Hsz].
    destruct (sa_cases c r sz) as [[E _]|[_ [H _]]]; [left; rewrite <- E; exact Hnc|right; exact H].
Qed.

Theorem no_body_bytes c r sz chunks :
  c_head c = true \/ status_no_body (rs_status r) = true ->
  codec_encode_chunks (item_codec c r sz) chunks = (item_codec c r sz, []) /\
  codec_encode_eof (item_codec c r sz) = Some (item_codec c r sz, []).
Proof. intro H. rewrite item_codec_eq. apply no_body_bytes0. rewrite sa_status. exact H. Qed.

Theorem http10_never_chunked c r sz :
  c_ver c = V10 ->
  (forall e, c_te (item_codec c r sz) <> TChunked e) /\
  (lower_names (rs_headers r) ->
   (rs_nochunk r = false /\ (c_stream c = false \/ sz <> BStream)) \/ user_has "transfer-encoding" r = false ->
   rs_status r <> 304 ->
   field_values "transfer-encoding" (hd_fields (item_head c r sz)) = []).
Proof.
  intro Hv. rewrite item_codec_eq, item_head_eq.
  destruct (http10_never_chunked0 c (stream_adjust c r sz) sz Hv) as [H1 H2]. split; [exact H1|].
  intros Hl Hu H304. apply H2.
  - rewrite sa_headers. exact Hl.
  - destruct Hu as [[Hn Hs]|Hu]; [left|right; unfold user_has; rewrite sa_headers; exact Hu].
    destruct (sa_cases c r sz) as [[E _]|[_ [A B]]]; [rewrite E; exact Hn|].
    destruct Hs as [Hs|Hs]; [rewrite Hs in A; discriminate|contradiction].
  - rewrite sa_status. exact H304.
Qed.

Theorem user_framing_headers_ignored c r sz :
  lower_names (rs_headers r) ->
  rs_status r <> 304 ->
  ((rs_nochunk r = false /\ c_stream c = false) \/ sz <> BStream \/
   (is_informational (rs_status r) || (rs_status r =? 204)) = true) ->
  let fields := hd_fields (item_head c r sz) in
  let ct := c_conn (item_codec c r sz) in
  exists len_fields,
    fields = len_fields ++ conn_fields ct (c_ver c) ++ user_fields true r ++ date_fields r /\
    field_values "transfer-encoding" (user_fields true r) = [] /\
    field_values "content-length" (user_fields true r) = [] /\
    field_values "connection" (user_fields true r) = [] /\
    (len_fields = [] \/ len_fields = [(str "transfer-encoding", str "chunked")] \/
     exists n, sz = BSized n /\ len_fields = [(str "content-length", dec n)]).
Proof.
  intros Hl H304 Hopt. rewrite item_head_eq, item_codec_eq.
  destruct (sa_cases c r sz) as [[E _]|[E [A B]]]; rewrite E.
  - apply user_framing_headers_ignored0; auto.
    destruct Hopt as [[H _]|[H|H]]; auto.
  - (* STREAM request and stream body: only possible here for a 1xx / 204 status *)
    apply (user_framing_headers_ignored0 c (mkResp (rs_status r) (rs_conn r) true (rs_headers r)) sz); auto.
    destruct Hopt as [[_ H]|[H|H]]; [rewrite H in A; discriminate|contradiction|right; right; exact H].
Qed.

Theorem framing_from_own_context c c' rq r sz :
  c_ka_enabled c = c_ka_enabled c' -> c_stream c = c_stream c' ->
  item_head (codec_decode c rq) r sz = item_head (codec_decode c' rq) r sz /\
  c_te (item_codec (codec_decode c rq) r sz) = c_te (item_codec (codec_decode c' rq) r sz) /\
  c_conn (item_codec (codec_decode c rq) r sz) = c_conn (item_codec (codec_decode c' rq) r sz).
Proof.
  intros Hk Hs. rewrite !item_head_eq, !item_codec_eq.
  assert (E : stream_adjust (codec_decode c rq) r sz = stream_adjust (codec_decode c' rq) r sz).
  { unfold stream_adjust, codec_decode. cbn [c_stream]. rewrite Hs. reflexivity. }
  rewrite E. apply framing_from_own_context0; assumption.
Qed.

(* a body delimited by the end of the connection never leaves the connection in keep-alive *)
Theorem close_delimited_closes c r sz :
  c_te (item_codec c r sz) = TEof -> c_conn (item_codec c r sz) <> CKeepAlive.
Proof.
  rewrite item_codec_eq. generalize (stream_adjust c r sz). intro r'.
  unfold item_codec0, codec_encode_item0, msg_encode. cbn [fst c_te c_conn].
  intros ->. cbn [te_is_eof]. rewrite andb_true_r.
  destruct (rs_conn r') as [[| |]|]; try discriminate;
    destruct (c_conn c); cbn [conn_eqb]; discriminate.
Qed.
