(* C02 end to end: the sequencing layer (H1/RespSeq.v: what is appended to write_buf) composed
   with the C04 builder's flush layer (H1/Flush.v: InnerDispatcher::poll_flush against a scripted
   socket).  A flush is no longer an abstract "k bytes leave" event but a poll_flush call with an
   arbitrary socket script (partial writes, Pending, Ok(0), errors, poll_flush answers).
   No proofs in this file. *)
From AV Require Import Lib.Base H1.Encoder H1.RespSeq H1.Flush.
Open Scope N_scope.

Inductive wevent :=
| WArrive (j : N)                 (* Codec::decode returns request j *)
| WBad                            (* parse error *)
| WTick                           (* one handler / body poll *)
| WFlush (script : list wans) (dflt : wans) (fl : fans).   (* one poll_flush *)

Record wstate := mkW { w_d : dstate; w_f : fstate }.

(* the connection future has resolved with an error: body/short-body error in poll_response, or
   a write error in poll_flush; it is never polled again and write_buf is dropped *)
Definition wdead (w : wstate) : bool :=
  match d_fail (w_d w) with Some _ => true | None => s_failed (w_f w) end.

Definition ev_of (e : wevent) : event :=
  match e with WArrive j => EvArrive j | WBad => EvBad | _ => EvTick end.

(* bytes appended to write_buf by a dispatcher step *)
Definition new_bytes (d d' : dstate) : bytes :=
  skipn (length (units_bytes (d_out d))) (units_bytes (d_out d')).

Section Cfg.
  Variable reqs : list reqctx.
  Variable hs : list hscript.
  Variable wbs : N.

  Definition wstep (w : wstate) (e : wevent) : wstate :=
    if wdead w then w else
    match e with
    | WFlush script dflt fl =>
        let r := poll_flush (s_buf (w_f w)) script dflt fl in
        mkW (flush (w_d w) (lenN (f_wire r))) (fstep (w_f w) (FFlush script dflt fl))
    | _ =>
        let d' := step reqs hs wbs (w_d w) (ev_of e) in
        mkW d' (fstep (w_f w) (FPut (new_bytes (w_d w) d')))
    end.

  Definition wrun (w : wstate) (es : list wevent) : wstate := fold_left wstep es w.
  Definition winit (ka : bool) : wstate := mkW (d_init ka) finit.
End Cfg.
