(* H1/Chunked.v — model of actix-http/src/h1/chunked.rs (`ChunkedState`), as the code is.

   Self-contained (only Lib.Base); reused by C01 (request side) and C17 (client side: the same
   `ChunkedState` decodes response bodies).  No proofs here (see ChunkedProofs.v).

   Rust                                   Gallina
   ------------------------------------   -------------------------------------------
   enum ChunkedState (11 variants)        [cst]
   Poll<Result<ChunkedState, io::Error>>  [res]: Pend = Poll::Pending, Ok, Err = io::Error
                                          (kind InvalidInput), Pan = panic (arithmetic
                                          overflow of `*size += rem` in a debug build)
   byte!(rdr)                             head of the list; [] => Pend
   ChunkedState::step                     [step]
   read_size .. read_end_lf               [cstep] (the ten one-byte states), [step] (Body, End)

   u64: [size] is a natural number; `checked_mul(16)` is written out as the test
   [sz * 16 <=? u64_max]; the unchecked `+=` is written out as a test that yields [Pan].
   ChunkedProofs.chunk_size_no_overflow shows [Pan] is unreachable.

   Byte classes (chunked.rs as of this tree):
     hex digit        '0'-'9' 'a'-'f' 'A'-'F'
     LWS              HT (9) | SP (32)            only AFTER the digits (SizeDigits -> SizeLws)
     ';'              59  -> Extension
     CR               13  -> SizeLf
     in an extension  CR ends it; 0x00-0x08, 0x0a-0x1f, 0x7f are errors; everything else
                      (including 0x09, 0x20, the double quote, bytes >= 0x80) stays in Extension
   [Size] (start of a size line) accepts only a hex digit; LWS / ';' / CR are accepted from
   [SizeDigits] on (finding F3, repaired by /repo bdb7061: before, an empty size line denoted
   size 0 = last-chunk). *)
From AV Require Import Lib.Base.

Inductive cst := Size | SizeDigits | SizeLws | Extension | SizeLf | Body | BodyCr | BodyLf | EndCr | EndLf | End.

Definition cst_eqb (a b : cst) : bool :=
  match a, b with
  | Size, Size | SizeDigits, SizeDigits | SizeLws, SizeLws | Extension, Extension | SizeLf, SizeLf | Body, Body
  | BodyCr, BodyCr | BodyLf, BodyLf | EndCr, EndCr | EndLf, EndLf | End, End => true
  | _, _ => false
  end.

Inductive res (A : Type) := Pend | Ok (a : A) | Err | Pan.
Arguments Pend {A}. Arguments Ok {A}. Arguments Err {A}. Arguments Pan {A}.

(* value of a hexadecimal digit: the three first arms of the `match byte!(rdr)` in read_size *)
Definition hexval (b : byte) : option N :=
  if (48 <=? b) && (b <=? 57) then Some (b - 48)
  else if (97 <=? b) && (b <=? 102) then Some (b + 10 - 97)
  else if (65 <=? b) && (b <=? 70) then Some (b + 10 - 65)
  else None.

(* the arms `b'\t' | b' '`, `b';'`, `b'\r'`, `_ => Err` shared by read_size and read_size_lws *)
Definition lws_ext_cr (b : byte) (sz : N) : res (cst * N) :=
  if (b =? 9) || (b =? 32) then Ok (SizeLws, sz)
  else if b =? 59 then Ok (Extension, sz)
  else if b =? 13 then Ok (SizeLf, sz)
  else Err.

(* forbidden inside a chunk extension: 0x00..=0x08 | 0x0a..=0x1f | 0x7f  (CR is tested first) *)
Definition ext_forbidden (b : byte) : bool :=
  (b <=? 8) || ((10 <=? b) && (b <=? 31)) || (b =? 127).

(* the tail of read_size after a hex digit [d]: size.checked_mul(16), then the unchecked `+=` *)
Definition size_digit (sz d : N) : res (cst * N) :=
  if sz * 16 <=? u64_max then
    (* *size = n; *size += rem as u64;   (overflow-checked in debug builds) *)
    if sz * 16 + d <=? u64_max then Ok (SizeDigits, sz * 16 + d) else Pan
  else Err.                                          (* "Size is too big" *)

(* One byte in one of the ten states that consume exactly one byte and emit no data.
   Size       = read_size(.., first = true):  only a hex digit is accepted (fix of F3, bdb7061)
   SizeDigits = read_size(.., first = false): digit | LWS | ';' | CR *)
Definition cstep (s : cst) (sz : N) (b : byte) : res (cst * N) :=
  match s with
  | Size =>
      match hexval b with
      | Some d => size_digit sz d
      | None => Err                                  (* "Invalid chunk size line: Invalid Size" *)
      end
  | SizeDigits =>
      match hexval b with
      | Some d => size_digit sz d
      | None => lws_ext_cr b sz
      end
  | SizeLws => lws_ext_cr b sz
  | Extension =>
      if b =? 13 then Ok (SizeLf, sz)
      else if ext_forbidden b then Err
      else Ok (Extension, sz)
  | SizeLf => if b =? 10 then (if 0 <? sz then Ok (Body, sz) else Ok (EndCr, sz)) else Err
  | BodyCr => if b =? 13 then Ok (BodyLf, sz) else Err
  | BodyLf => if b =? 10 then Ok (Size, sz) else Err
  | EndCr => if b =? 13 then Ok (EndLf, sz) else Err
  | EndLf => if b =? 10 then Ok (End, sz) else Err
  | Body | End => Err                               (* not one-byte states; never called *)
  end.

(* the one-byte ("control") states *)
Definition is_ctl (s : cst) : bool := match s with Body | End => false | _ => true end.

(* ChunkedState::step(&self, body, size, buf): returns the new state, the new size, what is
   left of [body] and the data split off ([buf]).  NB read_size_lf does not reset [size]; Body
   counts it down to 0, so the next size line starts from 0. *)
Definition step (s : cst) (sz : N) (buf : bytes) : res (cst * N * bytes * option bytes) :=
  match s with
  | End => Ok (End, sz, buf, None)
  | Body =>
      match buf with
      | [] => Ok (Body, sz, buf, None)                              (* len == 0 *)
      | _ =>
          let len := lenN buf in
          if len <? sz                                              (* *rem > len *)
          then Ok (Body, sz - len, [], Some buf)
          else Ok (BodyCr, 0, skipn (N.to_nat sz) buf, Some (firstn (N.to_nat sz) buf))
      end
  | _ =>
      match buf with
      | [] => Pend
      | b :: rest =>
          match cstep s sz b with
          | Ok (s', sz') => Ok (s', sz', rest, None)
          | Pend => Pend | Err => Err | Pan => Pan
          end
      end
  end.
