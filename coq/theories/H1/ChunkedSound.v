(* H1/ChunkedSound.v — converse of ChunkedProofs.grammar_accepted: whatever the chunked decoder
   accepts (reaches End) is a rendering of the RFC 7230 section 4.1 grammar of ChunkedSpec.v, and
   the decoded body is the concatenation of the chunk data.  (True since the repair of F3.) *)
From AV Require Import Lib.Base H1.Chunked H1.ChunkedSpec H1.ChunkedProofs.

Definition ext_render (e : option bytes) : bytes := match e with Some x => 59 :: x | None => [] end.
Definition ext_wf (e : option bytes) : Prop := match e with Some x => forallb ext_ok x = true | None => True end.

Section Inv.
  Variables (szf : N) (rest body : bytes).
  Notation R := (Ok (End, szf, rest, body, true)).

  Lemma inv_ext buf : forall sz acc, bw Extension sz buf acc = R ->
    exists e after, forallb ext_ok e = true /\ buf = e ++ 13 :: after /\ bw SizeLf sz after acc = R.
  Proof.
    induction buf as [|b buf IH]; intros sz acc H; [discriminate H|].
    rewrite bw_ctl in H by reflexivity. cbn [cstep] in H.
    destruct (b =? 13) eqn:E13.
    - assert (b = 13) by lia. subst b. exists [], buf. repeat split. exact H.
    - destruct (ext_forbidden b) eqn:Ef; [discriminate H|].
      destruct (IH _ _ H) as (e & after & He & -> & Hc).
      exists (b :: e), after. cbn [forallb app]. unfold ext_ok at 1. rewrite E13, Ef. cbn [negb andb].
      repeat split; assumption.
  Qed.

  (* after the digits: LWS* [; ext] CR *)
  Lemma inv_lws buf : forall sz acc, bw SizeLws sz buf acc = R ->
    exists l ext after, forallb is_lws l = true /\ ext_wf ext /\
      buf = l ++ ext_render ext ++ 13 :: after /\ bw SizeLf sz after acc = R.
  Proof.
    induction buf as [|b buf IH]; intros sz acc H; [discriminate H|].
    rewrite bw_ctl in H by reflexivity. cbn [cstep] in H. unfold lws_ext_cr in H.
    destruct ((b =? 9) || (b =? 32)) eqn:El.
    - destruct (IH _ _ H) as (l & ext & after & Hl & He & -> & Hc).
      exists (b :: l), ext, after. cbn [forallb app]. unfold is_lws at 1. rewrite El. repeat split; assumption.
    - destruct (b =? 59) eqn:E59.
      + assert (b = 59) by lia. subst b.
        destruct (inv_ext _ _ _ H) as (e & after & He & -> & Hc).
        exists [], (Some e), after. cbn [forallb ext_wf ext_render app]. repeat split; assumption.
      + destruct (b =? 13) eqn:E13; [|discriminate H].
        assert (b = 13) by lia. subst b. exists [], None, buf. cbn. repeat split. exact H.
  Qed.

  Lemma inv_digits buf : forall sz acc, sz <= u64_max -> bw SizeDigits sz buf acc = R ->
    exists ds l ext after, forallb is_hex ds = true /\ forallb is_lws l = true /\ ext_wf ext /\
      buf = ds ++ l ++ ext_render ext ++ 13 :: after /\ hexnum sz ds <= u64_max /\ (sz <= hexnum sz ds) /\
      bw SizeLf (hexnum sz ds) after acc = R.
  Proof.
    induction buf as [|b buf IH]; intros sz acc Hsz H; [discriminate H|].
    rewrite bw_ctl in H by reflexivity. cbn [cstep] in H.
    destruct (hexval b) as [v|] eqn:Hv.
    - unfold size_digit in H.
      destruct (sz * 16 <=? u64_max) eqn:E1; [|discriminate H].
      destruct (sz * 16 + v <=? u64_max) eqn:E2; [|discriminate H].
      destruct (IH (sz * 16 + v) acc ltac:(lia) H) as (ds & l & ext & after & Hd & Hl & He & -> & Hb & Hge & Hc).
      exists (b :: ds), l, ext, after. cbn [forallb app]. rewrite hexnum_cons.
      unfold is_hex at 1. unfold hexdig. rewrite Hv. repeat split; try assumption. lia.
    - unfold lws_ext_cr in H.
      assert (Hs : bw SizeLws sz (b :: buf) acc = R).
      { rewrite bw_ctl by reflexivity. cbn [cstep]. exact H. }
      destruct (inv_lws _ _ _ Hs) as (l & ext & after & Hl & He & Eb & Hc).
      exists [], l, ext, after. cbn [forallb app]. unfold hexnum. cbn [fold_left].
      repeat split; try assumption; lia.
  Qed.

  Lemma inv_sizelf buf sz acc : bw SizeLf sz buf acc = R ->
    exists after, buf = 10 :: after /\
      if 0 <? sz then bw Body sz after acc = R else bw EndCr sz after acc = R.
  Proof.
    destruct buf as [|b buf]; intro H; [discriminate H|].
    rewrite bw_ctl in H by reflexivity. cbn [cstep] in H.
    destruct (b =? 10) eqn:E; [|discriminate H]. assert (b = 10) by lia. subst b.
    exists buf. split; [reflexivity|]. destruct (0 <? sz); exact H.
  Qed.

  Lemma inv_body buf : forall sz acc, 0 < sz -> bw Body sz buf acc = R ->
    exists data after, lenN data = sz /\ buf = data ++ after /\ bw BodyCr 0 after (acc ++ data) = R.
  Proof.
    induction buf as [|b buf IH]; intros sz acc Hp H; [discriminate H|].
    cbn [bw bstep] in H. destruct (sz <=? 1) eqn:E.
    - exists [b], buf. unfold lenN. cbn [length app]. repeat split; [lia|exact H].
    - destruct (IH (sz - 1) (acc ++ [b]) ltac:(lia) H) as (data & after & Hl & -> & Hc).
      exists (b :: data), after. unfold lenN in *. cbn [length app]. rewrite <- app_assoc in Hc. cbn [app] in Hc.
      repeat split; [lia|exact Hc].
  Qed.

  Lemma inv_crlf s1 s2 buf sz acc :
    (s1 = BodyCr /\ s2 = BodyLf) \/ (s1 = EndCr /\ s2 = EndLf) ->
    bw s1 sz buf acc = R ->
    exists after, buf = 13 :: 10 :: after /\
      bw (match s1 with BodyCr => Size | _ => End end) sz after acc = R.
  Proof.
    intros Hs H. destruct buf as [|b buf]; [destruct Hs as [[-> _]|[-> _]]; discriminate H|].
    rewrite bw_ctl in H by (destruct Hs as [[-> _]|[-> _]]; reflexivity).
    assert (Hb : b = 13 /\ bw s2 sz buf acc = R).
    { destruct Hs as [[-> ->]|[-> ->]]; cbn [cstep] in H; destruct (b =? 13) eqn:E; try discriminate H;
        (split; [lia|exact H]). }
    destruct Hb as [-> H2]. destruct buf as [|c buf]; [destruct Hs as [[_ ->]|[_ ->]]; discriminate H2|].
    rewrite bw_ctl in H2 by (destruct Hs as [[_ ->]|[_ ->]]; reflexivity).
    exists buf. destruct Hs as [[-> ->]|[-> ->]]; cbn [cstep] in H2; destruct (c =? 10) eqn:E; try discriminate H2;
      (split; [f_equal; f_equal; lia|exact H2]).
  Qed.
End Inv.

Theorem chunked_sound : forall n buf acc szf rest body,
  (length buf < n)%nat ->
  bw Size 0 buf acc = Ok (End, szf, rest, body, true) ->
  exists cs last, Forall chunk_wf cs /\ last_wf last /\
    buf = render_body cs last ++ rest /\ body = acc ++ body_data cs.
Proof.
  induction n as [|n IH]; intros buf acc szf rest body Hn H; [lia|].
  (* the first byte is a hex digit *)
  destruct buf as [|b buf]; [discriminate H|].
  assert (Hd : bw SizeDigits 0 (b :: buf) acc = Ok (End, szf, rest, body, true) /\ is_hex b = true).
  { rewrite bw_ctl in * by reflexivity. cbn [cstep] in *. unfold is_hex.
    destruct (hexval b); [split; [exact H|reflexivity]|discriminate H]. }
  destruct Hd as [Hd Hb].
  destruct (inv_digits szf rest body (b :: buf) 0 acc ltac:(unfold u64_max; lia) Hd) as (ds & l & ext & after & Hds & Hl & He & Eb & Hmax & _ & Hc).
  assert (Hne : ds <> []).
  { intro; subst ds. cbn [app] in Eb.
    destruct l as [|x l]; [destruct ext as [e|]; cbn [ext_render app] in Eb; inversion Eb; subst b; discriminate Hb|].
    cbn [app forallb] in *. inversion Eb; subst x. apply andb_true_iff in Hl as [Hx _].
    unfold is_hex in Hb. rewrite (is_lws_not_hex _ Hx) in Hb. discriminate Hb. }
  set (line := mk_size_line ds l ext).
  assert (Hwf : size_line_wf line) by (unfold size_line_wf, line; cbn; destruct ext; auto).
  destruct (inv_sizelf _ _ _ _ _ _ Hc) as (after1 & -> & Hk).
  assert (Erender : b :: buf = render_size_line line ++ after1).
  { rewrite Eb. unfold render_size_line, line, ext_render. cbn [sl_digits sl_lws sl_ext].
    rewrite <- !app_assoc. destruct ext; reflexivity. }
  destruct (0 <? hexnum 0 ds) eqn:Epos.
  - (* a data chunk *)
    destruct (inv_body szf rest body after1 (hexnum 0 ds) acc ltac:(lia) Hk) as (data & after2 & Hlen & -> & Hk2).
    destruct (inv_crlf _ _ _ BodyCr BodyLf _ _ _ (or_introl (conj eq_refl eq_refl)) Hk2) as (more & -> & Hk3).
    assert (Hshort : (length more < n)%nat).
    { assert (length (b :: buf) = length (render_size_line line ++ data ++ 13 :: 10 :: more)) by (rewrite Erender; reflexivity).
      rewrite !app_length in H0. cbn [length] in *. lia. }
    destruct (IH _ _ _ _ _ Hshort Hk3) as (cs & last & Hcs & Hlast & -> & ->).
    set (c := mk_chunk line data).
    exists (c :: cs), last. split.
    + constructor; [|exact Hcs]. unfold chunk_wf, c. cbn [ch_line ch_data].
      split; [exact Hwf|]. split; [intro; subst data; unfold lenN in Hlen; cbn [length] in Hlen; lia|].
      split; [symmetry; exact Hlen|lia].
    + split; [exact Hlast|]. split.
      * rewrite Erender. unfold render_body, render_chunk, c. cbn [map concat ch_line ch_data].
        rewrite <- !app_assoc. reflexivity.
      * unfold body_data, c. cbn [map concat ch_data]. rewrite app_assoc. reflexivity.
  - (* the last chunk *)
    destruct (inv_crlf _ _ _ EndCr EndLf _ _ _ (or_intror (conj eq_refl eq_refl)) Hk) as (more & -> & Hk3).
    rewrite bw_End in Hk3. inversion Hk3; subst.
    exists [], line. split; [constructor|]. split; [split; [exact Hwf|unfold line; cbn [sl_digits]; lia]|].
    split.
    + rewrite Erender. unfold render_body. cbn [map concat app]. rewrite <- !app_assoc. reflexivity.
    + unfold body_data. cbn [map concat]. rewrite app_nil_r. reflexivity.
Qed.
