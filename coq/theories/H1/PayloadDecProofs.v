(* H1/PayloadDecProofs.v — the batched PayloadDecoder computes the byte-wise semantics, hence its
   output does not depend on how the input is cut into reads.

   [body_bw k buf acc] is the segmentation-free meaning of a payload decoder on the whole input:
     KLength n  : the first n bytes are the body (done when all n are there)
     KChunked   : ChunkedSpec.bw
     KEof       : everything is body, never done
   Main results:
     prun_eq_bw      : draining the decoder on one buffer = body_bw
     body_bw_app     : body_bw is compositional over ++
     pfeed_eq_bw     : feeding ANY list of segments = body_bw of their concatenation *)
From AV Require Import Lib.Base H1.Chunked H1.ChunkedSpec H1.ChunkedProofs H1.PayloadDec.

Definition lift_bw (r : res (cst * N * bytes * bytes * bool)) : res (kind * bytes * bytes * bool) :=
  match r with
  | Ok (s, sz, rest, acc, e) => Ok (KChunked s sz, rest, acc, e)
  | Pend => Pend | Err => Err | Pan => Pan
  end.

Definition body_bw (k : kind) (buf acc : bytes) : res (kind * bytes * bytes * bool) :=
  match k with
  | KLength n =>
      if lenN buf <? n then Ok (KLength (n - lenN buf), [], acc ++ buf, false)
      else Ok (KLength 0, skipn (N.to_nat n) buf, acc ++ firstn (N.to_nat n) buf, true)
  | KChunked s sz => lift_bw (bw s sz buf acc)
  | KEof => Ok (KEof, [], acc ++ buf, false)
  end.

(* data invariant / "not finished yet" *)
Definition kinv (k : kind) : Prop := match k with KChunked s sz => inv s sz | _ => True end.
Definition kopen (k : kind) : Prop :=
  match k with KLength n => 0 < n | KChunked s _ => s <> End | KEof => True end.

(* ---- the loop of the Chunked arm meets its specification ------------------------------------ *)
Definition loop_spec (s : cst) (sz : N) (buf acc : bytes) (r : res (cst * N * bytes * option pitem)) : Prop :=
  match r with
  | Ok (s', sz', buf', None) => buf' = [] /\ s' <> End /\ bw s sz buf acc = Ok (s', sz', [], acc, false)
  | Ok (s', sz', buf', Some PEof) => s' = End /\ bw s sz buf acc = Ok (End, sz', buf', acc, true)
  | Ok (s', sz', buf', Some (PChunk c)) =>
      bw s sz buf acc = bw s' sz' buf' (acc ++ c) /\ (length buf' < length buf)%nat /\ inv s' sz' /\ s' <> End
  | Err => bw s sz buf acc = Err
  | Pan => False
  | Pend => False
  end.

Lemma chunked_loop_ok : forall fuel s sz buf acc,
  (length buf < fuel)%nat -> inv s sz -> loop_spec s sz buf acc (chunked_loop fuel s sz buf).
Proof.
  induction fuel as [|f IH]; intros s sz buf acc Hf Hinv; [lia|].
  destruct (is_ctl s) eqn:Hc.
  - (* one-byte state *)
    destruct buf as [|b rest].
    + assert (Hs: step s sz [] = Pend) by (destruct s; try discriminate Hc; reflexivity).
      cbn [chunked_loop]. rewrite Hs. cbn [loop_spec]. repeat split; [destruct s; discriminate|].
      apply bw_nil. destruct s; discriminate.
    + assert (Hs: step s sz (b :: rest) =
                  match cstep s sz b with Ok (s', sz') => Ok (s', sz', rest, None) | Pend => Pend | Err => Err | Pan => Pan end)
        by (destruct s; try discriminate Hc; reflexivity).
      cbn [chunked_loop]. rewrite Hs.
      pose proof (bw_ctl s sz b rest acc Hc) as Hbw.
      pose proof (cstep_no_panic s sz b) as Hnp. pose proof (cstep_never_pend s sz b) as Hnq.
      destruct (cstep s sz b) as [|[s' sz']| |] eqn:Hcs; try congruence.
      * pose proof (cstep_inv _ _ _ _ _ Hcs) as Hinv'.
        destruct s'; lazy beta iota;
        try (destruct rest as [|b' rest']; lazy beta iota;
             [ cbn [loop_spec]; rewrite Hbw; repeat split; try discriminate; try (apply bw_nil; discriminate)
             | match goal with |- loop_spec _ _ _ _ (chunked_loop f ?s1 ?z1 ?b1) =>
                 specialize (IH s1 z1 b1 acc ltac:(cbn [length] in *; lia) Hinv') end;
               revert IH; unfold loop_spec; rewrite Hbw;
               destruct (chunked_loop f _ _ _) as [|[[[s2 z2] b2] [[c|]|]]| |]; intro IH; try exact IH;
               destruct IH as (?&?&?&?); repeat split; try assumption; cbn [length] in *; lia ]).
        cbn [loop_spec]. rewrite Hbw. split; [reflexivity|]. apply bw_End.
  - destruct s; try discriminate Hc.
    + (* Body *)
      assert (0 < sz) by (apply Hinv; reflexivity).
      destruct buf as [|b rest].
      * cbn [chunked_loop step loop_spec]. repeat split; try discriminate.
      * cbn [chunked_loop step]. remember (b :: rest) as buf eqn:Eb.
        destruct (lenN buf <? sz) eqn:Hlt.
        -- cbn [loop_spec]. rewrite bw_body_all by lia.
           repeat split; try reflexivity; try discriminate.
           ++ subst buf; cbn [length]; lia.
           ++ intros _. lia.
        -- cbn [loop_spec]. unfold lenN in Hlt.
           assert (Hlen: (N.to_nat sz <= length buf)%nat) by lia.
           rewrite <- (firstn_skipn (N.to_nat sz) buf) at 1.
           rewrite bw_body_exact; [| assumption | unfold lenN; rewrite firstn_length; lia].
           repeat split; try reflexivity; try discriminate.
           rewrite skipn_length. subst buf. cbn [length] in *. lia.
    + (* End *)
      cbn [chunked_loop step loop_spec]. split; [reflexivity| apply bw_End].
Qed.

(* ---- draining one buffer ------------------------------------------------------------------- *)
Lemma prun_chunked_eq_bw : forall fuel s sz buf acc,
  (length buf < fuel)%nat -> inv s sz ->
  prun fuel (KChunked s sz) buf acc = lift_bw (bw s sz buf acc).
Proof.
  induction fuel as [|f IH]; intros s sz buf acc Hf Hinv; [lia|].
  cbn [prun pdecode].
  pose proof (chunked_loop_ok (S (length buf)) s sz buf acc ltac:(lia) Hinv) as H.
  destruct (chunked_loop (S (length buf)) s sz buf) as [|[[[s' sz'] buf'] [[c|]|]]| |]; cbn [loop_spec] in H;
    try contradiction.
  - destruct H as (Hb & Hl & Hi & _). rewrite Hb. apply IH; [lia|assumption].
  - destruct H as (-> & Hb). rewrite Hb. reflexivity.
  - destruct H as (-> & _ & Hb). rewrite Hb. reflexivity.
  - rewrite H. reflexivity.
Qed.

Theorem prun_eq_bw : forall fuel k buf acc,
  (S (length buf) < fuel)%nat -> kinv k -> prun fuel k buf acc = body_bw k buf acc.
Proof.
  intros fuel k buf acc Hf Hk. destruct k as [n|s sz|].
  - (* Length *)
    destruct fuel as [|[|f]]; try lia. unfold body_bw.
    cbn [prun pdecode].
    destruct (n =? 0) eqn:E0.
    + assert (n = 0) by lia. subst n. replace (lenN buf <? 0) with false by (unfold lenN; lia).
      cbn [N.to_nat skipn firstn]. rewrite app_nil_r. reflexivity.
    + destruct buf as [|b rest].
      * replace (lenN [] <? n) with true by (unfold lenN; cbn [length]; lia).
        rewrite app_nil_r. replace (n - lenN []) with n by (unfold lenN; cbn [length]; lia). reflexivity.
      * remember (b :: rest) as buf. destruct (lenN buf <? n) eqn:El.
        -- cbn [prun pdecode]. replace (n - lenN buf =? 0) with false by lia. reflexivity.
        -- cbn [prun pdecode]. replace (0 =? 0) with true by reflexivity. reflexivity.
  - apply prun_chunked_eq_bw; [lia|exact Hk].
  - destruct fuel as [|[|f]]; try lia. unfold body_bw. cbn [prun pdecode].
    destruct buf as [|b rest]; [rewrite app_nil_r; reflexivity|].
    cbn [prun pdecode]. reflexivity.
Qed.

(* ---- compositionality ------------------------------------------------------------------------ *)
Theorem body_bw_app : forall k b1 b2 acc,
  body_bw k (b1 ++ b2) acc =
  match body_bw k b1 acc with
  | Ok (k', r, acc', false) => body_bw k' (r ++ b2) acc'
  | Ok (k', r, acc', true) => Ok (k', r ++ b2, acc', true)
  | Pend => Pend | Err => Err | Pan => Pan
  end.
Proof.
  intros k b1 b2 acc. destruct k as [n|s sz|].
  - unfold body_bw, lenN. rewrite app_length.
    destruct (N.of_nat (length b1) <? n) eqn:E1.
    + cbn [app]. destruct (N.of_nat (length b2) <? n - N.of_nat (length b1)) eqn:E2.
      * replace (N.of_nat (length b1 + length b2) <? n) with true by lia.
        rewrite <- app_assoc.
        replace (n - N.of_nat (length b1) - N.of_nat (length b2)) with (n - N.of_nat (length b1 + length b2)) by lia.
        reflexivity.
      * replace (N.of_nat (length b1 + length b2) <? n) with false by lia.
        rewrite firstn_app, skipn_app.
        rewrite firstn_all2 by lia. rewrite skipn_all2 by lia.
        replace (N.to_nat n - length b1)%nat with (N.to_nat (n - N.of_nat (length b1))) by lia.
        cbn [app]. rewrite <- app_assoc. reflexivity.
    + replace (N.of_nat (length b1 + length b2) <? n) with false by lia.
      rewrite firstn_app, skipn_app.
      replace (N.to_nat n - length b1)%nat with 0%nat by lia.
      cbn [firstn skipn]. rewrite app_nil_r. reflexivity.
  - unfold body_bw. rewrite bw_app.
    destruct (bw s sz b1 acc) as [|[[[[s' sz'] r] acc'] [|]]| |]; reflexivity.
  - unfold body_bw. cbn [app]. rewrite <- app_assoc. reflexivity.
Qed.

Lemma body_bw_false k buf acc k' r acc' :
  body_bw k buf acc = Ok (k', r, acc', false) -> r = [] /\ kopen k'.
Proof.
  destruct k as [n|s sz|]; unfold body_bw; intro H.
  - destruct (lenN buf <? n) eqn:E; inversion H; subst. split; [reflexivity|]. cbn [kopen]. lia.
  - destruct (bw s sz buf acc) as [|[[[[s' sz'] r0] acc0] e]| |] eqn:Hb; cbn [lift_bw] in H; try discriminate H.
    inversion H; subst. apply bw_false in Hb. exact Hb.
  - inversion H; subst. split; [reflexivity|exact I].
Qed.

Lemma body_bw_inv k buf acc k' r acc' e :
  kinv k -> body_bw k buf acc = Ok (k', r, acc', e) -> kinv k'.
Proof.
  destruct k as [n|s sz|]; unfold body_bw; intros Hk H.
  - destruct (lenN buf <? n); inversion H; subst; exact I.
  - destruct (bw s sz buf acc) as [|[[[[s' sz'] r0] acc0] e0]| |] eqn:Hb; cbn [lift_bw] in H; try discriminate H.
    inversion H; subst. cbn [kinv] in *. eapply bw_inv; eassumption.
  - inversion H; subst; exact I.
Qed.

Lemma body_bw_nil k acc : kopen k -> body_bw k [] acc = Ok (k, [], acc, false).
Proof.
  destruct k as [n|s sz|]; unfold body_bw; cbn [kopen]; intro H.
  - replace (lenN [] <? n) with true by (unfold lenN; cbn [length]; lia).
    rewrite app_nil_r. replace (n - lenN []) with n by (unfold lenN; cbn [length]; lia). reflexivity.
  - rewrite bw_nil by assumption. reflexivity.
  - rewrite app_nil_r. reflexivity.
Qed.

(* the decoder never panics (chunk-size arithmetic included) and never reports the fuel marker *)
Lemma body_bw_no_panic k buf acc : body_bw k buf acc <> Pan /\ body_bw k buf acc <> Pend.
Proof.
  destruct k as [n|s sz|]; unfold body_bw.
  - destruct (lenN buf <? n); split; discriminate.
  - destruct (bw_no_panic buf s sz acc) as [H1 H2].
    destruct (bw s sz buf acc) as [|[[[[? ?] ?] ?] ?]| |]; cbn [lift_bw]; split; congruence.
  - split; discriminate.
Qed.

(* ---- any segmentation ------------------------------------------------------------------------ *)
Theorem pfeed_eq_bw : forall segs k acc,
  kinv k -> kopen k -> pfeed segs k [] acc = body_bw k (concat segs) acc.
Proof.
  induction segs as [|seg more IH]; intros k acc Hk Ho.
  - cbn [pfeed concat]. symmetry. apply body_bw_nil. exact Ho.
  - cbn [pfeed concat app]. unfold prun_fuel. rewrite prun_eq_bw by (try lia; assumption).
    rewrite body_bw_app.
    destruct (body_bw k seg acc) as [|[[[k' r] acc'] [|]]| |] eqn:Hb; try reflexivity.
    destruct (body_bw_false _ _ _ _ _ _ Hb) as [-> Ho'].
    cbn [app]. apply IH; [eapply body_bw_inv; eassumption | exact Ho'].
Qed.
