(* H1/GateExec.v — executable form of the gate model (H1/Gate.v) for the correspondence driver.

   H1/Gate.v takes the content of the read buffer after an error arm as a schedule input
   ([leftover]); here it is computed the way the code leaves it:
     * rejection raised after the head was consumed (`src.split_to(len)` precedes `set_headers`
       and the post-checks: CL+TE, bad Content-Length / Transfer-Encoding, ...): the bytes behind
       the head stay in read_buf;
     * tokenizer error / TooLarge: nothing was consumed;
     * payload (chunk framing) error: the decoder has advanced to the offending byte; the model does
       not track that offset and takes [] (client_disconnected follows; nothing is read again).
   [xexec] is an instance of [Gate.gexec] (GateExecProofs.xexec_is_gexec), so every theorem about
   [gexec] holds for it.

   [read_available] is refined with the MAX_BUFFER_SIZE rule of the read loop
   (`if this.read_buf.len() >= MAX_BUFFER_SIZE { .. return Ok(false) }` before each poll_read):
   [XRead] is a no-op when the buffer already holds [read_cap] bytes.  [read_cap] is the constant
   the DISPATCHER sees under the name MAX_BUFFER_SIZE (resolved through dispatcher.rs's `use`
   path by tools/gen/h1_gate.py -> Gen/H1Gate.v, H1_DISP_READ_CAP); [max_buffer_size] is the one
   the DECODER uses for its TooLarge rule.  They are separate parameters here: that the reader
   never starves the decoder is a theorem with the premise [max_buffer_size <= read_cap]
   (GateSegProofs.reader_never_stops_early), not a built-in of the model. *)
From AV Require Import Lib.Base H1.Chunked H1.PayloadDec H1.Framing H1.Codec H1.Gate.

Inductive xop :=
| XRead (bs : bytes)          (* one read_available call that obtained bs from the socket *)
| XPeerClosed
| XPoll (pl_read : bool)      (* one poll_request call *)
| XQueue (n : N).

Section GateExec.
  Variable head : bytes -> head_res.
  Variable max_buffer_size : N.
  Variable max_pipelined : N.
  Variable read_cap : N.                       (* dispatcher.rs: MAX_BUFFER_SIZE as imported there *)

  (* the drain loop, also returning what is left in the buffer when it stops *)
  Definition error_rest (c : codec) (buf : bytes) : bytes :=
    match c_payload c with
    | Some _ => []
    | None => match head buf with
              | HComplete len _ _ _ _ => skipn len buf
              | _ => buf
              end
    end.

  Fixpoint run_r (fuel : nat) (c : codec) (buf : bytes) (acc : list message) : outcome * bytes :=
    match fuel with
    | O => (OFuel, buf)
    | S f =>
        match codec_decode head max_buffer_size c buf with
        | DErr e => (OError e acc, error_rest c buf)
        | DPanic => (OPanic, buf)
        | DOk (c', buf', None) => (ONeedMore c' buf' acc, buf')
        | DOk (c', buf', Some m) => run_r f c' buf' (push acc m)
        end
    end.

  Definition leftover_of (g : gate) : bytes :=
    snd (run_r (run_fuel (g_read_buf g)) (g_codec g) (g_read_buf g) (g_msgs g)).

  Definition xstep (g : gate) (o : xop) : gate :=
    match o with
    | XRead bs =>
        if read_cap <=? lenN (g_read_buf g) then g          (* read loop returns early *)
        else gstep head max_buffer_size max_pipelined g (ORead bs)
    | XPeerClosed => gstep head max_buffer_size max_pipelined g OPeerClosed
    | XPoll pl => gstep head max_buffer_size max_pipelined g (OPoll pl (leftover_of g))
    | XQueue n => gstep head max_buffer_size max_pipelined g (OQueue n)
    end.

  Definition xexec (ops : list xop) (g : gate) : gate := fold_left xstep ops g.
End GateExec.
