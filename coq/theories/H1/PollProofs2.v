(* C04, poll level: (1) no lost wake-up for the internal source "a decodable message sits in
   read_buf behind open gates" on the repaired dispatcher; (2) termination after the peer's EOF. *)
From AV Require Import Lib.Base H1.ReadBuf H1.Flush H1.Gates H1.GatesCfg H1.GatesProofs H1.PollProofs.

Section S.
  Variable c : cfg.
  Variable F : nat.

  (* ---- "same": a composer step that touches neither read_buf, the payload decoder, the stream,
     nor the SHUTDOWN flag; READ_DISCONNECT and [bad] only ever get set ---- *)
  Definition same (x y : sim) : Prop :=
    rb (m y) = rb (m x) /\ cpl (m y) = cpl (m x) /\ todo y = todo x /\ shut y = shut x /\
    (rd_disc (m x) = true -> rd_disc (m y) = true) /\ (bad x = true -> bad y = true).

  Lemma same_refl x : same x x.
  Proof. unfold same. repeat split; auto. Qed.
  Lemma same_trans x y z : same x y -> same y z -> same x z.
  Proof.
    unfold same. intros (a1&a2&a3&a4&a5&a6) (b1&b2&b3&b4&b5&b6).
    repeat split; try congruence; auto.
  Qed.
  (* wrappers that only touch scheduler bookkeeping *)
  Lemma same_ext x y y' : same x y -> m y' = m y -> todo y' = todo y -> shut y' = shut y -> bad y' = bad y -> same x y'.
  Proof. unfold same. intros (a1&a2&a3&a4&a5&a6) E1 E2 E3 E4. rewrite E1, E2, E3, E4. repeat split; auto. Qed.
  Lemma same_bad x y y' : same x y -> m y' = m y -> todo y' = todo y -> shut y' = shut y -> bad y' = true -> same x y'.
  Proof. unfold same. intros (a1&a2&a3&a4&a5&a6) E1 E2 E3 E4. rewrite E1, E2, E3, E4. repeat split; auto. Qed.

  Definition light (e : ev) : bool :=
    match e with
    | EvNeedRead | EvGate | EvPassEnd | EvPop | EvPopErr | EvConsume | EvPollEmpty | EvTakeErr
    | EvRespond _ _ | EvBodyChunk _ | EvBodyEnd _ | EvAccept _ | EvTooLarge | EvDrop => true
    | _ => false
    end.

  Lemma step_light s e s' : light e = true -> step c s e = Some s' ->
    rb s' = rb s /\ cpl s' = cpl s /\ (rd_disc s = true -> rd_disc s' = true).
  Proof.
    intros L H. destruct e; try discriminate L; open_step H; proj; auto.
    all: try match goal with |- context [upd_tgt ?f ?x] =>
               destruct (upd_tgt_fields f x) as (E1&_&_&_&_&_&E7&E8&_); rewrite ?E1, ?E7, ?E8; auto end.
  Qed.

  Lemma same_do_ev e x : light e = true -> same x (do_ev c e x).
  Proof.
    intro L. unfold do_ev. destruct (step c (m x) e) as [s'|] eqn:E.
    - destruct (step_light _ _ _ L E) as (A&B&C). unfold same. cbn [m todo shut bad]. repeat split; auto.
    - unfold same, set_bad. cbn [m todo shut bad]. repeat split; auto.
  Qed.

  Ltac wrap z := apply same_ext with (y := z); [|reflexivity|reflexivity|reflexivity|reflexivity].

  Lemma run_handler_same : forall fuel x, same x (fst (run_handler c fuel x)).
  Proof.
    induction fuel as [|fuel IH]; intro x; cbn [run_handler].
    - cbn [fst]. apply same_bad with (y := x); [apply same_refl|reflexivity..].
    - destruct (cur x) as [|a r]; [apply same_refl|].
      destruct a as [| | | | |h b].
      + cbn [fst]. wrap x. apply same_refl.
      + destruct (ticket x) as [t|].
        * destruct (t <? hwc x).
          -- eapply same_trans; [|apply IH]. wrap x. apply same_refl.
          -- cbn [fst]. wrap x. apply same_refl.
        * cbn [fst]. wrap x. apply same_refl.
      + destruct (hch (m x)) as [ch|].
        * destruct (ch_items ch) as [|n its].
          -- destruct (ch_err ch).
             ++ eapply same_trans; [|apply IH]. wrap (do_ev c EvTakeErr x). apply same_do_ev. reflexivity.
             ++ destruct (ch_eof ch).
                ** eapply same_trans; [|apply IH]. wrap x. apply same_refl.
                ** cbn [fst]. wrap (do_ev c EvPollEmpty x). apply same_do_ev. reflexivity.
          -- eapply same_trans; [|apply IH]. wrap (do_ev c EvConsume x). apply same_do_ev. reflexivity.
        * eapply same_trans; [|apply IH]. wrap x. apply same_refl.
      + destruct (hch (m x)) as [ch|].
        * destruct (ch_items ch) as [|n its].
          -- destruct (ch_err ch).
             ++ eapply same_trans; [|apply IH]. wrap (do_ev c EvTakeErr x). apply same_do_ev. reflexivity.
             ++ destruct (ch_eof ch).
                ** eapply same_trans; [|apply IH]. wrap x. apply same_refl.
                ** cbn [fst]. wrap (do_ev c EvPollEmpty x). apply same_do_ev. reflexivity.
          -- eapply same_trans; [|apply IH]. wrap (do_ev c EvConsume x). apply same_do_ev. reflexivity.
        * eapply same_trans; [|apply IH]. wrap x. apply same_refl.
      + eapply same_trans; [|apply IH]. destruct (hch (m x)).
        * wrap (do_ev c EvDrop x). apply same_do_ev. reflexivity.
        * wrap x. apply same_refl.
      + cbn [fst]. wrap x. apply same_refl.
  Qed.

  Lemma start_handler_same x : same x (start_handler x).
  Proof. unfold start_handler. cbn zeta. destruct (hs _); wrap x; apply same_refl. Qed.

  Lemma respond_same h b x : same x (respond c h b x).
  Proof. unfold respond. cbn zeta. wrap (do_ev c (EvRespond h match b with Some _ => true | None => false end) x). apply same_do_ev. reflexivity. Qed.

  Lemma send_payload_same : forall fuel x, same x (fst (send_payload c fuel x)).
  Proof.
    induction fuel as [|fuel IH]; intro x; cbn [send_payload].
    - cbn [fst]. apply same_bad with (y := x); [apply same_refl|reflexivity..].
    - destruct (wb (m x) <? c_wbs c); [|apply same_refl].
      destruct (body x) as [|[|e|t] r]; cbn [fst].
      + apply same_refl.
      + wrap x. apply same_refl.
      + eapply same_trans; [|apply IH]. wrap (do_ev c (EvBodyChunk e) x). apply same_do_ev. reflexivity.
      + wrap (do_ev c (EvBodyEnd t) x). apply same_do_ev. reflexivity.
  Qed.

  Lemma flush_loop_same : forall fuel x, same x (fst (flush_loop c fuel x)).
  Proof.
    induction fuel as [|fuel IH]; intro x; cbn [flush_loop].
    - cbn [fst]. apply same_bad with (y := x); [apply same_refl|reflexivity..].
    - destruct (0 <? wb (m x)).
      + destruct (next_ans (wscript x) WPending) as [a ws].
        destruct a as [k| | |]; cbn [fst]; try (wrap x; apply same_refl).
        destruct (N.min k (wb (m x)) =? 0); cbn [fst]; [wrap x; apply same_refl|].
        eapply same_trans; [|apply IH].
        set (x0 := set_sock (sock x) (eof x) ws (flq x) x).
        wrap (do_ev c (EvAccept (N.min k (wb (m x)))) x0).
        eapply same_trans; [|apply same_do_ev; reflexivity]. unfold x0. wrap x. apply same_refl.
      + destruct (flq x) as [|[| |] r]; cbn [fst]; wrap x; apply same_refl.
  Qed.

  (* ---- what persists through the rest of a poll ---- *)
  Definition Q (x : sim) : Prop := decodable c x = false \/ rd_disc (m x) = true \/ bad x = true.
  Definition G (x : sim) : Prop := bad x = true \/ cpl (m x) <> Some 0.
  Definition pos_head (it : item) : Prop := match it with IReq h _ => 0 < h | IEndless => True end.

  Definition P3 (x y : sim) : Prop :=
    (Q x -> Q y) /\ (G x -> G y) /\ (Forall pos_head (todo x) -> Forall pos_head (todo y)) /\ shut y = shut x.

  Lemma P3_refl x : P3 x x.
  Proof. unfold P3. auto. Qed.
  Lemma P3_trans x y z : P3 x y -> P3 y z -> P3 x z.
  Proof. unfold P3. intros (a&b&d&e) (a'&b'&d'&e'). repeat split; auto. congruence. Qed.

  Lemma same_P3 x y : same x y -> P3 x y.
  Proof.
    intros (E1&E2&E3&E4&E5&E6). unfold P3, Q, G, decodable. rewrite E1, E2, E3, E4.
    repeat split; auto.
    - intros [H|[H|H]]; auto.
    - intros [H|H]; auto.
  Qed.

  Lemma do_ev_todo e x : todo (do_ev c e x) = todo x /\ shut (do_ev c e x) = shut x /\ (bad x = true -> bad (do_ev c e x) = true).
  Proof. unfold do_ev. destruct (step c (m x) e); cbn [todo shut bad set_bad]; auto. Qed.

  Lemma do_passend_cpl x : cpl (m (do_ev c EvPassEnd x)) = cpl (m x).
  Proof.
    unfold do_ev. destruct (step c (m x) EvPassEnd) eqn:E; [|reflexivity].
    unfold step, guard in E. destruct (pass (m x)); inversion E; subst. reflexivity.
  Qed.
  Lemma do_toolarge_cpl x : cpl (m (do_ev c EvTooLarge x)) = cpl (m x).
  Proof.
    unfold do_ev. destruct (step c (m x) EvTooLarge) eqn:E; [|reflexivity].
    apply step_light in E; [|reflexivity]. cbn [m]. tauto.
  Qed.

  (* whatever it starts from, a finished decode pass never leaves the payload decoder at
     "0 bytes remaining" (the Eof item is decoded in the same pass); it only shortens the stream
     and does not touch SHUTDOWN *)
  Lemma decode_loop_G : forall fuel x u,
    let y := fst (decode_loop c fuel x u) in
    G y /\ (Forall pos_head (todo x) -> Forall pos_head (todo y)) /\ shut y = shut x.
  Proof.
    induction fuel as [|fuel IH]; intros x u; cbn zeta; cbn [decode_loop].
    - cbn [fst]. split; [left; reflexivity|]. split; auto.
    - destruct (cpl (m x)) as [rem|] eqn:Ec.
      + destruct (rem =? 0) eqn:Er.
        * destruct (IH (do_ev c EvDecodeEof (wake (tgt_task (m x)) x)) true) as (A&B&C). cbn zeta in *.
          destruct (do_ev_todo EvDecodeEof (wake (tgt_task (m x)) x)) as (T1&T2&_).
          split; [exact A|]. split; [intro H; apply B; rewrite T1; exact H|]. rewrite C, T2. reflexivity.
        * destruct (rb (m x) =? 0) eqn:Eb.
          -- cbn [fst]. destruct (do_ev_todo EvPassEnd x) as (T1&T2&_).
             split; [right; rewrite do_passend_cpl, Ec; intro X; inversion X; subst; discriminate|].
             split; [rewrite T1; auto|exact T2].
          -- set (e := EvDecodeChunk (N.min rem (rb (m x)))).
             destruct (IH (do_ev c e (wake (tgt_task (m x)) x)) true) as (A&B&C). cbn zeta in *.
             destruct (do_ev_todo e (wake (tgt_task (m x)) x)) as (T1&T2&_).
             split; [exact A|]. split; [intro H; apply B; rewrite T1; exact H|]. rewrite C, T2. reflexivity.
      + assert (PE : let y := do_ev c EvPassEnd x in
                     G y /\ (Forall pos_head (todo x) -> Forall pos_head (todo y)) /\ shut y = shut x).
        { cbn zeta. destruct (do_ev_todo EvPassEnd x) as (T1&T2&_).
          split; [right; rewrite do_passend_cpl, Ec; discriminate|]. split; [rewrite T1; auto|exact T2]. }
        assert (TL : let y := set_shut_err (shut x) true (do_ev c EvTooLarge x) in
                     G y /\ (Forall pos_head (todo x) -> Forall pos_head (todo y)) /\ shut y = shut x).
        { cbn zeta. destruct (do_ev_todo EvTooLarge x) as (T1&T2&_).
          split; [right; change (cpl (m (do_ev c EvTooLarge x)) <> Some 0); rewrite do_toolarge_cpl, Ec; discriminate|].
          split; [change (Forall pos_head (todo x) -> Forall pos_head (todo (do_ev c EvTooLarge x))); rewrite T1; auto|reflexivity]. }
        destruct (todo x) as [|[hlen b|] todo'] eqn:Et; [exact PE| |].
        * destruct (hlen <=? rb (m x)).
          -- set (x1 := set_todo todo' (do_ev c (EvDecodeHead hlen b) x)).
             assert (X1 : (Forall pos_head (IReq hlen b :: todo') -> Forall pos_head (todo x1)) /\ shut x1 = shut x).
             { split; [intro H; inversion H; assumption|]. unfold x1. destruct (do_ev_todo (EvDecodeHead hlen b) x) as (_&T2&_). exact T2. }
             destruct X1 as [X1 X2].
             destruct (state (m x)).
             ++ pose proof (start_handler_same x1) as S1.
                pose proof (run_handler_same (handler_fuel (start_handler x1)) (start_handler x1)) as S2.
                destruct (run_handler c (handler_fuel (start_handler x1)) (start_handler x1)) as [x3 r] eqn:Er.
                cbn [fst] in S2.
                set (x4 := match r with Some (h, bd) => respond c h bd x3 | None => x3 end).
                assert (S3 : same x1 x4).
                { eapply same_trans; [exact S1|]. eapply same_trans; [exact S2|].
                  unfold x4. destruct r as [[h bd]|]; [apply respond_same|apply same_refl]. }
                destruct S3 as (_&_&E3&E4&_).
                destruct (IH x4 true) as (A&B&C). cbn zeta in *.
                split; [exact A|]. split; [intro H; apply B; rewrite E3; apply X1; exact H|]. rewrite C, E4, X2. reflexivity.
             ++ destruct (IH x1 true) as (A&B&C). cbn zeta in *.
                split; [exact A|]. split; [intro H; apply B, X1, H|]. rewrite C, X2. reflexivity.
             ++ destruct (IH x1 true) as (A&B&C). cbn zeta in *.
                split; [exact A|]. split; [intro H; apply B, X1, H|]. rewrite C, X2. reflexivity.
          -- destruct (c_maxb c <=? rb (m x)); cbn [fst]; [exact TL|exact PE].
        * destruct (c_maxb c <=? rb (m x)); cbn [fst]; [exact TL|exact PE].
  Qed.

  (* poll_request: either the gates are closed and nothing relevant moves, or a complete pass ran *)
  Lemma poll_request_P3 x :
    let y := fst (poll_request c x) in
    P3 x y /\ ((c_maxp c <=? lenN (q (m x))) = false -> can_read (m x) = true -> Q y).
  Proof.
    cbn zeta. unfold poll_request.
    set (x1 := if rd_disc (m x) then x else do_ev c EvNeedRead x).
    assert (S1 : same x x1).
    { unfold x1. destruct (rd_disc (m x)); [apply same_refl|apply same_do_ev; reflexivity]. }
    destruct ((c_maxp c <=? lenN (q (m x))) || negb (can_read (m x))) eqn:Eg.
    - cbn [fst]. split; [apply same_P3, S1|]. intros A B. rewrite A, B in Eg. discriminate.
    - set (n := (4 + 2 * length (todo x))%nat).
      pose proof (decode_loop_complete c n (do_ev c EvGate x1) false) as HQ. cbn zeta in HQ.
      destruct (decode_loop_G n (do_ev c EvGate x1) false) as (A&B&C). cbn zeta in A, B, C.
      destruct (do_ev_todo EvGate x1) as (T1&T2&_). destruct S1 as (_&_&E3&E4&_).
      assert (HQ' : Q (fst (decode_loop c n (do_ev c EvGate x1) false))) by exact HQ.
      split; [|intros _ _; exact HQ'].
      unfold P3. split; [intros _; exact HQ'|]. split; [intros _; exact A|].
      split; [intro H; apply B; rewrite T1, E3; exact H|]. rewrite C, T2, E4. reflexivity.
  Qed.

  Lemma poll_response_P3 : forall fuel x, P3 x (fst (poll_response c fuel x)).
  Proof.
    induction fuel as [|fuel IH]; intro x; cbn [poll_response].
    - cbn [fst]. apply same_P3. apply same_bad with (y := x); [apply same_refl|reflexivity..].
    - destruct (state (m x)).
      + destruct (q (m x)) as [|[ch|] q'].
        * apply P3_refl.
        * eapply P3_trans; [|apply IH]. apply same_P3.
          eapply same_trans; [apply (same_do_ev EvPop); reflexivity|apply start_handler_same].
        * eapply P3_trans; [|apply IH]. apply same_P3. apply same_do_ev. reflexivity.
      + pose proof (run_handler_same (handler_fuel x) x) as S1.
        destruct (run_handler c (handler_fuel x) x) as [x1 r]. cbn [fst] in S1.
        destruct r as [[h b]|].
        * eapply P3_trans; [|apply IH]. apply same_P3. eapply same_trans; [exact S1|apply respond_same].
        * destruct (poll_request_P3 x1) as [S2 _]. cbn zeta in S2.
          destruct (poll_request c x1) as [x2 upd]. cbn [fst] in S2.
          assert (S3 : P3 x x2) by (eapply P3_trans; [apply same_P3, S1|exact S2]).
          destruct upd; [eapply P3_trans; [exact S3|apply IH]|exact S3].
      + pose proof (send_payload_same (S (length (body x))) x) as S1.
        destruct (send_payload c (S (length (body x))) x) as [x1 o]. cbn [fst] in S1.
        destruct o; cbn [fst]; try (apply same_P3; exact S1).
        eapply P3_trans; [apply same_P3, S1|apply IH].
  Qed.

  Lemma resp_flush_loop_P3 : forall fuel x,
    P3 x (fst (resp_flush_loop c F fuel x)) /\
    (snd (resp_flush_loop c F fuel x) = None \/ snd (resp_flush_loop c F fuel x) = Some PFailIo).
  Proof.
    induction fuel as [|fuel IH]; intro x; cbn [resp_flush_loop].
    - cbn [fst snd]. split; [|left; reflexivity]. apply same_P3. apply same_bad with (y := x); [apply same_refl|reflexivity..].
    - pose proof (poll_response_P3 F x) as S1.
      destruct (poll_response c F x) as [x1 drain]. cbn [fst] in S1.
      pose proof (flush_loop_same (S (length (wscript x1))) x1) as S2. unfold poll_flush_c.
      destruct (flush_loop c (S (length (wscript x1))) x1) as [x2 fr]. cbn [fst] in S2.
      assert (S3 : P3 x x2) by (eapply P3_trans; [exact S1|apply same_P3, S2]).
      destruct fr; cbn [fst snd]; auto.
      destruct drain; cbn [fst snd]; auto.
      destruct (IH x2) as [A B]. split; [eapply P3_trans; [exact S3|exact A]|exact B].
  Qed.
End S.

Section Wake.
  Variable c : cfg.
  Variable F : nat.

  (* read_available only appends to read_buf *)
  Definition same0 (x y : sim) : Prop :=
    cpl (m y) = cpl (m x) /\ todo y = todo x /\ shut y = shut x /\ (bad x = true -> bad y = true).

  Lemma same_same0 x y : same x y -> same0 x y.
  Proof. intros (_&A&B&C&_&D). repeat split; auto. Qed.
  Lemma same0_trans x y z : same0 x y -> same0 y z -> same0 x z.
  Proof. intros (a&b&d&e) (a'&b'&d'&e'). repeat split; try congruence; auto. Qed.

  Lemma do_read_same0 n x : same0 x (do_ev c (EvRead n) x).
  Proof.
    unfold do_ev. destruct (step c (m x) (EvRead n)) eqn:E.
    - unfold step, guard in E. destruct (_ && _); inversion E; subst. repeat split; auto.
    - repeat split; auto.
  Qed.

  Lemma read_loop_same0 : forall fuel x, same0 x (fst (read_loop c fuel x)).
  Proof.
    induction fuel as [|fuel IH]; intro x; cbn [read_loop].
    - cbn [fst]. repeat split; auto.
    - destruct (c_maxb c <=? rb (m x)).
      + cbn [fst]. apply same_same0.
        apply same_ext with (y := do_ev c EvNeedRead x); [apply same_do_ev|..]; reflexivity.
      + destruct (0 <? sock x).
        * eapply same0_trans; [|apply IH].
          destruct (do_read_same0 (N.min (sock x) (c_r c)) x) as (a&b&d&e). repeat split; auto.
        * destruct (eof x); cbn [fst]; repeat split; auto.
  Qed.

  Lemma read_available_same0 x : same0 x (fst (read_available_c c x)).
  Proof.
    unfold read_available_c. destruct (rd_disc (m x)); [repeat split; auto|apply read_loop_same0].
  Qed.

  Lemma do_eof_P3 x : P3 c x (do_ev c EvEof x).
  Proof.
    unfold do_ev. destruct (step c (m x) EvEof) as [s'|] eqn:E.
    - unfold step, guard in E. destruct (negb (pass (m x))); inversion E; subst. clear E.
      unfold P3, Q, G. cbn [m todo shut bad]. repeat split; auto; try (intros _; right; left; reflexivity).
      intros _. right. destruct (cpl (m x)) eqn:Ec; proj; [discriminate|rewrite Ec; discriminate].
    - unfold P3, Q, G, set_bad. cbn [m todo shut bad]. repeat split; auto.
  Qed.

  (* a decodable message in a well-formed state needs at least one byte in read_buf *)
  Lemma decodable_needs_bytes y :
    0 < c_maxb c -> G y -> bad y = false -> Forall (pos_head) (todo y) ->
    decodable c y = true -> (rb (m y) =? 0) = false.
  Proof.
    intros Hm [Hb|Hg] Hbad Hp Hd; [congruence|]. unfold decodable in Hd.
    destruct (cpl (m y)) as [rem|].
    - destruct (rem =? 0) eqn:E; [exfalso; apply Hg; f_equal; lia|]. cbn [orb] in Hd. lia.
    - destruct (todo y) as [|[h b|] t]; try discriminate.
      + inversion Hp as [|? ? Hh _]; subst. cbn [pos_head] in Hh. lia.
      + lia.
  Qed.

  (* the environment change of a round, as in [poll] *)
  Definition env (x : sim) (r : round) : sim :=
    set_hreg false (set_out false false false
      (set_hw (if r_hw r then hwc x + 1 else hwc x) (ticket x)
         (set_sock (sock x + r_add r) (eof x || r_eof r) (wscript x ++ r_wr r) (flq x ++ r_fl r) x))).
  (* the state poll_request sees at the top of the poll *)
  Definition at_poll_request (x : sim) (r : round) : sim := fst (read_available_c c (env x r)).

  (* (1) NO LOST WAKE-UP for the internal source, repaired dispatcher.
     For every poll of the composer that returns Pending: if a decodable message sits in read_buf
     behind open gates, the task has woken itself -- provided the request-body gate was not the
     closed one when poll_request ran at the top of the poll (payload not Paused). *)
  Theorem no_lost_decode_wake x r x' :
    c_fix28 c = false -> c_fix21 c = true -> 0 < c_maxb c ->
    shut x = false -> cpl (m x) <> Some 0 -> Forall pos_head (todo x) ->
    poll c F x r = (x', PPend) -> bad x' = false ->
    need_read_status (m (at_poll_request x r)) <> Some PPause ->
    stall_source c x' = true -> o_wake x' = true.
  Proof.
    intros H28 Hfix Hmaxb Hshut Hcpl Hpos Hpoll Hbad Hnp Hstall.
    unfold poll in Hpoll. fold (env x r) in Hpoll.
    change (shut (env x r)) with (shut x) in Hpoll. rewrite Hshut in Hpoll.
    unfold at_poll_request in Hnp. unfold poll_normal in Hpoll.
    destruct (c_fix28 c); [discriminate H28|]. cbv beta iota in Hpoll.
    pose proof (read_available_same0 (env x r)) as S0.
    destruct (read_available_c c (env x r)) as [x1 sd]. cbn [fst] in S0, Hnp.
    destruct S0 as (C1&T1&Sh1&_).
    destruct (poll_request_P3 c x1) as [P12 Hopen]. cbn zeta in P12, Hopen.
    destruct (poll_request c x1) as [x2 u]. cbn [fst] in P12, Hopen.
    set (x3 := if sd then do_ev c EvEof (wake (tgt_task (m x2)) x2) else x2) in *.
    assert (P23 : P3 c x2 x3).
    { unfold x3. destruct sd; [|apply P3_refl].
      eapply P3_trans; [|apply do_eof_P3]. apply same_P3.
      apply same_ext with (y := x2); [apply same_refl|reflexivity..]. }
    destruct (resp_flush_loop_P3 c F F x3) as [P34 Hfail].
    destruct (resp_flush_loop c F F x3) as [x4 fail]. cbn [fst snd] in P34, Hfail.
    assert (P14 : P3 c x1 x4) by (eapply P3_trans; [exact P12|eapply P3_trans; [exact P23|exact P34]]).
    destruct Hfail as [->| ->]; [|inversion Hpoll].
    assert (HQ24 : Q c x2 -> Q c x4).
    { intro H. destruct P34 as (A&_). destruct P23 as (B&_). auto. }
    destruct P14 as (HQ&HG&HP&HS).
    assert (G1 : G x1) by (right; rewrite C1; exact Hcpl).
    assert (Pz1 : Forall pos_head (todo x1)) by (rewrite T1; exact Hpos).
    assert (Sh4 : shut x4 = false) by (rewrite HS, Sh1; exact Hshut).
    set (none := match state (m x4) with SNone => true | _ => false end) in *.
    set (x5 := if rd_disc (m x4) && none then set_shut_err true (err x4) x4 else x4) in *.
    assert (M5 : m x5 = m x4 /\ todo x5 = todo x4 /\ bad x5 = bad x4).
    { unfold x5. destruct (rd_disc (m x4) && none); repeat split; reflexivity. }
    destruct M5 as (M5&T5&B5).
    destruct (none && (wb (m x5) =? 0) && err x5); [inversion Hpoll|].
    destruct (none && (wb (m x5) =? 0) && shut x5) eqn:Esh.
    - (* shutdown branch returned Pending: READ_DISCONNECT is set, the source is absent *)
      exfalso.
      assert (Hs5 : shut x5 = true) by (destruct (shut x5); [reflexivity|rewrite andb_false_r in Esh; discriminate]).
      assert (Hrd : rd_disc (m x4) = true).
      { unfold x5 in Hs5. destruct (rd_disc (m x4) && none) eqn:E; [|congruence].
        destruct (rd_disc (m x4)); [reflexivity|discriminate]. }
      unfold poll_shutdown_branch, poll_flush_c in Hpoll.
      pose proof (flush_loop_same c (S (length (wscript x5))) x5) as Sf.
      destruct (flush_loop c (S (length (wscript x5))) x5) as [x6 fr]. cbn [fst] in Sf.
      assert (x6 = x') by (destruct fr; inversion Hpoll; reflexivity). subst x6.
      destruct Sf as (_&_&_&_&Rd&_). rewrite M5 in Rd. specialize (Rd Hrd).
      rewrite stall_source_eq in Hstall. unfold can_read in Hstall. rewrite Rd in Hstall.
      cbn [negb andb] in Hstall. rewrite andb_false_r in Hstall. discriminate.
    - inversion Hpoll as [Hx']. clear Hpoll.
      assert (Hw : o_wake x' = o_wake x5 || (shut x5 || (c_fix21 c && (c_maxp c <=? lenN (q (m x1)))
                     && (lenN (q (m x5)) <? c_maxp c) && negb (rb (m x5) =? 0)))) by (rewrite <- Hx'; reflexivity).
      assert (Hm' : m x' = m x4 /\ todo x' = todo x4 /\ bad x' = bad x4).
      { rewrite <- Hx'. cbn. rewrite M5, T5, B5. auto. }
      destruct Hm' as (Mx&Tx&Bx).
      assert (Hst4 : stall_source c x4 = true).
      { rewrite stall_source_eq in *. unfold decodable in *. rewrite Mx, Tx in Hstall. exact Hstall. }
      rewrite Bx in Hbad.
      rewrite stall_source_eq in Hst4.
      apply andb_true_iff in Hst4 as [Hst4 Hdec]. apply andb_true_iff in Hst4 as [Hq4 Hcr4].
      assert (Hnrd : rd_disc (m x4) = false).
      { unfold can_read in Hcr4. destruct (rd_disc (m x4)); [discriminate|reflexivity]. }
      assert (NQ4 : ~ Q c x4).
      { intros [H|[H|H]]; congruence. }
      rewrite Hx', Hw. destruct (c_maxp c <=? lenN (q (m x1))) eqn:Efull.
      + (* the queue was full when poll_request ran: the repair's self-wake fires *)
        assert (Hrb : (rb (m x4) =? 0) = false).
        { apply decodable_needs_bytes; auto. }
        rewrite Hfix, M5, Hq4, Hrb. cbn. rewrite !orb_true_r. reflexivity.
      + (* the queue gate was open: a complete decode pass ran, or the read side was closed *)
        exfalso. apply NQ4.
        destruct (can_read (m x1)) eqn:Ecr; [apply HQ24, Hopen; auto|].
        apply HQ. right; left. unfold can_read in Ecr.
        destruct (rd_disc (m x1)); [reflexivity|]. cbn [negb andb] in Ecr.
        destruct (need_read_status (m x1)) as [[| |]|]; try discriminate. exfalso. apply Hnp. reflexivity.
  Qed.
End Wake.

Section WF.
  Variable c : cfg.
  Variable F : nat.

  (* the well-formedness premises of [no_lost_decode_wake] are invariants of [poll]: they hold
     for every state the composer reaches from [sim_init] over a stream with non-empty heads *)
  Lemma poll_preserves_wf x r x' p :
    poll c F x r = (x', p) -> G x -> Forall pos_head (todo x) ->
    G x' /\ Forall pos_head (todo x').
  Proof.
    intros Hpoll HG HP. unfold poll in Hpoll. fold (env x r) in Hpoll.
    assert (G0 : G (env x r)) by exact HG.
    assert (P0 : Forall pos_head (todo (env x r))) by exact HP.
    destruct (shut (env x r)).
    - unfold poll_shutdown_branch, poll_flush_c in Hpoll.
      pose proof (flush_loop_same c (S (length (wscript (env x r)))) (env x r)) as Sf.
      destruct (flush_loop c (S (length (wscript (env x r)))) (env x r)) as [y fr]. cbn [fst] in Sf.
      assert (y = x') by (destruct fr; inversion Hpoll; reflexivity). subst y.
      destruct (same_P3 c _ _ Sf) as (_&A&B&_). auto.
    - unfold poll_normal in Hpoll.
      pose proof (read_available_same0 c (env x r)) as S0.
      destruct (read_available_c c (env x r)) as [x1 sd]. cbn [fst] in S0.
      destruct S0 as (C1&T1&_&B1).
      assert (G1 : G x1) by (destruct G0 as [A|A]; [left; auto|right; rewrite C1; exact A]).
      assert (P1 : Forall pos_head (todo x1)) by (rewrite T1; exact P0).
      destruct (poll_request_P3 c x1) as [P12 _]. cbn zeta in P12.
      destruct (poll_request c x1) as [x2 u]. cbn [fst] in P12.
      set (x3 := if sd then do_ev c EvEof (wake (tgt_task (m x2)) x2) else x2) in *.
      assert (P23 : P3 c x2 x3).
      { unfold x3. destruct sd; [|apply P3_refl].
        eapply P3_trans; [|apply do_eof_P3]. apply same_P3.
        apply same_ext with (y := x2); [apply same_refl|reflexivity..]. }
      destruct (resp_flush_loop_P3 c F F x3) as [P34 _].
      destruct (resp_flush_loop c F F x3) as [x4r fail]. cbn [fst] in P34.
      set (x4 := if c_fix28 c then (if rd_disc (m x4r) then x4r else do_ev c EvNeedRead x4r) else x4r) in *.
      assert (P44 : P3 c x4r x4).
      { apply same_P3. unfold x4. destruct (c_fix28 c); [|apply same_refl].
        destruct (rd_disc (m x4r)); [apply same_refl|apply same_do_ev; reflexivity]. }
      assert (P14r : P3 c x1 x4r) by (eapply P3_trans; [exact P12|eapply P3_trans; [exact P23|exact P34]]).
      assert (P14 : P3 c x1 x4) by (eapply P3_trans; [exact P14r|exact P44]).
      destruct P14 as (_&HG4&HP4&_). specialize (HG4 G1). specialize (HP4 P1).
      destruct fail as [rr|].
      { destruct P14r as (_&A&B&_). inversion Hpoll; subst; auto. }
      set (none := match state (m x4) with SNone => true | _ => false end) in *.
      set (x5 := if rd_disc (m x4) && none then set_shut_err true (err x4) x4 else x4) in *.
      assert (G5 : G x5 /\ Forall pos_head (todo x5)).
      { unfold x5. destruct (rd_disc (m x4) && none); split; assumption. }
      destruct G5 as [G5 P5].
      destruct (none && (wb (m x5) =? 0) && err x5); [inversion Hpoll; subst; auto|].
      destruct (none && (wb (m x5) =? 0) && shut x5).
      + unfold poll_shutdown_branch, poll_flush_c in Hpoll.
        pose proof (flush_loop_same c (S (length (wscript x5))) x5) as Sf.
        destruct (flush_loop c (S (length (wscript x5))) x5) as [y fr]. cbn [fst] in Sf.
        assert (y = x') by (destruct fr; inversion Hpoll; reflexivity). subst y.
        destruct (same_P3 c _ _ Sf) as (_&A&B&_). auto.
      + inversion Hpoll; subst. split; assumption.
  Qed.
End WF.

Section Term.
  Variable c : cfg.
  Variable F : nat.

  (* fields the shutdown epilogue looks at *)
  Definition frame (x y : sim) : Prop :=
    rd_disc (m y) = rd_disc (m x) /\ state (m y) = state (m x) /\ q (m y) = q (m x) /\
    err y = err x /\ shut y = shut x.

  Lemma do_accept_fields n x : n <= wb (m x) ->
    let y := do_ev c (EvAccept n) x in
    frame x y /\ wb (m y) = wb (m x) - n /\ wscript y = wscript x /\ flq y = flq x.
  Proof.
    intro H. cbn zeta. unfold do_ev, step, guard.
    assert (E : n <=? wb (m x) = true) by lia. rewrite E.
    unfold frame. cbn [m err shut wscript flq]. proj. repeat split; reflexivity.
  Qed.

  Definition acc_script (ws : list wans) : Prop := exists k, 0 < k /\ ws = [WAccept k].

  Lemma flush_spec x :
    flq x = [] -> (wscript x = [] \/ acc_script (wscript x)) ->
    let '(y, fr) := poll_flush_c c x in
    frame x y /\ flq y = [] /\ (wscript y = [] \/ acc_script (wscript y)) /\ wb (m y) <= wb (m x) /\
    ((fr = FlReady /\ wb (m y) = 0) \/ (fr = FlPending /\ 0 < wb (m y) /\ wscript y = [])) /\
    (acc_script (wscript x) -> 0 < wb (m x) -> wb (m y) < wb (m x)).
  Proof.
    intros Hf Hw. unfold poll_flush_c.
    destruct Hw as [Hw|(k & Hk & Hw)]; rewrite Hw; cbn [length flush_loop].
    - destruct (0 <? wb (m x)) eqn:E.
      + rewrite Hw. cbn [next_ans]. unfold frame. cbn [m err shut flq wscript set_out set_sock].
        split; [repeat split; auto|]. split; [exact Hf|]. split; [left; reflexivity|]. split; [lia|].
        split; [right; repeat split; auto; lia|]. intros (k & _ & X). discriminate.
      + rewrite Hf. unfold frame. cbn [m err shut flq wscript set_sock tl].
        split; [repeat split; auto|]. split; [reflexivity|]. split; [left; exact Hw|]. split; [lia|].
        split; [left; split; [reflexivity|lia]|]. intros (k & _ & X). try rewrite Hw in X. discriminate.
    - destruct (0 <? wb (m x)) eqn:E.
      + rewrite Hw. cbn [next_ans].
        assert (Z : N.min k (wb (m x)) =? 0 = false) by lia. rewrite Z.
        set (x0 := set_sock (sock x) (eof x) [] (flq x) x).
        assert (Hle : N.min k (wb (m x)) <= wb (m x0)) by (unfold x0; cbn [m set_sock]; lia).
        destruct (do_accept_fields (N.min k (wb (m x))) x0 Hle) as (Fr & Wb & Ws & Fq). cbn zeta in *.
        set (x1 := do_ev c (EvAccept (N.min k (wb (m x)))) x0) in *.
        set (x2 := set_counts (taken x1) (started x1) (delivered x1) (pulled x1)
                              (accepted x1 + N.min k (wb (m x))) x1).
        assert (M2 : m x2 = m x1) by reflexivity.
        assert (W2 : wscript x2 = []) by (unfold x2; cbn [wscript set_counts]; rewrite Ws; reflexivity).
        assert (F2 : flq x2 = []) by (unfold x2; cbn [flq set_counts]; rewrite Fq; unfold x0; cbn [flq set_sock]; exact Hf).
        assert (Wx0 : wb (m x0) = wb (m x)) by reflexivity.
        destruct Fr as (a&b&d&e&g).
        assert (FR2 : frame x x2 /\ wb (m x2) = wb (m x) - N.min k (wb (m x))).
        { unfold frame. rewrite M2. change (err x2) with (err x1). change (shut x2) with (shut x1).
          rewrite a, b, d, e, g, Wb. unfold x0. cbn [m err shut set_sock]. repeat split; reflexivity. }
        destruct FR2 as (FR2 & WB2).
        rewrite M2. destruct (0 <? wb (m x1)) eqn:E2; rewrite <- M2 in E2.
        * rewrite W2. cbn [next_ans].
          change (m (set_out (o_rreg (set_sock (sock x2) (eof x2) [] (flq x2) x2)) true
                     (o_wake (set_sock (sock x2) (eof x2) [] (flq x2) x2))
                     (set_sock (sock x2) (eof x2) [] (flq x2) x2))) with (m x2).
          split; [exact FR2|]. split; [exact F2|]. split; [left; reflexivity|]. split; [lia|]. split; [|intros; lia].
          right. repeat split; auto. lia.
        * rewrite F2. cbn [tl].
          split; [exact FR2|]. split; [reflexivity|]. split; [left; exact W2|].
          change (m (set_sock (sock x2) (eof x2) (wscript x2) [] x2)) with (m x2).
          split; [lia|]. split; [|intros; lia]. left. split; [reflexivity|lia].
      + rewrite Hf. unfold frame. cbn [m err shut flq wscript set_sock tl].
        split; [repeat split; auto|]. split; [reflexivity|]. split; [right; exists k; auto|]. split; [lia|].
        split; [left; split; [reflexivity|lia]|]. intros _ X. lia.
  Qed.

  Definition acc_round (r : round) : bool :=
    match r_wr r, r_fl r with [WAccept k], [] => 0 <? k | _, _ => false end.
  Definition idle_round (r : round) : bool :=
    match r_wr r, r_fl r with [], [] => true | _, _ => false end.
  (* the peer's EOF has been processed, no request is running or queued, no error to surface,
     no socket answers left over: only write_buf remains *)
  Definition Tail (x : sim) : Prop :=
    rd_disc (m x) = true /\ state (m x) = SNone /\ q (m x) = [] /\ err x = false /\
    wscript x = [] /\ flq x = [].

  Lemma round_cases r : acc_round r || idle_round r = true ->
    r_fl r = [] /\ ((r_wr r = [] /\ acc_round r = false) \/ (acc_script (r_wr r) /\ acc_round r = true)).
  Proof.
    unfold acc_round, idle_round, acc_script. destruct (r_wr r) as [|[k| | |] [|? ?]]; destruct (r_fl r); cbn;
      intro H; try discriminate; split; auto.
    destruct (0 <? k) eqn:E; [|discriminate]. right. split; [exists k; split; [lia|reflexivity]|reflexivity].
  Qed.

  Lemma shutdown_branch_tail x :
    rd_disc (m x) = true -> state (m x) = SNone -> q (m x) = [] -> err x = false ->
    flq x = [] -> (wscript x = [] \/ acc_script (wscript x)) ->
    let '(x', p) := poll_shutdown_branch c x in
    p = PDone \/
    (p = PPend /\ Tail x' /\ 0 < wb (m x) /\ wb (m x') <= wb (m x) /\
     (acc_script (wscript x) -> wb (m x') < wb (m x))).
  Proof.
    intros H1 H2 H3 H4 Hf Hw. unfold poll_shutdown_branch.
    pose proof (flush_spec x Hf Hw) as S.
    destruct (poll_flush_c c x) as [y fr].
    destruct S as ((a&b&d&e&_) & Fy & _ & Le & Hr & Hlt).
    destruct Hr as [[-> _]|(-> & Hpos & Wy)]; [left; reflexivity|right].
    split; [reflexivity|]. split; [unfold Tail; rewrite a, b, d, e; repeat split; auto|].
    split; [lia|]. split; [exact Le|]. intro A. apply Hlt; [exact A|lia].
  Qed.

  Lemma fix28_id y : rd_disc (m y) = true ->
    (if c_fix28 c then (if rd_disc (m y) then y else do_ev c EvNeedRead y) else y) = y.
  Proof. intro H. rewrite H. destruct (c_fix28 c); reflexivity. Qed.

  Lemma tail_poll x r :
    (1 <= F)%nat -> Tail x -> acc_round r || idle_round r = true ->
    let '(x', p) := poll c F x r in
    p = PDone \/
    (p = PPend /\ Tail x' /\ 0 < wb (m x) /\ wb (m x') <= wb (m x) /\
     (acc_round r = true -> wb (m x') < wb (m x))).
  Proof.
    intros HF (H1&H2&H3&H4&H5&H6) Hr.
    destruct (round_cases r Hr) as [Rf Rw].
    unfold poll.
    set (x0 := set_hreg false (set_out false false false
                 (set_hw (if r_hw r then hwc x + 1 else hwc x) (ticket x)
                    (set_sock (sock x + r_add r) (eof x || r_eof r) (wscript x ++ r_wr r) (flq x ++ r_fl r) x)))).
    assert (M0 : m x0 = m x) by reflexivity.
    assert (W0 : wscript x0 = r_wr r) by (unfold x0; cbn [wscript set_hreg set_out set_hw set_sock]; rewrite H5; reflexivity).
    assert (F0 : flq x0 = []) by (unfold x0; cbn [flq set_hreg set_out set_hw set_sock]; rewrite H6, Rf; reflexivity).
    assert (E0 : err x0 = false) by exact H4.
    assert (Ws0 : wscript x0 = [] \/ acc_script (wscript x0)) by (rewrite W0; tauto).
    assert (Acc : acc_script (wscript x0) <-> acc_round r = true).
    { rewrite W0. destruct Rw as [[A B]|[A B]]; rewrite B; split; auto; try discriminate.
      intros (k & _ & X). rewrite A in X. discriminate. }
    change (shut x0) with (shut x). destruct (shut x) eqn:Hs.
    - pose proof (shutdown_branch_tail x0 H1 H2 H3 E0 F0 Ws0) as S.
      destruct (poll_shutdown_branch c x0) as [x' p]. change (m x0) with (m x) in S.
      destruct S as [S|(S1&S2&S3&S4&S5)]; [left; exact S|right].
      split; [exact S1|]. split; [exact S2|]. split; [exact S3|]. split; [exact S4|]. intro A. apply S5, Acc, A.
    - unfold poll_normal, read_available_c. rewrite M0, H1.
      unfold poll_request. rewrite M0, H1.
      assert (Cr : can_read (m x) = false) by (unfold can_read; rewrite H1; reflexivity).
      rewrite Cr. cbn [negb]. rewrite orb_true_r.
      destruct F as [|f]; [lia|]. cbn [resp_flush_loop poll_response]. rewrite M0, H2, H3.
      pose proof (flush_spec x0 F0 Ws0) as S.
      destruct (poll_flush_c c x0) as [y fr].
      destruct S as ((a&b&d&e&g) & Fy & Wy & Le & Hres & Hlt). rewrite M0 in *.
      assert (N5 : forall z, m z = m y -> match state (m z) with SNone => true | _ => false end = true)
        by (intros z Ez; rewrite Ez, b, H2; reflexivity).
      assert (Ry : rd_disc (m y) = true) by (rewrite a; exact H1).
      destruct Hres as [[-> Wz]|(-> & Hpos & Wy')].
      + (* flushed completely: the epilogue re-enters through the shutdown branch *)
        cbn [fst snd]. rewrite !(fix28_id y Ry). rewrite (N5 y eq_refl), a, H1. cbn [andb].
        set (x5 := set_shut_err true (err y) y).
        assert (M5 : m x5 = m y) by reflexivity. rewrite M5.
        assert (Z : wb (m y) =? 0 = true) by (clear - Wz; lia). rewrite Z.
        change (err x5) with (err y). change (shut x5) with true. rewrite e, E0. cbn [andb].
        assert (R5 : rd_disc (m x5) = true) by (rewrite M5, a; exact H1).
        assert (S5' : state (m x5) = SNone) by (rewrite M5, b; exact H2).
        assert (Q5 : q (m x5) = []) by (rewrite M5, d; exact H3).
        assert (E5 : err x5 = false) by (change (err x5) with (err y); rewrite e; exact E0).
        pose proof (shutdown_branch_tail x5 R5 S5' Q5 E5 Fy Wy) as S.
        destruct (poll_shutdown_branch c x5) as [x' p]. change (m x5) with (m y) in S.
        destruct S as [S|(_&_&S3&_)]; [left; exact S|exfalso; clear - S3 Wz; lia].
      + cbn [fst snd]. rewrite !(fix28_id y Ry). rewrite (N5 y eq_refl), a, H1. cbn [andb].
        set (x5 := set_shut_err true (err y) y).
        assert (M5 : m x5 = m y) by reflexivity. rewrite M5.
        assert (Z : wb (m y) =? 0 = false) by (clear - Hpos; lia). rewrite Z. cbn [andb].
        right. split; [reflexivity|].
        split; [unfold Tail, x5; cbn [m err wscript flq wake set_out set_shut_err]; rewrite a, b, d; repeat split; auto; rewrite e; exact E0|].
        unfold x5; cbn [m wake set_out set_shut_err]. split; [clear - Hpos Le; lia|]. split; [exact Le|]. intro A. apply Hlt; [apply Acc, A|clear - Hpos Le; lia].
  Qed.

  Fixpoint count_acc (rs : list round) : N :=
    match rs with [] => 0 | r :: rest => (if acc_round r then 1 else 0) + count_acc rest end.

  (* (2) TERMINATION AFTER EOF.  From a state in which the peer's EOF has been processed and no
     request is running or queued, against a socket that is idle or accepts at least one byte per
     round, the connection future completes (Ready(Ok)) no later than the round with the
     (|write_buf| + 1)-th accepting answer. *)
  Theorem terminates_after_eof : forall rs x,
    (1 <= F)%nat -> Tail x -> Forall (fun r => acc_round r || idle_round r = true) rs ->
    wb (m x) < count_acc rs ->
    snd (polls c F x rs) = PDone.
  Proof.
    induction rs as [|r rest IH]; intros x HF HT Hall Hc; [cbn in Hc; lia|].
    inversion Hall as [|? ? Hr Hrest]; subst. cbn [polls].
    pose proof (tail_poll x r HF HT Hr) as S.
    destruct (poll c F x r) as [x1 p].
    destruct S as [->|(-> & T1 & Hpos & Hle & Hlt)].
    - destruct rest; reflexivity.
    - assert (Hc' : wb (m x1) < count_acc rest).
      { cbn [count_acc] in Hc. destruct (acc_round r) eqn:E; [specialize (Hlt eq_refl)|]; lia. }
      destruct rest as [|r' rest']; [cbn in Hc'; lia|]. apply IH; auto.
  Qed.

  (* explicit bound: |write_buf| + 1 accepting rounds suffice *)
  Corollary terminates_within x rs :
    (1 <= F)%nat -> Tail x -> Forall (fun r => acc_round r = true) rs -> lenN rs = wb (m x) + 1 ->
    snd (polls c F x rs) = PDone.
  Proof.
    intros HF HT Hall Hlen. apply terminates_after_eof; auto.
    - eapply Forall_impl; [|exact Hall]. intros r H. rewrite H. reflexivity.
    - assert (E : count_acc rs = lenN rs).
      { clear Hlen. induction rs as [|r rest IH]; [reflexivity|]. inversion Hall; subst.
        cbn [count_acc]. rewrite H1, IH by assumption. unfold lenN. cbn [length]. lia. }
      lia.
  Qed.
End Term.

Section ErrFlush.
  Variable c : cfg.
  Variable F : nat.

  (* the epilogue guard of Dispatcher::poll: the stored stream error (`inner.error`, here the
     Parse(TooLarge) that accompanies a queued 431) is surfaced only under
     `state_is_none && write_buf.is_empty()`: when the future resolves with that error nothing
     is left unflushed.  (The other failing result, PFailIo, is a failure of the write side.) *)
  Theorem error_only_after_flush x r x' :
    poll c F x r = (x', PFailTooLarge) -> wb (m x') = 0 /\ state (m x') = SNone.
  Proof.
    unfold poll. fold (env x r).
    destruct (shut (env x r)).
    - unfold poll_shutdown_branch. destruct (poll_flush_c c (env x r)) as [y fr].
      destruct fr; intro H; inversion H.
    - unfold poll_normal.
      destruct (read_available_c c (env x r)) as [x1 sd].
      destruct (poll_request c x1) as [x2 u].
      set (x3 := if sd then do_ev c EvEof (wake (tgt_task (m x2)) x2) else x2).
      destruct (resp_flush_loop_P3 c F F x3) as [_ Hfail].
      destruct (resp_flush_loop c F F x3) as [x4r fail]. cbn [snd] in Hfail.
      destruct Hfail as [->| ->]; [|intro H; inversion H].
      set (x4 := if c_fix28 c then (if rd_disc (m x4r) then x4r else do_ev c EvNeedRead x4r) else x4r).
      set (none := match state (m x4) with SNone => true | _ => false end).
      set (x5 := if rd_disc (m x4) && none then set_shut_err true (err x4) x4 else x4).
      assert (M5 : m x5 = m x4) by (unfold x5; destruct (rd_disc (m x4) && none); reflexivity).
      destruct (none && (wb (m x5) =? 0) && err x5) eqn:E.
      + intro H. inversion H; subst x'. apply andb_true_iff in E as [E _]. apply andb_true_iff in E as [E1 E2].
        split; [lia|]. rewrite M5. unfold none in E1. destruct (state (m x4)); try discriminate. reflexivity.
      + destruct (none && (wb (m x5) =? 0) && shut x5).
        * unfold poll_shutdown_branch. destruct (poll_flush_c c x5) as [y fr].
          destruct fr; intro H; inversion H.
        * intro H. inversion H.
  Qed.
End ErrFlush.

Section Wake28.
  Variable c : cfg.
  Variable F : nat.

  (* (1') NO LOST WAKE-UP, generalised repair (self-wake whenever the decode gate was closed when
     poll_request ran and is open at the end of the poll while read_buf is not empty).
     For EVERY poll of the composer that returns Pending, whatever closed the gate at the top
     (full queue, paused payload, ...): a decodable message behind open gates implies that the
     task has woken itself.  No premise on the payload status. *)
  Theorem no_lost_decode_wake_general x r x' :
    c_fix28 c = true -> 0 < c_maxb c ->
    shut x = false -> cpl (m x) <> Some 0 -> Forall pos_head (todo x) ->
    poll c F x r = (x', PPend) -> bad x' = false ->
    stall_source c x' = true -> o_wake x' = true.
  Proof.
    intros H28 Hmaxb Hshut Hcpl Hpos Hpoll Hbad Hstall.
    unfold poll in Hpoll. fold (env x r) in Hpoll.
    change (shut (env x r)) with (shut x) in Hpoll. rewrite Hshut in Hpoll.
    unfold poll_normal in Hpoll.
    destruct (c_fix28 c); [|discriminate H28]. cbv beta iota in Hpoll.
    pose proof (read_available_same0 c (env x r)) as S0.
    destruct (read_available_c c (env x r)) as [x1 sd]. cbn [fst] in S0.
    destruct S0 as (C1&T1&Sh1&_).
    destruct (poll_request_P3 c x1) as [P12 Hopen]. cbn zeta in P12, Hopen.
    destruct (poll_request c x1) as [x2 u]. cbn [fst] in P12, Hopen.
    set (x3 := if sd then do_ev c EvEof (wake (tgt_task (m x2)) x2) else x2) in *.
    assert (P23 : P3 c x2 x3).
    { unfold x3. destruct sd; [|apply P3_refl].
      eapply P3_trans; [|apply do_eof_P3]. apply same_P3.
      apply same_ext with (y := x2); [apply same_refl|reflexivity..]. }
    destruct (resp_flush_loop_P3 c F F x3) as [P34 Hfail].
    destruct (resp_flush_loop c F F x3) as [x4r fail]. cbn [fst snd] in P34, Hfail.
    destruct Hfail as [->| ->]; [|inversion Hpoll].
    set (x4 := if rd_disc (m x4r) then x4r else do_ev c EvNeedRead x4r) in *.
    assert (S44 : same x4r x4).
    { unfold x4. destruct (rd_disc (m x4r)); [apply same_refl|apply same_do_ev; reflexivity]. }
    assert (P24 : P3 c x2 x4) by (eapply P3_trans; [exact P23|eapply P3_trans; [exact P34|apply same_P3, S44]]).
    assert (P14 : P3 c x1 x4) by (eapply P3_trans; [exact P12|exact P24]).
    destruct P14 as (HQ&HG&HP&HS). destruct P24 as (HQ24&_).
    assert (G1 : G x1) by (right; rewrite C1; exact Hcpl).
    assert (Pz1 : Forall pos_head (todo x1)) by (rewrite T1; exact Hpos).
    assert (Sh4 : shut x4 = false) by (rewrite HS, Sh1; exact Hshut).
    set (none := match state (m x4) with SNone => true | _ => false end) in *.
    set (x5 := if rd_disc (m x4) && none then set_shut_err true (err x4) x4 else x4) in *.
    assert (M5 : m x5 = m x4 /\ todo x5 = todo x4 /\ bad x5 = bad x4).
    { unfold x5. destruct (rd_disc (m x4) && none); repeat split; reflexivity. }
    destruct M5 as (M5&T5&B5).
    destruct (none && (wb (m x5) =? 0) && err x5); [inversion Hpoll|].
    destruct (none && (wb (m x5) =? 0) && shut x5) eqn:Esh.
    - exfalso.
      assert (Hs5 : shut x5 = true) by (destruct (shut x5); [reflexivity|rewrite andb_false_r in Esh; discriminate]).
      assert (Hrd : rd_disc (m x4) = true).
      { unfold x5 in Hs5. destruct (rd_disc (m x4) && none) eqn:E; [|congruence].
        destruct (rd_disc (m x4)); [reflexivity|discriminate]. }
      unfold poll_shutdown_branch, poll_flush_c in Hpoll.
      pose proof (flush_loop_same c (S (length (wscript x5))) x5) as Sf.
      destruct (flush_loop c (S (length (wscript x5))) x5) as [x6 fr]. cbn [fst] in Sf.
      assert (x6 = x') by (destruct fr; inversion Hpoll; reflexivity). subst x6.
      destruct Sf as (_&_&_&_&Rd&_). rewrite M5 in Rd. specialize (Rd Hrd).
      rewrite stall_source_eq in Hstall. unfold can_read in Hstall. rewrite Rd in Hstall.
      cbn [negb andb] in Hstall. rewrite andb_false_r in Hstall. discriminate.
    - inversion Hpoll as [Hx']. clear Hpoll.
      assert (Hm' : m x' = m x4 /\ todo x' = todo x4 /\ bad x' = bad x4).
      { rewrite <- Hx'. cbn. rewrite M5, T5, B5. auto. }
      destruct Hm' as (Mx&Tx&Bx).
      assert (Hst4 : stall_source c x4 = true).
      { rewrite stall_source_eq in *. unfold decodable in *. rewrite Mx, Tx in Hstall. exact Hstall. }
      rewrite Bx in Hbad. rewrite stall_source_eq in Hst4.
      apply andb_true_iff in Hst4 as [Hst4 Hdec]. apply andb_true_iff in Hst4 as [Hq4 Hcr4].
      assert (Hnrd : rd_disc (m x4) = false).
      { unfold can_read in Hcr4. destruct (rd_disc (m x4)); [discriminate|reflexivity]. }
      assert (NQ4 : ~ Q c x4) by (intros [H|[H|H]]; congruence).
      rewrite Hx'.
      assert (Hw : o_wake x' = o_wake x5 || (shut x5 || (((c_maxp c <=? lenN (q (m x1))) || negb (can_read (m x1)))
                     && ((lenN (q (m x5)) <? c_maxp c) && can_read (m x5)) && negb (rb (m x5) =? 0))))
        by (rewrite <- Hx'; reflexivity).
      rewrite Hw.
      destruct ((c_maxp c <=? lenN (q (m x1))) || negb (can_read (m x1))) eqn:Egate.
      + (* the decode gate was closed when poll_request ran: the repair's self-wake fires *)
        assert (Hrb : (rb (m x4) =? 0) = false) by (apply (decodable_needs_bytes c); auto).
        rewrite M5, Hq4, Hcr4, Hrb. cbn. rewrite !orb_true_r. reflexivity.
      + (* the gate was open: a complete decode pass ran and nothing decodable can reappear *)
        exfalso. apply NQ4, HQ24, Hopen.
        * destruct (c_maxp c <=? lenN (q (m x1))); [discriminate|reflexivity].
        * destruct (can_read (m x1)); [reflexivity|rewrite orb_true_r in Egate; discriminate].
  Qed.
End Wake28.
