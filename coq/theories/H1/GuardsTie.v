(* Tie between the dispatcher guards GENERATED from dispatcher.rs (Gen/DispatcherGuards.v) and the
   hand-written models H1/{Flush,ReadBuf,Gates}.v: the guards of the models are the interpretation
   of the generated operator / operand records.  An edit of one of those source lines regenerates
   the records (or makes the anchored pattern fail: definition omitted) and breaks a lemma here. *)
From AV Require Import Lib.Base Gen.DispatcherGuards H1.ReadBuf H1.ReadBufProofs H1.Flush H1.FlushProofs
     H1.Gates H1.GatesProofs H1.PollProofs2.

(* ---- interpretation ---- *)
Definition op_b (o : dg_op) (a b : N) : bool :=
  match o with
  | DgGe => b <=? a | DgGt => b <? a | DgLe => a <=? b | DgLt => a <? b
  | DgEq => a =? b | DgNe => negb (a =? b)
  end.
Definition conn_b (k : dg_conn) (a b : bool) : bool := match k with DgOr => a || b | DgAnd => a && b end.
Definition neg_b (n : bool) (a : bool) : bool := if n then negb a else a.

Definition dg_of_status (st : option pstatus) : dg_status :=
  match st with Some PPause => DgPause | Some PDropped => DgDropped | Some PRead => DgRead | None => DgNoPayload end.
Definition dg_status_eqb (a b : dg_status) : bool :=
  match a, b with
  | DgPause, DgPause | DgDropped, DgDropped | DgRead, DgRead | DgNoPayload, DgNoPayload => true
  | _, _ => false
  end.
Fixpoint cap_lookup (t : list (dg_status * dg_action)) (s : dg_status) : option dg_action :=
  match t with
  | [] => None
  | (s', a) :: r => if dg_status_eqb s s' then Some a else cap_lookup r s
  end.
Definition has_stmt (s : dg_flush_stmt) (l : list dg_flush_stmt) : bool :=
  existsb (fun x => match x, s with
                    | DgErrWriteZero, DgErrWriteZero | DgWrittenAddN, DgWrittenAddN
                    | DgAdvanceWritten, DgAdvanceWritten | DgReturnPending, DgReturnPending
                    | DgClear, DgClear | DgPollFlush, DgPollFlush => true
                    | _, _ => false end) l.
(* a conjunction of atoms over the five facts the epilogue looks at *)
Definition atom_b (none wb_empty was_closed is_open rb_nonempty : bool) (a : dg_atom) : bool :=
  match a with
  | DgStateIsNone => none | DgWriteBufEmpty => wb_empty
  | DgGateWasClosed => was_closed | DgGateOpen => is_open | DgReadBufNotEmpty => rb_nonempty
  end.
Definition atoms_b none wbe wc op rbn (l : list dg_atom) : bool := forallb (atom_b none wbe wc op rbn) l.

(* ---- read_available: the cap test (operator and constant) ---- *)
Lemma tie_read_cap_op a b : op_b DG_READ_CAP_OP a b = (b <=? a).
Proof. reflexivity. Qed.

Lemma tie_read_cap_step c s n s' :
  step c s (EvRead n) = Some s' -> op_b DG_READ_CAP_OP (rb s) (c_maxb c) = false.
Proof. intro H. open_step H. rewrite tie_read_cap_op. lia. Qed.

Lemma tie_read_cap_bytes MAXB buf script pl :
  op_b DG_READ_CAP_OP (lenN buf) MAXB = true ->
  let o := read_available MAXB false buf script pl in ra_buf o = buf /\ ra_script o = script.
Proof.
  rewrite tie_read_cap_op. intro H.
  destruct (read_available_at_cap MAXB buf script pl) as (A & B & _); [lia|]. auto.
Qed.

(* ---- the match on the payload status behind the cap test ---- *)
Lemma tie_cap_match st :
  cap_lookup DG_CAP_MATCH (dg_of_status st) = Some (if cap_self_wake st then DgSelfWake else DgWait).
Proof. destruct st as [[| |]|]; reflexivity. Qed.

(* ---- buffer growth rule ---- *)
Lemma tie_growth LW HW remaining :
  DG_GROW_TEST_CONST = DgLW /\ DG_GROW_RESERVE_CONST = DgHW /\
  spare_after_reserve LW HW remaining =
    (if op_b DG_GROW_OP remaining LW then N.max remaining (HW - remaining) else remaining).
Proof. repeat split. Qed.

(* ---- poll_request: queue gate, can_read, their combination ---- *)
Definition request_gate_closed (c : cfg) (s : st) : bool :=
  conn_b DG_REQUEST_GATE_CONN (op_b DG_QUEUE_GATE_OP (lenN (q s)) (c_maxp c)) (neg_b DG_CAN_NOT_READ_NEG (can_read s)).

Lemma tie_request_gate c s :
  request_gate_closed c s = ((c_maxp c <=? lenN (q s)) || negb (can_read s)).
Proof. reflexivity. Qed.

Lemma tie_request_gate_step c s :
  pass s = false ->
  (exists s', step c s EvGate = Some s') <-> request_gate_closed c s = false.
Proof.
  intro Hp. rewrite tie_request_gate. unfold step, guard. rewrite Hp. cbn [negb andb]. split.
  - intros [s' H]. destruct ((lenN (q s) <? c_maxp c) && can_read s) eqn:E; [|discriminate].
    apply andb_true_iff in E as [E1 E2]. rewrite E2. cbn. lia.
  - intro H. apply orb_false_iff in H as [H1 H2].
    assert (E : (lenN (q s) <? c_maxp c) && can_read s = true).
    { apply andb_true_iff. split; [lia|]. destruct (can_read s); [reflexivity|discriminate]. }
    rewrite E. eauto.
Qed.

Lemma tie_can_read s :
  can_read s = negb (rd_disc s) &&
               match need_read_status s with
               | None => true
               | Some st => existsb (dg_status_eqb (dg_of_status (Some st))) DG_CAN_READ_STATUSES
               end.
Proof. unfold can_read. destruct (need_read_status s) as [[| |]|]; reflexivity. Qed.

(* ---- SendPayload gate: fill level of write_buf against h1_write_buffer_size ---- *)
Lemma tie_send_gate_op a b : op_b DG_SEND_GATE_OP a b = (a <? b).
Proof. reflexivity. Qed.

Lemma tie_send_gate_step c s e s' :
  step c s (EvBodyChunk e) = Some s' \/ step c s (EvBodyEnd e) = Some s' ->
  op_b DG_SEND_GATE_OP (wb s) (c_wbs c) = true.
Proof. intros [H|H]; open_step H; rewrite tie_send_gate_op; lia. Qed.

Lemma tie_send_gate_open c s e :
  state s = SSendPayload -> pass s = false ->
  op_b DG_SEND_GATE_OP (wb s) (c_wbs c) = true -> exists s', step c s (EvBodyChunk e) = Some s'.
Proof.
  intros H1 H2 H3. rewrite tie_send_gate_op in H3. unfold step, guard. rewrite H1, H2, H3. cbn. eauto.
Qed.

(* ---- poll_flush: loop test and the bookkeeping of the three arms ---- *)
Lemma tie_flush_loop_op a b : op_b DG_FLUSH_LOOP_OP a b = (a <? b).
Proof. reflexivity. Qed.

(* Pending: write_buf.advance(written) happens (the accepted prefix leaves the buffer) and Pending
   is returned -- exactly when the generated arm says so *)
Lemma tie_flush_pending fuel buf written script dflt wire calls :
  op_b DG_FLUSH_LOOP_OP written (lenN buf) = true -> fst (next_ans script dflt) = WPending ->
  let o := write_loop (S fuel) buf written script dflt wire calls in
  f_buf o = (if has_stmt DgAdvanceWritten DG_FLUSH_PENDING then slice_from written buf else buf) /\
  f_res o = (if has_stmt DgReturnPending DG_FLUSH_PENDING then FlPending else FlReady) /\ f_wire o = wire.
Proof.
  rewrite tie_flush_loop_op. intros H Ha. cbn [write_loop]. rewrite H.
  destruct (next_ans script dflt) as [a s']. cbn [fst] in Ha. subst a. cbn. auto.
Qed.

(* Ready(n): `written += n` and the loop goes on *)
Lemma tie_flush_ready_n fuel buf written script dflt wire calls k :
  op_b DG_FLUSH_LOOP_OP written (lenN buf) = true -> fst (next_ans script dflt) = WAccept k ->
  N.min k (lenN (slice_from written buf)) =? 0 = false ->
  let n := N.min k (lenN (slice_from written buf)) in
  write_loop (S fuel) buf written script dflt wire calls =
  write_loop fuel buf (if has_stmt DgWrittenAddN DG_FLUSH_READYN then written + n else written)
             (snd (next_ans script dflt)) dflt (wire ++ take n (slice_from written buf)) (calls + 1).
Proof.
  rewrite tie_flush_loop_op. intros H Ha Hz. cbn zeta. cbn [write_loop]. rewrite H.
  destruct (next_ans script dflt) as [a s']. cbn [fst snd] in *. subst a. rewrite Hz. reflexivity.
Qed.

(* Ready(0): WriteZero; loop exit: clear() then io.poll_flush *)
Lemma tie_flush_ready0_done buf script dflt fl :
  (buf <> [] -> fst (next_ans script dflt) = WZero ->
   f_res (poll_flush buf script dflt fl) = (if has_stmt DgErrWriteZero DG_FLUSH_READY0 then FlWriteZero else FlReady)) /\
  (f_res (poll_flush buf script dflt fl) = FlReady ->
   f_buf (poll_flush buf script dflt fl) = (if has_stmt DgClear DG_FLUSH_DONE then [] else buf) /\
   has_stmt DgPollFlush DG_FLUSH_DONE = true /\ fl = FReady).
Proof.
  split.
  - intros Hne Hz. destruct (poll_flush_zero buf script dflt fl Hne Hz) as [A _]. exact A.
  - intro H. destruct (poll_flush_spec buf script dflt fl) as (rest & _ & H3). cbn zeta in H3.
    rewrite H in H3. destruct H3 as (_ & A & B). rewrite A. auto.
Qed.

(* ---- epilogue: the stored error is surfaced under exactly these atoms ---- *)
Lemma tie_error_guard none wbe wc op rbn :
  atoms_b none wbe wc op rbn DG_ERROR_GUARD = none && wbe.
Proof. cbn. rewrite andb_true_r. reflexivity. Qed.

Lemma tie_error_guard_poll c F x r x' :
  poll c F x r = (x', PFailTooLarge) ->
  atoms_b (match state (m x') with SNone => true | _ => false end) (wb (m x') =? 0) false false false
          DG_ERROR_GUARD = true.
Proof.
  intro H. destruct (error_only_after_flush c F x r x' H) as [A B]. rewrite tie_error_guard, A, B. reflexivity.
Qed.

(* ---- the self-wake for undecoded bytes (F21 / F28) ---- *)
Lemma tie_self_wake c qtop crtop qend crend rbn :
  let was_closed := conn_b DG_WAS_CLOSED_CONN (op_b DG_WAS_CLOSED_OP qtop (c_maxp c)) (neg_b DG_WAS_CLOSED_NEG crtop) in
  let is_open := conn_b DG_OPEN_CONN (op_b DG_OPEN_OP qend (c_maxp c)) (neg_b DG_OPEN_NEG crend) in
  atoms_b false false was_closed is_open rbn DG_SELF_WAKE =
  ((c_maxp c <=? qtop) || negb crtop) && ((qend <? c_maxp c) && crend) && rbn.
Proof. cbn. rewrite andb_true_r, andb_assoc. reflexivity. Qed.
