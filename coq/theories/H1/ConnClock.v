(* C06 (a): the cached clock as part of the theorems.

   `ServiceConfig::now()` does not read the clock: it returns the instant stored by the DateService
   task, which rewrites it with the instant of each tick of a 500 ms `interval` (date.rs). Relative
   to a connection the phase of that interval is arbitrary. [cache_read phase t] is the value read
   at time [t] when the ticks fall on phase, phase + TICK, phase + 2 TICK, ...; in the time frame
   shifted by TICK - phase it is the model's [cached] (cache_read_is_cached), and every theorem of
   the model quantifies over ALL clock values of the poll that arms a timer, i.e. over all phases.

   SLACK (= TICK, the constant extracted from date.rs) bounds how far the cache lags: every
   deadline lies in (t + timeout - SLACK, t + timeout]. The three C06 bounds with that slack:
     * 408: at the first poll at/after t0 + req_to, and by no poll up to t0 + req_to - SLACK;
     * keep-alive: closed at the first poll at/after t1 + ka; a request that arrives up to
       t1 + ka - SLACK is served;
     * shutdown: resolved by the first poll at/after t + disc_to (never outlasts the timeout); the
       DisconnectTimeout error itself not before t + disc_to - SLACK. *)
Require Import AV.Lib.Base AV.H1.ConnRec AV.H1.ConnState AV.H1.ConnProofs AV.H1.ConnGraceful.
Require Import AV.H1.ConnTimers AV.H1.ConnSeal AV.H1.ConnLocal AV.H1.ConnKeepAlive.

Definition SLACK : N := TICK.

Definition cache_read (phase t : N) : N := phase + ((t - phase) / TICK) * TICK.

Lemma TICK_pos : TICK <> 0.
Proof. unfold TICK. vm_compute. discriminate. Qed.

Lemma cache_read_bounds phase t : phase <= t -> cache_read phase t <= t /\ t < cache_read phase t + SLACK.
Proof.
  intro L. unfold cache_read, SLACK. pose proof TICK_pos as P. set (k := TICK) in *.
  pose proof (N.div_mod (t - phase) k P). pose proof (N.mod_lt (t - phase) k P). lia.
Qed.

(* adversarial phase = a shift of the connection's time origin *)
Lemma cache_read_is_cached phase t : phase < TICK -> phase <= t ->
  cache_read phase t + (TICK - phase) = cached (t + (TICK - phase)).
Proof.
  intros Lp L. unfold cache_read, cached. pose proof TICK_pos as P. set (k := TICK) in *.
  replace (t + (k - phase)) with ((t - phase) + 1 * k) by lia.
  rewrite N.div_add by exact P. lia.
Qed.

(* every armed deadline lies in (now + timeout - SLACK, now + timeout] *)
Lemma arm_window to s : exists d, arm to s = TActive d /\ d <= now s + to /\ now s + to < d + SLACK.
Proof.
  exists (cached (now s) + to). split; [reflexivity|]. pose proof (cached_bounds (now s)). unfold SLACK. lia.
Qed.

(* ---- 408 ---- *)
(* s0: the connection before its first poll at time t0; s: any later state in which the head timer
   is still the one armed by that poll (no head decoded, not closing) *)
Theorem head_408_with_slack c s0 s :
  started s0 = false -> read_disc s0 = false -> sock s0 = [] -> rbuf s0 = [] -> sock_end s0 = RPending -> req_to c <> 0 ->
  head_t s = head_t (read_phase c s0) ->
  (* no later than the timeout *)
  (now s0 + req_to c <= now s -> shutdown s = false -> read_disc s = false ->
     shutdown (poll_head_timer c s) = true /\
     trace (poll_head_timer c s) = trace s ++ [THead None 408 (c_v11 s) (c_head s) (resp_conn c ONone s); TComplete]) /\
  (* not earlier than the timeout minus the slack *)
  (now s + SLACK <= now s0 + req_to c -> poll_head_timer c s = s).
Proof.
  intros A1 A2 A3 A4 A5 A6 E.
  destruct (head_timer_armed c s0 A1 A2 A3 A4 A5 A6) as [H _]. rewrite H in E.
  pose proof (cached_bounds (now s0)) as B. split.
  - intros L S R. destruct (slow_head_408 c s _ E) as (X & Y & _); [lia|exact S|exact R|]. split; assumption.
  - intro L. apply (head_timer_quiet c s _ E). unfold SLACK in L. lia.
Qed.

(* ---- keep-alive ---- *)
(* t1: the clock of the poll that found the connection idle and armed the timer *)
Theorem keepalive_with_slack c d t1 s :
  ka_tm s = TActive (cached t1 + d) ->
  (* closed once the keep-alive time has elapsed: no later than t1 + d *)
  (t1 + d <= now s -> shutdown (poll_ka_timer c s) = true) /\
  (* not before t1 + d - SLACK: the timer is quiet, and a request that arrives by then is served *)
  (now s + SLACK <= t1 + d -> poll_ka_timer c s = s) /\
  (forall r x more, Idle s -> r_arrive r = IReq x :: more -> sig_armed s && r_signal r = false ->
     now s + r_adv r + SLACK <= t1 + d ->
     exists l, trace (poll c r s) = trace s ++ TDecode x :: TStart x :: l).
Proof.
  intro E. pose proof (cached_bounds t1) as B. unfold SLACK. repeat split.
  - intro L. destruct (ka_expiry c s _ E) as (X & _); [lia|exact X].
  - intro L. apply (ka_timer_quiet c s _ E). lia.
  - intros r x more I A S L. apply (ka_request_in_time_is_served c r s x more I A S).
    rewrite E. cbn. apply N.leb_gt. lia.
Qed.

(* the re-arming site: what response_phase installs on an idle connection *)
Lemma keepalive_armed_from_cache c d s : ka c = KaTimeout d ->
  match ka c with KaTimeout d => set_ka_tm (arm d s) s | _ => s end = set_ka_tm (TActive (cached (now s) + d)) s.
Proof. intro E. rewrite E. reflexivity. Qed.

(* ---- shutdown ---- *)
Theorem shutdown_with_slack c wb sp s :
  fx_sd (fx c) = true -> disc_to c <> 0 -> SD s -> t_active (sd_t s) = false -> write_disc s = false ->
  let s' := shutdown_io c wb sp s in
  res s' = 0 ->
  (* never outlasts the disconnect timeout: whatever the peer does, the first poll whose clock has
     reached (entry time + timeout) finds the future resolved *)
  (forall rs, (exists pre r post, rs = pre ++ r :: post /\ now s + disc_to c <= now (run_polls c pre s') + r_adv r) ->
     res (run_polls c rs s') <> 0) /\
  (* the deadline that produces DisconnectTimeout is at most SLACK early *)
  (exists dl, sd_t s' = TActive dl /\ dl <= now s + disc_to c /\ now s + disc_to c < dl + SLACK).
Proof.
  intros F D S T W s' R.
  destruct (sd_armed_on_entry c F D wb sp s S T W R) as [Kd L]. fold s' in Kd. split.
  - intros rs (pre & r & post & E & B). apply (shutdown_bounded c F D _ rs s' Kd).
    exists pre, r, post. split; [exact E|lia].
  - exists (cached (now s) + disc_to c). split; [apply Kd|]. pose proof (cached_bounds (now s)). unfold SLACK. lia.
Qed.
