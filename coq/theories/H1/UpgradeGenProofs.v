(* Ties the hand-off model (H1/UpgradeSeq.v) to the statement list of InnerDispatcher::upgrade()
   as read from actix-http/src/h1/dispatcher.rs by tools/gen/h1_encoder.py on every check run
   (Gen/H1EncoderTables.v, H1DISP_UPGRADE_MOVES: which dispatcher fields are taken and put into
   the FramedParts, in source order).  A field that is no longer moved (or a pattern that no
   longer matches) breaks this file. *)
From AV Require Import Lib.Base H1.Encoder H1.UpgradeSeq Gen.H1EncoderTables.
Open Scope N_scope.

Lemma upgrade_moves_match : map ufield_code upgrade_moves = H1DISP_UPGRADE_MOVES.
Proof. vm_compute. reflexivity. Qed.

(* hence the model's FramedParts are built from the fields the source moves: the parts computed
   with the generated list are the model's, for every codec / read_buf / write_buf *)
Definition moved_code (f : ufield) (codes : list N) : bool := existsb (fun g => g =? ufield_code f) codes.
Lemma upgrade_parts_from_source c rb wb :
  upgrade_parts upgrade_moves c rb wb =
  mkParts (moved_code MvIo H1DISP_UPGRADE_MOVES)
          (if moved_code MvCodec H1DISP_UPGRADE_MOVES then c else codec_new true)
          (if moved_code MvReadBuf H1DISP_UPGRADE_MOVES then rb else [])
          (if moved_code MvWriteBuf H1DISP_UPGRADE_MOVES then wb else []).
Proof. reflexivity. Qed.
