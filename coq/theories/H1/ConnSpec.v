(* C03 / C06 as readable predicates over the history of a connection (the [trace] of the model). *)
Require Import AV.Lib.Base AV.H1.ConnRec AV.H1.ConnState.

(* a response head that ends the connection: encoded with close semantics, or the dispatcher's own
   error response (who = None) to a malformed / too large / too slow request head *)
Definition closing_ev (e : tev) : bool :=
  match e with
  | THead who status _ _ k =>
      is_close k || (match who with None => (status =? 400) || (status =? 408) || (status =? 431) | Some _ => false end)
  | _ => false
  end.
(* events that put a new response on the wire or hand a request to the service *)
Definition active_ev (e : tev) : bool :=
  match e with THead _ _ _ _ _ | TStart _ => true | _ => false end.

(* C03 "close means close": nothing active after the first closing response head *)
Fixpoint quiet_after_close (t : list tev) : bool :=
  match t with
  | [] => true
  | e :: r => if closing_ev e then negb (existsb active_ev r) else quiet_after_close r
  end.

(* every response to a request is encoded with that request's version and HEAD-ness, and is
   keep-alive only if the request allowed it (F12) *)
Definition own_ctx_ev (c : cfg) (e : tev) : bool :=
  match e with
  | THead (Some r) _ v hd k =>
      Bool.eqb v (rq_v11 r) && Bool.eqb hd (rq_head r) && (is_close k || is_ka (ctx_conn c r))
  | _ => true
  end.
Definition own_context (c : cfg) (t : list tev) : bool := forallb (own_ctx_ev c) t.

Definition count_heads (status : N) (t : list tev) : nat :=
  length (filter (fun e => match e with THead _ st _ _ _ => st =? status | _ => false end) t).

Definition no_fixes : fixes := mkFixes false false false.
