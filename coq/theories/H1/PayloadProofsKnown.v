(* C07 — what exactly is lost in the class `drop-after-error-consumed`: a sender drop leaves a
   Pending reader asleep only if that reader has already been handed an error. *)
From AV Require Import Lib.Base H1.Payload H1.PayloadSpec H1.PayloadProofs H1.PayloadProofsEnding
  H1.PayloadProofsWake.

Section Known.
Context {Chunk : Type}.
Variable clen : Chunk -> N.
Variable limit : N.

Notation Inner := (Inner Chunk).
Notation sys := (sys Chunk).
Notation op := (op Chunk).
Notation res := (res Chunk).
Notation event := (event Chunk).
Notation step := (step clen limit).
Notation run := (run clen limit).
Notation steps := (steps clen limit).
Notation SInv := (SInv clen limit).
Notation quiet_reader := (@quiet_reader Chunk).
Notation reports_err := (@reports_err Chunk).

(* "closed without anything left to report" can only be reached through a reported error *)
Definition told (F : Prop) (s : sys) : Prop :=
  sender s = true -> forall i, inner s = Some i -> sender_closed i = true ->
  eof i = true \/ err i <> None \/ F.

Lemma step_told F s o s1 x w : step s o = (s1, x, w) -> told F s ->
  told (F \/ reports_err (o, x, w) = true) s1.
Proof.
  intros H HT Hsd1 i1 Hi1 Hc1.
  pose proof (step_sender_true_back _ _ _ _ _ _ _ H Hsd1) as Hsd.
  destruct s as [[[ln ef er sc nr its tk io]|] snd]; cbn [sender] in Hsd; subst.
  - specialize (HT eq_refl _ eq_refl). cbn in HT.
    destruct o; open_step H; try congruence.
    all: try (destruct (HT Hc1) as [A|[A|A]]; [left; exact A | right; left; exact A | right; right; left; exact A]).
    all: try (left; reflexivity).
    all: try (right; left; discriminate).
    all: try (right; right; right; reflexivity).
    all: try (revert Hc1; dmg; intro Hc1; destruct (HT Hc1) as [A|[A|A]];
              [left; exact A | right; left; exact A | right; right; left; exact A]).
  - pose proof (step_gone _ _ _ _ _ _ _ H eq_refl). congruence.
Qed.

Lemma told_weaken (F G : Prop) s : (F -> G) -> told F s -> told G s.
Proof.
  intros HFG HT Hsd i Hi Hc. destruct (HT Hsd i Hi Hc) as [A|[A|A]]; auto.
Qed.

Lemma steps_told s t s' : steps s t s' -> forall F, told F s ->
  told (F \/ exists y, In y t /\ reports_err y = true) s'.
Proof.
  induction 1 as [s|s o s1 x w t s2 Hs Hst IH]; intros F HT.
  - eapply told_weaken; [|exact HT]. auto.
  - eapply told_weaken; [|apply (IH _ (step_told _ _ _ _ _ _ Hs HT))].
    intros [[A|A]|[y [Hin Hy]]]; [left; exact A | right; exists (o, x, w); split; [left; reflexivity | exact A] |
                                   right; exists y; split; [right; exact Hin | exact Hy]].
Qed.

(* while a registered reader stays quiet and the sender stays alive, sender_closed cannot change *)
Lemma step_closed_quiet s o s1 x w i r :
  step s o = (s1, x, w) -> inner s = Some i -> task i = Some r ->
  is_poll o = false -> is_reader_drop o = false -> ~ In r w -> sender s1 = true ->
  forall i1, inner s1 = Some i1 -> sender_closed i1 = sender_closed i.
Proof.
  intros H Hi Ht Hp Hd Hw Hsd1 i1 Hi1.
  destruct s as [[[ln ef er sc nr its tk io]|] snd]; cbn [inner] in *; [|discriminate].
  inversion Hi; subst i. cbn in Ht. subst tk.
  destruct o; cbn in Hp, Hd; try discriminate; open_step H; try congruence; try reflexivity;
    exfalso; apply Hw; left; reflexivity.
Qed.

Lemma steps_closed_quiet s t s' r : steps s t s' ->
  forall i, inner s = Some i -> task i = Some r -> quiet_reader r t -> sender s' = true ->
  forall i', inner s' = Some i' -> sender_closed i' = sender_closed i.
Proof.
  induction 1 as [s|s o s1 x w t s2 Hs Hst IH]; intros i Hi Ht Hq Hsd i' Hi'.
  - congruence.
  - destruct (Hq (o, x, w) (or_introl eq_refl)) as [Hp [Hd Hw]]. cbn in Hp, Hd, Hw.
    destruct (step_task_persist _ _ _ _ _ _ _ _ _ Hs Hi Ht Hp Hd Hw) as [i1 [Hi1 Ht1]].
    assert (Hsd1 : sender s1 = true).
    { destruct (sender s1) eqn:E; [reflexivity|]. pose proof (steps_sender_false _ _ _ _ _ Hst E). congruence. }
    rewrite <- (step_closed_quiet _ _ _ _ _ _ _ Hs Hi Ht Hp Hd Hw Hsd1 _ Hi1).
    eapply IH; [exact Hi1 | exact Ht1 | | exact Hsd | exact Hi'].
    intros ev Hin. apply Hq. right. exact Hin.
Qed.

Lemma step_poll_pending_state s cx s' w : step s (OPoll cx) = (s', RPoll PPending, w) ->
  exists i i', inner s = Some i /\ inner s' = Some i' /\ err i = None /\ eof i = false /\
               sender_closed i' = sender_closed i /\ task i' = Some cx /\ sender s' = sender s.
Proof.
  intro H. destruct s as [[[ln ef er sc nr its tk io]|] snd]; open_step H; try congruence.
  eexists; eexists; repeat split; reflexivity.
Qed.

(* The lost wake-up of the known class hits only a reader that has already been told how the
   body ended: an earlier poll of it returned an error. *)
Theorem unwoken_reader_was_told e os s t t1 r w1 t2 w2 t3 :
  run e os = (s, t) ->
  t = t1 ++ (OPoll r, RPoll PPending, w1) :: t2 ++ (OSenderDrop, RUnit, w2) :: t3 ->
  quiet_reader r t2 -> ~ In r w2 ->
  exists y, In y t1 /\ reports_err y = true.
Proof.
  intros H -> Hq Hw. apply exec_steps in H. apply steps_app_inv in H as [s1 [Ha Hb]]. inversion Hb; subst.
  match goal with Hs : step s1 _ = _, Hr : steps _ (t2 ++ _) _ |- _ =>
    destruct (step_poll_pending_state _ _ _ _ Hs) as [i1 [i2 [Hi1 [Hi2 [He1 [Hf1 [Hc12 [Ht2 Hsd12]]]]]]]];
    apply steps_app_inv in Hr as [s3 [Hc Hd]] end.
  inversion Hd; subst.
  match goal with Hs : step s3 _ = _ |- _ => rename Hs into Hdrop end.
  pose proof (step_sender_alive _ _ _ _ _ _ Hdrop) as Hsd3. cbn in Hsd3.
  destruct (steps_task_persist _ _ _ _ _ _ Hc _ Hi2 Ht2 Hq) as [i3 [Hi3 Ht3]].
  pose proof (steps_closed_quiet _ _ _ _ Hc _ Hi2 Ht2 Hq Hsd3 _ Hi3) as Hc3.
  (* not woken: the channel was already closed *)
  assert (Hcl : sender_closed i3 = true).
  { destruct (sender_closed i3) eqn:E; [reflexivity|]. exfalso. apply Hw.
    rewrite (step_drop_wakes _ _ _ _ _ _ _ Hdrop Hi3 Ht3 E). left. reflexivity. }
  (* so it was closed before the Pending poll, with nothing left to report *)
  assert (Hsd1 : sender s1 = true).
  { rewrite <- Hsd12. match type of Hc with PayloadProofs.steps _ _ ?sx _ _ => destruct (sender sx) eqn:E end; [reflexivity|].
    pose proof (steps_sender_false _ _ _ _ _ Hc E). congruence. }
  assert (HT0 : told False (create (Chunk:=Chunk) e)).
  { intros _ i Hi Hc0. cbn in Hi. inversion Hi; subst. cbn in Hc0 |- *. left. exact Hc0. }
  pose proof (steps_told _ _ _ Ha _ HT0 Hsd1 _ Hi1) as HT.
  rewrite <- Hc12, <- Hc3 in HT. destruct (HT Hcl) as [A|[A|[[]|A]]]; [congruence | congruence | exact A].
Qed.

End Known.
