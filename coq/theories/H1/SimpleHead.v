(* H1/SimpleHead.v — a concrete, executable request-head tokenizer for the [head] parameter of
   H1/Codec.v.  It is NOT a model of httparse; it is a simple grammar that httparse (followed by
   http::Method::from_bytes and http::Uri::try_from) treats identically ON THE HEADS THE C01
   GENERATOR PRODUCES (the harness checks this on the real code for every generated case, through
   the correspondence of the whole codec).  Its role: (1) the Section hypotheses on the tokenizer
   (CodecProofs.HeadLaws) are satisfiable - proved in CodecProofs.simple_head_laws - so the
   theorems are not vacuous; (2) the driver Run/RunC01.v is executable.

   Grammar (everything else is HBad, an unterminated head is HPartial):
     head         = request-line *( header-line ) CRLF          ; at most [maxh] header lines
     request-line = method SP target SP ("HTTP/1.0" | "HTTP/1.1") CRLF
     method       = 1*( "A".."Z" )
     target       = "/" *( ALPHA | DIGIT | "/" | "." | "_" | "-" | "?" | "=" | "&" | "~" )
     header-line  = name ":" OWS value OWS CRLF                 ; no obs-fold
     name         = 1*tchar
     value        = *( HT | %x20-7E )                           ; trimmed of SP / HT at both ends
   A bare CR or bare LF anywhere is HBad.  Differences from httparse that the generator avoids:
   httparse skips empty lines before the request line, accepts a bare LF as line end, accepts
   obs-text (>= 0x80) in values and any byte "!".."~" in the target, reports a bad byte as soon
   as it sees it (this tokenizer waits for the blank line), and http::Uri accepts more targets. *)
From AV Require Import Lib.Base H1.Chunked H1.PayloadDec H1.Framing H1.Codec.

Inductive lines_res := LsPartial | LsBad | LsDone (lines : list bytes) (rest : bytes).

(* one pass over the buffer: [cur] = current line reversed, [ls] = complete lines reversed,
   [cr] = the previous byte was CR *)
Fixpoint split_head (s cur : bytes) (ls : list bytes) (cr : bool) : lines_res :=
  match s with
  | [] => LsPartial
  | b :: r =>
      if cr then
        if b =? 10 then
          match cur with
          | [] => LsDone (rev_append ls []) r                         (* empty line: end of head *)
          | _ => split_head r [] (rev_append cur [] :: ls) false
          end
        else LsBad
      else if b =? 13 then split_head r cur ls true
      else if b =? 10 then LsBad
      else split_head r (b :: cur) ls false
  end.

Definition is_upper (b : byte) : bool := (65 <=? b) && (b <=? 90).
Definition is_alnum (b : byte) : bool :=
  is_upper b || ((97 <=? b) && (b <=? 122)) || ((48 <=? b) && (b <=? 57)).
Definition mem_byte (b : byte) (l : bytes) : bool := existsb (N.eqb b) l.
Definition is_tchar (b : byte) : bool :=
  is_alnum b || mem_byte b [33;35;36;37;38;39;42;43;45;46;94;95;96;124;126].
Definition is_target_char (b : byte) : bool :=
  is_alnum b || mem_byte b [47;46;95;45;63;61;38;126].
Definition is_value_char (b : byte) : bool := (b =? 9) || ((32 <=? b) && (b <=? 126)).
Definition is_sp_ht (b : byte) : bool := (b =? 32) || (b =? 9).

(* split at the first occurrence of [c] *)
Fixpoint split_at_byte (c : byte) (s : bytes) : option (bytes * bytes) :=
  match s with
  | [] => None
  | b :: r => if b =? c then Some ([], r)
              else match split_at_byte c r with Some (x, y) => Some (b :: x, y) | None => None end
  end.

Fixpoint trim_sp_start (s : bytes) : bytes :=
  match s with b :: r => if is_sp_ht b then trim_sp_start r else s | [] => [] end.
Definition trim_sp (s : bytes) : bytes := rev_append (trim_sp_start (rev_append (trim_sp_start s) [])) [].

Definition v_http10 : bytes := [72;84;84;80;47;49;46;48].
Definition v_http11 : bytes := [72;84;84;80;47;49;46;49].

(* request line -> (method, target, version) or the error class *)
Definition parse_request_line (l : bytes) : dres (bytes * bytes * version) :=
  match split_at_byte 32 l with
  | None => DErr EHeader
  | Some (m, r1) =>
      match split_at_byte 32 r1 with
      | None => DErr EHeader
      | Some (t, v) =>
          if negb (match m with [] => false | _ => forallb is_upper m end) then DErr EHeader
          else if negb (match t with b :: _ => (b =? 47) && forallb is_target_char t | [] => false end)
          then DErr EHeader
          else if bytes_eqb v v_http11 then DOk (m, t, V11)
          else if bytes_eqb v v_http10 then DOk (m, t, V10)
          else if bytes_eqb (firstn 8 v) v_http11 || bytes_eqb (firstn 8 v) v_http10
          then DErr EHeader                                    (* junk after the version *)
          else DErr EOther                                     (* ParseError::Version *)
      end
  end.

Definition parse_header_line (l : bytes) : option header :=
  match split_at_byte 58 l with
  | None => None
  | Some (n, v) =>
      if match n with [] => false | _ => forallb is_tchar n end && forallb is_value_char v
      then Some (n, trim_sp v) else None
  end.

Fixpoint parse_header_lines (ls : list bytes) : option (list header) :=
  match ls with
  | [] => Some []
  | l :: r => match parse_header_line l with
              | None => None
              | Some h => match parse_header_lines r with Some hs => Some (h :: hs) | None => None end
              end
  end.

Definition simple_head (maxh : N) (s : bytes) : head_res :=
  match split_head s [] [] false with
  | LsPartial => HPartial
  | LsBad => HBad EHeader
  | LsDone lines rest =>
      match lines with
      | [] => HBad EHeader
      | rl :: hls =>
          match parse_request_line rl with
          | DErr e => HBad e
          | DPanic => HBad EOther
          | DOk (m, t, v) =>
              match parse_header_lines (firstn (N.to_nat maxh) hls) with
              | None => HBad EHeader
              | Some hs =>
                  if maxh <? lenN hls then HBad ETooLarge    (* httparse::Error::TooManyHeaders *)
                  else HComplete (length s - length rest) m t v hs
              end
          end
      end
  end.
