(* Model of `InnerDispatcher::read_available` (actix-http/src/h1/dispatcher.rs:1159-1242):

     if flags.contains(READ_DISCONNECT) { return Ok(false) }
     let mut read_some = false;
     loop {
         if read_buf.len() >= MAX_BUFFER_SIZE {
             match payload.as_ref().map(|p| p.need_read(cx)) {
                 Some(Pause) => {}                                   // io waker registered by need_read
                 Some(Dropped) | Some(Read) | None => cx.waker().wake_by_ref(),
             }
             return Ok(false);
         }
         let remaining = read_buf.capacity() - read_buf.len();
         if remaining < LW_BUFFER_SIZE { read_buf.reserve(HW_BUFFER_SIZE - remaining) }
         match poll_read_buf(io, cx, read_buf) {
             Ready(Ok(n)) => { if !payload.is_some_and(is_dropped) { flags.remove(FINISHED) }
                               if n == 0 { return Ok(true) }  read_some = true; }
             Pending => return Ok(false),
             Ready(Err(e)) => return match e.kind() {
                 WouldBlock => Ok(false), ConnectionReset if read_some => Ok(true), _ => Err(Io(e)) },
         }
     }

   The socket is an oracle: one answer per `poll_read` call; an exhausted script answers Pending.
   [RGot bs] is `Ready(Ok(|bs|))` with the bytes appended to read_buf.  How many bytes one call may
   return is bounded by the spare capacity left by the growth rule ([spare_after_reserve] below);
   the theorems take that bound as the parameter [r].  No proofs in this file. *)
From AV Require Import Lib.Base.

Inductive rans :=
| RGot (bs : bytes)     (* Ready(Ok(n)), n = |bs|; n = 0 is end of stream *)
| RPending              (* Pending: the socket has stored the task's waker *)
| RWouldBlock           (* Ready(Err(WouldBlock)) *)
| RReset                (* Ready(Err(ConnectionReset)) *)
| RErrOther.            (* any other error *)

(* result of PayloadSender::need_read *)
Inductive pstatus := PRead | PPause | PDropped.

(* read_available at the MAX_BUFFER_SIZE cap (dispatcher.rs, the three-way match on
   `payload.as_ref().map(|p| p.need_read(cx))`): no socket read was polled to Pending, so nobody
   is registered; the task forces its own wake-up UNLESS the payload consumer is alive and
   applying back-pressure (Pause: need_read has registered the payload's io waker).
   Dropped (drain mode), Read and "no payload" all self-wake. *)
Definition cap_self_wake (status : option pstatus) : bool :=
  match status with
  | Some PPause => false
  | Some PDropped | Some PRead | None => true
  end.

Inductive rares := RaOk (should_disconnect : bool) | RaErr.

Record raout := mk_raout
  { ra_buf : bytes          (* read_buf afterwards *)
  ; ra_res : rares
  ; ra_script : list rans   (* unconsumed answers *)
  ; ra_rreg : bool          (* a poll_read returned Pending: reader waker registered *)
  ; ra_self_wake : bool     (* cx.waker().wake_by_ref() *)
  ; ra_io_reg : bool        (* need_read returned Pause: io waker registered with the payload *)
  ; ra_unfinish : bool      (* flags.remove(FINISHED) was executed *)
  ; ra_reads : N }.         (* poll_read calls that returned data *)

Section ReadAvailable.
  Variable MAXB : N.        (* h1::decoder::MAX_BUFFER_SIZE *)

  Definition is_dropped (pl : option pstatus) : bool :=
    match pl with Some PDropped => true | _ => false end.

  (* the loop; one script answer is consumed per iteration that reaches poll_read *)
  Fixpoint ra_loop (fuel : nat) (buf : bytes) (script : list rans) (pl : option pstatus)
           (read_some unfin : bool) (reads : N) : raout :=
    match fuel with
    | O => mk_raout buf RaErr script false false false unfin reads         (* not reached *)
    | S fuel' =>
        if MAXB <=? lenN buf then
          mk_raout buf (RaOk false) script false (cap_self_wake pl)
                   (match pl with Some PPause => true | _ => false end) unfin reads
        else
          match script with
          | [] => mk_raout buf (RaOk false) [] true false false unfin reads
          | a :: script' =>
              match a with
              | RGot bs =>
                  let unfin' := if is_dropped pl then unfin else true in
                  if lenN bs =? 0 then mk_raout buf (RaOk true) script' false false false unfin' reads
                  else ra_loop fuel' (buf ++ bs) script' pl true unfin' (reads + 1)
              | RPending => mk_raout buf (RaOk false) script' true false false unfin reads
              | RWouldBlock => mk_raout buf (RaOk false) script' false false false unfin reads
              | RReset =>
                  if read_some then mk_raout buf (RaOk true) script' false false false unfin reads
                  else mk_raout buf RaErr script' false false false unfin reads
              | RErrOther => mk_raout buf RaErr script' false false false unfin reads
              end
          end
    end.

  Definition read_available (read_disconnect : bool) (buf : bytes) (script : list rans)
             (pl : option pstatus) : raout :=
    if read_disconnect then mk_raout buf (RaOk false) script false false false false 0
    else ra_loop (S (length script)) buf script pl false false 0.
End ReadAvailable.

(* The growth rule: spare capacity offered to poll_read_buf, given the spare capacity before.
   `BytesMut::reserve(n)` guarantees room for at least n more bytes (it may allocate more: that
   surplus is allocator policy and is what the harness measures, not what the model predicts). *)
Definition spare_after_reserve (LW HW remaining : N) : N :=
  if remaining <? LW then N.max remaining (HW - remaining) else remaining.

(* Decision taken by `Request::decode` on the unparsed input (h1/decoder.rs:246-270): httparse is an
   oracle returning Complete(len) or Partial (or an error, mapped to a 400 elsewhere). *)
Inductive hstatus := HComplete (len : N) | HPartial | HInvalid.
Inductive hdecision := DItem (len : N) | DNeedMore | DTooLarge | DBadRequest.

Definition head_decision (MAXB : N) (buf_len : N) (h : hstatus) : hdecision :=
  match h with
  | HComplete len => DItem len
  | HPartial => if MAXB <=? buf_len then DTooLarge else DNeedMore
  | HInvalid => DBadRequest
  end.
