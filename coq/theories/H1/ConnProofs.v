(* Proofs about the event-level connection model (ConnState.v). *)
Require Import AV.Lib.Base AV.H1.ConnRec AV.H1.ConnState.

Ltac bm :=
  match goal with
  | |- context [if ?b then _ else _] => destruct b eqn:?
  | |- context [match ?x with _ => _ end] => destruct x eqn:?
  end.
Ltac bmh H :=
  match type of H with
  | context [if ?b then _ else _] => destruct b eqn:?
  | context [match ?x with _ => _ end] => destruct x eqn:?
  end.
Ltac inv H := inversion H; subst; clear H.

(* ------------------------------------------------------------------ frames *)
(* a handler poll touches only the handler scripts and the body channels *)
Lemma run_h_frame rid acts : forall s s' rest out, run_h rid acts s = (s', rest, out) ->
  s' = set_hfail (hfail s') (set_chans (chans s') s).
Proof.
  induction acts as [|a acts IH]; intros s s' rest out H; cbn [run_h] in H.
  - inv H. reflexivity.
  - destruct a; try (inv H; reflexivity).
    all: repeat bmh H; try (inv H; reflexivity); try (apply IH in H; rewrite H; reflexivity).
Qed.

Lemma poll_handler_frame rid s s' out : poll_handler rid s = (s', out) ->
  s' = set_hs (hs s') (set_hfail (hfail s') (set_chans (chans s') s)).
Proof.
  unfold poll_handler. destruct (run_h rid (hs_get rid (hs s)) s) as [[s1 rest] o] eqn:E.
  intro H. inv H. apply run_h_frame in E. rewrite E. reflexivity.
Qed.

(* ------------------------------------------------------------------ B: body discipline *)
(* The dispatcher holds a payload sender exactly while the codec is inside a request body, unless
   reading has been stopped for good. Holds for every variant of the code. *)
Definition Binv (s : st) : Prop :=
  (payload s <> None -> c_pl s = true) /\
  (payload s = None -> c_pl s = true -> read_disc s = true).

Lemma Binv_frame s s' : payload s' = payload s -> c_pl s' = c_pl s ->
  (read_disc s = true -> read_disc s' = true) -> Binv s -> Binv s'.
Proof. unfold Binv. intros -> -> Hr [H1 H2]. split; auto. Qed.

Lemma send_response_B c who st ro bl bp s : Binv s -> Binv (send_response c who st ro bl bp s).
Proof.
  apply Binv_frame; unfold send_response, encode_head, complete_flags, finish_hook, add_trace;
    repeat bm; cbn; auto.
Qed.

Lemma handle_request_B c r s : Binv s -> Binv (handle_request c r s).
Proof.
  unfold handle_request. intro H.
  destruct (poll_handler (rq_id r) (start_service c false r s)) as [s1 out] eqn:E.
  pose proof (poll_handler_frame _ _ _ _ E) as F.
  assert (B1 : Binv s1).
  { rewrite F. revert H. apply Binv_frame; unfold start_service, set_ctx, add_trace; repeat bm; cbn; auto. }
  destruct out as [[[k b] p]|]; [apply send_response_B|]; exact B1.
Qed.

Lemma take_payload_err_B eof s : read_disc s = true -> Binv (take_payload_err eof s).
Proof.
  unfold take_payload_err, Binv, upd_chan. intro R. destruct (payload s) eqn:E; cbn; rewrite ?E; split; intros; auto; congruence.
Qed.

Lemma parse_error_B s : Binv (parse_error s).
Proof.
  unfold parse_error, Binv, take_payload_err, upd_chan. destruct (payload s) eqn:E; cbn; rewrite ?E; split; intros; auto; congruence.
Qed.

Lemma decode_loop_B c : forall fuel s upd, Binv s -> Binv (fst (decode_loop fuel c s upd)).
Proof.
  induction fuel as [|f IH]; intros s upd H; cbn [decode_loop]; [exact H|].
  destruct (rbuf s) as [|it rest] eqn:Er; [exact H|].
  destruct (c_pl s) eqn:Ec.
  - destruct it; try exact H.
    + (* IData *) cbn. destruct (payload s) eqn:Ep.
      * apply IH. revert H. apply Binv_frame; cbn; auto.
      * cbn. destruct H as [H1 H2]. split; cbn; auto.
    + (* IEnd *) cbn. destruct (payload s) eqn:Ep.
      * apply IH. split; cbn; intros; congruence.
      * cbn. split; cbn; auto.
  - destruct it.
    + (* IReq *)
      match goal with |- Binv (fst (if ?b then _ else _)) => destruct b eqn:Hn end.
      * match goal with |- context [handle_request c r ?s0] => assert (B0 : Binv s0) end.
        { destruct H as [H1 H2]. unfold set_ctx, add_trace. repeat bm; split; cbn; intros; try congruence; auto.
          all: unfold has_body in *; destruct (rq_body r); try discriminate; auto.
          all: exfalso; apply H1 in H; congruence. }
        apply (handle_request_B c r) in B0.
        bm; [exact B0|]. apply IH. exact B0.
      * apply IH.
        destruct H as [H1 H2]. unfold set_ctx, add_trace. repeat bm; split; cbn; intros; try congruence; auto.
        all: unfold has_body in *; destruct (rq_body r); try discriminate; auto.
        all: exfalso; apply H1 in H; congruence.
    + (* IPart *) destruct rest; [exact H|]. apply IH. revert H. apply Binv_frame; cbn; auto.
    + cbn. apply parse_error_B.
    + cbn. apply parse_error_B.
    + cbn. apply parse_error_B.
Qed.

Lemma poll_request_B c s : Binv s -> Binv (fst (poll_request c s)).
Proof. unfold poll_request. intro H. repeat bm; try exact H. apply decode_loop_B. exact H. Qed.

(* the two end-of-body arms of poll_response (SendPayload / SendErrorPayload) are the same transition *)
Lemma body_end_err_eq c s : body_end_err c s = body_end c s.
Proof. reflexivity. Qed.
Lemma body_if c x : (if berr x then body_end_err c x else body_end c x) = body_end c x.
Proof. rewrite body_end_err_eq. destruct (berr x); reflexivity. Qed.

Lemma body_end_B c s : Binv s -> Binv (body_end c s).
Proof.
  apply Binv_frame; unfold body_end, complete_flags, finish_hook, add_trace; repeat bm; cbn; auto.
Qed.

Lemma poll_response_B c : forall fuel s, Binv s -> Binv (poll_response fuel c s).
Proof.
  induction fuel as [|f IH]; intros s H; cbn [poll_response]; rewrite ?body_if.
  - revert H. apply Binv_frame; cbn; auto.
  - destruct (dstate s) eqn:Ed.
    + destruct (draining s).
      * revert H. apply Binv_frame; repeat bm; cbn; auto.
      * destruct (messages s) as [|[r|stt] ms] eqn:Em.
        -- revert H. apply Binv_frame; repeat bm; cbn; auto.
        -- apply IH. revert H. apply Binv_frame; unfold start_service, set_ctx, add_trace; repeat bm; cbn; auto.
        -- apply IH. apply send_response_B. revert H. apply Binv_frame; cbn; auto.
    + destruct (poll_handler (rq_id r) s) as [s1 out] eqn:E.
      pose proof (poll_handler_frame _ _ _ _ E) as F.
      assert (B1 : Binv s1) by (rewrite F; revert H; apply Binv_frame; cbn; auto).
      destruct out as [[[k b] p]|].
      * apply IH. apply send_response_B. exact B1.
      * destruct (poll_request c s1) as [s2 upd] eqn:E2.
        pose proof (poll_request_B c s1 B1) as B2. rewrite E2 in B2. cbn in B2.
        destruct upd; [apply IH|]; exact B2.
    + bm.
      * revert H. apply Binv_frame; cbn; auto.
      * apply IH. apply body_end_B. revert H. apply Binv_frame; repeat bm; cbn; auto.
Qed.

Lemma read_available_B s : Binv s -> Binv (fst (fst (read_available s))).
Proof.
  unfold read_available, unfinish. intro H. repeat bm; cbn; try exact H.
  all: revert H; apply Binv_frame; cbn; auto.
Qed.

Lemma flush_B wb s : Binv s -> Binv (fst (flush wb s)).
Proof. unfold flush. intro H. repeat bm; cbn; exact H. Qed.

Lemma step_B c e s : Binv s -> Binv (step c e s).
Proof.
  intro H. unfold step. destruct (negb (res s =? 0)); [exact H|]. destruct e.
  - revert H. apply Binv_frame; unfold env_step; repeat bm; cbn; auto.
  - revert H. apply Binv_frame; unfold poll_graceful; repeat bm; cbn; auto.
  - unfold poll_head_timer. repeat bm; try exact H.
    all: try (revert H; apply Binv_frame; cbn; auto; fail).
    all: match goal with |- Binv (set_shutdown true ?x) => assert (Binv x) as B0 end;
         try (apply send_response_B; revert H; apply Binv_frame; cbn; auto);
         try (revert B0; apply Binv_frame; cbn; auto).
  - revert H. apply Binv_frame; unfold poll_ka_timer; repeat bm; cbn; auto.
  - revert H. apply Binv_frame; unfold poll_sd_timer; repeat bm; cbn; auto.
  - destruct (linger s); [|exact H]. unfold poll_linger.
    destruct (flush wblock s) as [s1 ok] eqn:E1.
    pose proof (flush_B wblock s H) as B1. rewrite E1 in B1; cbn in B1.
    destruct ok; cbn; [|exact B1].
    unfold ensure_linger_timer. repeat bm; cbn.
    all: try (revert B1; apply Binv_frame; cbn; auto; fail).
    all: match goal with E : read_available ?x = (?s2, ?d, ?io) |- _ =>
           assert (Binv x) as B2 by (revert B1; apply Binv_frame; cbn; auto);
           apply read_available_B in B2; rewrite E in B2; cbn in B2 end.
    all: try (revert B2; apply Binv_frame; cbn; auto; fail).
  - destruct (negb (linger s) && shutdown s); [|exact H]. unfold shutdown_io, ensure_linger_timer, flush.
    repeat bm; cbn; try exact H.
    all: try (revert H; apply Binv_frame; cbn; auto; fail).
    all: repeat match goal with E : (_, _) = (_, _) |- _ => inv E end.
    all: try (revert H; apply Binv_frame; cbn; auto; fail).
  - destruct (linger s || shutdown s); [exact H|]. unfold read_phase.
    destruct (read_available s) as [[s1 d] io] eqn:E1.
    pose proof (read_available_B s H) as B1. rewrite E1 in B1; cbn in B1.
    destruct io; [revert B1; apply Binv_frame; cbn; auto|].
    match goal with |- context [poll_request c ?x] => assert (Binv x) as B2 end.
    { revert B1. apply Binv_frame; repeat bm; cbn; auto. }
    apply poll_request_B with (c := c) in B2.
    destruct d; [|exact B2]. apply take_payload_err_B. reflexivity.
  - unfold response_phase.
    match goal with |- context [poll_response ?f c s] => pose proof (poll_response_B c f s H) as B1 end.
    apply flush_B. revert B1. apply Binv_frame; repeat bm; cbn; auto.
  - revert H. apply Binv_frame; unfold epilogue; repeat bm; cbn; auto.
Qed.

Lemma init_B c hs0 : Binv (init c hs0).
Proof. split; cbn; intros; congruence. Qed.

Lemma run_events_B c es : forall s, Binv s -> Binv (run_events c es s).
Proof. induction es as [|e es IH]; intros s H; cbn; [exact H|]. apply IH. apply step_B. exact H. Qed.

(* ------------------------------------------------------------------ poll is a composition of steps *)
Lemma res_send_response c who st ro bl bp s : res (send_response c who st ro bl bp s) = res s.
Proof. unfold send_response, encode_head, complete_flags, finish_hook, add_trace. repeat bm; reflexivity. Qed.
Lemma res_graceful sig s : res (poll_graceful sig s) = res s.
Proof. unfold poll_graceful. repeat bm; reflexivity. Qed.
Lemma res_head_timer c s : res (poll_head_timer c s) = res s.
Proof. unfold poll_head_timer. repeat bm; cbn; rewrite ?res_send_response; reflexivity. Qed.
Lemma res_ka_timer c s : res (poll_ka_timer c s) = res s.
Proof. unfold poll_ka_timer. repeat bm; reflexivity. Qed.

Section Steps.
  Variable c : cfg.
  Variable P : st -> Prop.
  Hypothesis Pstep : forall e s, P s -> P (step c e s).

  Lemma step_at e s : res s = 0 -> P s -> P (match e with
       | EEnv r => env_step r s
       | EGraceful sig => poll_graceful sig s
       | EHeadTimer => poll_head_timer c s
       | EKaTimer => poll_ka_timer c s
       | ESdTimer => poll_sd_timer s
       | ELinger wb => if linger s then poll_linger c wb s else s
       | EShutdownIo wb sp => if negb (linger s) && shutdown s then shutdown_io c wb sp s else s
       | EReadPhase => if linger s || shutdown s then s else read_phase c s
       | EResponsePhase wb => response_phase c wb s
       | EEpilogue => fst (epilogue c s)
       end).
  Proof. intros R H. pose proof (Pstep e s H) as Q. unfold step in Q. rewrite R in Q. exact Q. Qed.

  Lemma sd_send_response who st ro bl bp s : shutdown s = true -> shutdown (send_response c who st ro bl bp s) = true.
  Proof. unfold send_response, encode_head, complete_flags, finish_hook, add_trace. intro. repeat bm; cbn; auto. Qed.

  (* once SHUTDOWN is set a poll takes the linger or the shutdown branch: no re-entry *)
  Lemma poll_body_shutdown r f s : shutdown s = true -> res s = 0 -> P s -> P (poll_body (S f) c r s).
  Proof.
    intros Hs R H. cbn [poll_body].
    pose proof (step_at (EGraceful (r_signal r)) s R H) as H1. cbn beta iota in H1.
    assert (R1 := res_graceful (r_signal r) s). rewrite R in R1.
    assert (S1 : shutdown (poll_graceful (r_signal r) s) = true) by (unfold poll_graceful; repeat bm; cbn; auto).
    set (s1 := poll_graceful (r_signal r) s) in *.
    pose proof (step_at EHeadTimer s1 R1 H1) as H2. cbn beta iota in H2.
    assert (R2 := res_head_timer c s1). rewrite R1 in R2.
    assert (S2 : shutdown (poll_head_timer c s1) = true).
    { unfold poll_head_timer. repeat bm; cbn; auto. }
    set (s2 := poll_head_timer c s1) in *.
    pose proof (step_at EKaTimer s2 R2 H2) as H3. cbn beta iota in H3.
    assert (R3 := res_ka_timer c s2). rewrite R2 in R3.
    assert (S3 : shutdown (poll_ka_timer c s2) = true) by (unfold poll_ka_timer; repeat bm; cbn; auto).
    set (s3 := poll_ka_timer c s2) in *.
    pose proof (step_at ESdTimer s3 R3 H3) as H4. cbn beta iota in H4.
    set (s4 := poll_sd_timer s3) in *.
    destruct (negb (res s4 =? 0)) eqn:R4; [exact H4|].
    assert (R4' : res s4 = 0) by (destruct (res s4 =? 0) eqn:E; [apply N.eqb_eq; exact E|discriminate]).
    destruct (linger s4) eqn:L4.
    - pose proof (step_at (ELinger (r_wblock r)) s4 R4' H4) as H5. cbn beta iota in H5. rewrite L4 in H5. exact H5.
    - assert (S4 : shutdown s4 = true).
      { subst s4. unfold poll_sd_timer in *. repeat bm; cbn in *; auto. }
      rewrite S4.
      pose proof (step_at (EShutdownIo (r_wblock r) (r_sdpend r)) s4 R4' H4) as H5. cbn beta iota in H5.
      rewrite L4, S4 in H5. exact H5.
  Qed.

  Lemma poll_body_steps r f s : res s = 0 -> P s -> P (poll_body (S (S f)) c r s).
  Proof.
    intros R H. cbn [poll_body].
    pose proof (step_at (EGraceful (r_signal r)) s R H) as H1. cbn beta iota in H1.
    assert (R1 := res_graceful (r_signal r) s). rewrite R in R1.
    set (s1 := poll_graceful (r_signal r) s) in *.
    pose proof (step_at EHeadTimer s1 R1 H1) as H2. cbn beta iota in H2.
    assert (R2 := res_head_timer c s1). rewrite R1 in R2.
    set (s2 := poll_head_timer c s1) in *.
    pose proof (step_at EKaTimer s2 R2 H2) as H3. cbn beta iota in H3.
    assert (R3 := res_ka_timer c s2). rewrite R2 in R3.
    set (s3 := poll_ka_timer c s2) in *.
    pose proof (step_at ESdTimer s3 R3 H3) as H4. cbn beta iota in H4.
    set (s4 := poll_sd_timer s3) in *.
    destruct (negb (res s4 =? 0)) eqn:R4; [exact H4|].
    assert (R4' : res s4 = 0) by (destruct (res s4 =? 0) eqn:E; [apply N.eqb_eq; exact E|discriminate]).
    destruct (linger s4) eqn:L4.
    { pose proof (step_at (ELinger (r_wblock r)) s4 R4' H4) as H5. cbn beta iota in H5. rewrite L4 in H5. exact H5. }
    destruct (shutdown s4) eqn:S4.
    { pose proof (step_at (EShutdownIo (r_wblock r) (r_sdpend r)) s4 R4' H4) as H5. cbn beta iota in H5.
      rewrite L4, S4 in H5. exact H5. }
    pose proof (step_at EReadPhase s4 R4' H4) as H5. cbn beta iota in H5. rewrite L4, S4 in H5. cbn in H5.
    set (s5 := read_phase c s4) in *.
    destruct (negb (res s5 =? 0)) eqn:R5; [exact H5|].
    assert (R5' : res s5 = 0) by (destruct (res s5 =? 0) eqn:E; [apply N.eqb_eq; exact E|discriminate]).
    pose proof (step_at (EResponsePhase (r_wblock r)) s5 R5' H5) as H6. cbn beta iota in H6.
    set (s6 := response_phase c (r_wblock r) s5) in *.
    destruct (negb (res s6 =? 0)) eqn:R6; [exact H6|].
    assert (R6' : res s6 = 0) by (destruct (res s6 =? 0) eqn:E; [apply N.eqb_eq; exact E|discriminate]).
    pose proof (step_at EEpilogue s6 R6' H6) as H7. cbn beta iota in H7.
    destruct (epilogue c s6) as [s7 again] eqn:E7. cbn in H7.
    destruct again; [|exact H7].
    (* re-entry happens only with SHUTDOWN set and the future still pending *)
    assert (shutdown s7 = true /\ res s7 = 0) as [S7 R7].
    { unfold epilogue in E7. repeat bmh E7; inv E7; cbn; auto. }
    apply poll_body_shutdown; assumption.
  Qed.

  Lemma poll_steps r s : P s -> P (poll c r s).
  Proof.
    intro H. unfold poll. destruct (negb (res s =? 0)) eqn:R; [exact H|].
    assert (R' : res s = 0) by (destruct (res s =? 0) eqn:E; [apply N.eqb_eq; exact E|discriminate]).
    apply poll_body_steps; [unfold env_step; destruct (r_rd r); exact R'|].
    exact (step_at (EEnv r) s R' H).
  Qed.

  Lemma run_polls_steps rs : forall s, P s -> P (run_polls c rs s).
  Proof. induction rs as [|r rs IH]; intros s H; cbn; [exact H|]. apply IH. apply poll_steps. exact H. Qed.
End Steps.

