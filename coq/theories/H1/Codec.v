(* H1/Codec.v — model of the request side of `h1::Codec` (actix-http/src/h1/codec.rs,
   `impl Decoder for Codec`) on top of `<Request as MessageType>::decode` (decoder.rs:231),
   and of the loop of `InnerDispatcher::poll_request` that drains it (dispatcher.rs:878).

   The request-head TOKENIZER is external code (httparse::Request::parse_with_uninit_headers,
   then http::Method::from_bytes and http::Uri::try_from on its output).  It is the Section
   variable [head]; everything proved about this file carries the hypotheses of
   CodecProofs.HeadLaws as premises.  H1/SimpleHead.v gives a concrete instance.

   Rust                                       Gallina
   -----------------------------------------  ---------------------------------------------
   httparse::Status::Partial                  HPartial
   Status::Complete(len) + method/uri/ver +   HComplete len method target version headers
     the recorded HeaderIndex list
   Err(httparse::Error) / Method / Uri error  HBad e   (e = the ParseError class)
   Request::decode(src)                       [request_decode]
   Codec { payload, flags & STREAM, .. }      [codec]  (HEAD flag, version, conn_type are
                                              encoder context: written here, read only by
                                              `encode`; they do not influence `decode` and are
                                              left to the C02/C03 models)
   Message::{Item(req), Chunk(Some), Chunk(None)}   [msg] = MItem | MChunk | MEof
   Codec::decode                              [codec_decode]
   poll_request's `loop { codec.decode }`     [run]: until Ok(None) or Err; what it collects is
                                              kept normalised: the list of requests seen so
                                              far, each with the body bytes received so far
                                              and a "body complete" flag
   successive socket reads                    [feed]: read_buf.extend(seg); poll_request *)
From AV Require Import Lib.Base H1.Chunked H1.PayloadDec H1.Framing.

Record req := mk_req {
  r_method : bytes; r_target : bytes; r_version : version;
  r_headers : list header;                 (* in wire order; names as on the wire *)
  r_ka : option ctype; r_expect : bool }.

Inductive head_res :=
| HPartial
| HComplete (len : nat) (method target : bytes) (ver : version) (hs : list header)
| HBad (e : perr).

Inductive msg := MItem (r : req) | MChunk (b : bytes) | MEof.

Record codec := mk_codec { c_payload : option kind; c_stream : bool }.
Definition codec0 : codec := mk_codec None false.

(* decoder result: Ok(x) | Err(ParseError) | panic *)
Inductive dres (A : Type) := DOk (a : A) | DErr (e : perr) | DPanic.
Arguments DOk {A}. Arguments DErr {A}. Arguments DPanic {A}.

(* one request as the application sees it *)
Record message := mk_message { m_req : req; m_body : bytes; m_done : bool }.

Definition push (acc : list message) (m : msg) : list message :=
  match m with
  | MItem r => acc ++ [mk_message r [] false]
  | MChunk b => match rev acc with
                | last :: before => rev before ++ [mk_message (m_req last) (m_body last ++ b) (m_done last)]
                | [] => acc                              (* "unexpected payload chunk": not reachable *)
                end
  | MEof => match rev acc with
            | last :: before => rev before ++ [mk_message (m_req last) (m_body last) true]
            | [] => acc
            end
  end.

Section WithHead.
  Variable head : bytes -> head_res.
  Variable max_buffer_size : N.              (* decoder.rs MAX_BUFFER_SIZE *)

  (* <Request as MessageType>::decode : Ok(None) | Ok(Some((req, payload type))) + rest *)
  Definition request_decode (src : bytes) : dres (option (req * ptype * bytes)) :=
    match head src with
    | HBad e => DErr e
    | HPartial =>
        if max_buffer_size <=? lenN src then DErr ETooLarge      (* src.len() >= MAX_BUFFER_SIZE *)
        else DOk None
    | HComplete len method target ver hs =>
        (* src.split_to(len); set_headers; post-checks *)
        match request_payload ver method hs with
        | None => DErr EHeader
        | Some (pt, ka, expect) =>
            DOk (Some (mk_req method target ver hs ka expect, pt, skipn len src))
        end
    end.

  Definition codec_decode (c : codec) (src : bytes) : dres (codec * bytes * option msg) :=
    match c_payload c with
    | Some k =>
        match pdecode k src with
        | Ok (k', src', Some (PChunk b)) => DOk (mk_codec (Some k') (c_stream c), src', Some (MChunk b))
        | Ok (k', src', Some PEof) => DOk (mk_codec None (c_stream c), src', Some MEof)   (* payload.take() *)
        | Ok (k', src', None) => DOk (mk_codec (Some k') (c_stream c), src', None)
        | Err => DErr EIo                                  (* io::Error -> ParseError::Io *)
        | Pan | Pend => DPanic
        end
    | None =>
        match request_decode src with
        | DErr e => DErr e
        | DPanic => DPanic
        | DOk None => DOk (c, src, None)
        | DOk (Some (r, pt, rest)) =>
            let c' := match pt with
                      | PTNone => mk_codec None (c_stream c)
                      | PTPayload k => mk_codec (Some k) (c_stream c)
                      | PTStream k => mk_codec (Some k) true
                      end in
            DOk (c', rest, Some (MItem r))
        end
    end.

  (* outcome of draining: state, unread bytes, messages so far, and the error if one occurred
     (after an error poll_request sets READ_DISCONNECT: nothing more is decoded) *)
  Inductive outcome :=
  | ONeedMore (c : codec) (rest : bytes) (ms : list message)
  | OError (e : perr) (ms : list message)
  | OPanic
  | OFuel.

  Fixpoint run (fuel : nat) (c : codec) (buf : bytes) (acc : list message) : outcome :=
    match fuel with
    | O => OFuel
    | S f =>
        match codec_decode c buf with
        | DErr e => OError e acc
        | DPanic => OPanic
        | DOk (c', buf', None) => ONeedMore c' buf' acc
        | DOk (c', buf', Some m) => run f c' buf' (push acc m)
        end
    end.

  (* fuel that always suffices (CodecProofs.run_fuel_ok) *)
  Definition run_fuel (buf : bytes) : nat := 2 * length buf + 3.

  Fixpoint feed (segs : list bytes) (c : codec) (residue : bytes) (acc : list message) : outcome :=
    match segs with
    | [] => ONeedMore c residue acc
    | seg :: more =>
        let buf := residue ++ seg in
        match run (run_fuel buf) c buf acc with
        | ONeedMore c' r acc' => feed more c' r acc'
        | other => other
        end
    end.
End WithHead.
