(* Model of the HTTP/1 response encoder, reduced to what decides framing, and byte-exact for the
   body transfer encodings.  Transcribed from (the repaired tree: fixes F1, F2, F12, F18, F18b, F23)
     actix-http/src/h1/codec.rs     Codec::{new, decode (context part), encode}
     actix-http/src/h1/encoder.rs   MessageType::encode_headers, MessageEncoder::encode,
                                    TransferEncoding::{encode, encode_eof}
     actix-http/src/helpers.rs      write_status_line, write_content_length
   No proofs here. *)
From Coq Require Import String Ascii.
From AV Require Import Lib.Base.
Open Scope N_scope.

Definition str (s : string) : bytes := map N_of_ascii (list_ascii_of_string s).
Definition CRLF : bytes := [13; 10].

(* ---------------------------------------------------------------- numbers as text *)
(* most significant digit first; [fuel] digits at most (16 hex digits = usize, 20 decimal = u64) *)
Fixpoint digits_aux (base : N) (dig : N -> N) (fuel : nat) (n : N) (acc : bytes) : bytes :=
  match fuel with
  | O => acc
  | S f => let acc' := dig (n mod base) :: acc in
           if n <? base then acc' else digits_aux base dig f (n / base) acc'
  end.
Definition dec_digit (d : N) : N := 48 + d.
Definition hex_digit_upper (d : N) : N := if d <? 10 then 48 + d else 55 + d.
(* itoa::Buffer::format(n) *)
Definition dec (n : N) : bytes := digits_aux 10 dec_digit 20 n [].
(* format!("{:X}", n) *)
Definition hex_upper (n : N) : bytes := digits_aux 16 hex_digit_upper 16 n [].

(* ---------------------------------------------------------------- types *)
Inductive version := V10 | V11.
Inductive conn_t := CClose | CKeepAlive | CUpgrade.
Inductive bsize := BNone | BSized (n : N) | BStream.

Definition version_eqb (a b : version) : bool :=
  match a, b with V10, V10 | V11, V11 => true | _, _ => false end.
Definition conn_eqb (a b : conn_t) : bool :=
  match a, b with CClose, CClose | CKeepAlive, CKeepAlive | CUpgrade, CUpgrade => true | _, _ => false end.
Definition lt_11 (v : version) : bool := match v with V10 => true | V11 => false end.

(* what Codec::decode keeps of a request head *)
Record reqctx := mkReq {
  rq_head : bool;               (* method == HEAD *)
  rq_ver : version;
  rq_conn : option conn_t;      (* connection header: close / keep-alive / upgrade, None otherwise *)
  rq_stream : bool;             (* PayloadType::Stream: CONNECT or websocket upgrade *)
  rq_expect : bool }.           (* carries expect: 100-... *)

(* the framing-relevant part of a Response<()> *)
Record resp := mkResp {
  rs_status : N;
  rs_conn : option conn_t;      (* ResponseHead::conn_type(): CLOSE / KEEP_ALIVE / UPGRADE flag *)
  rs_nochunk : bool;            (* Flags::NO_CHUNKING *)
  rs_headers : list (bytes * bytes) }.  (* user headers, lower-case names, iteration order *)

(* TransferEncodingKind *)
Inductive te := TChunked (eof : bool) | TLength (remaining : N) | TEof.
Definition te_empty : te := TLength 0.
Definition te_is_eof (t : te) : bool := match t with TEof => true | _ => false end.

(* ---------------------------------------------------------------- TransferEncoding *)
(* TransferEncoding::encode: new state, bytes appended (the returned eof flag is discarded by
   every caller in the server path) *)
Definition te_encode (t : te) (msg : bytes) : te * bytes :=
  match t with
  | TEof => (TEof, msg)
  | TChunked eof =>
      if eof then (TChunked true, [])
      else match msg with
           | [] => (TChunked true, str "0" ++ CRLF ++ CRLF)
           | _ => (TChunked false, hex_upper (lenN msg) ++ CRLF ++ msg ++ CRLF)
           end
  | TLength remaining =>
      if 0 <? remaining then
        match msg with
        | [] => (TLength remaining, [])
        | _ => let len := N.min remaining (lenN msg) in
               (TLength (remaining - len), firstn (N.to_nat len) msg)
        end
      else (TLength remaining, [])
  end.

(* TransferEncoding::encode_eof: None = Err(UnexpectedEof) *)
Definition te_encode_eof (t : te) : option (te * bytes) :=
  match t with
  | TEof => Some (TEof, [])
  | TLength remaining => if remaining =? 0 then Some (t, []) else None
  | TChunked eof => if eof then Some (TChunked true, []) else Some (TChunked true, str "0" ++ CRLF ++ CRLF)
  end.

(* ---------------------------------------------------------------- head *)
(* http::StatusCode::canonical_reason (http 0.2: 103 has none) for the statuses the harness uses *)
Definition reason_table : list (N * string) :=
  [(100, "Continue"); (101, "Switching Protocols"); (102, "Processing");
   (200, "OK"); (201, "Created"); (204, "No Content"); (304, "Not Modified");
   (400, "Bad Request"); (404, "Not Found"); (408, "Request Timeout");
   (431, "Request Header Fields Too Large"); (500, "Internal Server Error")]%string.
Definition reason_of (s : N) : bytes :=
  str (match find (fun p : N * string => fst p =? s) reason_table with
       | Some p => snd p
       | None => "<unknown status code>"%string
       end).

(* helpers::write_status_line + reason (no CRLF: the length part starts with it) *)
Definition status_line (v : version) (s : N) : bytes :=
  str (match v with V11 => "HTTP/1.1 " | V10 => "HTTP/1.0 " end)%string
  ++ [48 + s / 100; 48 + (s / 10) mod 10; 48 + s mod 10; 32] ++ reason_of s.

Definition is_informational (s : N) : bool := (100 <=? s) && (s <? 200).
Definition name_is (n : bytes) (s : string) : bool := bytes_eqb n (str s).

(* A head as structured data: status line and header fields in wire order. *)
Record head := mkHead { hd_status_line : bytes; hd_fields : list (bytes * bytes) }.

Definition render_field (f : bytes * bytes) : bytes := fst f ++ str ": " ++ snd f.
Definition render_head (h : head) : bytes :=
  hd_status_line h ++ CRLF ++ concat (map (fun f => render_field f ++ CRLF) (hd_fields h)) ++ CRLF.

Definition date_mask : bytes := repeat 42 29.   (* the harness masks the 29 date characters *)

(* MessageType::encode_headers for Response<()> (camel_case = false): the header fields *)
Definition encode_headers (r : resp) (ver : version) (length : bsize) (ct : conn_t)
  : list (bytes * bytes) :=
  let chunked := negb (rs_nochunk r) in
  let s := rs_status r in
  let skip_len0 := match length with BStream => false | _ => true end in
  let '(skip_len1, length1) :=
    if is_informational s || (s =? 204) then (true, BNone)
    else if s =? 304 then (false, BNone)
    else (skip_len0, length) in
  let close_delimited := lt_11 ver in
  let '(skip_len, len_fields) :=
    match length1 with
    | BStream =>
        if chunked && close_delimited then (true, [])
        else if chunked then (true, [(str "transfer-encoding", str "chunked")])
        else (false, [])
    | BSized n => (skip_len1, [(str "content-length", dec n)])
    | BNone => (skip_len1, [])
    end in
  let conn_fields :=
    match ct with
    | CUpgrade => [(str "connection", str "upgrade")]
    | CKeepAlive => if lt_11 ver then [(str "connection", str "keep-alive")] else []
    | CClose => if lt_11 ver then [] else [(str "connection", str "close")]
    end in
  let user :=
    filter (fun kv : bytes * bytes =>
              let k := fst kv in
              if name_is k "connection" then false
              else if (name_is k "transfer-encoding" || name_is k "content-length") && skip_len then false
              else true) (rs_headers r) in
  let has_date := existsb (fun kv : bytes * bytes => name_is (fst kv) "date") (rs_headers r) in
  len_fields ++ conn_fields ++ user ++ (if has_date then [] else [(str "date", date_mask)]).

(* no body may follow this status (MessageEncoder::encode, repaired: F2; 304 is not in the list:
   the test-suite pins "304 with a body writes the body", see known finding F2-304-with-body) *)
Definition status_no_body (s : N) : bool :=
  (is_informational s && negb (s =? 101)) || (s =? 204).

(* MessageEncoder::encode: transfer encoding chosen, connection type written, head *)
Definition choose_te (head_req stream : bool) (r : resp) (ver : version) (length : bsize) : te :=
  let no_body := head_req || status_no_body (rs_status r) in
  if negb no_body then
    match length with
    | BSized 0 => te_empty
    | BSized len => TLength len
    | BStream =>
        let http10_response := lt_11 ver in
        if negb (rs_nochunk r) && negb stream && negb http10_response then TChunked false else TEof
    | BNone => te_empty
    end
  else te_empty.

Definition msg_encode (head_req stream : bool) (r : resp) (ver : version) (length : bsize) (ct : conn_t)
  : te * conn_t * head :=
  let t := choose_te head_req stream r ver length in
  let ct' := if conn_eqb ct CKeepAlive && te_is_eof t then CClose else ct in
  (t, ct', mkHead (status_line ver (rs_status r)) (encode_headers r ver length ct')).

(* ---------------------------------------------------------------- Codec *)
Record codec := mkCodec {
  c_ka_enabled : bool;    (* Flags::KEEP_ALIVE_ENABLED *)
  c_head : bool;          (* Flags::HEAD *)
  c_stream : bool;        (* Flags::STREAM (only ever inserted) *)
  c_ver : version;
  c_conn : conn_t;
  c_te : te }.

Definition codec_new (ka_enabled : bool) : codec :=
  mkCodec ka_enabled false false V11 CClose te_empty.

(* RequestHead::connection_type *)
Definition req_conn_type (r : reqctx) : conn_t :=
  match rq_conn r with
  | Some c => c
  | None => if lt_11 (rq_ver r) then CClose else CKeepAlive
  end.

(* Codec::decode, Message::Item branch: the context written at decode time *)
Definition codec_decode (c : codec) (r : reqctx) : codec :=
  let ct := req_conn_type r in
  let ct := if conn_eqb ct CKeepAlive && negb (c_ka_enabled c) then CClose else ct in
  mkCodec (c_ka_enabled c) (rq_head r) (c_stream c || rq_stream r) (rq_ver r) ct (c_te c).

(* Codec::{request_context, current_context, set_request_context} (F12 repair: the dispatcher
   saves / restores / re-derives the per-request context around queued requests) *)
Definition reqcontext : Type := bool * version * conn_t.
Definition request_context (c : codec) (r : reqctx) : reqcontext :=
  let ct := req_conn_type r in
  (rq_head r, rq_ver r, if conn_eqb ct CKeepAlive && negb (c_ka_enabled c) then CClose else ct).
Definition current_context (c : codec) : reqcontext := (c_head c, c_ver c, c_conn c).
Definition set_request_context (c : codec) (x : reqcontext) : codec :=
  mkCodec (c_ka_enabled c) (fst (fst x)) (c_stream c) (snd (fst x)) (snd x) (c_te c).

(* Codec::encode(Message::Item((res, length))), after the connection-status / version lines *)
Definition codec_encode_item0 (c : codec) (r : resp) (length : bsize) : codec * head :=
  let ct := match rs_conn r with
            | Some CKeepAlive => c_conn c
            | Some ct => ct
            | None => c_conn c
            end in
  let '(t, ct', h) := msg_encode (c_head c) (c_stream c) r (c_ver c) length ct in
  (mkCodec (c_ka_enabled c) (c_head c) (c_stream c) (c_ver c) ct' t, h).

(* repaired (F18b): the response to a CONNECT / upgrade request (STREAM) is never chunk-framed by
   the encoder, so Codec::encode marks a stream-sized response no_chunking before encoding and
   the head no longer announces transfer-encoding: chunked *)
Definition stream_adjust (c : codec) (r : resp) (length : bsize) : resp :=
  if c_stream c && (match length with BStream => true | _ => false end)
  then mkResp (rs_status r) (rs_conn r) true (rs_headers r) else r.

Definition codec_encode_item (c : codec) (r : resp) (length : bsize) : codec * head :=
  codec_encode_item0 c (stream_adjust c r length) length.

(* Codec::encode(Message::Chunk(Some(bytes))) (repaired: F1, empty chunks are not forwarded) *)
Definition codec_encode_chunk (c : codec) (b : bytes) : codec * bytes :=
  match b with
  | [] => (c, [])
  | _ => let '(t, out) := te_encode (c_te c) b in
         (mkCodec (c_ka_enabled c) (c_head c) (c_stream c) (c_ver c) (c_conn c) t, out)
  end.

(* Codec::encode(Message::Chunk(None)) *)
Definition codec_encode_eof (c : codec) : option (codec * bytes) :=
  match te_encode_eof (c_te c) with
  | Some (t, out) => Some (mkCodec (c_ka_enabled c) (c_head c) (c_stream c) (c_ver c) (c_conn c) t, out)
  | None => None
  end.

Definition codec_keep_alive (c : codec) : bool := conn_eqb (c_conn c) CKeepAlive.

(* all chunks of a body, in order *)
Fixpoint codec_encode_chunks (c : codec) (chunks : list bytes) : codec * bytes :=
  match chunks with
  | [] => (c, [])
  | b :: rest => let '(c1, o1) := codec_encode_chunk c b in
                 let '(c2, o2) := codec_encode_chunks c1 rest in (c2, o1 ++ o2)
  end.
