(* Proofs about the sequencing model: for every event schedule, what is appended to write_buf is
   a sequence of responses in request order, one head per dispatched request, never interleaved. *)
From Coq Require Import String Sorting.Sorted.
From AV Require Import Lib.Base H1.Encoder H1.RespSeq.
Open Scope N_scope.

(* ---------------------------------------------------------------- the order specification *)
(* A scanner over the appended units.  [sc_lo]: smallest request index a NEW response may carry
   (all earlier responses have smaller indices); [sc_cur]: the response in progress and whether
   its head has been written. *)
Record sc := mkSc { sc_lo : nat; sc_cur : option (nat * bool) }.
Definition sc0 : sc := mkSc O None.

Definition scan1 (s : sc) (u : wunit) : option sc :=
  match u with
  | UCont j =>                       (* 100 Continue: only as the first unit of a new response *)
      match sc_cur s with
      | Some (_, false) => None
      | _ => if (sc_lo s <=? j)%nat then Some (mkSc (S j) (Some (j, false))) else None
      end
  | UHead (Some j) _ =>              (* the one head of response j *)
      match sc_cur s with
      | Some (j', false) => if (j' =? j)%nat then Some (mkSc (sc_lo s) (Some (j, true))) else None
      | _ => if (sc_lo s <=? j)%nat then Some (mkSc (S j) (Some (j, true))) else None
      end
  | UHead None _ =>                  (* error response answering no request: between responses *)
      match sc_cur s with
      | Some (_, false) => None
      | _ => Some (mkSc (sc_lo s) None)
      end
  | UData j _ =>                     (* body bytes: only of the response whose head came last *)
      match sc_cur s with
      | Some (j', true) => if (j' =? j)%nat then Some s else None
      | _ => None
      end
  end.

Definition scan_opt (o : option sc) (u : wunit) : option sc :=
  match o with Some s => scan1 s u | None => None end.
Definition scan (s : sc) (us : list wunit) : option sc := fold_left scan_opt us (Some s).

(* in request order, one head per response, 100-continue first, body after its head, contiguous *)
Definition well_sequenced (us : list wunit) : Prop := exists s, scan sc0 us = Some s.

Lemma scan_none us : fold_left scan_opt us None = None.
Proof. induction us; [reflexivity|exact IHus]. Qed.

Lemma scan_snoc s0 out u s : scan s0 out = Some s -> scan s0 (out ++ [u]) = scan1 s u.
Proof. unfold scan. intro H. rewrite fold_left_app, H. reflexivity. Qed.

(* ---------------------------------------------------------------- schedules *)
(* requests are decoded in the order they were sent: the k-th arrival is request k *)
Fixpoint arr_ok (n : nat) (es : list event) : Prop :=
  match es with
  | [] => True
  | EvArrive j :: r => N.to_nat j = n /\ arr_ok (S n) r
  | _ :: r => arr_ok n r
  end.
Fixpoint arrivals (es : list event) : nat :=
  match es with
  | [] => O
  | EvArrive _ :: r => S (arrivals r)
  | _ :: r => arrivals r
  end.

(* ---------------------------------------------------------------- invariant *)
Fixpoint msgs_ok (lo n : nat) (m : list dmsg) : Prop :=
  match m with
  | [] => True
  | MItem j :: r => (lo <= j < n)%nat /\ msgs_ok (S j) n r
  | MError _ :: r => msgs_ok lo n r
  end.

Definition cur_ok (s : sc) : Prop := match sc_cur s with Some (_, false) => False | _ => True end.
Definition below (b : nat) (l : list nat) : Prop := Forall (fun k => (k < b)%nat) l.

Definition st_ok (n : nat) (s : sc) (d : dstate) : Prop :=
  match d_st d with
  | SNone => cur_ok s /\ msgs_ok (sc_lo s) n (d_msgs d) /\ below (sc_lo s) (d_started d)
  | SExpect j => cur_ok s /\ (sc_lo s <= j < n)%nat /\ msgs_ok (S j) n (d_msgs d) /\ below (sc_lo s) (d_started d)
  | SService j =>
      ((sc_cur s = Some (j, false) /\ sc_lo s = S j) \/ (cur_ok s /\ (sc_lo s <= j)%nat)) /\
      (j < n)%nat /\ msgs_ok (S j) n (d_msgs d) /\ below (S j) (d_started d) /\ In j (d_started d)
  | SSend j _ =>
      sc_cur s = Some (j, true) /\ sc_lo s = S j /\
      (j < n)%nat /\ msgs_ok (S j) n (d_msgs d) /\ below (S j) (d_started d) /\ In j (d_started d)
  end.

Definition heads_started (d : dstate) : Prop :=
  forall j h, In (UHead (Some j) h) (d_out d) -> In j (d_started d).

Definition InvS (n : nat) (s : sc) (d : dstate) : Prop :=
  scan sc0 (d_out d) = Some s /\ st_ok n s d /\ StronglySorted lt (d_started d) /\
  heads_started d /\ d_wbuf d + d_flushed d = lenN (units_bytes (d_out d)) /\ (sc_lo s <= n)%nat.
Definition Inv (n : nat) (d : dstate) : Prop := exists s, InvS n s d.

Lemma msgs_ok_weaken lo lo' n n' m :
  (lo' <= lo)%nat -> (n <= n')%nat -> msgs_ok lo n m -> msgs_ok lo' n' m.
Proof.
  revert lo lo'. induction m as [|[j|e] r IH]; intros lo lo' Hl Hn H; cbn [msgs_ok] in *; auto.
  - destruct H as [H1 H2]. split; [lia|]. eapply IH; [| |exact H2]; lia.
  - eapply IH; eauto.
Qed.

Lemma msgs_ok_snoc_item lo n m :
  (lo <= n)%nat -> msgs_ok lo n m -> msgs_ok lo (S n) (m ++ [MItem n]).
Proof.
  revert lo. induction m as [|[j|e] r IH]; intros lo Hl H; cbn [msgs_ok app] in *.
  - split; [lia|exact I].
  - destruct H as [H1 H2]. split; [lia|]. apply IH; [lia|exact H2].
  - apply IH; assumption.
Qed.

Lemma msgs_ok_snoc_err lo n m e : msgs_ok lo n m -> msgs_ok lo n (m ++ [MError e]).
Proof.
  revert lo. induction m as [|[j|e'] r IH]; intros lo H; cbn [msgs_ok app] in *; auto.
  destruct H as [H1 H2]. split; auto.
Qed.

Lemma below_weaken b b' l : (b <= b')%nat -> below b l -> below b' l.
Proof. intros Hb H. eapply Forall_impl; [|exact H]. cbv beta. intros; lia. Qed.

Lemma sorted_snoc l j : StronglySorted lt l -> below j l -> StronglySorted lt (l ++ [j]).
Proof.
  induction l as [|a l IH]; intros Hs Hb; cbn [app].
  - constructor; constructor.
  - inversion Hs; subst. inversion Hb; subst. constructor; [apply IH; assumption|].
    apply Forall_app. split; [assumption|constructor; [assumption|constructor]].
Qed.

Lemma units_bytes_snoc out u : lenN (units_bytes (out ++ [u])) = lenN (units_bytes out) + lenN (unit_bytes u).
Proof.
  unfold units_bytes, lenN. rewrite map_app, concat_app, app_length. cbn [map concat].
  rewrite app_nil_r. lia.
Qed.

Section Proofs.
  Variable reqs : list reqctx.
  Variable hs : list hscript.
  Variable wbs : N.

  Notation tick := (tick reqs hs wbs).
  Notation step := (step reqs hs wbs).
  Notation dispatch := (dispatch reqs hs).
  Notation call_service := (call_service hs).
  Notation settle := (settle reqs hs).

  (* --- service call from a state in which request j may start *)
  Lemma inv_call_service n s d j :
    scan sc0 (d_out d) = Some s -> StronglySorted lt (d_started d) -> heads_started d ->
    d_wbuf d + d_flushed d = lenN (units_bytes (d_out d)) -> (sc_lo s <= n)%nat ->
    ((sc_cur s = Some (j, false) /\ sc_lo s = S j /\ below j (d_started d)) \/
     (cur_ok s /\ (sc_lo s <= j)%nat /\ below (sc_lo s) (d_started d))) ->
    (j < n)%nat -> msgs_ok (S j) n (d_msgs d) ->
    InvS n s (call_service d j).
  Proof.
    intros Hsc Hso Hh Hw Hlon Hc Hj Hm.
    assert (Hb : below j (d_started d)).
    { destruct Hc as [(_ & _ & Hb)|(_ & Hl & Hb)]; [exact Hb|eapply below_weaken; [|exact Hb]; lia]. }
    unfold InvS, call_service, st_ok, heads_started. cbn [d_out d_st d_msgs d_started d_wbuf d_flushed].
    split; [exact Hsc|]. split.
    - split; [destruct Hc as [(H1 & H2 & _)|(H1 & H2 & _)]; [left|right]; auto|].
      split; [exact Hj|]. split; [exact Hm|]. split.
      + apply Forall_app. split; [eapply below_weaken; [|exact Hb]; lia|constructor; [lia|constructor]].
      + apply in_or_app. right. left. reflexivity.
    - split; [apply sorted_snoc; assumption|]. split; [|split; [exact Hw|exact Hlon]].
      intros k h Hin. apply in_or_app. left. eapply Hh. exact Hin.
  Qed.

  Lemma inv_dispatch n s d j :
    scan sc0 (d_out d) = Some s -> StronglySorted lt (d_started d) -> heads_started d ->
    d_wbuf d + d_flushed d = lenN (units_bytes (d_out d)) -> (sc_lo s <= n)%nat ->
    cur_ok s -> (sc_lo s <= j < n)%nat ->
    msgs_ok (S j) n (d_msgs d) -> below (sc_lo s) (d_started d) ->
    InvS n s (dispatch d j).
  Proof.
    intros Hsc Hso Hh Hw Hlon Hc Hj Hm Hb. unfold RespSeq.dispatch.
    destruct (req_expects (req_of reqs j)).
    - unfold InvS, set_st, st_ok, heads_started. cbn [d_out d_st d_msgs d_started d_wbuf d_flushed].
      repeat split; auto; lia.
    - apply inv_call_service; auto; [right; repeat split; auto; lia|lia].
  Qed.

  Lemma inv_pop_dispatch n s d j rest :
    scan sc0 (d_out d) = Some s -> StronglySorted lt (d_started d) -> heads_started d ->
    d_wbuf d + d_flushed d = lenN (units_bytes (d_out d)) -> (sc_lo s <= n)%nat ->
    cur_ok s -> (sc_lo s <= j < n)%nat ->
    msgs_ok (S j) n rest -> below (sc_lo s) (d_started d) ->
    InvS n s (pop_dispatch reqs hs d rest j).
  Proof.
    intros. unfold pop_dispatch. apply inv_dispatch; unfold set_codec, set_msgs;
      cbn [d_out d_st d_msgs d_started d_wbuf d_flushed]; auto.
  Qed.

  Lemma dispatch_not_none d j : d_st (dispatch d j) <> SNone.
  Proof. unfold RespSeq.dispatch. destruct (req_expects _); cbn; discriminate. Qed.
  Lemma dispatch_fail d j : d_fail (dispatch d j) = d_fail d.
  Proof. unfold RespSeq.dispatch. destruct (req_expects _); reflexivity. Qed.

  (* --- appending one unit *)
  Lemma inv_append_out s d c u s' :
    scan sc0 (d_out d) = Some s -> scan1 s u = Some s' ->
    d_wbuf d + d_flushed d = lenN (units_bytes (d_out d)) ->
    scan sc0 (d_out (append d c u)) = Some s' /\
    d_wbuf (append d c u) + d_flushed (append d c u) = lenN (units_bytes (d_out (append d c u))).
  Proof.
    intros Hs H1 Hw. unfold append. cbn [d_out d_wbuf d_flushed]. split.
    - rewrite (scan_snoc _ _ _ _ Hs). exact H1.
    - rewrite units_bytes_snoc. lia.
  Qed.

  Lemma heads_append_other d c u :
    heads_started d -> (forall j h, u <> UHead (Some j) h) -> heads_started (append d c u).
  Proof.
    intros Hh Hu. unfold heads_started, append. cbn [d_out d_started]. intros k h' Hk.
    apply in_app_or in Hk as [Hk|[Hk|[]]]; [eapply Hh; exact Hk|]. exfalso. eapply Hu. exact Hk.
  Qed.

  (* --- send_response for the request in service *)
  Lemma inv_send_response_item n s d j r size e :
    InvS n s d -> d_st d = SService j ->
    exists s', InvS n s' (send_response d (Some j) r size (SSend j e)).
  Proof.
    intros (Hsc & Hst & Hso & Hh & Hw & Hlon) Est. unfold st_ok in Hst. rewrite Est in Hst.
    destruct Hst as (Hc & Hj & Hm & Hb & Hin).
    unfold send_response. destruct (codec_encode_item (d_codec d) r size) as [c h].
    set (u := UHead (Some j) h).
    assert (Hs1 : scan1 s u = Some (mkSc (S j) (Some (j, true)))).
    { unfold u, scan1. destruct Hc as [(Hc1 & Hc2)|(Hc1 & Hc2)].
      - rewrite Hc1, Nat.eqb_refl, Hc2. reflexivity.
      - unfold cur_ok in Hc1. destruct (sc_cur s) as [[j' [|]]|]; try contradiction;
          (replace (sc_lo s <=? j)%nat with true by (symmetry; apply Nat.leb_le; lia)); reflexivity. }
    destruct (inv_append_out s d c u _ Hsc Hs1 Hw) as [Ha Hb'].
    exists (mkSc (S j) (Some (j, true))).
    assert (Hheads : heads_started (append d c u)).
    { unfold heads_started, append. cbn [d_out d_started]. intros k h' Hk.
      apply in_app_or in Hk as [Hk|[Hk|[]]]; [eapply Hh; exact Hk|]. inversion Hk; subst. exact Hin. }
    assert (Hgen : forall st',
              (st' = SNone \/ st' = SSend j e) -> InvS n (mkSc (S j) (Some (j, true))) (set_st (append d c u) st')).
    { intros st' Hst'. unfold InvS.
      split; [exact Ha|]. split; [|split; [exact Hso|split; [exact Hheads|split; [exact Hb'|cbn [sc_lo]; lia]]]].
      unfold st_ok, set_st, append. cbn [d_st d_msgs d_started sc_lo sc_cur].
      destruct Hst' as [-> | ->].
      - split; [exact I|]. split; assumption.
      - repeat split; auto. }
    destruct size as [|[|p]|]; apply Hgen; auto.
  Qed.

  (* --- an error response between responses *)
  Lemma inv_send_response_err n s d r :
    InvS n s d -> d_st d = SNone ->
    let d' := send_response d None r (BSized 0) SNone in
    (exists s', InvS n s' d') /\ d_st d' = SNone /\ d_msgs d' = d_msgs d /\ d_fail d' = d_fail d.
  Proof.
    intros (Hsc & Hst & Hso & Hh & Hw & Hlon) Est. unfold st_ok in Hst. rewrite Est in Hst.
    destruct Hst as (Hc & Hm & Hb).
    unfold send_response. destruct (codec_encode_item (d_codec d) r (BSized 0)) as [c h].
    set (u := UHead None h).
    assert (Hs1 : scan1 s u = Some (mkSc (sc_lo s) None)).
    { unfold u, scan1. unfold cur_ok in Hc. destruct (sc_cur s) as [[j' [|]]|]; try contradiction; reflexivity. }
    destruct (inv_append_out s d c u _ Hsc Hs1 Hw) as [Ha Hb'].
    cbv zeta. split; [|repeat split]. exists (mkSc (sc_lo s) None).
    unfold InvS.
    split; [exact Ha|]. split; [|split; [exact Hso|split; [|split; [exact Hb'|exact Hlon]]]].
    - unfold st_ok, set_st, append. cbn [d_st d_msgs d_started sc_lo sc_cur]. repeat split; auto.
    - apply (heads_append_other d c u Hh). intros; discriminate.
  Qed.

  Lemma settle_inv fuel : forall n d, Inv n d -> Inv n (settle fuel d).
  Proof.
    induction fuel as [|f IH]; intros n d HI; [exact HI|]. cbn [RespSeq.settle].
    destruct (d_st d) eqn:Est; try exact HI.
    destruct (d_msgs d) as [|[j|e] rest] eqn:Em; try exact HI.
    - (* dispatch the next queued request *)
      destruct HI as [s (Hsc & Hst & Hso & Hh & Hw & Hlon)]. exists s.
      unfold st_ok in Hst. rewrite Est, Em in Hst. destruct Hst as (Hc & (Hj & Hm) & Hb).
      apply inv_pop_dispatch; auto.
    - destruct HI as [s HI]. apply IH.
      assert (H1 : InvS n s (set_msgs d rest)).
      { destruct HI as (Hsc & Hst & Hso & Hh & Hw & Hlon). unfold st_ok in Hst. rewrite Est, Em in Hst.
        unfold InvS, set_msgs, st_ok, heads_started. cbn [d_out d_st d_msgs d_started d_wbuf d_flushed].
        rewrite Est. repeat split; try tauto. }
      assert (Est' : d_st (set_msgs d rest) = SNone) by (unfold set_msgs; cbn [d_st]; exact Est).
      destruct (inv_send_response_err n s (set_msgs d rest) (mkResp e None false []) H1 Est') as (H2 & _).
      exact H2.
  Qed.

  Lemma send_err_fields d r :
    let d' := send_response d None r (BSized 0) SNone in
    d_st d' = SNone /\ d_msgs d' = d_msgs d /\ d_fail d' = d_fail d.
  Proof. unfold send_response. destruct (codec_encode_item _ _ _) as [c h]. repeat split. Qed.

  Lemma settle_fail fuel : forall d, d_fail (settle fuel d) = d_fail d.
  Proof.
    induction fuel as [|f IH]; intros d; [reflexivity|]. cbn [RespSeq.settle].
    destruct (d_st d); try reflexivity. destruct (d_msgs d) as [|[j|e] rest]; try reflexivity.
    - unfold pop_dispatch. rewrite dispatch_fail. reflexivity.
    - rewrite IH. destruct (send_err_fields (set_msgs d rest) (mkResp e None false [])) as (_ & _ & H). exact H.
  Qed.

  (* after settling, State::None means the queue is empty *)
  Definition quiescent (d : dstate) : Prop := d_st d = SNone -> d_msgs d = [].

  Lemma settle_quiescent fuel : forall d, (length (d_msgs d) < fuel)%nat -> quiescent (settle fuel d).
  Proof.
    induction fuel as [|f IH]; intros d Hf; [inversion Hf|]. cbn [RespSeq.settle].
    destruct (d_st d) eqn:Est; try (unfold quiescent; rewrite Est; discriminate).
    destruct (d_msgs d) as [|[j|e] rest] eqn:Em.
    - unfold quiescent. intros _. exact Em.
    - unfold quiescent, pop_dispatch. intro H. exfalso. eapply dispatch_not_none. exact H.
    - apply IH. destruct (send_err_fields (set_msgs d rest) (mkResp e None false [])) as (_ & -> & _).
      cbn [set_msgs d_msgs]. cbn [length] in Hf. lia.
  Qed.

  (* --- a body / handler poll *)
  Lemma tick_inv fuel : forall n d, Inv n d -> Inv n (tick fuel d).
  Proof.
    induction fuel as [|f IH]; intros n d HI; [exact HI|]. cbn [RespSeq.tick].
    destruct (d_st d) as [|j|j|j e] eqn:Est.
    - (* None: pop *)
      destruct (d_msgs d) as [|[j|e] rest] eqn:Em; [exact HI| |].
      + apply IH. destruct HI as [s (Hsc & Hst & Hso & Hh & Hw & Hlon)]. exists s.
        unfold st_ok in Hst. rewrite Est, Em in Hst. destruct Hst as (Hc & (Hj & Hm) & Hb).
        apply inv_pop_dispatch; auto.
      + apply IH. apply (settle_inv 1). exact HI.
    - (* ExpectCall: ready *)
      apply IH. destruct HI as [s (Hsc & Hst & Hso & Hh & Hw & Hlon)].
      unfold st_ok in Hst. rewrite Est in Hst. destruct Hst as (Hc & Hj & Hm & Hb).
      assert (Hs1 : scan1 s (UCont j) = Some (mkSc (S j) (Some (j, false)))).
      { unfold scan1. unfold cur_ok in Hc. destruct (sc_cur s) as [[j' [|]]|]; try contradiction;
          (replace (sc_lo s <=? j)%nat with true by (symmetry; apply Nat.leb_le; lia)); reflexivity. }
      destruct (inv_append_out s d (d_codec d) (UCont j) _ Hsc Hs1 Hw) as [Ha Hb'].
      exists (mkSc (S j) (Some (j, false))).
      apply inv_call_service; auto.
      + apply heads_append_other; [exact Hh|intros; discriminate].
      + cbn [sc_lo]. lia.
      + left. unfold append. cbn [sc_cur sc_lo d_started]. repeat split.
        eapply below_weaken; [|exact Hb]. lia.
      + lia.
    - (* ServiceCall *)
      destruct (0 <? d_pend d).
      + destruct HI as [s (Hsc & Hst & Hso & Hh & Hw & Hlon)]. exists s.
        unfold InvS, set_pend, st_ok, heads_started in *. cbn [d_out d_st d_msgs d_started d_wbuf d_flushed].
        rewrite Est in *. repeat split; tauto.
      + destruct HI as [s HI].
        destruct (inv_send_response_item n s d j (h_resp (h_of hs j)) (h_size (h_of hs j)) (h_fail (h_of hs j)) HI Est) as [s' H].
        exists s'. exact H.
    - (* SendPayload *)
      destruct (d_wbuf d <? wbs); [|exact HI].
      destruct HI as [s (Hsc & Hst & Hso & Hh & Hw & Hlon)].
      pose proof Hst as Hst0. unfold st_ok in Hst. rewrite Est in Hst.
      destruct Hst as (Hc & Hlo & Hj & Hm & Hb & Hin).
      assert (Hdata : forall b, scan1 s (UData j b) = Some s).
      { intro b. unfold scan1. rewrite Hc, Nat.eqb_refl. reflexivity. }
      destruct (body_poll (h_kind (h_of hs j)) (d_body d)) as [[|b| |] b'].
      + exists s. unfold InvS, set_body, st_ok, heads_started in *.
        cbn [d_out d_st d_msgs d_started d_wbuf d_flushed]. rewrite Est in *. repeat split; tauto.
      + destruct (codec_encode_chunk (d_codec d) b) as [c out].
        destruct (inv_append_out s d c (UData j out) _ Hsc (Hdata out) Hw) as [Ha Hb'].
        exists s. unfold InvS.
        split; [exact Ha|]. split; [|split; [exact Hso|split; [|split; [exact Hb'|exact Hlon]]]].
        * unfold st_ok, set_body, append. cbn [d_st d_msgs d_started]. rewrite Est. repeat split; auto.
        * apply (heads_append_other d c _ Hh). intros; discriminate.
      + destruct (codec_encode_eof (d_codec d)) as [[c out]|].
        * destruct (inv_append_out s d c (UData j out) _ Hsc (Hdata out) Hw) as [Ha Hb'].
          exists s. unfold InvS.
          split; [exact Ha|]. split; [|split; [exact Hso|split; [|split; [exact Hb'|exact Hlon]]]].
          -- unfold st_ok, set_st, set_body, append. cbn [d_st d_msgs d_started].
             split; [unfold cur_ok; rewrite Hc; exact I|]. rewrite Hlo. split; assumption.
          -- apply (heads_append_other d c _ Hh). intros; discriminate.
        * exists s. unfold InvS, set_fail, st_ok, heads_started in *.
          cbn [d_out d_st d_msgs d_started d_wbuf d_flushed]. rewrite Est in *. repeat split; tauto.
      + exists s. unfold InvS, set_fail, st_ok, heads_started in *.
        cbn [d_out d_st d_msgs d_started d_wbuf d_flushed]. rewrite Est in *. repeat split; tauto.
  Qed.

  Lemma inv_more n d : Inv n d -> Inv (S n) d.
  Proof.
    intros [s (Hsc & Hst & Hso & Hh & Hw & Hlon)]. exists s. unfold InvS.
    split; [exact Hsc|]. split; [|split; [exact Hso|split; [exact Hh|split; [exact Hw|lia]]]].
    unfold st_ok in *. destruct (d_st d); intuition (try lia);
      (eapply msgs_ok_weaken; [| |eassumption]; lia).
  Qed.

  Definition next_n (n : nat) (e : event) : nat := match e with EvArrive _ => S n | _ => n end.

  Lemma step_inv n d e :
    Inv n d -> quiescent d ->
    match e with EvArrive j => N.to_nat j = n | _ => True end ->
    Inv (next_n n e) (step d e) /\ quiescent (step d e).
  Proof.
    intros HI Hq He. unfold RespSeq.step.
    destruct (d_fail d) eqn:Ef.
    { split; [|exact Hq]. destruct e; cbn [next_n]; [apply inv_more|..]; exact HI. }
    destruct e as [j| | |k]; cbn [next_n].
    - (* arrive *)
      rewrite He. clear He j.
      destruct HI as [s (Hsc & Hst & Hso & Hh & Hw & Hlon)].
      set (d1 := set_codec d (codec_decode (d_codec d) (req_of reqs n))).
      change (d_st d1) with (d_st d). change (d_msgs d1) with (d_msgs d).
      unfold st_ok in Hst. destruct (d_st d) as [|j|j|j e] eqn:Est.
      + (* eager *)
        specialize (Hq Est). split; [|intro H; exfalso; eapply dispatch_not_none; exact H].
        exists s. destruct Hst as (Hc & Hm & Hb).
        apply inv_dispatch; unfold d1, set_codec; cbn [d_out d_st d_msgs d_started d_wbuf d_flushed]; auto;
          try lia; try (rewrite Hq; exact I).
      + split; [|unfold quiescent, set_msgs, set_codec; cbn [d_st]; change (d_st d1) with (d_st d); rewrite Est; discriminate].
        exists s. destruct Hst as (Hc & Hj & Hm & Hb).
        unfold InvS, set_msgs, d1, set_codec, st_ok. cbn [d_out d_st d_msgs d_started d_wbuf d_flushed].
        rewrite Est. repeat split; auto; try lia. apply msgs_ok_snoc_item; [lia|exact Hm].
      + split; [|unfold quiescent, set_msgs, set_codec; cbn [d_st]; change (d_st d1) with (d_st d); rewrite Est; discriminate].
        exists s. destruct Hst as (Hc & Hj & Hm & Hb & Hin).
        unfold InvS, set_msgs, d1, set_codec, st_ok. cbn [d_out d_st d_msgs d_started d_wbuf d_flushed].
        rewrite Est. repeat split; auto; try lia. apply msgs_ok_snoc_item; [lia|exact Hm].
      + split; [|unfold quiescent, set_msgs, set_codec; cbn [d_st]; change (d_st d1) with (d_st d); rewrite Est; discriminate].
        exists s. destruct Hst as (Hc & Hlo & Hj & Hm & Hb & Hin).
        unfold InvS, set_msgs, d1, set_codec, st_ok. cbn [d_out d_st d_msgs d_started d_wbuf d_flushed].
        rewrite Est. repeat split; auto; try lia. apply msgs_ok_snoc_item; [lia|exact Hm].
    - (* malformed request *)
      split.
      + apply settle_inv. destruct HI as [s (Hsc & Hst & Hso & Hh & Hw & Hlon)]. exists s.
        unfold InvS, set_msgs, st_ok in *. cbn [d_out d_st d_msgs d_started d_wbuf d_flushed].
        split; [exact Hsc|]. split; [|tauto].
        destruct (d_st d); intuition auto using msgs_ok_snoc_err.
      + apply settle_quiescent. unfold set_msgs. cbn [d_msgs]. rewrite app_length. cbn [length]. lia.
    - (* tick *)
      set (d1 := tick (length (d_msgs d) + 4)%nat d).
      assert (H1 : Inv n d1) by (apply tick_inv; exact HI).
      split; [apply settle_inv; exact H1|apply settle_quiescent; lia].
    - (* flush *)
      split; [|exact Hq].
      destruct HI as [s (Hsc & Hst & Hso & Hh & Hw & Hlon)]. exists s.
      unfold InvS, flush, st_ok, heads_started in *. cbn [d_out d_st d_msgs d_started d_wbuf d_flushed].
      split; [exact Hsc|]. split; [exact Hst|]. split; [exact Hso|]. split; [exact Hh|]. split; [|exact Hlon].
      lia.
  Qed.

  Lemma run_inv es : forall n d,
    Inv n d -> quiescent d -> arr_ok n es ->
    Inv (n + arrivals es)%nat (run reqs hs wbs d es) /\ quiescent (run reqs hs wbs d es).
  Proof.
    induction es as [|e es IH]; intros n d HI Hq Ha.
    - cbn [arrivals run fold_left]. rewrite Nat.add_0_r. split; assumption.
    - unfold run. cbn [fold_left]. fold (run reqs hs wbs (step d e) es).
      assert (He : match e with EvArrive j => N.to_nat j = n | _ => True end)
        by (destruct e; cbn [arr_ok] in Ha; tauto).
      destruct (step_inv n d e HI Hq He) as [H1 H2].
      assert (Ha' : arr_ok (next_n n e) es) by (destruct e; cbn [arr_ok next_n] in *; tauto).
      destruct (IH _ _ H1 H2 Ha') as [H3 H4]. split; [|exact H4].
      replace (n + arrivals (e :: es))%nat with (next_n n e + arrivals es)%nat; [exact H3|].
      destruct e; cbn [next_n arrivals]; lia.
  Qed.

  Lemma inv_init ka : Inv O (d_init ka) /\ quiescent (d_init ka).
  Proof.
    split; [|intro; reflexivity]. exists sc0. unfold InvS, d_init, st_ok, heads_started.
    cbn [d_out d_st d_msgs d_started d_wbuf d_flushed sc_lo sc_cur sc0].
    repeat split; try constructor. intros j h [].
  Qed.

  (* For every schedule: what has been appended to write_buf is a well-sequenced list of
     response units; every response head belongs to a request whose service call started;
     service calls start in request order, each once, only for requests that arrived; the bytes
     taken by the socket are a prefix of what was appended. *)
  Theorem order_one_per_request ka es :
    arr_ok O es ->
    let d := run reqs hs wbs (d_init ka) es in
    well_sequenced (d_out d) /\
    (forall j h, In (UHead (Some j) h) (d_out d) -> In j (d_started d)) /\
    StronglySorted lt (d_started d) /\
    (forall j, In j (d_started d) -> (j < arrivals es)%nat) /\
    d_wbuf d + d_flushed d = lenN (units_bytes (d_out d)).
  Proof.
    intros Ha d. destruct (inv_init ka) as [H0 Hq0].
    destruct (run_inv es O _ H0 Hq0 Ha) as [[s (Hsc & Hst & Hso & Hh & Hw & Hlon)] _]. fold d in Hsc, Hst, Hso, Hh, Hw.
    split; [exists s; exact Hsc|]. split; [exact Hh|]. split; [exact Hso|]. split; [|exact Hw].
    intros j Hj. cbn [Nat.add] in *. unfold st_ok in Hst.
    assert (Hbelow : exists b, (b <= arrivals es)%nat /\ below b (d_started d)).
    { destruct (d_st d) as [|k|k|k e].
      - exists (sc_lo s). split; [lia|tauto].
      - exists (sc_lo s). split; [lia|tauto].
      - exists (S k). split; [lia|tauto].
      - exists (S k). split; [lia|tauto]. }
    destruct Hbelow as (b & Hb1 & Hb2). unfold below in Hb2. rewrite Forall_forall in Hb2.
    specialize (Hb2 j Hj). lia.
  Qed.
End Proofs.

(* ================================================================ framing from the own context *)
(* After the F12 repair (the dispatcher restores the context of the response in flight after
   decoding a request that is only queued, and re-derives a queued request's context when it is
   dispatched): for every schedule, every response head is the one determined by its own request
   and response. *)
Section OwnContext.
  Variable reqs : list reqctx.
  Variable hs : list hscript.
  Variable wbs : N.
  Variable ka : bool.
  Hypothesis no_stream : Forall (fun r => rq_stream r = false) reqs.

  Definition own_head_of (j : nat) : head :=
    snd (codec_encode_item (codec_decode (codec_new ka) (req_of reqs j)) (h_resp (h_of hs j)) (h_size (h_of hs j))).

  Definition ctx_eq (c : codec) (rq : reqctx) : Prop :=
    c_ka_enabled c = ka /\ c_stream c = false /\ c_head c = rq_head rq /\ c_ver c = rq_ver rq /\
    c_conn c = c_conn (codec_decode (codec_new ka) rq).

  Lemma req_no_stream j : rq_stream (req_of reqs j) = false.
  Proof.
    unfold req_of. destruct (nth_in_or_default j reqs dflt_req) as [H|H].
    - rewrite Forall_forall in no_stream. apply no_stream. exact H.
    - rewrite H. reflexivity.
  Qed.

  Lemma item_head_fields c c' r sz :
    c_head c = c_head c' -> c_stream c = c_stream c' -> c_ver c = c_ver c' -> c_conn c = c_conn c' ->
    snd (codec_encode_item c r sz) = snd (codec_encode_item c' r sz).
  Proof.
    intros A B C D. unfold codec_encode_item, codec_encode_item0, stream_adjust, msg_encode. cbn [snd]. rewrite A, B, C, D. reflexivity.
  Qed.

  Lemma ctx_eq_head c j r sz :
    ctx_eq c (req_of reqs j) ->
    snd (codec_encode_item c r sz) = snd (codec_encode_item (codec_decode (codec_new ka) (req_of reqs j)) r sz).
  Proof.
    intros (H1 & H2 & H3 & H4 & H5). apply item_head_fields; auto.
    unfold codec_decode, codec_new. cbn [c_stream]. rewrite (req_no_stream j). exact H2.
  Qed.

  Lemma ctx_eq_decode c j :
    c_ka_enabled c = ka -> c_stream c = false -> ctx_eq (codec_decode c (req_of reqs j)) (req_of reqs j).
  Proof.
    intros H1 H2. unfold ctx_eq, codec_decode. cbn [c_ka_enabled c_stream c_head c_ver c_conn codec_new].
    rewrite H1, H2, (req_no_stream j). repeat split.
  Qed.

  Definition base_ok (c : codec) : Prop := c_ka_enabled c = ka /\ c_stream c = false.
  Definition same_ctx (c c' : codec) : Prop :=
    c_ka_enabled c' = c_ka_enabled c /\ c_stream c' = c_stream c /\ c_head c' = c_head c /\
    c_ver c' = c_ver c /\ c_conn c' = c_conn c.

  Lemma same_ctx_eq c c' rq : same_ctx c c' -> ctx_eq c rq -> ctx_eq c' rq.
  Proof. intros (A & B & C & D & E) (H1 & H2 & H3 & H4 & H5). unfold ctx_eq. rewrite A, B, C, D, E. auto. Qed.

  Lemma chunk_same_ctx c b : same_ctx c (fst (codec_encode_chunk c b)).
  Proof.
    unfold codec_encode_chunk. destruct b; [repeat split|]. destruct (te_encode _ _). repeat split.
  Qed.
  Lemma eof_same_ctx c c' out : codec_encode_eof c = Some (c', out) -> same_ctx c c'.
  Proof.
    unfold codec_encode_eof. destruct (te_encode_eof _) as [[t o]|]; [|discriminate].
    intro H. inversion H; subst. repeat split.
  Qed.
  Lemma item_base c r sz : base_ok c -> base_ok (fst (codec_encode_item c r sz)).
  Proof. intros [A B]. unfold codec_encode_item, codec_encode_item0, msg_encode, base_ok. cbn [fst c_ka_enabled c_stream]. auto. Qed.

  Lemma ctx_eq_request_context c j :
    base_ok c -> ctx_eq (set_request_context c (request_context c (req_of reqs j))) (req_of reqs j).
  Proof.
    intros [H1 H2]. unfold ctx_eq, set_request_context, request_context, codec_decode, codec_new.
    cbn [c_ka_enabled c_stream c_head c_ver c_conn fst snd]. rewrite H1. repeat split; auto.
  Qed.

  Lemma restore_same_ctx c rq : same_ctx c (set_request_context (codec_decode c rq) (current_context c)) \/ True.
  Proof. right. exact I. Qed.

  (* every head carries the context of its own request; while request j is in ExpectCall /
     ServiceCall the codec holds request j's context, whatever has been decoded meanwhile *)
  Definition J (d : dstate) : Prop :=
    (forall j h, In (UHead (Some j) h) (d_out d) -> h = own_head_of j) /\
    base_ok (d_codec d) /\
    match d_st d with
    | SNone | SSend _ _ => True
    | SExpect j | SService j => ctx_eq (d_codec d) (req_of reqs j)
    end.

  Notation tick := (tick reqs hs wbs).
  Notation step := (step reqs hs wbs).
  Notation dispatch := (dispatch reqs hs).
  Notation settle := (settle reqs hs).

  Lemma J_dispatch d k :
    (forall j h, In (UHead (Some j) h) (d_out d) -> h = own_head_of j) ->
    base_ok (d_codec d) -> ctx_eq (d_codec d) (req_of reqs k) ->
    J (dispatch d k).
  Proof.
    intros Ha Hb Hc. unfold RespSeq.dispatch. destruct (req_expects _);
      unfold J, set_st, call_service; cbn [d_out d_codec d_st d_msgs]; auto.
  Qed.

  Lemma J_pop_dispatch d rest k :
    (forall j h, In (UHead (Some j) h) (d_out d) -> h = own_head_of j) ->
    base_ok (d_codec d) -> J (pop_dispatch reqs hs d rest k).
  Proof.
    intros Ha Hb. unfold pop_dispatch. apply J_dispatch; unfold set_codec, set_msgs; cbn [d_out d_codec].
    - exact Ha.
    - destruct Hb as [B1 B2]. split; assumption.
    - apply ctx_eq_request_context. exact Hb.
  Qed.

  Lemma J_send_err d r :
    (forall j h, In (UHead (Some j) h) (d_out d) -> h = own_head_of j) -> base_ok (d_codec d) ->
    J (send_response d None r (BSized 0) SNone).
  Proof.
    intros Ha Hb. unfold send_response.
    pose proof (item_base (d_codec d) r (BSized 0) Hb) as Hb'.
    destruct (codec_encode_item (d_codec d) r (BSized 0)) as [c h]. cbn [fst] in Hb'.
    unfold J, set_st, append. cbn [d_out d_codec d_st]. split; [|split; [exact Hb'|exact I]].
    intros k h' Hin. apply in_app_or in Hin as [Hin|[Hin|[]]]; [auto|discriminate].
  Qed.

  Lemma J_settle fuel : forall d, J d -> J (settle fuel d).
  Proof.
    induction fuel as [|f IH]; intros d HJ; [exact HJ|]. cbn [RespSeq.settle].
    destruct (d_st d) eqn:Est; try exact HJ.
    destruct HJ as (Ha & Hb & _).
    destruct (d_msgs d) as [|[k|e] rest]; [unfold J; rewrite Est; auto| |].
    - apply J_pop_dispatch; assumption.
    - apply IH. apply J_send_err; unfold set_msgs; cbn [d_out d_codec]; assumption.
  Qed.

  Lemma J_tick fuel : forall d, J d -> J (tick fuel d).
  Proof.
    induction fuel as [|f IH]; intros d HJ; [exact HJ|]. cbn [RespSeq.tick].
    destruct (d_st d) as [|j|j|j e] eqn:Est.
    - destruct HJ as (Ha & Hb & _).
      destruct (d_msgs d) as [|[k|e] rest]; [unfold J; rewrite Est; auto| |].
      + apply IH. apply J_pop_dispatch; assumption.
      + apply IH. apply (J_settle 1). unfold J. rewrite Est. auto.
    - apply IH. destruct HJ as (Ha & Hb & Hc). rewrite Est in Hc.
      unfold J, call_service, append. cbn [d_out d_codec d_st d_msgs]. split; [|auto].
      intros k h Hin. apply in_app_or in Hin as [Hin|[Hin|[]]]; [auto|discriminate].
    - destruct (0 <? d_pend d).
      + destruct HJ as (Ha & Hb & Hq). unfold J, set_pend. cbn [d_out d_codec d_st d_msgs]. rewrite Est in *. auto.
      + destruct HJ as (Ha & Hb & Hc). rewrite Est in Hc.
        unfold send_response.
        pose proof (ctx_eq_head (d_codec d) j (h_resp (h_of hs j)) (h_size (h_of hs j)) Hc) as Hh.
        pose proof (item_base (d_codec d) (h_resp (h_of hs j)) (h_size (h_of hs j)) Hb) as Hb'.
        destruct (codec_encode_item (d_codec d) (h_resp (h_of hs j)) (h_size (h_of hs j))) as [c h].
        cbn [fst snd] in Hh, Hb'.
        assert (HJ' : forall st', match st' with SNone | SSend _ _ => True | _ => False end ->
                        J (set_st (append d c (UHead (Some j) h)) st')).
        { intros st' Hst'. unfold J, set_st, append. cbn [d_out d_codec d_st d_msgs]. split; [|split; [exact Hb'|]].
          - intros k h' Hin. apply in_app_or in Hin as [Hin|[Hin|[]]]; [auto|].
            injection Hin as E1 E2. rewrite <- E1, <- E2. exact Hh.
          - destruct st'; try contradiction; exact I. }
        destruct (h_size (h_of hs j)) as [|[|p]|]; apply HJ'; exact I.
    - destruct (d_wbuf d <? wbs); [|exact HJ].
      destruct HJ as (Ha & Hb & _).
      assert (Hkeep : forall c' u st',
                 same_ctx (d_codec d) c' -> (forall k h, u <> UHead (Some k) h) ->
                 match st' with SNone | SSend _ _ => True | _ => False end ->
                 forall b', J (set_st (set_body (append d c' u) b') st')).
      { intros c' u st' Hs Hu Hst' b'. unfold J, set_st, set_body, append. cbn [d_out d_codec d_st d_msgs].
        split; [|split].
        - intros k h' Hin. apply in_app_or in Hin as [Hin|[Hin|[]]]; [auto|]. exfalso. eapply Hu. exact Hin.
        - destruct Hs as (A & B & _). destruct Hb as [B1 B2]. unfold base_ok. rewrite A, B. auto.
        - destruct st'; try contradiction; exact I. }
      destruct (body_poll (h_kind (h_of hs j)) (d_body d)) as [[|b| |] b'].
      + unfold J, set_body. cbn [d_out d_codec d_st d_msgs]. rewrite Est. auto.
      + pose proof (chunk_same_ctx (d_codec d) b) as Hs.
        destruct (codec_encode_chunk (d_codec d) b) as [c out]. cbn [fst] in Hs.
        specialize (Hkeep c (UData j out) (SSend j e) Hs).
        unfold set_st in Hkeep. unfold J, set_body, append in *. cbn [d_out d_codec d_st d_msgs] in *.
        rewrite Est.
        apply (Hkeep (fun _ _ H => ltac:(discriminate H)) I b').
      + destruct (codec_encode_eof (d_codec d)) as [[c out]|] eqn:Ee.
        * apply (Hkeep c (UData j out) SNone (eof_same_ctx _ _ _ Ee)); [intros; discriminate|exact I].
        * unfold J, set_fail. cbn [d_out d_codec d_st d_msgs]. rewrite Est. auto.
      + unfold J, set_fail. cbn [d_out d_codec d_st d_msgs]. rewrite Est. auto.
  Qed.

  Lemma J_step d e : J d -> J (step d e).
  Proof.
    intros HJ. unfold RespSeq.step. destruct (d_fail d); [exact HJ|].
    destruct e as [j| | |k].
    - destruct HJ as (Ha & [Hb1 Hb2] & Hq).
      set (d1 := set_codec d (codec_decode (d_codec d) (req_of reqs (N.to_nat j)))).
      assert (Hc : ctx_eq (d_codec d1) (req_of reqs (N.to_nat j))) by (apply ctx_eq_decode; assumption).
      assert (Hb' : base_ok (d_codec d1)) by (destruct Hc as (A & B & _); split; assumption).
      change (d_st d1) with (d_st d).
      destruct (d_st d) as [|k|k|k e] eqn:Est.
      + apply J_dispatch; auto.
      + (* queued: the context of the response in flight is restored *)
        unfold J, set_msgs, set_codec. cbn [d_out d_codec d_st d_msgs]. change (d_st d1) with (d_st d). rewrite Est.
        split; [exact Ha|]. unfold d1, set_codec, set_request_context, current_context, codec_decode.
        cbn [d_codec c_ka_enabled c_stream c_head c_ver c_conn c_te fst snd].
        destruct Hq as (Q1 & Q2 & Q3 & Q4 & Q5).
        split; [split; [exact Hb1|rewrite Hb2, (req_no_stream (N.to_nat j)); reflexivity]|].
        unfold ctx_eq. cbn [c_ka_enabled c_stream c_head c_ver c_conn].
        rewrite Hb2, (req_no_stream (N.to_nat j)). repeat split; auto.
      + unfold J, set_msgs, set_codec. cbn [d_out d_codec d_st d_msgs]. change (d_st d1) with (d_st d). rewrite Est.
        split; [exact Ha|]. unfold d1, set_codec, set_request_context, current_context, codec_decode.
        cbn [d_codec c_ka_enabled c_stream c_head c_ver c_conn c_te fst snd].
        destruct Hq as (Q1 & Q2 & Q3 & Q4 & Q5).
        split; [split; [exact Hb1|rewrite Hb2, (req_no_stream (N.to_nat j)); reflexivity]|].
        unfold ctx_eq. cbn [c_ka_enabled c_stream c_head c_ver c_conn].
        rewrite Hb2, (req_no_stream (N.to_nat j)). repeat split; auto.
      + unfold J, set_msgs, set_codec. cbn [d_out d_codec d_st d_msgs]. change (d_st d1) with (d_st d). rewrite Est.
        split; [exact Ha|]. unfold d1, set_codec, set_request_context, current_context, codec_decode.
        cbn [d_codec c_ka_enabled c_stream c_head c_ver c_conn c_te fst snd].
        split; [split; [exact Hb1|rewrite Hb2, (req_no_stream (N.to_nat j)); reflexivity]|exact I].
    - apply J_settle. destruct HJ as (Ha & Hb & Hq). unfold J, set_msgs. cbn [d_out d_codec d_st d_msgs]. auto.
    - apply J_settle. apply J_tick. exact HJ.
    - destruct HJ as (Ha & Hb & Hq). unfold J, flush. cbn [d_out d_codec d_st d_msgs]. auto.
  Qed.

  Lemma J_run es : forall d, J d -> J (run reqs hs wbs d es).
  Proof.
    induction es as [|e es IH]; intros d HJ; [exact HJ|].
    unfold run. cbn [fold_left]. fold (run reqs hs wbs (step d e) es).
    apply IH. apply J_step. exact HJ.
  Qed.

  (* For EVERY schedule: each response head on the wire is the one determined by its own
     request and its own response (and the connection-wide keep-alive setting). *)
  Theorem heads_from_own_context es :
    forall j h, In (UHead (Some j) h) (d_out (run reqs hs wbs (d_init ka) es)) -> h = own_head_of j.
  Proof.
    apply (J_run es (d_init ka)).
    unfold J, d_init. cbn [d_out d_codec d_st d_msgs]. split; [intros j h []|].
    split; [split; reflexivity|exact I].
  Qed.
End OwnContext.

