(* Invariants of the event-level dispatcher model over ARBITRARY event schedules. *)
From AV Require Import Lib.Base H1.ReadBuf H1.Flush H1.FlushProofs H1.Gates.

Ltac proj := cbn [rb q state hch cpl tgt wb rd_disc pass nbl
                  set_rb set_q set_state set_hch set_cpl set_tgt set_wb set_rd_disc set_pass set_nbl] in *.

(* open a [step s e = Some s'] hypothesis into its guard facts *)
Ltac open_step H :=
  unfold step, guard in H;
  repeat match type of H with
         | context [match ?x with _ => _ end] => destruct x eqn:?
         end;
  try discriminate; inversion H; subst; clear H.

Lemma step_t_cases c s e : step_t c s e = s \/ step c s e = Some (step_t c s e).
Proof. unfold step_t. destruct (step c s e); auto. Qed.

(* generic: an invariant preserved by every enabled step holds along every schedule *)
Lemma steps_inv c (P : st -> Prop) :
  (forall s e s', P s -> step c s e = Some s' -> P s') ->
  forall es s, P s -> P (steps c s es).
Proof.
  intros HP es. induction es as [|e es IH]; intros s Hs; cbn [steps fold_left]; [exact Hs|].
  apply IH. destruct (step_t_cases c s e) as [E|E]; [rewrite E; exact Hs|eapply HP; eauto].
Qed.

(* schedule-dependent version: the events satisfy a side condition *)
Lemma steps_inv_ev c (P : st -> Prop) (Q : ev -> Prop) :
  (forall s e s', Q e -> P s -> step c s e = Some s' -> P s') ->
  forall es s, Forall Q es -> P s -> P (steps c s es).
Proof.
  intros HP es. induction es as [|e es IH]; intros s Hq Hs; cbn [steps fold_left]; [exact Hs|].
  inversion Hq; subst. apply IH; [assumption|].
  destruct (step_t_cases c s e) as [E|E]; [rewrite E; exact Hs|eapply HP; eauto].
Qed.

Section Bounds.
  Variable c : cfg.

  Lemma lenN_snoc {A} (l : list A) x : lenN (l ++ [x]) = lenN l + 1.
  Proof. rewrite lenN_app. reflexivity. Qed.
  Lemma lenN_cons {A} (l : list A) x : lenN (x :: l) = lenN l + 1.
  Proof. unfold lenN. cbn [length]. lia. Qed.

  Lemma lenN_upd_last f l : lenN (upd_last f l) = lenN l.
  Proof.
    induction l as [|x r IH]; [reflexivity|]. cbn [upd_last]. destruct r as [|y r'].
    - reflexivity.
    - rewrite !lenN_cons in *. rewrite IH. reflexivity.
  Qed.

  Lemma upd_tgt_fields f s :
    rb (upd_tgt f s) = rb s /\ lenN (q (upd_tgt f s)) = lenN (q s) /\ pass (upd_tgt f s) = pass s /\
    wb (upd_tgt f s) = wb s /\ nbl (upd_tgt f s) = nbl s /\ state (upd_tgt f s) = state s /\
    cpl (upd_tgt f s) = cpl s /\ rd_disc (upd_tgt f s) = rd_disc s /\ tgt (upd_tgt f s) = tgt s.
  Proof. unfold upd_tgt. destruct (tgt s) eqn:E; proj; rewrite ?lenN_upd_last, ?E; repeat split; reflexivity. Qed.

  Ltac tgtf :=
    repeat match goal with
           | |- context [upd_tgt ?f ?s] =>
               let H := fresh in
               pose proof (upd_tgt_fields f s) as H; destruct H as (?&?&?&?&?&?&?&?&?);
               generalize dependent (upd_tgt f s); intros
           end.

  (* ---- read_buf -------------------------------------------------------------------------- *)
  Definition I_rb (s : st) : Prop := rb s < c_maxb c + c_r c.

  Lemma I_rb_step s e s' : I_rb s -> step c s e = Some s' -> I_rb s'.
  Proof.
    unfold I_rb. intros Hs H. destruct e; open_step H; proj; tgtf; proj;
      repeat match goal with H : _ = _ |- _ => rewrite H in * end; proj; lia.
  Qed.

  (* ---- messages queue -------------------------------------------------------------------- *)
  Definition I_q (s : st) : Prop :=
    rb s < c_maxb c + c_r c /\
    (pass s = true -> lenN (q s) * c_mh c + c_mh c + rb s < c_maxp c * c_mh c + c_maxb c + c_r c) /\
    (pass s = false -> lenN (q s) * c_mh c < c_maxp c * c_mh c + c_maxb c + c_r c).

  Lemma I_q_step s e s' : 0 < c_mh c -> I_q s -> step c s e = Some s' -> I_q s'.
  Proof.
    unfold I_q. intros Hmh (H1 & H2 & H3) H.
    destruct e; open_step H; proj; tgtf; proj;
      rewrite ?lenN_snoc, ?lenN_cons, ?N.mul_add_distr_r in *;
      repeat match goal with H : _ = _ |- _ => rewrite H in * end;
      try (split; [|split]; intros; try discriminate; try lia).
    (* EvGate: the only non-linear step *)
    assert (X : (lenN (q s) + 1) * c_mh c <= c_maxp c * c_mh c) by (apply N.mul_le_mono_r; lia).
    rewrite N.mul_add_distr_r in X. lia.
  Qed.

  (* ---- write_buf ------------------------------------------------------------------------- *)
  (* side condition on a schedule: response heads are at most H bytes, encoded chunks and body
     trailers at most M bytes *)
  Definition ev_sizes (H M : N) (e : ev) : Prop :=
    match e with
    | EvRespond h _ => h <= H
    | EvBodyChunk e' | EvBodyEnd e' => e' <= M
    | _ => True
    end.

  Definition I_wb (H M : N) (s : st) : Prop :=
    match state s with
    | SSendPayload => wb s < c_wbs c + M + H * (nbl s + 1)
    | _ => wb s < c_wbs c + M + H * nbl s
    end.

  Lemma I_wb_step H M s e s' :
    0 < c_wbs c + M -> c_h431 c <= H ->
    ev_sizes H M e -> I_wb H M s -> step c s e = Some s' -> I_wb H M s'.
  Proof.
    unfold I_wb. intros Hpos H431 He Hs Hst.
    destruct e; cbn [ev_sizes] in He; open_step Hst; proj; tgtf; proj;
      repeat match goal with H : _ = _ |- _ => rewrite H in * end; proj;
      rewrite ?N.mul_add_distr_l, ?N.mul_1_r, ?N.mul_0_r in *; try lia;
      try (destruct (state s) eqn:?; try discriminate; lia);
      try (match goal with |- context [state ?x] => destruct (state x) eqn:? end;
           repeat match goal with H : _ = _ |- _ => rewrite H in * end; try discriminate; lia).
  Qed.

  (* ---- request-body channels: read-ahead ------------------------------------------------- *)
  Definition PB : N := c_pmax c + c_maxb c + c_r c.
  Definition chan_ok (ch : chan) : Prop :=
    ch_len ch < PB /\ (ch_need_read ch = true -> ch_len ch < c_pmax c).
  Definition ochan_ok (o : option chan) : Prop := match o with Some ch => chan_ok ch | None => True end.
  Definition qmsg_ok (x : qmsg) : Prop := match x with QItem o => ochan_ok o | QError => True end.
  Definition tgt_len (s : st) : N := match tgt_chan s with Some ch => ch_len ch | None => 0 end.

  Definition I_ch (s : st) : Prop :=
    rb s < c_maxb c + c_r c /\
    ochan_ok (hch s) /\ Forall qmsg_ok (q s) /\
    (cpl s = None -> tgt s = TgNone) /\
    (pass s = true -> tgt_len s + rb s < PB).

  Lemma sumN_app a b : sumN (a ++ b) = sumN a + sumN b.
  Proof. induction a as [|x a IH]; cbn [sumN app]; [lia|rewrite IH; lia]. Qed.

  Lemma last_chan_cons2 x y r : last_chan (x :: y :: r) = last_chan (y :: r).
  Proof. reflexivity. Qed.
  Lemma upd_last_cons2 f x y r : upd_last f (x :: y :: r) = x :: upd_last f (y :: r).
  Proof. reflexivity. Qed.
  Lemma upd_last_nonempty f y r : exists a b, upd_last f (y :: r) = a :: b.
  Proof. destruct r; cbn [upd_last]; eauto. Qed.

  Lemma last_chan_upd f l : last_chan (upd_last f l) = option_map f (last_chan l).
  Proof.
    induction l as [|x r IH]; [reflexivity|]. destruct r as [|y r'].
    - destruct x; reflexivity.
    - rewrite upd_last_cons2, last_chan_cons2.
      destruct (upd_last_nonempty f y r') as (a & b & E). rewrite E in *.
      rewrite last_chan_cons2. exact IH.
  Qed.

  Lemma Forall_upd_last f l :
    Forall qmsg_ok l -> ochan_ok (option_map f (last_chan l)) -> Forall qmsg_ok (upd_last f l).
  Proof.
    induction l as [|x r IH]; intros Hl Hf; [constructor|]. cbn [upd_last]. destruct r as [|y r'].
    - constructor; [|constructor]. destruct x; [exact Hf|exact I].
    - inversion Hl; subst. constructor; [assumption|]. apply IH; assumption.
  Qed.

  Lemma Forall_last_ok l : Forall qmsg_ok l -> ochan_ok (last_chan l).
  Proof.
    induction l as [|x r IH]; intro H; [exact I|]. inversion H; subst. cbn [last_chan].
    destruct r; [destruct x; [assumption|exact I]|apply IH; assumption].
  Qed.

  Lemma tgt_chan_ok s : ochan_ok (hch s) -> Forall qmsg_ok (q s) -> ochan_ok (tgt_chan s).
  Proof. intros H1 H2. unfold tgt_chan. destruct (tgt s); [exact I|exact H1|apply Forall_last_ok; exact H2]. Qed.

  Lemma tgt_chan_upd f s : tgt_chan (upd_tgt f s) = option_map f (tgt_chan s).
  Proof.
    unfold tgt_chan, upd_tgt. destruct (tgt s) eqn:E; proj; rewrite ?E; try reflexivity.
    apply last_chan_upd.
  Qed.

  (* updating the target channel keeps every channel fine when the new target channel is fine *)
  Lemma upd_tgt_ok f s :
    ochan_ok (hch s) -> Forall qmsg_ok (q s) -> ochan_ok (option_map f (tgt_chan s)) ->
    ochan_ok (hch (upd_tgt f s)) /\ Forall qmsg_ok (q (upd_tgt f s)).
  Proof.
    intros H1 H2 H3. unfold upd_tgt, tgt_chan in *. destruct (tgt s); proj; auto.
    split; [exact H1|]. apply Forall_upd_last; assumption.
  Qed.

  Lemma upd_tgt_hch_q_other f s :
    tgt s = TgNone -> upd_tgt f s = s.
  Proof. intro E. unfold upd_tgt. rewrite E. reflexivity. Qed.

  Lemma chan_new_ok : 0 < c_pmax c -> chan_ok chan_new.
  Proof. intro H. unfold chan_ok, chan_new, ch_len, PB. cbn [ch_items ch_need_read sumN]. lia. Qed.

  Lemma ch_pop_ok ch n ch' : chan_ok ch -> ch_pop c ch = Some (n, ch') -> chan_ok ch' /\ ch_len ch' <= ch_len ch.
  Proof.
    unfold ch_pop, chan_ok, ch_len. intros [H1 H2] H. destruct (ch_items ch) as [|x r] eqn:E; [discriminate|].
    inversion H; subst. cbn [ch_items ch_need_read sumN] in *. repeat split; try lia.
  Qed.

  Lemma last_chan_snoc l x : last_chan (l ++ [x]) = match x with QItem ch => ch | QError => None end.
  Proof.
    induction l as [|y r IH]; [reflexivity|]. cbn [app]. destruct (r ++ [x]) eqn:E.
    - destruct r; discriminate.
    - rewrite last_chan_cons2. exact IH.
  Qed.

  Lemma Forall_snoc_ok l x : Forall qmsg_ok l -> qmsg_ok x -> Forall qmsg_ok (l ++ [x]).
  Proof. intros. apply Forall_app. split; [assumption|constructor; [assumption|constructor]]. Qed.

  (* a channel update that changes neither the items nor the back-pressure flag *)
  Definition neutral (f : chan -> chan) : Prop :=
    forall ch, ch_items (f ch) = ch_items ch /\ ch_need_read (f ch) = ch_need_read ch.

  Lemma neutral_ok f ch : neutral f -> chan_ok ch -> chan_ok (f ch).
  Proof. intros Hf [H1 H2]. destruct (Hf ch) as [E1 E2]. unfold chan_ok, ch_len in *. rewrite E1, E2. auto. Qed.

  Lemma upd_tgt_neutral f s :
    neutral f -> ochan_ok (hch s) -> Forall qmsg_ok (q s) ->
    ochan_ok (hch (upd_tgt f s)) /\ Forall qmsg_ok (q (upd_tgt f s)) /\ tgt_len (upd_tgt f s) = tgt_len s.
  Proof.
    intros Hf H1 H2. pose proof (tgt_chan_ok s H1 H2) as H3.
    destruct (upd_tgt_ok f s H1 H2) as [A B].
    { destruct (tgt_chan s); cbn [option_map ochan_ok] in *; [apply neutral_ok; assumption|exact I]. }
    split; [exact A|]. split; [exact B|]. unfold tgt_len. rewrite tgt_chan_upd.
    destruct (tgt_chan s); cbn [option_map]; [|reflexivity]. unfold ch_len. destruct (Hf c0) as [E _]. rewrite E. reflexivity.
  Qed.

  Lemma neutral_reg_io : neutral ch_reg_io.
  Proof. intro ch. split; reflexivity. Qed.
  Lemma neutral_feed_eof : neutral ch_feed_eof.
  Proof. intro ch. split; reflexivity. Qed.
  Lemma neutral_err_eof : neutral (fun ch => ch_feed_eof (ch_set_error ch)).
  Proof. intro ch. split; reflexivity. Qed.

  Lemma tgt_len_TgNone s : tgt s = TgNone -> tgt_len s = 0.
  Proof. intro E. unfold tgt_len, tgt_chan. rewrite E. reflexivity. Qed.

  Ltac gd H := unfold guard in H;
               match type of H with (if ?b then _ else _) = _ => destruct b eqn:G; [|discriminate] end;
               inversion H; subst; clear H.

  Lemma I_ch_step s e s' : 0 < c_pmax c -> I_ch s -> step c s e = Some s' -> I_ch s'.
  Proof.
    unfold I_ch. intros Hp (H1 & H2 & H3 & HJ & H4) H.
    assert (HPB : c_maxb c + c_r c <= PB) by (unfold PB; lia).
    destruct e; cbn [step] in H.
    - (* EvRead *) gd H. proj. repeat split; auto; [lia|]. intro X. lia.
    - (* EvNeedRead *)
      assert (X : s' = s \/ s' = upd_tgt ch_reg_io s).
      { destruct (need_read_status s) as [[| |]|]; inversion H; auto. }
      destruct X as [->| ->]; [repeat split; auto|].
      destruct (upd_tgt_neutral ch_reg_io s neutral_reg_io H2 H3) as (A & B & C).
      destruct (upd_tgt_fields ch_reg_io s) as (E1&E2&E3&E4&E5&E6&E7&E8&E9).
      rewrite E1, E3, E7, E9, C. repeat split; auto.
    - (* EvGate *) gd H. proj. repeat split; auto. intros _.
      assert (Gc : can_read s = true) by lia.
      unfold tgt_len. replace (tgt_chan (set_pass true s)) with (tgt_chan s) by reflexivity.
      unfold can_read, need_read_status in Gc.
      destruct (cpl s) eqn:Ec.
      + pose proof (tgt_chan_ok s H2 H3) as Hok. destruct (tgt_chan s) as [ch|]; [|lia].
        destruct (ch_need_read ch) eqn:En; [|rewrite andb_false_r in Gc; discriminate].
        destruct Hok as [_ Hok]. specialize (Hok En). unfold PB. lia.
      + unfold tgt_chan. rewrite (HJ eq_refl). lia.
    - (* EvDecodeHead *)
      destruct (pass s && match body with Some n => 0 <? n | None => true end && (c_mh c <=? hlen)
                && (hlen <=? rb s) && match cpl s with None => true | Some _ => false end) eqn:G; [|discriminate].
      assert (Gp : pass s = true) by lia.
      destruct (state s), body as [n|]; inversion H; subst; clear H; proj;
        (split; [lia|]); (split; [first [exact H2|exact I|apply chan_new_ok; exact Hp]|]);
        (split; [first [exact H3|apply Forall_snoc_ok; [exact H3|first [exact I|apply chan_new_ok; exact Hp]]]|]);
        (split; [intro X; first [discriminate|reflexivity]|]); intros _;
        unfold tgt_len, tgt_chan; proj; rewrite ?last_chan_snoc; unfold chan_new, ch_len; cbn [ch_items sumN]; lia.
    - (* EvDecodeChunk *)
      destruct (cpl s) as [rem|] eqn:Ec; [|discriminate]. gd H.
      assert (Gp : pass s = true) by lia. specialize (H4 Gp).
      set (s0 := set_cpl (Some (rem - n)) (set_rb (rb s - n) s)).
      assert (T0 : tgt_chan s0 = tgt_chan s) by reflexivity.
      pose proof (tgt_chan_ok s H2 H3) as Hok.
      assert (Hf : ochan_ok (option_map (ch_feed c n) (tgt_chan s0))).
      { rewrite T0. unfold tgt_len in H4. destruct (tgt_chan s) as [ch|]; cbn [option_map ochan_ok]; [|exact I].
        unfold chan_ok, ch_feed, ch_len in *. cbn [ch_items ch_need_read]. rewrite sumN_app. cbn [sumN].
        split; [lia|]. intro X. lia. }
      destruct (upd_tgt_ok (ch_feed c n) s0 H2 H3 Hf) as [A B].
      destruct (upd_tgt_fields (ch_feed c n) s0) as (E1&E2&E3&E4&E5&E6&E7&E8&E9).
      split; [rewrite E1; unfold s0; proj; lia|]. split; [exact A|]. split; [exact B|].
      split; [rewrite E7; unfold s0; proj; discriminate|]. intros _.
      unfold tgt_len in *. rewrite tgt_chan_upd, T0, E1. unfold s0; proj.
      destruct (tgt_chan s) as [ch|]; cbn [option_map].
      + unfold ch_feed, ch_len. cbn [ch_items]. rewrite sumN_app. cbn [sumN]. unfold ch_len in H4. lia.
      + lia.
    - (* EvDecodeEof *)
      destruct (cpl s) as [rem|] eqn:Ec; [|discriminate]. gd H.
      set (s0 := set_cpl None s).
      destruct (upd_tgt_neutral ch_feed_eof s0 neutral_feed_eof H2 H3) as (A & B & C).
      destruct (upd_tgt_fields ch_feed_eof s0) as (E1&E2&E3&E4&E5&E6&E7&E8&E9).
      proj. split; [rewrite E1; exact H1|]. split; [exact A|]. split; [exact B|].
      split; [reflexivity|]. intros _. rewrite tgt_len_TgNone by reflexivity. rewrite E1. unfold s0; proj. lia.
    - (* EvTooLarge *) gd H. proj. repeat split; auto; try discriminate; try (apply Forall_snoc_ok; [exact H3|exact I]).
    - (* EvPassEnd *) gd H. proj. repeat split; auto; try discriminate.
    - (* EvPop *)
      destruct (state s); try discriminate. destruct (q s) as [|[ch|] q'] eqn:Eq; try discriminate. gd H.
      assert (Gp : pass s = false) by lia. inversion H3; subst. proj.
      split; [exact H1|]. split; [assumption|]. split; [assumption|].
      split; [|intro X; congruence].
      intro X. specialize (HJ X). rewrite HJ. reflexivity.
    - (* EvPopErr *)
      destruct (state s); try discriminate. destruct (q s) as [|[ch|] q'] eqn:Eq; try discriminate. gd H.
      assert (Gp : pass s = false) by lia. inversion H3; subst. proj.
      repeat split; auto. intro X; congruence.
    - (* EvConsume *)
      destruct (state s); try discriminate. destruct (hch s) as [ch|] eqn:Eh; try discriminate.
      destruct (ch_pop c ch) as [[n ch']|] eqn:Epop; [|discriminate]. inversion H; subst; clear H.
      destruct (ch_pop_ok ch n ch' H2 Epop) as [Hok Hle]. proj.
      split; [exact H1|]. split; [exact Hok|]. split; [exact H3|]. split; [exact HJ|]. intro X. specialize (H4 X).
      unfold tgt_len, tgt_chan in *; proj. destruct (tgt s); try lia. rewrite Eh in H4. lia.
    - (* EvPollEmpty *)
      destruct (state s); try discriminate. destruct (hch s) as [ch|] eqn:Eh; try discriminate. gd H. proj.
      destruct (ch_items ch) eqn:Ei; [|discriminate].
      assert (Hok : chan_ok (ch_poll_empty ch)).
      { unfold chan_ok, ch_poll_empty, ch_len. cbn [ch_items ch_need_read]. rewrite Ei. cbn [sumN]. unfold PB. lia. }
      split; [exact H1|]. split; [exact Hok|]. split; [exact H3|]. split; [exact HJ|]. intro X. specialize (H4 X).
      unfold tgt_len, tgt_chan in *; proj. destruct (tgt s); try lia. rewrite Eh in H4.
      unfold ch_len, ch_poll_empty in *. cbn [ch_items]. lia.
    - (* EvTakeErr *)
      destruct (state s); try discriminate. destruct (hch s) as [ch|] eqn:Eh; try discriminate. gd H. proj.
      destruct (ch_items ch) eqn:Ei; [|discriminate].
      destruct H2 as [Ha Hb].
      assert (Hok : chan_ok (mk_chan [] (ch_eof ch) false (ch_need_read ch) (ch_task ch) (ch_io ch))).
      { unfold chan_ok, ch_len in *. cbn [ch_items ch_need_read sumN]. rewrite Ei in *. cbn [sumN] in *. auto. }
      split; [exact H1|]. split; [exact Hok|]. split; [exact H3|]. split; [exact HJ|]. intro X. specialize (H4 X).
      unfold tgt_len, tgt_chan in *; proj. destruct (tgt s); try lia. rewrite Eh in H4.
      unfold ch_len in *. cbn [ch_items sumN]. lia.
    - (* EvRespond *)
      destruct (state s); try discriminate. inversion H; subst; clear H.
      destruct body; proj.
      all: split; [exact H1|]; split; [exact I|]; split; [exact H3|]; split.
      all: try (intro X; rewrite (HJ X); reflexivity).
      all: intro X; specialize (H4 X); unfold tgt_len, tgt_chan in *; proj; destruct (tgt s); proj; lia.
    - (* EvBodyChunk *) destruct (state s); try discriminate. gd H. proj. repeat split; auto.
    - (* EvBodyEnd *) destruct (state s); try discriminate. gd H. proj. repeat split; auto.
    - (* EvAccept *) gd H. proj. repeat split; auto.
    - (* EvEof *) gd H. assert (Gp : pass s = false) by lia.
      destruct (cpl s) eqn:Ec; proj.
      + destruct (upd_tgt_neutral _ s neutral_err_eof H2 H3) as (A & B & C).
        destruct (upd_tgt_fields (fun ch => ch_feed_eof (ch_set_error ch)) s) as (E1&E2&E3&E4&E5&E6&E7&E8&E9).
        rewrite E1, E3. split; [exact H1|]. split; [exact A|]. split; [exact B|]. split; [reflexivity|].
        intro X; congruence.
      + split; [exact H1|]. split; [exact H2|]. split; [exact H3|]. split; [intros _; exact (HJ eq_refl)|]. intro X; congruence.
    - (* EvDrop *)
      destruct (state s); try discriminate. destruct (hch s) eqn:Eh; try discriminate.
      inversion H; subst; clear H. proj.
      split; [exact H1|]. split; [exact I|]. split; [exact H3|]. split.
      + intro X. rewrite (HJ X). reflexivity.
      + intro X. specialize (H4 X). unfold tgt_len, tgt_chan in *; proj. destruct (tgt s); proj; lia.
  Qed.
End Bounds.

(* ---- the bounds along every schedule from the initial state ------------------------------- *)
Section Main.
  Variable c : cfg.
  Hypothesis Hmaxb : 0 < c_maxb c.
  Hypothesis Hmh : 0 < c_mh c.
  Hypothesis Hpmax : 0 < c_pmax c.

  Theorem read_buf_bound es : rb (steps c st_init es) < c_maxb c + c_r c.
  Proof. apply (steps_inv c (I_rb c)); [apply I_rb_step|unfold I_rb; cbn; lia]. Qed.

  Theorem queue_bound es :
    lenN (q (steps c st_init es)) * c_mh c < c_maxp c * c_mh c + c_maxb c + c_r c.
  Proof.
    assert (H : I_q c (steps c st_init es)).
    { apply (steps_inv c (I_q c)); [intros; eapply I_q_step; eauto|].
      unfold I_q. cbn. repeat split; try discriminate; lia. }
    destruct H as (H1 & H2 & H3). destruct (pass (steps c st_init es)) eqn:E; [specialize (H2 eq_refl); lia|auto].
  Qed.

  Theorem channels_bound es :
    let s := steps c st_init es in
    ochan_ok c (hch s) /\ Forall (qmsg_ok c) (q s) /\ tgt_len s < PB c.
  Proof.
    cbn zeta. assert (H : I_ch c (steps c st_init es)).
    { apply (steps_inv c (I_ch c)); [intros; eapply I_ch_step; eauto|].
      unfold I_ch, PB. cbn. repeat split; try discriminate; try lia. constructor. }
    destruct H as (H1 & H2 & H3 & HJ & H4). split; [exact H2|]. split; [exact H3|].
    pose proof (tgt_chan_ok c _ H2 H3) as Hok. unfold tgt_len.
    destruct (tgt_chan (steps c st_init es)); [destruct Hok; assumption|unfold PB; lia].
  Qed.

  Theorem write_buf_bound H M es :
    0 < c_wbs c + M -> c_h431 c <= H -> Forall (ev_sizes H M) es ->
    let s := steps c st_init es in wb s < c_wbs c + M + H * (nbl s + 1).
  Proof.
    intros Hpos H431 Hes. cbn zeta.
    assert (X : I_wb c H M (steps c st_init es)).
    { apply (steps_inv_ev c (I_wb c H M) (ev_sizes H M)); [intros; eapply I_wb_step; eauto|exact Hes|].
      unfold I_wb. cbn. lia. }
    unfold I_wb in X. rewrite N.mul_add_distr_l, N.mul_1_r.
    destruct (state (steps c st_init es)); rewrite ?N.mul_add_distr_l, ?N.mul_1_r in X; lia.
  Qed.

  (* the decidable class of F16: schedules that produce a body-less response *)
  Definition bodiless (e : ev) : bool :=
    match e with EvRespond _ false | EvPopErr => true | _ => false end.

  Lemma nbl_zero es s :
    Forall (fun e => bodiless e = false) es -> nbl s = 0 -> nbl (steps c s es) = 0.
  Proof.
    intros Hes H0. apply (steps_inv_ev c (fun s => nbl s = 0) (fun e => bodiless e = false)); auto.
    clear. intros s e s' Hb Hs Hst.
    destruct e; cbn [bodiless] in Hb; open_step Hst; proj; try discriminate; try assumption; try reflexivity;
      try (destruct (upd_tgt_fields c0 s) as (?&?&?&?&E&?); rewrite ?E; assumption).
    all: try match goal with |- nbl (upd_tgt ?f ?x) = 0 =>
               destruct (upd_tgt_fields f x) as (_&_&_&_&E&_); rewrite E; proj; assumption end.
    all: try match goal with |- nbl (set_tgt _ (upd_tgt ?f ?x)) = 0 =>
               destruct (upd_tgt_fields f x) as (_&_&_&_&E&_); proj; rewrite E; proj; assumption end.
  Qed.

  Theorem write_buf_bound_outside_known H M es :
    0 < c_wbs c + M -> c_h431 c <= H -> Forall (ev_sizes H M) es ->
    Forall (fun e => bodiless e = false) es ->
    wb (steps c st_init es) < c_wbs c + M + H.
  Proof.
    intros Hpos H431 Hes Hnb. pose proof (write_buf_bound H M es Hpos H431 Hes) as X. cbn zeta in X.
    rewrite (nbl_zero es st_init Hnb eq_refl) in X. lia.
  Qed.

  (* the gates themselves *)
  Theorem send_payload_gate s e s' :
    step c s (EvBodyChunk e) = Some s' \/ step c s (EvBodyEnd e) = Some s' -> wb s < c_wbs c.
  Proof. intros [H|H]; open_step H; lia. Qed.

  Theorem read_gate s n s' : step c s (EvRead n) = Some s' -> rb s < c_maxb c /\ n <= c_r c /\ rd_disc s = false.
  Proof. intro H. open_step H. lia. Qed.

  Theorem decode_gate s s' :
    step c s EvGate = Some s' -> lenN (q s) < c_maxp c /\ can_read s = true.
  Proof. intro H. open_step H. lia. Qed.

  (* 431: an over-long partial head is refused, the read side is closed for good *)
  Theorem too_large_enabled s :
    pass s = true -> cpl s = None -> c_maxb c <= rb s ->
    exists s', step c s EvTooLarge = Some s' /\ rd_disc s' = true /\ q s' = q s ++ [QError] /\ pass s' = false.
  Proof.
    intros Hp Hc Hr. unfold step, guard. rewrite Hp, Hc.
    assert (E : c_maxb c <=? rb s = true) by lia. rewrite E. cbn [andb].
    eexists. split; [reflexivity|]. proj. auto.
  Qed.

  Lemma rd_disc_sticky s e s' : rd_disc s = true -> step c s e = Some s' -> rd_disc s' = true /\ rb s' <= rb s.
  Proof.
    intros Hd H. destruct e; open_step H; proj; try (split; [assumption|lia]); try lia.
    all: try match goal with |- context [upd_tgt ?f ?x] =>
               destruct (upd_tgt_fields f x) as (E1&_&_&_&_&_&_&E8&_); proj; rewrite ?E1, ?E8; proj; split; [assumption|lia] end.
    all: try (split; [reflexivity|lia]).
    all: match goal with |- context [upd_tgt ?f ?x] =>
           destruct (upd_tgt_fields f x) as (E1&_); rewrite E1; split; [reflexivity|lia] end.
  Qed.

  Theorem no_read_after_disconnect es s :
    rd_disc s = true -> rd_disc (steps c s es) = true /\ rb (steps c s es) <= rb s.
  Proof.
    revert s. induction es as [|e es IH]; intros s Hd; cbn [steps fold_left]; [split; [assumption|lia]|].
    destruct (step_t_cases c s e) as [E|E].
    - rewrite E. apply IH. exact Hd.
    - destruct (rd_disc_sticky s e _ Hd E) as [A B]. destruct (IH _ A) as [C D]. split; [exact C|].
      unfold steps in *. lia.
  Qed.
End Main.

(* ---- the configuration of the code as it is (constants from the sources) ------------------ *)
From AV Require Import Gen.Consts H1.GatesCfg.

Lemma div_bound a m p X : 0 < m -> a * m < p * m + X -> a <= p + X / m.
Proof.
  intros Hm H. destruct (N.le_gt_cases a (p + X / m)) as [L|G]; [exact L|exfalso].
  assert (G' : p + X / m + 1 <= a) by lia.
  assert (Y : (p + X / m + 1) * m <= a * m) by (apply N.mul_le_mono_r; exact G').
  rewrite !N.mul_add_distr_r, N.mul_1_l in Y.
  pose proof (N.mul_succ_div_gt X m) as Z. rewrite N.mul_succ_r in Z.
  assert (m <> 0) by lia. specialize (Z H0). rewrite (N.mul_comm m (X / m)) in Z. lia.
Qed.

(* F16: one cycle = a body-less request is read, decoded, dispatched and answered into write_buf
   while the socket accepts nothing; nothing in the cycle looks at write_buf *)
Definition f16_cycle (h : N) : list ev :=
  [EvRead MIN_HEAD; EvGate; EvDecodeHead MIN_HEAD None; EvRespond h false; EvPassEnd].
Definition f16_state (w k : N) : st := mk_st 0 [] SNone None None TgNone w false false k.

Lemma f16_cycle_step wbs h431 fx h w k :
  let c := std_cfg wbs H1_LW_BUFFER_SIZE h431 fx in
  steps_ok c (f16_state w k) (f16_cycle h) = true /\
  steps c (f16_state w k) (f16_cycle h) = f16_state (w + h) (k + 1).
Proof. cbn zeta. split; reflexivity. Qed.

Lemma steps_app c s a b : steps c s (a ++ b) = steps c (steps c s a) b.
Proof. unfold steps. apply fold_left_app. Qed.

Lemma steps_ok_steps c : forall a s, steps_ok c s a = true -> forall b, steps_ok c s (a ++ b) = steps_ok c (steps c s a) b.
Proof.
  induction a as [|e a IH]; intros s H b; [reflexivity|]. cbn [steps_ok app] in *.
  cbn [steps fold_left]. unfold step_t. destruct (step c s e) as [s1|]; [|discriminate]. apply IH. exact H.
Qed.

Fixpoint f16_schedule (n : nat) (h : N) : list ev :=
  match n with O => [] | S n' => f16_schedule n' h ++ f16_cycle h end.

Lemma f16_run wbs h431 fx h : forall n,
  let c := std_cfg wbs H1_LW_BUFFER_SIZE h431 fx in
  steps_ok c st_init (f16_schedule n h) = true /\
  steps c st_init (f16_schedule n h) = f16_state (N.of_nat n * h) (N.of_nat n).
Proof.
  cbn zeta. induction n as [|n [IH1 IH2]]; [split; reflexivity|]. cbn [f16_schedule].
  destruct (f16_cycle_step wbs h431 fx h (N.of_nat n * h) (N.of_nat n)) as [C1 C2]. cbn zeta in C1, C2.
  split.
  - rewrite steps_ok_steps by exact IH1. rewrite IH2. exact C1.
  - rewrite steps_app, IH2, C2. f_equal; lia.
Qed.

Lemma f16_no_accept n h : Forall (fun e => match e with EvAccept _ => False | _ => True end) (f16_schedule n h).
Proof.
  induction n; cbn [f16_schedule]; [constructor|]. apply Forall_app. split; [assumption|].
  repeat constructor.
Qed.
