(* Event-level model of the HTTP/1 dispatcher's buffers and their gates, lengths only
   (actix-http/src/h1/dispatcher.rs, payload.rs).

   State = (|read_buf|, messages queue, dispatcher State, request-body channels with their
   32 KiB back-pressure flag, codec payload decoder, |write_buf|, READ_DISCONNECT).
   Events = what the code regions do to those fields, each with the guard the code tests:

     EvRead         read_available: one poll_read, only while |read_buf| < MAX_BUFFER_SIZE
     EvNeedRead     PayloadSender::need_read (registers the io waker on Pause)
     EvGate         poll_request entry: messages.len() < MAX_PIPELINED_MESSAGES && can_read
     EvDecodeHead / EvDecodeChunk / EvDecodeEof / EvTooLarge / EvPassEnd   the decode loop
     EvPop / EvPopErr                poll_response, State::None arm
     EvConsume / EvPollEmpty         the handler polls its request payload
     EvRespond                       send_response (head encoded; body-less => State::None)
     EvBodyChunk / EvBodyEnd         SendPayload arm, only while |write_buf| < h1_write_buffer_size
     EvAccept                        poll_flush: the socket took k bytes
     EvDrop                          the handler drops its request Payload (PayloadStatus::Dropped from then on)

   [step] is partial: None = the guard of that code region is closed in this state.
   The second half of the file ([poll]) sequences these events the way `Dispatcher::poll`'s normal
   and shutdown branches do, for the scenario class of the correspondence harness (keep-alive
   HTTP/1.1 requests with no or a Content-Length body, scripted handlers and response bodies).
   No proofs in this file. *)
From AV Require Import Lib.Base H1.ReadBuf H1.Flush.

Record cfg := mk_cfg
  { c_maxb : N       (* h1::decoder::MAX_BUFFER_SIZE *)
  ; c_maxp : N       (* MAX_PIPELINED_MESSAGES *)
  ; c_pmax : N       (* h1::payload::MAX_BUFFER_SIZE *)
  ; c_wbs : N        (* h1_write_buffer_size *)
  ; c_r : N          (* most bytes one poll_read returns *)
  ; c_mh : N         (* shortest request head *)
  ; c_h431 : N       (* length of the encoded 431 response *)
  ; c_fix21 : bool   (* dispatcher carries the F21 repair (self-wake after a full queue drained) *)
  ; c_fix28 : bool }. (* ... generalised: self-wake whenever the decode gate was closed at poll_request and is open at the end of the poll (full queue drained, or paused payload dropped) *)

(* request-body channel (payload.rs `Inner`), chunk lengths only *)
Record chan := mk_chan
  { ch_items : list N; ch_eof : bool; ch_err : bool
  ; ch_need_read : bool
  ; ch_task : bool     (* consumer waker registered *)
  ; ch_io : bool }.    (* feeder (dispatcher) waker registered *)
Definition ch_len (ch : chan) : N := sumN (ch_items ch).
Definition chan_new : chan := mk_chan [] false false true false false.

Inductive qmsg := QItem (ch : option chan) | QError.
Inductive dstate := SNone | SService | SSendPayload.
(* where the Payload (receiver) of the body being decoded lives *)
Inductive target := TgNone | TgHandler | TgLast.

Record st := mk_st
  { rb : N               (* read_buf.len() *)
  ; q : list qmsg        (* messages *)
  ; state : dstate
  ; hch : option chan    (* Payload held by the running service call *)
  ; cpl : option N       (* codec.payload / dispatcher.payload: Length decoder, bytes remaining *)
  ; tgt : target
  ; wb : N               (* write_buf.len() *)
  ; rd_disc : bool       (* Flags::READ_DISCONNECT *)
  ; pass : bool          (* inside poll_request's decode loop *)
  ; nbl : N }.           (* ghost: body-less responses encoded since write_buf was last empty *)

Definition st_init : st := mk_st 0 [] SNone None None TgNone 0 false false 0.

Definition set_rb v s := mk_st v (q s) (state s) (hch s) (cpl s) (tgt s) (wb s) (rd_disc s) (pass s) (nbl s).
Definition set_q v s := mk_st (rb s) v (state s) (hch s) (cpl s) (tgt s) (wb s) (rd_disc s) (pass s) (nbl s).
Definition set_state v s := mk_st (rb s) (q s) v (hch s) (cpl s) (tgt s) (wb s) (rd_disc s) (pass s) (nbl s).
Definition set_hch v s := mk_st (rb s) (q s) (state s) v (cpl s) (tgt s) (wb s) (rd_disc s) (pass s) (nbl s).
Definition set_cpl v s := mk_st (rb s) (q s) (state s) (hch s) v (tgt s) (wb s) (rd_disc s) (pass s) (nbl s).
Definition set_tgt v s := mk_st (rb s) (q s) (state s) (hch s) (cpl s) v (wb s) (rd_disc s) (pass s) (nbl s).
Definition set_wb v s := mk_st (rb s) (q s) (state s) (hch s) (cpl s) (tgt s) v (rd_disc s) (pass s) (nbl s).
Definition set_rd_disc v s := mk_st (rb s) (q s) (state s) (hch s) (cpl s) (tgt s) (wb s) v (pass s) (nbl s).
Definition set_pass v s := mk_st (rb s) (q s) (state s) (hch s) (cpl s) (tgt s) (wb s) (rd_disc s) v (nbl s).
Definition set_nbl v s := mk_st (rb s) (q s) (state s) (hch s) (cpl s) (tgt s) (wb s) (rd_disc s) (pass s) v.

Fixpoint last_chan (l : list qmsg) : option chan :=
  match l with
  | [] => None
  | x :: r => match r with
              | [] => match x with QItem ch => ch | QError => None end
              | _ :: _ => last_chan r
              end
  end.
Fixpoint upd_last (f : chan -> chan) (l : list qmsg) : list qmsg :=
  match l with
  | [] => []
  | x :: r => match r with
              | [] => [match x with QItem ch => QItem (option_map f ch) | QError => QError end]
              | _ :: _ => x :: upd_last f r
              end
  end.

(* the channel the PayloadSender points to; None = the receiver has been dropped *)
Definition tgt_chan (s : st) : option chan :=
  match tgt s with TgNone => None | TgHandler => hch s | TgLast => last_chan (q s) end.
Definition upd_tgt (f : chan -> chan) (s : st) : st :=
  match tgt s with
  | TgNone => s
  | TgHandler => set_hch (option_map f (hch s)) s
  | TgLast => set_q (upd_last f (q s)) s
  end.

(* PayloadSender::need_read, None when dispatcher.payload is None *)
Definition need_read_status (s : st) : option pstatus :=
  match cpl s with
  | None => None
  | Some _ => Some match tgt_chan s with
                   | None => PDropped
                   | Some ch => if ch_need_read ch then PRead else PPause
                   end
  end.
Definition can_read (s : st) : bool :=
  negb (rd_disc s) && match need_read_status s with Some PPause => false | _ => true end.

Section Step.
  Variable c : cfg.

  (* Inner::feed_data / feed_eof / poll_next on one channel *)
  Definition ch_feed (n : N) (ch : chan) : chan :=
    let items := ch_items ch ++ [n] in
    mk_chan items (ch_eof ch) (ch_err ch) (sumN items <? c_pmax c) false (ch_io ch).
  Definition ch_feed_eof (ch : chan) : chan :=
    mk_chan (ch_items ch) true (ch_err ch) (ch_need_read ch) false (ch_io ch).
  Definition ch_set_error (ch : chan) : chan :=
    mk_chan (ch_items ch) (ch_eof ch) true (ch_need_read ch) false (ch_io ch).
  Definition ch_pop (ch : chan) : option (N * chan) :=
    match ch_items ch with
    | [] => None
    | n :: r =>
        let nr := sumN r <? c_pmax c in
        Some (n, mk_chan r (ch_eof ch) (ch_err ch) nr
                         (if nr && negb (ch_eof ch) then true else ch_task ch) false)
    end.
  Definition ch_poll_empty (ch : chan) : chan :=
    mk_chan (ch_items ch) (ch_eof ch) (ch_err ch) true true false.
  Definition ch_reg_io (ch : chan) : chan :=
    mk_chan (ch_items ch) (ch_eof ch) (ch_err ch) (ch_need_read ch) (ch_task ch) true.

  Inductive ev :=
  | EvRead (n : N)
  | EvNeedRead
  | EvGate
  | EvDecodeHead (hlen : N) (body : option N)
  | EvDecodeChunk (n : N)
  | EvDecodeEof
  | EvTooLarge
  | EvPassEnd
  | EvPop
  | EvPopErr
  | EvConsume
  | EvPollEmpty
  | EvTakeErr
  | EvRespond (h : N) (body : bool)
  | EvBodyChunk (e : N)
  | EvBodyEnd (e : N)
  | EvAccept (k : N)
  | EvEof
  | EvDrop.

  Definition guard (b : bool) (s : st) : option st := if b then Some s else None.

  Definition step (s : st) (e : ev) : option st :=
    match e with
    | EvRead n =>
        (* read_available loop body: only below the cap, never inside a decode pass *)
        guard (negb (pass s) && negb (rd_disc s) && (rb s <? c_maxb c) && (0 <? n) && (n <=? c_r c))
              (set_rb (rb s + n) s)
    | EvNeedRead =>
        match need_read_status s with
        | Some PPause => Some (upd_tgt ch_reg_io s)
        | _ => Some s
        end
    | EvGate =>
        guard (negb (pass s) && (lenN (q s) <? c_maxp c) && can_read s) (set_pass true s)
    | EvDecodeHead hlen body =>
        let body_ok := match body with Some n => 0 <? n | None => true end in
        if pass s && body_ok && (c_mh c <=? hlen) && (hlen <=? rb s)
           && match cpl s with None => true | Some _ => false end
        then
          let ch := match body with Some _ => Some chan_new | None => None end in
          let s1 := set_cpl body (set_rb (rb s - hlen) s) in
          match state s with
          | SNone =>
              Some (set_tgt (match body with Some _ => TgHandler | None => TgNone end)
                            (set_hch ch (set_state SService s1)))
          | _ =>
              Some (set_tgt (match body with Some _ => TgLast | None => TgNone end)
                            (set_q (q s ++ [QItem ch]) s1))
          end
        else None
    | EvDecodeChunk n =>
        match cpl s with
        | Some rem =>
            guard (pass s && (0 <? rem) && (0 <? rb s) && (n =? N.min rem (rb s)))
                  (upd_tgt (ch_feed n) (set_cpl (Some (rem - n)) (set_rb (rb s - n) s)))
        | None => None
        end
    | EvDecodeEof =>
        match cpl s with
        | Some rem => guard (pass s && (rem =? 0)) (set_tgt TgNone (upd_tgt ch_feed_eof (set_cpl None s)))
        | None => None
        end
    | EvTooLarge =>
        (* Partial head with |read_buf| >= MAX_BUFFER_SIZE: 431 queued, READ_DISCONNECT, break *)
        guard (pass s && (c_maxb c <=? rb s) && match cpl s with None => true | Some _ => false end)
              (set_pass false (set_rd_disc true (set_tgt TgNone (set_q (q s ++ [QError]) s))))
    | EvPassEnd => guard (pass s) (set_pass false s)
    | EvPop =>
        match state s, q s with
        | SNone, QItem ch :: q' =>
            guard (negb (pass s))
                  (set_tgt (match tgt s, q' with TgLast, [] => TgHandler | t, _ => t end)
                           (set_hch ch (set_state SService (set_q q' s))))
        | _, _ => None
        end
    | EvPopErr =>
        match state s, q s with
        | SNone, QError :: q' =>
            guard (negb (pass s)) (set_nbl (nbl s + 1) (set_wb (wb s + c_h431 c) (set_q q' s)))
        | _, _ => None
        end
    | EvConsume =>
        match state s, hch s with
        | SService, Some ch =>
            match ch_pop ch with Some (_, ch') => Some (set_hch (Some ch') s) | None => None end
        | _, _ => None
        end
    | EvPollEmpty =>
        match state s, hch s with
        | SService, Some ch =>
            guard (match ch_items ch with [] => true | _ => false end && negb (ch_err ch) && negb (ch_eof ch))
                  (set_hch (Some (ch_poll_empty ch)) s)
        | _, _ => None
        end
    | EvTakeErr =>
        match state s, hch s with
        | SService, Some ch =>
            guard (match ch_items ch with [] => true | _ => false end && ch_err ch)
                  (set_hch (Some (mk_chan [] (ch_eof ch) false (ch_need_read ch) (ch_task ch) (ch_io ch))) s)
        | _, _ => None
        end
    | EvRespond h body =>
        match state s with
        | SService =>
            let s1 := set_tgt (match tgt s with TgHandler => TgNone | t => t end)
                              (set_hch None (set_wb (wb s + h) s)) in
            Some (if body then set_state SSendPayload s1
                  else set_nbl (nbl s + 1) (set_state SNone s1))
        | _ => None
        end
    | EvBodyChunk e =>
        match state s with
        | SSendPayload => guard (negb (pass s) && (wb s <? c_wbs c)) (set_wb (wb s + e) s)
        | _ => None
        end
    | EvBodyEnd e =>
        match state s with
        | SSendPayload =>
            guard (negb (pass s) && (wb s <? c_wbs c)) (set_state SNone (set_wb (wb s + e) s))
        | _ => None
        end
    | EvAccept k =>
        guard (k <=? wb s)
              (let w := wb s - k in set_nbl (if w =? 0 then 0 else nbl s) (set_wb w s))
    | EvEof =>
        (* read_available returned Ok(true): READ_DISCONNECT; an unfinished payload gets
           set_error(Incomplete) + feed_eof and is dropped by the dispatcher *)
        guard (negb (pass s))
              (set_rd_disc true
                 match cpl s with
                 | Some _ => set_tgt TgNone (set_cpl None (upd_tgt (fun ch => ch_feed_eof (ch_set_error ch)) s))
                 | None => s
                 end)
    | EvDrop =>
        (* the running service call drops its Payload: the sender's Weak no longer upgrades *)
        match state s, hch s with
        | SService, Some _ =>
            Some (set_tgt (match tgt s with TgHandler => TgNone | t => t end) (set_hch None s))
        | _, _ => None
        end
    end.

  (* total version: a closed guard leaves the state alone *)
  Definition step_t (s : st) (e : ev) : st := match step s e with Some s' => s' | None => s end.
  Definition steps (s : st) (es : list ev) : st := fold_left step_t es s.
  (* all guards open along the way *)
  Fixpoint steps_ok (s : st) (es : list ev) : bool :=
    match es with
    | [] => true
    | e :: r => match step s e with Some s' => steps_ok s' r | None => false end
    end.
End Step.

(* ------------------------------------------------------------------------------------------ *)
(* The poll composer.                                                                         *)

Inductive item := IReq (hlen : N) (body : option N) | IEndless.
Inductive bact := BPend | BChunk (e : N) | BEnd (t : N).
Inductive hact :=
| HPend                                         (* return Pending once *)
| HWait                                         (* Pending until the next external event (round with r_hw) *)
| HRead                                         (* take one chunk from the request payload; Pending while it is empty *)
| HReadAll                                      (* read the payload to its end *)
| HDrop                                         (* drop the request payload unread *)
| HRespond (h : N) (body : option (list bact)). (* Ready(Ok(response)); h = encoded head length *)

Inductive pres := PPend | PDone | PFailTooLarge | PFailIo.

Record sim := mk_sim
  { m : st
  ; todo : list item           (* requests of the stream not yet decoded *)
  ; hs : list (list hact)      (* handler scripts of requests whose service call has not started *)
  ; cur : list hact            (* script of the running service call *)
  ; body : list bact           (* script of the response body being sent *)
  ; shut : bool                (* Flags::SHUTDOWN *)
  ; err : bool                 (* dispatcher.error = Some(Parse(TooLarge)) *)
  ; sock : N                   (* bytes readable at the socket *)
  ; eof : bool                 (* peer has closed its write side (after [sock] bytes) *)
  ; wscript : list wans        (* pending poll_write answers; exhausted => Pending *)
  ; flq : list fans            (* pending poll_flush answers; exhausted => Ready *)
  ; taken : N; started : N; delivered : N; pulled : N; accepted : N
  ; hwc : N                    (* external handler events so far *)
  ; ticket : option N          (* value of [hwc] when the running handler started to wait *)
  ; o_rreg : bool; o_wreg : bool; o_wake : bool     (* of the current poll *)
  ; o_hreg : bool              (* a handler / response body returned Pending on an external event *)
  ; bad : bool                 (* an event was attempted with its guard closed / fuel ran out *)
  ; trace : list ev }.         (* events performed, newest first *)

Definition upd_m (f : st -> st) (x : sim) : sim :=
  mk_sim (f (m x)) (todo x) (hs x) (cur x) (body x) (shut x) (err x) (sock x) (eof x) (wscript x) (flq x)
         (taken x) (started x) (delivered x) (pulled x) (accepted x) (hwc x) (ticket x) (o_rreg x) (o_wreg x) (o_wake x) (o_hreg x) (bad x) (trace x).
Definition set_todo v x := mk_sim (m x) v (hs x) (cur x) (body x) (shut x) (err x) (sock x) (eof x) (wscript x) (flq x)
         (taken x) (started x) (delivered x) (pulled x) (accepted x) (hwc x) (ticket x) (o_rreg x) (o_wreg x) (o_wake x) (o_hreg x) (bad x) (trace x).
Definition set_hs_cur h cu x := mk_sim (m x) (todo x) h cu (body x) (shut x) (err x) (sock x) (eof x) (wscript x) (flq x)
         (taken x) (started x) (delivered x) (pulled x) (accepted x) (hwc x) (ticket x) (o_rreg x) (o_wreg x) (o_wake x) (o_hreg x) (bad x) (trace x).
Definition set_body v x := mk_sim (m x) (todo x) (hs x) (cur x) v (shut x) (err x) (sock x) (eof x) (wscript x) (flq x)
         (taken x) (started x) (delivered x) (pulled x) (accepted x) (hwc x) (ticket x) (o_rreg x) (o_wreg x) (o_wake x) (o_hreg x) (bad x) (trace x).
Definition set_shut_err sh er x := mk_sim (m x) (todo x) (hs x) (cur x) (body x) sh er (sock x) (eof x) (wscript x) (flq x)
         (taken x) (started x) (delivered x) (pulled x) (accepted x) (hwc x) (ticket x) (o_rreg x) (o_wreg x) (o_wake x) (o_hreg x) (bad x) (trace x).
Definition set_sock so eo ws fq x := mk_sim (m x) (todo x) (hs x) (cur x) (body x) (shut x) (err x) so eo ws fq
         (taken x) (started x) (delivered x) (pulled x) (accepted x) (hwc x) (ticket x) (o_rreg x) (o_wreg x) (o_wake x) (o_hreg x) (bad x) (trace x).
Definition set_counts t s d p a x := mk_sim (m x) (todo x) (hs x) (cur x) (body x) (shut x) (err x) (sock x) (eof x) (wscript x) (flq x)
         t s d p a (hwc x) (ticket x) (o_rreg x) (o_wreg x) (o_wake x) (o_hreg x) (bad x) (trace x).
Definition set_out r w k x := mk_sim (m x) (todo x) (hs x) (cur x) (body x) (shut x) (err x) (sock x) (eof x) (wscript x) (flq x)
         (taken x) (started x) (delivered x) (pulled x) (accepted x) (hwc x) (ticket x) r w k (o_hreg x) (bad x) (trace x).
Definition set_bad x := mk_sim (m x) (todo x) (hs x) (cur x) (body x) (shut x) (err x) (sock x) (eof x) (wscript x) (flq x)
         (taken x) (started x) (delivered x) (pulled x) (accepted x) (hwc x) (ticket x) (o_rreg x) (o_wreg x) (o_wake x) (o_hreg x) true (trace x).
Definition set_hreg v x := mk_sim (m x) (todo x) (hs x) (cur x) (body x) (shut x) (err x) (sock x) (eof x) (wscript x) (flq x)
         (taken x) (started x) (delivered x) (pulled x) (accepted x) (hwc x) (ticket x) (o_rreg x) (o_wreg x) (o_wake x) v (bad x) (trace x).
Definition set_hw h t x := mk_sim (m x) (todo x) (hs x) (cur x) (body x) (shut x) (err x) (sock x) (eof x) (wscript x) (flq x)
         (taken x) (started x) (delivered x) (pulled x) (accepted x) h t (o_rreg x) (o_wreg x) (o_wake x) (o_hreg x) (bad x) (trace x).
Definition wake (b : bool) (x : sim) : sim := set_out (o_rreg x) (o_wreg x) (o_wake x || b) x.

Section Poll.
  Variable c : cfg.
  (* fuel of the two outer loops (poll_response's 'res loop and the response/flush loop of poll):
     the driver passes a number larger than the total number of items, handler actions and body
     actions of the scenario; running out of it sets [bad] *)
  Variable F : nat.

  (* perform one event: the only way [m] changes *)
  Definition do_ev (e : ev) (x : sim) : sim :=
    match step c (m x) e with
    | Some s' =>
        mk_sim s' (todo x) (hs x) (cur x) (body x) (shut x) (err x) (sock x) (eof x) (wscript x) (flq x)
               (taken x) (started x) (delivered x) (pulled x) (accepted x) (hwc x) (ticket x) (o_rreg x) (o_wreg x) (o_wake x)
               (o_hreg x) (bad x) (e :: trace x)
    | None => set_bad x
    end.

  Definition tgt_task (s : st) : bool := match tgt_chan s with Some ch => ch_task ch | None => false end.

  (* ---- read_available ---- *)
  Fixpoint read_loop (fuel : nat) (x : sim) : sim * bool :=
    match fuel with
    | O => (set_bad x, false)
    | S f =>
        if c_maxb c <=? rb (m x) then
          (* need_read is evaluated (io waker registered on Pause); forced self-wake otherwise *)
          (wake (cap_self_wake (need_read_status (m x))) (do_ev EvNeedRead x), false)
        else if 0 <? sock x then
          let n := N.min (sock x) (c_r c) in
          let x1 := do_ev (EvRead n) x in
          read_loop f (set_counts (taken x1 + n) (started x1) (delivered x1) (pulled x1) (accepted x1)
                                  (set_sock (sock x1 - n) (eof x1) (wscript x1) (flq x1) x1))
        else if eof x then (x, true)
        else (set_out true (o_wreg x) (o_wake x) x, false)
    end.
  Definition read_available_c (x : sim) : sim * bool :=
    if rd_disc (m x) then (x, false)
    else read_loop (S (S (N.to_nat (sock x / N.max 1 (c_r c))))) x.

  (* ---- the service call future ---- *)
  Fixpoint run_handler (fuel : nat) (x : sim) : sim * option (N * option (list bact)) :=
    match fuel with
    | O => (set_bad x, None)
    | S f =>
        match cur x with
        | [] => (x, None)
        | HPend :: r => (set_hreg true (set_hs_cur (hs x) r x), None)
        | HWait :: r =>
            match ticket x with
            | None => (set_hreg true (set_hw (hwc x) (Some (hwc x)) x), None)
            | Some t => if t <? hwc x then run_handler f (set_hw (hwc x) None (set_hs_cur (hs x) r x))
                        else (set_hreg true x, None)
            end
        | HRespond h b :: r => (set_hs_cur (hs x) [] x, Some (h, b))
        | HDrop :: r =>
            run_handler f (set_hs_cur (hs x) r (match hch (m x) with Some _ => do_ev EvDrop x | None => x end))
        | (HRead as a) :: r | (HReadAll as a) :: r =>
            let again := match a with HReadAll => true | _ => false end in
            match hch (m x) with
            | None => run_handler f (set_hs_cur (hs x) r x)              (* Payload::None: Ready(None) *)
            | Some ch =>
                match ch_items ch with
                | n :: _ =>
                    (* Ready(Some(Ok(chunk))): wake_io *)
                    let x1 := wake (ch_io ch) (do_ev EvConsume x) in
                    let x2 := set_counts (taken x1) (started x1) (delivered x1 + n) (pulled x1) (accepted x1) x1 in
                    run_handler f (if again then x2 else set_hs_cur (hs x2) r x2)
                | [] =>
                    if ch_err ch then run_handler f (set_hs_cur (hs x) r (do_ev EvTakeErr x))
                    else if ch_eof ch then run_handler f (set_hs_cur (hs x) r x)
                    else (wake (ch_io ch) (do_ev EvPollEmpty x), None)    (* Pending; registered *)
                end
            end
        end
    end.
  Definition handler_fuel (x : sim) : nat :=
    S (length (cur x) + match hch (m x) with Some ch => length (ch_items ch) | None => 0 end).

  Definition start_handler (x : sim) : sim :=
    let x1 := set_counts (taken x) (started x + 1) (delivered x) (pulled x) (accepted x) x in
    match hs x1 with
    | [] => set_hs_cur [] [] x1
    | h :: r => set_hs_cur r h x1
    end.
  Definition respond (h : N) (b : option (list bact)) (x : sim) : sim :=
    let x1 := do_ev (EvRespond h (match b with Some _ => true | None => false end)) x in
    set_body (match b with Some l => l | None => [] end) x1.

  (* ---- poll_request ---- *)
  Fixpoint decode_loop (fuel : nat) (x : sim) (updated : bool) : sim * bool :=
    match fuel with
    | O => (set_bad x, updated)
    | S f =>
        match cpl (m x) with
        | Some rem =>
            if rem =? 0 then
              decode_loop f (do_ev EvDecodeEof (wake (tgt_task (m x)) x)) true
            else if rb (m x) =? 0 then (do_ev EvPassEnd x, updated)
            else decode_loop f (do_ev (EvDecodeChunk (N.min rem (rb (m x)))) (wake (tgt_task (m x)) x)) true
        | None =>
            match todo x with
            | IReq hlen b :: todo' =>
                if hlen <=? rb (m x) then
                  let was_none := match state (m x) with SNone => true | _ => false end in
                  let x1 := set_todo todo' (do_ev (EvDecodeHead hlen b) x) in
                  if was_none then
                    (* handle_request: call the service and poll it once *)
                    let x2 := start_handler x1 in
                    let '(x3, r) := run_handler (handler_fuel x2) x2 in
                    decode_loop f (match r with Some (h, bd) => respond h bd x3 | None => x3 end) true
                  else decode_loop f x1 true
                else if c_maxb c <=? rb (m x) then (set_shut_err (shut x) true (do_ev EvTooLarge x), updated)
                else (do_ev EvPassEnd x, updated)
            | IEndless :: _ =>
                if c_maxb c <=? rb (m x) then (set_shut_err (shut x) true (do_ev EvTooLarge x), updated)
                else (do_ev EvPassEnd x, updated)
            | [] => (do_ev EvPassEnd x, updated)
            end
        end
    end.
  Definition poll_request (x : sim) : sim * bool :=
    let full := c_maxp c <=? lenN (q (m x)) in
    (* can_read: need_read is evaluated unless READ_DISCONNECT *)
    let x1 := if rd_disc (m x) then x else do_ev EvNeedRead x in
    if full || negb (can_read (m x)) then (x1, false)
    else decode_loop (4 + 2 * length (todo x)) (do_ev EvGate x1) false.

  (* ---- poll_response ---- *)
  Inductive sp_out := SpPending | SpDrain | SpEnd.
  Fixpoint send_payload (fuel : nat) (x : sim) : sim * sp_out :=
    match fuel with
    | O => (set_bad x, SpPending)
    | S f =>
        if wb (m x) <? c_wbs c then
          match body x with
          | [] => (x, SpPending)
          | BPend :: r => (set_hreg true (set_body r x), SpPending)
          | BChunk e :: r =>
              let x1 := set_body r (do_ev (EvBodyChunk e) x) in
              send_payload f (set_counts (taken x1) (started x1) (delivered x1) (pulled x1 + 1) (accepted x1) x1)
          | BEnd t :: r => (set_body [] (do_ev (EvBodyEnd t) x), SpEnd)
          end
        else (x, SpDrain)
    end.

  Fixpoint poll_response (fuel : nat) (x : sim) : sim * bool :=
    match fuel with
    | O => (set_bad x, false)
    | S f =>
        match state (m x) with
        | SNone =>
            match q (m x) with
            | QItem _ :: _ => poll_response f (start_handler (do_ev EvPop x))
            | QError :: _ => poll_response f (do_ev EvPopErr x)
            | [] => (x, false)
            end
        | SService =>
            let '(x1, r) := run_handler (handler_fuel x) x in
            match r with
            | Some (h, b) => poll_response f (respond h b x1)
            | None =>
                let '(x2, upd) := poll_request x1 in
                if upd then poll_response f x2 else (x2, false)
            end
        | SSendPayload =>
            let '(x1, o) := send_payload (S (length (body x))) x in
            match o with
            | SpEnd => poll_response f x1
            | SpPending => (x1, false)
            | SpDrain => (x1, true)
            end
        end
    end.

  (* ---- poll_flush on lengths (same loop as Flush.write_loop) ---- *)
  Fixpoint flush_loop (fuel : nat) (x : sim) : sim * fres :=
    match fuel with
    | O => (set_bad x, FlIoErr)
    | S f =>
        if 0 <? wb (m x) then
          let '(a, ws) := next_ans (wscript x) WPending in
          let x0 := set_sock (sock x) (eof x) ws (flq x) x in
          match a with
          | WErr => (x0, FlIoErr)
          | WZero => (x0, FlWriteZero)
          | WAccept k =>
              let n := N.min k (wb (m x)) in
              if n =? 0 then (x0, FlWriteZero)
              else let x1 := do_ev (EvAccept n) x0 in
                   flush_loop f (set_counts (taken x1) (started x1) (delivered x1) (pulled x1) (accepted x1 + n) x1)
          | WPending => (set_out (o_rreg x0) true (o_wake x0) x0, FlPending)
          end
        else
          match flq x with
          | [] | FReady :: _ => (set_sock (sock x) (eof x) (wscript x) (tl (flq x)) x, FlReady)
          | FPending :: r => (set_out (o_rreg x) true (o_wake x) (set_sock (sock x) (eof x) (wscript x) r x), FlPending)
          | FErr :: r => (set_sock (sock x) (eof x) (wscript x) r x, FlIoErr)
          end
    end.
  Definition poll_flush_c (x : sim) : sim * fres := flush_loop (S (length (wscript x))) x.

  Fixpoint resp_flush_loop (fuel : nat) (x : sim) : sim * option pres :=
    match fuel with
    | O => (set_bad x, None)
    | S f =>
        let '(x1, drain) := poll_response F x in
        let '(x2, fr) := poll_flush_c x1 in
        match fr with
        | FlWriteZero | FlIoErr => (x2, Some PFailIo)
        | FlPending => (x2, None)
        | FlReady => if drain then resp_flush_loop f x2 else (x2, None)
        end
    end.

  (* ---- shutdown branch: flush, then poll_shutdown (always Ready in the harness) ---- *)
  Definition poll_shutdown_branch (x : sim) : sim * pres :=
    let '(x1, fr) := poll_flush_c x in
    match fr with
    | FlReady => (x1, PDone)
    | FlPending => (x1, PPend)
    | _ => (x1, PFailIo)
    end.

  (* ---- Dispatcher::poll, normal branch ---- *)
  Definition stall_source (x : sim) : bool :=
    (* a complete message (or an over-long partial head) sits in read_buf and both gates are open *)
    (lenN (q (m x)) <? c_maxp c) && can_read (m x) &&
    match cpl (m x) with
    | Some rem => (rem =? 0) || (0 <? rb (m x))
    | None => match todo x with
              | IReq hlen _ :: _ => (hlen <=? rb (m x)) || (c_maxb c <=? rb (m x))
              | IEndless :: _ => c_maxb c <=? rb (m x)
              | [] => false
              end
    end.

  Definition poll_normal (x : sim) : sim * pres :=
    let '(x1, should_disconnect) := read_available_c x in
    let queue_was_full := c_maxp c <=? lenN (q (m x1)) in
    (* repaired code: was the decode gate of poll_request closed (full queue or !can_read)? *)
    let gate_was_closed := queue_was_full || negb (can_read (m x1)) in
    let '(x2, _) := poll_request x1 in
    let x3 := if should_disconnect then do_ev EvEof (wake (tgt_task (m x2)) x2) else x2 in
    let '(x4r, fail) := resp_flush_loop F x3 in
    match fail with
    | Some r => (x4r, r)
    | None =>
        (* repaired code evaluates can_read(cx) here (need_read registers the io waker on Pause) *)
        let x4 := if c_fix28 c then (if rd_disc (m x4r) then x4r else do_ev EvNeedRead x4r) else x4r in
        let none := match state (m x4) with SNone => true | _ => false end in
        let x5 := if rd_disc (m x4) && none then set_shut_err true (err x4) x4 else x4 in
        if none && (wb (m x5) =? 0) && err x5 then (x5, PFailTooLarge)
        else if none && (wb (m x5) =? 0) && shut x5 then poll_shutdown_branch x5
        else
          let gate_open := (lenN (q (m x5)) <? c_maxp c) && can_read (m x5) in
          let undecoded :=
            if c_fix28 c then gate_was_closed && gate_open && negb (rb (m x5) =? 0)
            else c_fix21 c && queue_was_full && (lenN (q (m x5)) <? c_maxp c) && negb (rb (m x5) =? 0) in
          (wake (shut x5 || undecoded) x5, PPend)
    end.

  (* one round: the environment changes, then exactly one poll *)
  Record round := mk_round
    { r_add : N                 (* bytes that become readable *)
    ; r_eof : bool              (* the peer closes its write side after them *)
    ; r_wr : list wans          (* appended to the socket's write script *)
    ; r_fl : list fans          (* appended to the flush script *)
    ; r_hw : bool }.            (* the event a pending handler / body waits for happens *)

  Definition poll (x : sim) (r : round) : sim * pres :=
    let x0 := set_hreg false (set_out false false false
                (set_hw (if r_hw r then hwc x + 1 else hwc x) (ticket x) (set_sock (sock x + r_add r) (eof x || r_eof r) (wscript x ++ r_wr r) (flq x ++ r_fl r) x))) in
    if shut x0 then poll_shutdown_branch x0 else poll_normal x0.
End Poll.

Definition sim_init (items : list item) (handlers : list (list hact)) : sim :=
  mk_sim st_init items handlers [] [] false false 0 false [] [] 0 0 0 0 0 0 None false false false false false [].
