(* H1/Gate.v — the READ_DISCONNECT gate in front of the request decoder: a small model of
   `InnerDispatcher::{can_read, read_available, poll_request}` (h1/dispatcher.rs) restricted to
   what decides WHETHER the codec is run over the read buffer.

   Rust                                            Gallina
   ---------------------------------------------   ------------------------------------------
   Flags::READ_DISCONNECT                          [g_read_disconnect]
   self.read_buf                                   [g_read_buf]
   self.codec (payload slot, STREAM flag)          [g_codec]
   self.messages.len()                             [g_queued]   (only its length matters here)
   what the service has been / will be handed,     [g_msgs]     (normalised as in H1/Codec.v)
     incl. body bytes fed to the payload
   the queued DispatcherMessage::Error             [g_rejected] (Some e: the 400/431 response is
                                                   queued, or the I/O-class disconnect happened)
   can_read(cx)                                    [can_read]: READ_DISCONNECT => false; otherwise
                                                   the payload's need_read answer (a schedule
                                                   input [pl_read]: Read|Dropped = true, Pause = false)
   read_available(cx)                              [read_available]: no-op under READ_DISCONNECT,
                                                   otherwise appends what the socket delivers;
                                                   Ok(0) (peer closed) = [OPeerClosed]
   poll_request(cx)                                [poll_request]: the gate (queue full /
                                                   !can_read => nothing), then the drain loop
                                                   (= Codec.run), then the error arms, all of which
                                                   set READ_DISCONNECT
   After an error arm the read buffer keeps whatever followed the consumed bytes; the model takes
   that leftover as an arbitrary schedule input ([leftover]), so the theorems hold for every
   possible content of the buffer. *)
From AV Require Import Lib.Base H1.Chunked H1.PayloadDec H1.Framing H1.Codec.

Record gate := mk_gate {
  g_read_disconnect : bool;
  g_read_buf : bytes;
  g_codec : codec;
  g_queued : N;
  g_msgs : list message;
  g_rejected : option perr }.

Definition gate0 : gate := mk_gate false [] codec0 0 [] None.

Inductive gop :=
| ORead (bs : bytes)                           (* poll_read delivered bs *)
| OPeerClosed                                  (* poll_read returned Ok(0) *)
| OPoll (pl_read : bool) (leftover : bytes)    (* one call of poll_request *)
| OQueue (n : N).                              (* handlers made progress: messages.len() = n *)

Section Gate.
  Variable head : bytes -> head_res.
  Variable max_buffer_size : N.
  Variable max_pipelined : N.                  (* MAX_PIPELINED_MESSAGES *)

  (* fn can_read(&self, cx) -> bool *)
  Definition can_read (g : gate) (pl_read : bool) : bool :=
    if g_read_disconnect g then false
    else match c_payload (g_codec g) with
         | Some _ => pl_read                   (* matches!(info.need_read(cx), Read | Dropped) *)
         | None => true
         end.

  Definition read_available (g : gate) (bs : bytes) : gate :=
    if g_read_disconnect g then g
    else mk_gate false (g_read_buf g ++ bs) (g_codec g) (g_queued g) (g_msgs g) (g_rejected g).

  Definition poll_request (g : gate) (pl_read : bool) (leftover : bytes) : gate :=
    let pipeline_queue_full := max_pipelined <=? g_queued g in
    let can_not_read := negb (can_read g pl_read) in
    if pipeline_queue_full || can_not_read then g
    else
      match run head max_buffer_size (run_fuel (g_read_buf g)) (g_codec g) (g_read_buf g) (g_msgs g) with
      | ONeedMore c' rest ms =>
          mk_gate (g_read_disconnect g) rest c' (g_queued g + (lenN ms - lenN (g_msgs g))) ms (g_rejected g)
      | OError e ms =>
          (* Err(ParseError::Io) => client_disconnected(); Err(TooLarge) => 431; Err(_) => 400:
             every arm inserts Flags::READ_DISCONNECT *)
          mk_gate true leftover (g_codec g) (g_queued g + (lenN ms - lenN (g_msgs g)) + 1) ms (Some e)
      | OPanic | OFuel => g
      end.

  Definition gstep (g : gate) (o : gop) : gate :=
    match o with
    | ORead bs => read_available g bs
    | OPeerClosed =>
        mk_gate true (g_read_buf g) (g_codec g) (g_queued g) (g_msgs g) (g_rejected g)
    | OPoll pl_read leftover => poll_request g pl_read leftover
    | OQueue n => mk_gate (g_read_disconnect g) (g_read_buf g) (g_codec g) n (g_msgs g) (g_rejected g)
    end.

  Definition gexec (ops : list gop) (g : gate) : gate := fold_left gstep ops g.
End Gate.
