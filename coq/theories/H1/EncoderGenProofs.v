(* Ties the hand-written encoder model (H1/Encoder.v, H1/RespSeq.v) to the status rules, version
   rules and literal byte strings that tools/gen/h1_encoder.py reads from the Rust sources on every
   check run (Gen/H1EncoderTables.v).  Every statement is about what the MODEL emits / decides,
   proved by finite case analysis (vm_compute): a changed literal or rule in
   actix-http/src/h1/{encoder.rs,codec.rs,dispatcher.rs} or helpers.rs breaks this file (and a
   pattern that no longer matches removes the definition it needs). *)
From Coq Require Import String.
From AV Require Import Lib.Base H1.Encoder H1.RespSeq Gen.H1EncoderTables.
Open Scope N_scope.

Definition statuses : list N := map N.of_nat (seq 0 1000).
Definition vnum (v : version) : N := match v with V10 => 10 | V11 => 11 end.
Definition r_of (s : N) : resp := mkResp s None false [].
Definition has_field (name : string) (fs : list (bytes * bytes)) : bool :=
  existsb (fun kv : bytes * bytes => name_is (fst kv) name) fs.
(* the bytes encode_headers puts for a field at the head of the list, with the framing CRLFs the
   source literal carries *)
Definition first_line (fs : list (bytes * bytes)) : bytes :=
  match fs with f :: _ => render_field f ++ CRLF | [] => [] end.

(* ---- status rules, on all status codes 0..999 *)
(* encode_headers: no content-length for a Sized(5) body <-> the generated guard, or the 304 arm *)
Lemma hdr_skip_status_matches :
  forallb (fun s => Bool.eqb (negb (has_field "content-length" (encode_headers (r_of s) V11 (BSized 5) CKeepAlive)))
                             (H1ENC_HDR_SKIP_STATUS s || (s =? H1ENC_HDR_RETAIN_STATUS)))
          statuses = true.
Proof. vm_compute. reflexivity. Qed.

(* the 304 arm retains a user content-length, the skip arm drops it *)
Lemma hdr_retain_status_matches :
  forallb (fun s => Bool.eqb (has_field "content-length"
                                (encode_headers (mkResp s None false [(str "content-length", str "7")]) V11 BNone CKeepAlive))
                             (s =? H1ENC_HDR_RETAIN_STATUS))
          statuses = true.
Proof. vm_compute. reflexivity. Qed.

(* MessageEncoder::encode: the empty transfer encoder is chosen for a Sized(5) body <-> generated no_body rule *)
Lemma no_body_status_matches :
  forallb (fun s => Bool.eqb (match choose_te false false (r_of s) V11 (BSized 5) with TLength 0 => true | _ => false end)
                             (H1ENC_NO_BODY_STATUS s))
          statuses = true /\
  forallb (fun s => Bool.eqb (status_no_body s) (H1ENC_NO_BODY_STATUS s)) statuses = true.
Proof. split; vm_compute; reflexivity. Qed.

(* ---- version rules (F18) *)
Lemma version_rules_match : forall v : version,
  (* chunked is not chosen <-> generated http10_response comparison *)
  (match choose_te false false (r_of 200) v BStream with TChunked _ => false | _ => true end) = H1ENC_HTTP10_RESPONSE_VER (vnum v) /\
  (* no transfer-encoding header <-> generated close_delimited comparison *)
  negb (has_field "transfer-encoding" (encode_headers (r_of 200) v BStream CClose)) = H1ENC_CLOSE_DELIMITED_VER (vnum v) /\
  has_field "connection" (encode_headers (r_of 200) v BNone CKeepAlive) = H1ENC_CONN_KEEPALIVE_VER (vnum v) /\
  has_field "connection" (encode_headers (r_of 200) v BNone CClose) = H1ENC_CONN_CLOSE_VER (vnum v).
Proof. intros []; vm_compute; repeat split. Qed.

(* ---- literal header lines (lower-case variants are what the model emits; the camel-case
        variants of the source must be the same lines up to ASCII case) *)
Lemma header_literals_match :
  CRLF ++ first_line (encode_headers (r_of 200) V11 BStream CKeepAlive) = H1ENC_TE_CHUNKED /\
  CRLF ++ first_line (encode_headers (r_of 200) V11 (BSized 0) CKeepAlive) = H1ENC_CL_ZERO /\
  CRLF ++ first_line (encode_headers (r_of 200) V11 (BSized 1234567890) CKeepAlive) =
    H1ENC_CL_PREFIX ++ dec 1234567890 ++ H1ENC_CL_SUFFIX /\
  first_line (encode_headers (r_of 200) V11 BNone CUpgrade) = H1ENC_CONN_UPGRADE /\
  first_line (encode_headers (r_of 200) V10 BNone CKeepAlive) = H1ENC_CONN_KEEPALIVE /\
  first_line (encode_headers (r_of 200) V11 BNone CClose) = H1ENC_CONN_CLOSE /\
  (* where no length line is written the source writes just the CRLF that ends the status line,
     which is what render_head puts after the status line *)
  H1ENC_NO_LEN = CRLF /\ H1ENC_NO_TE_HTTP10 = CRLF /\ H1ENC_NO_TE_NOCHUNK = CRLF /\
  H1ENC_HEAD_END = CRLF /\
  render_head (mkHead [] []) = H1ENC_NO_LEN ++ H1ENC_HEAD_END /\
  map lower_byte H1ENC_TE_CHUNKED_CAMEL = H1ENC_TE_CHUNKED /\
  map lower_byte H1ENC_CL_ZERO_CAMEL = H1ENC_CL_ZERO /\
  map lower_byte H1ENC_CL_PREFIX_CAMEL = H1ENC_CL_PREFIX /\
  map lower_byte H1ENC_CONN_UPGRADE_CAMEL = H1ENC_CONN_UPGRADE /\
  map lower_byte H1ENC_CONN_KEEPALIVE_CAMEL = H1ENC_CONN_KEEPALIVE /\
  map lower_byte H1ENC_CONN_CLOSE_CAMEL = H1ENC_CONN_CLOSE.
Proof. vm_compute. repeat split. Qed.

Lemma status_line_literals_match :
  firstn 9 (status_line V11 200) = H1ENC_STATUS_LINE_11 /\
  firstn 9 (status_line V10 200) = H1ENC_STATUS_LINE_10 /\
  render_head cont_head = H1DISP_CONTINUE.
Proof. vm_compute. repeat split. Qed.

(* ---- chunk syntax of TransferEncoding::encode / encode_eof *)
Definition hex_ff : bytes := if H1ENC_CHUNK_SIZE_FMT_UPPER then [70; 70] else [102; 102].
Lemma chunk_literals_match :
  snd (te_encode (TChunked false) []) = H1ENC_LAST_CHUNK /\
  te_encode_eof (TChunked false) = Some (TChunked true, H1ENC_LAST_CHUNK) /\
  (* writeln!("{:X}\r", len) = hex digits, the literal suffix, and writeln's "\n" *)
  snd (te_encode (TChunked false) (repeat 97 255)) =
    hex_ff ++ H1ENC_CHUNK_SIZE_FMT_SUFFIX ++ [10] ++ repeat 97 255 ++ H1ENC_CHUNK_END.
Proof. vm_compute. repeat split. Qed.

(* ---- Codec::encode: the STREAM rule (F18b) is present in the source and in the model *)
Lemma stream_rule_matches :
  rs_nochunk (stream_adjust (mkCodec true false true V11 CKeepAlive te_empty) (r_of 200) BStream) = H1CODEC_STREAM_NOCHUNK /\
  rs_nochunk (stream_adjust (mkCodec true false true V11 CKeepAlive te_empty) (r_of 200) (BSized 5)) = false /\
  rs_nochunk (stream_adjust (mkCodec true false false V11 CKeepAlive te_empty) (r_of 200) BStream) = false.
Proof. vm_compute. repeat split. Qed.

(* from the finite checks to statements about every status code below 1000 *)
Lemma forallb_statuses (p : N -> bool) : forallb p statuses = true -> forall s, s < 1000 -> p s = true.
Proof.
  intros H s Hs. rewrite forallb_forall in H. apply H. unfold statuses.
  apply in_map_iff. exists (N.to_nat s). split; [apply N2Nat.id|]. apply in_seq. lia.
Qed.

Theorem model_matches_source_tables :
  (forall s, s < 1000 -> status_no_body s = H1ENC_NO_BODY_STATUS s) /\
  (forall s, s < 1000 ->
     negb (has_field "content-length" (encode_headers (r_of s) V11 (BSized 5) CKeepAlive)) =
     (H1ENC_HDR_SKIP_STATUS s || (s =? H1ENC_HDR_RETAIN_STATUS))) /\
  (forall v, lt_11 v = H1ENC_CLOSE_DELIMITED_VER (vnum v) /\ lt_11 v = H1ENC_HTTP10_RESPONSE_VER (vnum v)) /\
  CRLF ++ first_line (encode_headers (r_of 200) V11 BStream CKeepAlive) = H1ENC_TE_CHUNKED /\
  first_line (encode_headers (r_of 200) V11 BNone CClose) = H1ENC_CONN_CLOSE /\
  snd (te_encode (TChunked false) []) = H1ENC_LAST_CHUNK /\
  render_head cont_head = H1DISP_CONTINUE.
Proof.
  split; [|split; [|split; [|split; [|split; [|split]]]]].
  - intros s Hs. apply Bool.eqb_prop. exact (forallb_statuses _ (proj2 no_body_status_matches) s Hs).
  - intros s Hs. apply Bool.eqb_prop. exact (forallb_statuses _ hdr_skip_status_matches s Hs).
  - intros []; vm_compute; split; reflexivity.
  - apply header_literals_match.
  - apply header_literals_match.
  - apply chunk_literals_match.
  - apply status_line_literals_match.
Qed.
