(* C06: a request read by a poll whose clock is before the keep-alive deadline is served, and the
   keep-alive timer cannot close the connection while a request is in flight. *)
Require Import AV.Lib.Base AV.H1.ConnRec AV.H1.ConnState AV.H1.ConnProofs AV.H1.ConnGraceful AV.H1.ConnSeal AV.H1.ConnLocal.

(* ------------------------------------------------------------------ the history only grows *)
Definition anyev (e : tev) : bool := true.
Definition Mono (s s' : st) : Prop := ext anyev s s'.
Lemma Mono_refl s : Mono s s. Proof. apply ext_refl. Qed.
Lemma Mono_trans a b d : Mono a b -> Mono b d -> Mono a d. Proof. apply ext_trans. Qed.
Lemma Mono_same s s' : trace s' = trace s -> Mono s s'. Proof. apply ext_same. Qed.
Lemma Mono_app s s' l : trace s' = trace s ++ l -> Mono s s'.
Proof. intro H. exists l. split; [exact H|]. clear H. induction l; [reflexivity|exact IHl]. Qed.

Lemma send_response_M c who st ro bl bp s : Mono s (send_response c who st ro bl bp s).
Proof. eapply Mono_app. apply send_response_trace. Qed.

Lemma respond_M c r k b p s : Mono s (respond c r k b p s).
Proof. eapply Mono_app. rewrite respond_trace. apply send_response_trace. Qed.

Lemma handle_request_M c r s : Mono s (handle_request c r s).
Proof.
  unfold handle_request.
  destruct (poll_handler (rq_id r) (start_service c false r s)) as [s1 out] eqn:P.
  pose proof (poll_handler_trace _ _ _ _ P) as T.
  assert (M1 : Mono s s1) by (eapply Mono_app; rewrite T; unfold start_service, add_trace; cbn; reflexivity).
  destruct out as [[[k b] p]|]; [|exact M1]. eapply Mono_trans; [exact M1|apply respond_M].
Qed.

Lemma decode_loop_M c : forall fuel s upd, Mono s (fst (decode_loop fuel c s upd)).
Proof.
  induction fuel as [|f IH]; intros s upd; cbn [decode_loop]; [apply Mono_refl|].
  destruct (rbuf s) as [|it rest] eqn:Er; [apply Mono_refl|].
  destruct (c_pl s).
  - destruct it; try apply Mono_refl; cbn; destruct (payload s); cbn;
      try (eapply Mono_trans; [|apply IH]; apply Mono_same; reflexivity); apply Mono_same; reflexivity.
  - destruct it.
    + match goal with |- context [if is_none (dstate ?x) then _ else _] =>
        assert (T : trace x = trace s ++ [TDecode r]) by (unfold set_ctx, add_trace; repeat bm; reflexivity);
        set (x0 := x) in * end.
      assert (M0 : Mono s x0) by (eapply Mono_app; exact T).
      destruct (is_none (dstate x0)).
      * bm; (eapply Mono_trans; [exact M0|]); [apply handle_request_M|].
        eapply Mono_trans; [apply handle_request_M|apply IH].
      * eapply Mono_trans; [exact M0|]. eapply Mono_trans; [|apply IH]. apply Mono_same; reflexivity.
    + destruct rest; [apply Mono_refl|]. eapply Mono_trans; [|apply IH]. apply Mono_same; reflexivity.
    + cbn. apply Mono_same. unfold parse_error, take_payload_err; repeat bm; reflexivity.
    + cbn. apply Mono_same. unfold parse_error, take_payload_err; repeat bm; reflexivity.
    + cbn. apply Mono_same. unfold parse_error, take_payload_err; repeat bm; reflexivity.
Qed.

Lemma poll_request_M c s : Mono s (fst (poll_request c s)).
Proof. unfold poll_request. repeat bm; try apply Mono_refl. apply decode_loop_M. Qed.

Lemma body_end_M c s : Mono s (body_end c s).
Proof. eapply Mono_app with (l := [TComplete]). unfold body_end, complete_flags, finish_hook, add_trace. repeat bm; reflexivity. Qed.

Lemma poll_response_M c : forall fuel s, Mono s (poll_response fuel c s).
Proof.
  induction fuel as [|f IH]; intros s; cbn [poll_response]; rewrite ?body_if; [apply Mono_same; reflexivity|].
  destruct (dstate s) eqn:Ed.
  - destruct (draining s); [apply Mono_same; repeat bm; reflexivity|].
    destruct (messages s) as [|[r|stt] ms].
    + cbv zeta. bm; [eapply Mono_app with (l := [TKeepAlive]); reflexivity|apply Mono_same; reflexivity].
    + eapply Mono_trans; [|apply IH]. eapply Mono_app with (l := [TStart r]). unfold start_service, set_ctx, add_trace; repeat bm; reflexivity.
    + eapply Mono_trans; [|apply IH]. eapply Mono_trans; [|apply send_response_M]. apply Mono_same; reflexivity.
  - destruct (poll_handler (rq_id r) s) as [s1 out] eqn:P.
    pose proof (poll_handler_trace _ _ _ _ P) as T. assert (M1 : Mono s s1) by (apply Mono_same; exact T).
    destruct out as [[[k b] p]|].
    + eapply Mono_trans; [exact M1|]. eapply Mono_trans; [apply respond_M|apply IH].
    + destruct (poll_request c s1) as [s2 upd] eqn:P2.
      pose proof (poll_request_M c s1) as M2. rewrite P2 in M2. cbn in M2.
      destruct upd; [|eapply Mono_trans; eauto]. eapply Mono_trans; [exact M1|]. eapply Mono_trans; [exact M2|apply IH].
  - bm; [apply Mono_same; reflexivity|].
    eapply Mono_trans; [|apply IH]. eapply Mono_trans; [|apply body_end_M]. apply Mono_same; repeat bm; reflexivity.
Qed.

Lemma read_phase_M c s : Mono s (read_phase c s).
Proof.
  unfold read_phase. destruct (read_available s) as [[s1 d] io] eqn:E1.
  assert (T1 : trace s1 = trace s) by (unfold read_available, unfinish in E1; repeat bmh E1; inv E1; reflexivity).
  destruct io; [apply Mono_same; exact T1|].
  match goal with |- context [poll_request c ?x] =>
    assert (T2 : trace x = trace s) by (repeat bm; cbn; exact T1); pose proof (poll_request_M c x) as M2; set (x0 := x) in * end.
  eapply Mono_trans; [apply Mono_same; exact T2|]. destruct d; [|exact M2].
  eapply Mono_trans; [exact M2|]. apply Mono_same. unfold take_payload_err; repeat bm; reflexivity.
Qed.

Lemma step_M c e s : Mono s (step c e s).
Proof.
  unfold step. destruct (negb (res s =? 0)); [apply Mono_refl|]. destruct e.
  - apply Mono_same; unfold env_step; repeat bm; reflexivity.
  - apply Mono_same; unfold poll_graceful; repeat bm; reflexivity.
  - unfold poll_head_timer. repeat bm; try apply Mono_refl; try (apply Mono_same; reflexivity).
    all: match goal with |- Mono _ (set_shutdown true (send_response _ None ?a ?b ?d ?e ?x)) =>
           eapply Mono_trans; [apply Mono_same with (s' := x); reflexivity|];
           eapply Mono_trans; [apply send_response_M|apply Mono_same; reflexivity] end.
  - apply Mono_same; unfold poll_ka_timer; repeat bm; reflexivity.
  - apply Mono_same; unfold poll_sd_timer; repeat bm; reflexivity.
  - destruct (linger s); [|apply Mono_refl]. destruct (linger_no_dispatch c wblock s) as (_ & _ & _ & _ & [l [T _]]).
    eapply Mono_app; exact T.
  - destruct (negb (linger s) && shutdown s); [|apply Mono_refl].
    apply Mono_same; unfold shutdown_io, ensure_linger_timer, flush; repeat bm; cbn; auto.
    all: repeat match goal with E : (_, _) = (_, _) |- _ => inv E end; cbn; auto.
  - destruct (linger s || shutdown s); [apply Mono_refl|apply read_phase_M].
  - unfold response_phase. eapply Mono_trans; [apply poll_response_M|]. apply Mono_same; unfold flush; repeat bm; reflexivity.
  - apply Mono_same; unfold epilogue; repeat bm; reflexivity.
Qed.

(* ------------------------------------------------------------------ the keep-alive invariant *)
(* the two debug_assert!s of poll_ka_timer, as an invariant of all reachable states: the timer is
   active only while KEEP_ALIVE is set, and KEEP_ALIVE is set only on an idle connection *)
Definition KAI (s : st) : Prop :=
  (keep_alive s = true -> dstate s = SNone /\ messages s = [] /\ payload s = None /\ draining s = false /\ c_conn s = CKeepAlive) /\
  (t_active (ka_tm s) = true -> keep_alive s = true).
Definition Off (s : st) : Prop := keep_alive s = false /\ t_active (ka_tm s) = false.

Lemma Off_KAI s : Off s -> KAI s.
Proof. intros [A B]. split; intro H; congruence. Qed.
Lemma Off_frame s s' : keep_alive s' = keep_alive s -> ka_tm s' = ka_tm s -> Off s -> Off s'.
Proof. unfold Off. intros -> ->. auto. Qed.
Lemma KAI_frame s s' : keep_alive s' = keep_alive s -> ka_tm s' = ka_tm s -> dstate s' = dstate s ->
  messages s' = messages s -> payload s' = payload s -> draining s' = draining s -> c_conn s' = c_conn s -> KAI s -> KAI s'.
Proof. unfold KAI. intros -> -> -> -> -> -> ->. auto. Qed.

Lemma send_response_Off c who st ro bl bp s : Off s -> Off (send_response c who st ro bl bp s).
Proof.
  intros [A B]. unfold Off, send_response, encode_head, complete_flags, finish_hook, add_trace.
  repeat bm; cbn; auto.
Qed.

Lemma respond_Off c r k b p s : Off s -> Off (respond c r k b p s).
Proof.
  intro O. pose proof (send_response_Off c (Some r) (if hfail s =? 0 then 200 else hfail s) k b p s O) as O1.
  revert O1. apply Off_frame; reflexivity.
Qed.

Lemma handle_request_Off c r s : Off s -> Off (handle_request c r s).
Proof.
  intro O. unfold handle_request.
  destruct (poll_handler (rq_id r) (start_service c false r s)) as [s1 out] eqn:P.
  pose proof (poll_handler_frame _ _ _ _ P) as F.
  assert (O1 : Off s1) by (rewrite F; revert O; apply Off_frame; reflexivity).
  destruct out as [[[k b] p]|]; [apply respond_Off|]; exact O1.
Qed.

Lemma decode_loop_Off c : forall fuel s upd, Off s -> Off (fst (decode_loop fuel c s upd)).
Proof.
  induction fuel as [|f IH]; intros s upd O; cbn [decode_loop]; [exact O|].
  destruct (rbuf s) as [|it rest]; [exact O|].
  destruct (c_pl s).
  - destruct it; try exact O; cbn; destruct (payload s); cbn; try apply IH; revert O; apply Off_frame; reflexivity.
  - destruct it.
    + match goal with |- context [if is_none (dstate ?x) then _ else _] =>
        assert (O0 : Off x) by (revert O; apply Off_frame; unfold set_ctx, add_trace; repeat bm; reflexivity); set (x0 := x) in * end.
      destruct (is_none (dstate x0)).
      * bm; [apply handle_request_Off; exact O0|]. apply IH. apply handle_request_Off. exact O0.
      * apply IH. revert O0; apply Off_frame; reflexivity.
    + destruct rest; [exact O|]. apply IH. revert O; apply Off_frame; reflexivity.
    + cbn. revert O; apply Off_frame; unfold parse_error, take_payload_err; repeat bm; reflexivity.
    + cbn. revert O; apply Off_frame; unfold parse_error, take_payload_err; repeat bm; reflexivity.
    + cbn. revert O; apply Off_frame; unfold parse_error, take_payload_err; repeat bm; reflexivity.
Qed.

Lemma poll_request_Off c s : Off s -> Off (fst (poll_request c s)).
Proof. intro O. unfold poll_request. repeat bm; try exact O. apply decode_loop_Off. exact O. Qed.

Lemma poll_request_nil c s : rbuf s = [] -> fst (poll_request c s) = s.
Proof. intro R. unfold poll_request. repeat bm; try reflexivity. cbn [decode_loop]. rewrite R. reflexivity. Qed.

Lemma body_end_Off c s : Off s -> Off (body_end c s).
Proof. intros [A B]. unfold Off, body_end, complete_flags, finish_hook, add_trace. repeat bm; cbn; auto. Qed.

Lemma poll_response_K c : forall fuel s, KAI s -> KAI (poll_response fuel c s).
Proof.
  induction fuel as [|f IH]; intros s K; cbn [poll_response]; rewrite ?body_if.
  - revert K; apply KAI_frame; reflexivity.
  - destruct K as [K1 K2]. destruct (dstate s) eqn:Ed.
    + destruct (draining s) eqn:Dr.
      * (* DRAINING: KEEP_ALIVE was cleared by the signal *)
        assert (KF : keep_alive s = false) by (destruct (keep_alive s); [destruct (K1 eq_refl) as (_ & _ & _ & D & _); congruence|reflexivity]).
        assert (TF : t_active (ka_tm s) = false) by (destruct (t_active (ka_tm s)); [rewrite K2 in KF by reflexivity; discriminate|reflexivity]).
        apply Off_KAI. unfold Off. repeat bm; cbn; auto.
      * destruct (messages s) as [|[r|stt] ms] eqn:Em.
        -- (* idle decision *)
           cbv zeta.
           match goal with |- context [set_keep_alive ?k s] => destruct k eqn:Ek end.
           ++ split; cbn; [intros _|auto].
              destruct (payload s); [discriminate|]. destruct (c_conn s); [discriminate|]. auto.
           ++ split; cbn; [discriminate|]. intro A. specialize (K2 A). destruct (K1 K2) as (_ & _ & P & _ & C).
              rewrite P, C in Ek. discriminate.
        -- assert (O : Off s).
           { split.
             - destruct (keep_alive s); [destruct (K1 eq_refl) as (_ & M & _); congruence|reflexivity].
             - destruct (t_active (ka_tm s)); [specialize (K2 eq_refl); destruct (K1 K2) as (_ & M & _); congruence|reflexivity]. }
           apply IH. apply Off_KAI. revert O; apply Off_frame; unfold start_service, set_ctx, add_trace; repeat bm; reflexivity.
        -- assert (O : Off s).
           { split.
             - destruct (keep_alive s); [destruct (K1 eq_refl) as (_ & M & _); congruence|reflexivity].
             - destruct (t_active (ka_tm s)); [specialize (K2 eq_refl); destruct (K1 K2) as (_ & M & _); congruence|reflexivity]. }
           apply IH. apply Off_KAI. apply send_response_Off. revert O; apply Off_frame; reflexivity.
    + assert (O : Off s).
      { split.
        - destruct (keep_alive s); [destruct (K1 eq_refl) as (D & _); congruence|reflexivity].
        - destruct (t_active (ka_tm s)); [specialize (K2 eq_refl); destruct (K1 K2) as (D & _); congruence|reflexivity]. }
      destruct (poll_handler (rq_id r) s) as [s1 out] eqn:P.
      pose proof (poll_handler_frame _ _ _ _ P) as F.
      assert (O1 : Off s1) by (rewrite F; revert O; apply Off_frame; reflexivity).
      destruct out as [[[k b] p]|].
      * apply IH. apply Off_KAI. apply respond_Off. exact O1.
      * destruct (poll_request c s1) as [s2 upd] eqn:P2.
        pose proof (poll_request_Off c s1 O1) as O2. rewrite P2 in O2. cbn in O2.
        destruct upd; [apply IH|]; apply Off_KAI; exact O2.
    + assert (O : Off s).
      { split.
        - destruct (keep_alive s); [destruct (K1 eq_refl) as (D & _); congruence|reflexivity].
        - destruct (t_active (ka_tm s)); [specialize (K2 eq_refl); destruct (K1 K2) as (D & _); congruence|reflexivity]. }
      bm; [apply Off_KAI; revert O; apply Off_frame; reflexivity|].
      apply IH. apply Off_KAI. apply body_end_Off. revert O; apply Off_frame; repeat bm; reflexivity.
Qed.

Lemma KAI_cases s : KAI s -> Off s \/ (keep_alive s = true /\ dstate s = SNone /\ messages s = [] /\ payload s = None /\ draining s = false /\ c_conn s = CKeepAlive).
Proof.
  intros [K1 K2]. destruct (keep_alive s) eqn:KA.
  - right. destruct (K1 eq_refl) as (A & B & C & D & E). auto.
  - left. split; [exact KA|]. destruct (t_active (ka_tm s)); [specialize (K2 eq_refl); discriminate|reflexivity].
Qed.

Lemma take_payload_err_K eof s : KAI s -> KAI (take_payload_err eof (set_read_disc true s)).
Proof.
  intros [K1 K2]. unfold take_payload_err. destruct (payload (set_read_disc true s)) eqn:P; [|split; auto].
  split; cbn; [|exact K2]. intro KA. destruct (K1 KA) as (A & B & C & D & E). auto.
Qed.

Theorem step_K c e s : KAI s -> KAI (step c e s).
Proof.
  intro K. unfold step. destruct (negb (res s =? 0)); [exact K|]. destruct e.
  - revert K; apply KAI_frame; unfold env_step; repeat bm; reflexivity.
  - unfold poll_graceful. destruct (sig_armed s && sig); [|exact K].
    cbv zeta. change (ka_tm (set_draining true (set_keep_alive false (set_sig_armed false s)))) with (ka_tm s).
    apply Off_KAI. unfold Off. destruct (ka_tm s) eqn:T; cbn [t_enabled]; split; try reflexivity.
    change (t_active (ka_tm s) = false). rewrite T. reflexivity.
  - (* head timer *)
    unfold poll_head_timer. destruct (t_ready (head_t s) (now s)); [|exact K].
    destruct (KAI_cases s K) as [O|(KA & D & M & P & Dr & C)].
    + apply Off_KAI. repeat bm; try (revert O; apply Off_frame; reflexivity).
      all: match goal with |- Off (set_shutdown true (send_response _ None ?a ?b ?d ?e ?x)) =>
             assert (O1 : Off (send_response c None a b d e x)) by (apply send_response_Off; revert O; apply Off_frame; reflexivity);
             revert O1; apply Off_frame; reflexivity end.
    + (* idle keep-alive connection: nothing forces close, the context stays keep-alive *)
      assert (X : forall x, keep_alive x = keep_alive s -> ka_tm x = ka_tm s -> dstate x = SNone -> messages x = [] ->
                        payload x = None -> draining x = false -> c_conn x = CKeepAlive ->
                        KAI (set_shutdown true (send_response c None 408 ONone 0 0 x))).
      { intros x a b d m p dr cc. destruct K as [K1 K2].
        unfold send_response, close_unread, encode_head, complete_flags, finish_hook, add_trace. rewrite p, dr. cbn [orb andb].
        rewrite N.eqb_refl. split; cbn; repeat bm; cbn; rewrite ?a, ?b, ?cc; auto. }
      repeat bm; try (revert K; apply KAI_frame; reflexivity); apply X; cbn; auto.
  - destruct K as [K1 K2]. unfold poll_ka_timer. repeat bm; split; cbn; auto; discriminate.
  - revert K; apply KAI_frame; unfold poll_sd_timer; repeat bm; reflexivity.
  - destruct (linger s); [|exact K]. unfold poll_linger.
    destruct (flush wblock s) as [s1 ok] eqn:E1.
    assert (K1 : KAI s1) by (unfold flush in E1; repeat bmh E1; inv E1; auto; revert K; apply KAI_frame; reflexivity).
    destruct ok; cbn [negb]; [|exact K1].
    destruct (ensure_linger_timer c s1) as [s2 have] eqn:E2.
    assert (K2 : KAI s2) by (unfold ensure_linger_timer in E2; repeat bmh E2; inv E2; auto; revert K1; apply KAI_frame; reflexivity).
    destruct have; cbn [negb]; [|revert K2; apply KAI_frame; reflexivity].
    destruct (read_available s2) as [[s3 d] io] eqn:E3.
    assert (K3 : KAI s3) by (unfold read_available, unfinish in E3; repeat bmh E3; inv E3; auto; revert K2; apply KAI_frame; reflexivity).
    destruct io; [revert K3; apply KAI_frame; reflexivity|].
    destruct (is_nil (rbuf s3)); destruct d; revert K3; apply KAI_frame; reflexivity.
  - destruct (negb (linger s) && shutdown s); [|exact K].
    revert K; apply KAI_frame; unfold shutdown_io, ensure_linger_timer, flush; repeat bm; cbn; auto.
    all: repeat match goal with E : (_, _) = (_, _) |- _ => inv E end; cbn; auto.
  - destruct (linger s || shutdown s); [exact K|]. unfold read_phase.
    destruct (read_available s) as [[s1 d] io] eqn:E1.
    assert (K1 : KAI s1) by (unfold read_available, unfinish in E1; repeat bmh E1; inv E1; auto; revert K; apply KAI_frame; reflexivity).
    destruct io; [revert K1; apply KAI_frame; reflexivity|].
    destruct (is_nil (rbuf s1)) eqn:RB.
    + (* nothing to decode *)
      assert (R0 : rbuf s1 = []) by (destruct (rbuf s1); [reflexivity|discriminate]).
      cbn [negb andb].
      match goal with |- context [poll_request c ?x] =>
        assert (Rx : rbuf x = []) by (repeat bm; cbn; exact R0);
        assert (Kx : KAI x) by (revert K1; apply KAI_frame; repeat bm; reflexivity);
        rewrite (poll_request_nil c x Rx); set (x0 := x) in * end.
      destruct d; [|exact Kx]. apply take_payload_err_K. exact Kx.
    + (* bytes were read: KEEP_ALIVE and its timer are cleared before anything is decoded *)
      cbn [negb andb].
      match goal with |- context [poll_request c ?x] => assert (Ox : Off x); [|pose proof (poll_request_Off c x Ox) as O2; set (x0 := x) in *] end.
      { destruct (KAI_cases s1 K1) as [O|(KA & _)].
        - destruct O as [A B]. rewrite A. repeat bm; split; cbn; auto.
        - rewrite KA. repeat bm; split; cbn; auto. }
      apply Off_KAI. destruct d; [|exact O2]. revert O2; apply Off_frame; unfold take_payload_err; repeat bm; reflexivity.
  - unfold response_phase.
    match goal with |- context [poll_response ?f c s] => pose proof (poll_response_K c f s K) as K1; set (s1 := poll_response f c s) in * end.
    assert (K2 : KAI (if keep_alive s1 && finished s1 then match ka c with KaTimeout d => set_ka_tm (arm d s1) s1 | _ => s1 end else s1)).
    { destruct (keep_alive s1) eqn:KA; cbn [andb]; [|exact K1]. destruct (finished s1); [|exact K1].
      destruct (ka c); try exact K1. destruct K1 as [A B]. split; cbn; auto. }
    unfold flush. repeat bm; cbn; exact K2.
  - revert K; apply KAI_frame; unfold epilogue; repeat bm; reflexivity.
Qed.

Lemma init_K c hs0 : KAI (init c hs0).
Proof. apply Off_KAI. split; [reflexivity|]. cbn. destruct (ka_enabled c); reflexivity. Qed.

Theorem run_events_K c es : forall s, KAI s -> KAI (run_events c es s).
Proof. induction es as [|e es IH]; intros s K; cbn; [exact K|]. apply IH. apply step_K. exact K. Qed.

(* while a request is in flight or queued, or a response body is streaming, the keep-alive timer is
   not active: no expiry can close the connection before the response is complete *)
Theorem ka_timer_inactive_while_busy c s :
  KAI s -> (dstate s <> SNone \/ messages s <> []) -> t_active (ka_tm s) = false /\ poll_ka_timer c s = s.
Proof.
  intros [K1 K2] B.
  assert (T : t_active (ka_tm s) = false).
  { destruct (t_active (ka_tm s)); [|reflexivity]. specialize (K2 eq_refl). destruct (K1 K2) as (D & M & _). destruct B; contradiction. }
  split; [exact T|]. unfold poll_ka_timer, t_ready. destruct (ka_tm s); try reflexivity. discriminate.
Qed.

(* ------------------------------------------------------------------ a request read in time is dispatched *)
Lemma handle_request_starts c r z : exists l, trace (handle_request c r z) = trace z ++ TStart r :: l.
Proof.
  unfold handle_request.
  destruct (poll_handler (rq_id r) (start_service c false r z)) as [s1 out] eqn:P.
  pose proof (poll_handler_trace _ _ _ _ P) as T.
  assert (T1 : trace s1 = trace z ++ [TStart r]) by (rewrite T; reflexivity).
  destruct out as [[[k b] p]|].
  - rewrite respond_trace, send_response_trace, T1, <- app_assoc. cbn. eexists. reflexivity.
  - exists []. exact T1.
Qed.

Lemma decode_loop_dispatches c f z x more upd :
  rbuf z = IReq x :: more -> c_pl z = false -> dstate z = SNone ->
  exists l, trace (fst (decode_loop (S f) c z upd)) = trace z ++ TDecode x :: TStart x :: l.
Proof.
  intros R P D. cbn [decode_loop]. rewrite R, P.
  change (dstate (set_rbuf more z)) with (dstate z). rewrite D. cbn [is_none negb andb].
  rewrite andb_false_r.
  match goal with |- context [handle_request c x ?y] =>
    assert (Ty : trace y = trace z ++ [TDecode x]) by (unfold set_ctx, add_trace; repeat bm; reflexivity);
    assert (Dy : is_none (dstate y) = true) by (unfold set_ctx, add_trace; repeat bm; cbn; change (is_none (dstate z) = true); rewrite D; reflexivity);
    set (y0 := y) in * end.
  rewrite Dy. destruct (handle_request_starts c x y0) as [l1 T1].
  assert (G : forall w, Mono (handle_request c x y0) w -> exists l, trace w = trace z ++ TDecode x :: TStart x :: l).
  { intros w [l2 [T2 _]]. rewrite T2, T1, Ty, <- !app_assoc. cbn. eexists. reflexivity. }
  bm; apply G; [apply Mono_refl|apply decode_loop_M].
Qed.

(* an idle keep-alive connection *)
Definition Idle (s : st) : Prop :=
  res s = 0 /\ keep_alive s = true /\ dstate s = SNone /\ messages s = [] /\ payload s = None /\ c_pl s = false /\
  rbuf s = [] /\ sock s = [] /\ read_disc s = false /\ linger s = false /\ shutdown s = false /\ draining s = false /\
  started s = true /\ t_active (head_t s) = false /\ t_active (sd_t s) = false.

(* the read phase of a poll that finds a complete request head on an idle connection clears
   KEEP_ALIVE and its timer and dispatches the request *)
Lemma read_phase_dispatches c z x more :
  keep_alive z = true -> read_disc z = false -> sock z = IReq x :: more -> rbuf z = [] -> c_pl z = false ->
  dstate z = SNone -> draining z = false -> messages z = [] -> started z = true ->
  exists l, trace (read_phase c z) = trace z ++ TDecode x :: TStart x :: l.
Proof.
  intros KA RD SK RB PL D DR M ST. unfold read_phase, read_available. rewrite RD, SK, RB. cbn [is_nil negb app].
  set (z1 := unfinish (set_sock [] (set_rbuf (IReq x :: more) z))).
  assert (F1 : rbuf z1 = IReq x :: more /\ c_pl z1 = false /\ dstate z1 = SNone /\ draining z1 = false /\ messages z1 = [] /\
               started z1 = true /\ read_disc z1 = false /\ trace z1 = trace z /\ keep_alive z1 = true).
  { subst z1. unfold unfinish. bm; cbn; repeat split; auto. }
  assert (F1u : rbuf (unfinish z1) = IReq x :: more /\ c_pl (unfinish z1) = false /\ dstate (unfinish z1) = SNone /\ draining (unfinish z1) = false /\ messages (unfinish z1) = [] /\
               started (unfinish z1) = true /\ read_disc (unfinish z1) = false /\ trace (unfinish z1) = trace z /\ keep_alive (unfinish z1) = true).
  { unfold unfinish. bm; cbn; exact F1. }
  assert (G : forall y d, rbuf y = IReq x :: more /\ c_pl y = false /\ dstate y = SNone /\ draining y = false /\ messages y = [] /\
               started y = true /\ read_disc y = false /\ trace y = trace z /\ keep_alive y = true ->
     exists l, trace (let s := if negb (is_nil (rbuf y)) && keep_alive y then set_ka_tm TInactive (set_keep_alive false y) else y in
                      let s := if started s then s else (let s := set_started true s in if req_to c =? 0 then s else set_head_t (arm (req_to c) s) s) in
                      let s := fst (poll_request c s) in
                      if d : bool then take_payload_err true (set_read_disc true s) else s) = trace z ++ TDecode x :: TStart x :: l).
  { intros y d (a1 & a2 & a3 & a4 & a5 & a6 & a7 & a8 & a9). cbv zeta. rewrite a1, a9. cbn [is_nil negb andb].
    change (started (set_ka_tm TInactive (set_keep_alive false y))) with (started y). rewrite a6.
    set (y1 := set_ka_tm TInactive (set_keep_alive false y)).
    assert (PR : exists l, trace (fst (poll_request c y1)) = trace z ++ TDecode x :: TStart x :: l).
    { unfold poll_request. change (draining y1) with (draining y). change (messages y1) with (messages y). change (read_disc y1) with (read_disc y).
      rewrite a4, a5, a7. cbn [andb]. change (MAXP <=? lenN []) with false. cbn [orb].
      destruct (decode_loop_dispatches c (length (rbuf y1)) y1 x more false) as [l T]; auto.
      exists l. rewrite T. change (trace y1) with (trace y). rewrite a8. reflexivity. }
    destruct PR as [l T]. destruct d; [|exists l; exact T].
    exists l. rewrite <- T. unfold take_payload_err; repeat bm; reflexivity. }
  destruct (sock_end z).
  - apply (G z1 false F1).
  - apply (G (unfinish z1) true F1u).
  - apply (G z1 true F1).
Qed.

(* the remainder of a poll after the read phase only extends the history *)
Lemma poll_after_read_M c r : forall s5,
  Mono s5 (if negb (res s5 =? 0) then s5
           else let s6 := response_phase c (r_wblock r) s5 in
                if negb (res s6 =? 0) then s6
                else let '(s7, again) := epilogue c s6 in if again then poll_body 3 c r s7 else s7).
Proof.
  intro s5. destruct (negb (res s5 =? 0)) eqn:R5; [apply Mono_refl|].
  assert (R5' : res s5 = 0) by (destruct (res s5 =? 0) eqn:E; [apply N.eqb_eq; exact E|discriminate]).
  pose proof (step_M c (EResponsePhase (r_wblock r)) s5) as M6. unfold step in M6. rewrite R5' in M6. cbn in M6.
  cbv zeta. set (s6 := response_phase c (r_wblock r) s5) in *.
  destruct (negb (res s6 =? 0)) eqn:R6; [exact M6|].
  assert (R6' : res s6 = 0) by (destruct (res s6 =? 0) eqn:E; [apply N.eqb_eq; exact E|discriminate]).
  pose proof (step_M c EEpilogue s6) as M7. unfold step in M7. rewrite R6' in M7. cbn in M7.
  destruct (epilogue c s6) as [s7 again] eqn:E7. cbn in M7.
  destruct again; [|eapply Mono_trans; eauto].
  assert (shutdown s7 = true /\ res s7 = 0) as [S7 R7].
  { unfold epilogue in E7. repeat bmh E7; inv E7; cbn; auto. }
  apply (poll_body_shutdown c (Mono s5)); auto.
  - intros e z Mz. eapply Mono_trans; [exact Mz|apply step_M].
  - eapply Mono_trans; eauto.
Qed.

Lemma poll_body_S f c r s : poll_body (S f) c r s =
    let s := poll_graceful (r_signal r) s in
    let s := poll_head_timer c s in
    let s := poll_ka_timer c s in
    let s := poll_sd_timer s in
    if negb (res s =? 0) then s
    else if linger s then poll_linger c (r_wblock r) s
    else if shutdown s then shutdown_io c (r_wblock r) (r_sdpend r) s
    else
      let s := read_phase c s in
      if negb (res s =? 0) then s
      else
        let s := response_phase c (r_wblock r) s in
        if negb (res s =? 0) then s
        else
          let '(s, again) := epilogue c s in
          if again then poll_body f c r s else s.
Proof. reflexivity. Qed.

(* C06, second half of the keep-alive claim, for EVERY idle keep-alive state and EVERY round that
   brings a complete request head while the clock of the poll is before the keep-alive deadline *)
Theorem ka_request_in_time_is_served c r s x more :
  Idle s -> r_arrive r = IReq x :: more -> sig_armed s && r_signal r = false ->
  t_ready (ka_tm s) (now s + r_adv r) = false ->
  exists l, trace (poll c r s) = trace s ++ TDecode x :: TStart x :: l.
Proof.
  intros (R & KA & D & M & P & PL & RB & SK & RD & L & SH & DR & ST & HT & SDT) AR SG KT.
  unfold poll. rewrite R. change (negb (0 =? 0)) with false. cbv iota. rewrite poll_body_S.
  set (s0 := env_step r s).
  assert (F0 : res s0 = 0 /\ keep_alive s0 = true /\ dstate s0 = SNone /\ messages s0 = [] /\ c_pl s0 = false /\ rbuf s0 = [] /\
               sock s0 = IReq x :: more /\ read_disc s0 = false /\ linger s0 = false /\ shutdown s0 = false /\ draining s0 = false /\
               started s0 = true /\ head_t s0 = head_t s /\ sd_t s0 = sd_t s /\ ka_tm s0 = ka_tm s /\ now s0 = now s + r_adv r /\
               sig_armed s0 = sig_armed s /\ trace s0 = trace s).
  { subst s0. unfold env_step. destruct (r_rd r); repeat split; try assumption; try reflexivity.
    all: change (sock s ++ r_arrive r = IReq x :: more); rewrite SK, AR; reflexivity. }
  destruct F0 as (f1 & f2 & f3 & f4 & f5 & f6 & f7 & f8 & f9 & f10 & f11 & f12 & f13 & f14 & f15 & f16 & f17 & f18).
  assert (G1 : poll_graceful (r_signal r) s0 = s0) by (unfold poll_graceful; rewrite f17, SG; reflexivity).
  assert (G2 : poll_head_timer c s0 = s0).
  { unfold poll_head_timer, t_ready. rewrite f13. destruct (head_t s); try reflexivity. discriminate. }
  assert (G3 : poll_ka_timer c s0 = s0) by (unfold poll_ka_timer; rewrite f15, f16, KT; reflexivity).
  assert (G4 : poll_sd_timer s0 = s0).
  { unfold poll_sd_timer, t_ready. rewrite f14. destruct (sd_t s); try reflexivity. discriminate. }
  cbv zeta. rewrite G1, G2, G3, G4, f1, f9, f10. change (negb (0 =? 0)) with false. cbv iota.
  destruct (read_phase_dispatches c s0 x more f2 f8 f7 f6 f5 f3 f11 f4 f12) as [l5 T5].
  pose proof (poll_after_read_M c r (read_phase c s0)) as [l6 [T6 _]]. cbv zeta in T6.
  exists (l5 ++ l6). rewrite T6, T5, f18, <- app_assoc. reflexivity.
Qed.
