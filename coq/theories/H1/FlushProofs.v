(* Proofs about the poll_flush model: exactly-once in-order delivery across partial writes,
   WriteZero, registration of the writer on Pending, bounded draining. *)
From AV Require Import Lib.Base H1.Flush.

Lemma lenN_app {A} (a b : list A) : lenN (a ++ b) = lenN a + lenN b.
Proof. unfold lenN. rewrite app_length. lia. Qed.

Lemma lenN_nil {A} : lenN (@nil A) = 0.
Proof. reflexivity. Qed.

Lemma lenN_0 {A} (l : list A) : lenN l = 0 -> l = [].
Proof. unfold lenN. destruct l; cbn [length]; [reflexivity|lia]. Qed.

Lemma slice_from_0 buf : slice_from 0 buf = buf.
Proof. reflexivity. Qed.

Lemma lenN_slice w buf : w <= lenN buf -> lenN (slice_from w buf) = lenN buf - w.
Proof. unfold lenN, slice_from. intro H. rewrite skipn_length. lia. Qed.

Lemma slice_all w buf : lenN buf <= w -> slice_from w buf = [].
Proof. unfold lenN, slice_from. intro H. apply skipn_all2. lia. Qed.

Lemma skipn_add {A} (a b : nat) (l : list A) : skipn a (skipn b l) = skipn (a + b) l.
Proof.
  revert l. induction b as [|b IH]; intro l.
  - rewrite Nat.add_0_r. reflexivity.
  - rewrite Nat.add_succ_r. destruct l; cbn [skipn]; [destruct a; reflexivity|apply IH].
Qed.

Lemma slice_split w n buf :
  slice_from w buf = take n (slice_from w buf) ++ slice_from (w + n) buf.
Proof.
  unfold slice_from, take.
  replace (N.to_nat (w + n)) with (N.to_nat n + N.to_nat w)%nat by lia.
  rewrite <- skipn_add. symmetry. apply firstn_skipn.
Qed.

(* what one run of the write loop does, as a decomposition of the offered slice *)
Definition loop_spec (buf : bytes) (written : N) (wire : bytes) (o : fout) : Prop :=
  exists w' rest,
    f_wire o = wire ++ w' /\ slice_from written buf = w' ++ rest /\
    match f_res o with
    | FlReady => rest = [] /\ f_buf o = [] /\ f_wreg o = false
    | FlPending => f_buf o = rest /\ f_wreg o = true /\ rest <> []
    | FlWriteZero | FlIoErr => f_buf o = buf /\ rest <> []
    end.

Lemma write_loop_spec : forall fuel buf written script dflt wire calls,
  written <= lenN buf -> (length buf - N.to_nat written < fuel)%nat ->
  loop_spec buf written wire (write_loop fuel buf written script dflt wire calls).
Proof.
  induction fuel as [|fuel IH]; intros buf written script dflt wire calls Hw Hf; [lia|].
  cbn [write_loop].
  destruct (written <? lenN buf) eqn:Hlt.
  - assert (Hne : slice_from written buf <> []).
    { intro E. pose proof (lenN_slice written buf Hw) as HL. rewrite E in HL.
      unfold lenN in HL at 1. cbn [length] in HL. lia. }
    destruct (next_ans script dflt) as [a script'].
    destruct a as [k| | |].
    + destruct (N.min k (lenN (slice_from written buf)) =? 0) eqn:Hz.
      * exists [], (slice_from written buf). cbn [f_wire f_res f_buf]. rewrite app_nil_r.
        repeat split; auto.
      * set (n := N.min k (lenN (slice_from written buf))) in *.
        assert (Hn : 0 < n /\ n <= lenN buf - written).
        { pose proof (lenN_slice written buf Hw). lia. }
        destruct (IH buf (written + n) script' dflt (wire ++ take n (slice_from written buf)) (calls + 1))
          as (w' & rest & H1 & H2 & H3); [lia| unfold lenN in *; lia |].
        exists (take n (slice_from written buf) ++ w'), rest.
        split; [rewrite H1, app_assoc; reflexivity|].
        split; [rewrite <- app_assoc, <- H2; apply slice_split|exact H3].
    + exists [], (slice_from written buf). cbn [f_wire f_res f_buf f_wreg]. rewrite app_nil_r.
      repeat split; auto.
    + exists [], (slice_from written buf). cbn [f_wire f_res f_buf]. rewrite app_nil_r.
      repeat split; auto.
    + exists [], (slice_from written buf). cbn [f_wire f_res f_buf]. rewrite app_nil_r.
      repeat split; auto.
  - exists [], []. cbn [f_wire f_res f_buf f_wreg]. rewrite app_nil_r.
    repeat split; auto. apply slice_all. lia.
Qed.

(* poll_flush: the buffer splits into what the socket took and what stays *)
Lemma poll_flush_spec buf script dflt fl :
  let o := poll_flush buf script dflt fl in
  exists rest, buf = f_wire o ++ rest /\
    match f_res o with
    | FlReady => rest = [] /\ f_buf o = [] /\ fl = FReady
    | FlPending => f_buf o = rest /\ f_wreg o = true
    | FlWriteZero | FlIoErr => True
    end.
Proof.
  cbn zeta. unfold poll_flush.
  destruct (write_loop_spec (S (length buf)) buf 0 script dflt [] 0) as (w' & rest & H1 & H2 & H3);
    [lia|lia|].
  set (o := write_loop (S (length buf)) buf 0 script dflt [] 0) in *.
  cbn [app] in H1. rewrite slice_from_0 in H2.
  destruct (f_res o) eqn:Hr.
  - destruct H3 as (-> & Hb & _). destruct fl; cbn [f_wire f_res f_buf f_wreg]; try rewrite Hr;
      exists []; rewrite H1; (split; [exact H2|]); auto.
  - rewrite Hr. exists rest. rewrite H1. split; [exact H2|]. destruct H3 as (? & ? & _). auto.
  - rewrite Hr. exists rest. rewrite H1. split; [exact H2|exact I].
  - rewrite Hr. exists rest. rewrite H1. split; [exact H2|exact I].
Qed.

(* a Ready result means everything was accepted; an unflushed rest means Pending + registered *)
Lemma poll_flush_ready_empty buf script dflt fl :
  f_res (poll_flush buf script dflt fl) = FlReady -> f_buf (poll_flush buf script dflt fl) = [].
Proof.
  intro H. destruct (poll_flush_spec buf script dflt fl) as (rest & _ & H3). cbn zeta in H3.
  rewrite H in H3. tauto.
Qed.

Lemma poll_flush_pending_registered buf script dflt fl :
  f_res (poll_flush buf script dflt fl) = FlPending -> f_wreg (poll_flush buf script dflt fl) = true.
Proof.
  intro H. destruct (poll_flush_spec buf script dflt fl) as (rest & _ & H3). cbn zeta in H3.
  rewrite H in H3. tauto.
Qed.

(* WriteZero: the first answer met while bytes remain decides *)
Lemma poll_flush_zero buf script dflt fl :
  buf <> [] -> fst (next_ans script dflt) = WZero ->
  f_res (poll_flush buf script dflt fl) = FlWriteZero /\ f_wire (poll_flush buf script dflt fl) = [].
Proof.
  intros Hne Hz. unfold poll_flush. cbn [write_loop].
  assert (H : 0 <? lenN buf = true).
  { destruct buf; [contradiction|]. unfold lenN. cbn [length]. lia. }
  rewrite H. destruct (next_ans script dflt) as [a s']. cbn [fst] in Hz. subst a.
  cbn [f_res f_wire]. auto.
Qed.

(* any number of accepting answers followed by WZero ends in WriteZero (unless the accepts
   already exhausted the buffer) *)
Lemma write_loop_zero_after_accepts : forall fuel buf written script dflt wire calls,
  written <= lenN buf -> (length buf - N.to_nat written < fuel)%nat ->
  let o := write_loop fuel buf written script dflt wire calls in
  f_res o = FlWriteZero ->
  f_buf o = buf.
Proof.
  intros fuel buf written script dflt wire calls Hw Hf o Hr.
  destruct (write_loop_spec fuel buf written script dflt wire calls Hw Hf) as (w' & rest & _ & _ & H3).
  fold o in H3. rewrite Hr in H3. tauto.
Qed.

(* ---- histories ------------------------------------------------------------------------ *)

Definition prefix_of (a b : bytes) : Prop := exists rest, b = a ++ rest.

Definition FInv (s : fstate) : Prop :=
  (s_failed s = false -> s_wire s ++ s_buf s = s_put s) /\ prefix_of (s_wire s) (s_put s).

Lemma finit_inv : FInv finit.
Proof. split; [reflexivity|exists []; reflexivity]. Qed.

Lemma fstep_inv s o : FInv s -> FInv (fstep s o).
Proof.
  intros [H1 H2]. unfold fstep. destruct (s_failed s) eqn:Hf; [split; [rewrite Hf; discriminate|exact H2]|].
  specialize (H1 eq_refl). destruct o as [bs|script dflt fl].
  - split; cbn [s_failed s_wire s_buf s_put].
    + intros _. rewrite <- H1, app_assoc. reflexivity.
    + exists (s_buf s ++ bs). rewrite <- H1, app_assoc. reflexivity.
  - destruct (poll_flush_spec (s_buf s) script dflt fl) as (rest & Hb & H3). cbn zeta in H3.
    set (r := poll_flush (s_buf s) script dflt fl) in *.
    split; cbn [s_failed s_wire s_buf s_put].
    + intro Hnf. rewrite <- H1, Hb, <- app_assoc. f_equal. f_equal.
      destruct (f_res r); cbn [is_err orb] in Hnf; try discriminate.
      * destruct H3 as (-> & -> & _). reflexivity.
      * destruct H3 as (-> & _). reflexivity.
    + exists rest. rewrite <- H1, Hb, app_assoc. reflexivity.
Qed.

Lemma frun_inv_from s ops : FInv s -> FInv (fold_left fstep ops s).
Proof. revert s. induction ops as [|o ops IH]; intros s H; cbn [fold_left]; [exact H|apply IH, fstep_inv, H]. Qed.

Theorem flush_exactly_once_in_order (ops : list fop) :
  let s := frun ops in
  prefix_of (s_wire s) (s_put s) /\
  (s_failed s = false -> s_wire s ++ s_buf s = s_put s) /\
  (s_failed s = false -> s_buf s = [] -> s_wire s = s_put s).
Proof.
  cbn zeta. destruct (frun_inv_from finit ops finit_inv) as [H1 H2]. fold (frun ops) in *.
  split; [exact H2|]. split; [exact H1|]. intros Hf Hb. rewrite <- (H1 Hf), Hb, app_nil_r. reflexivity.
Qed.

(* the state after the last operation when that operation was a flush *)
Theorem flush_result_sound (ops : list fop) script dflt fl :
  let s := frun (ops ++ [FFlush script dflt fl]) in
  s_failed (frun ops) = false ->
  (s_last s = FlReady -> s_buf s = [] /\ s_wire s = s_put s) /\
  (s_last s = FlPending -> s_wreg s = true) /\
  (s_buf s <> [] -> s_failed s = false -> s_last s = FlPending /\ s_wreg s = true).
Proof.
  cbn zeta. intro Hf. unfold frun. rewrite fold_left_app. cbn [fold_left]. fold (frun ops).
  pose proof (fstep_inv (frun ops) (FFlush script dflt fl) (frun_inv_from finit ops finit_inv)) as [HI _].
  unfold fstep in *. rewrite Hf in *. cbn [s_last s_buf s_wire s_put s_wreg s_failed] in *.
  destruct (poll_flush_spec (s_buf (frun ops)) script dflt fl) as (rest & Hb & H3). cbn zeta in H3.
  set (r := poll_flush (s_buf (frun ops)) script dflt fl) in *.
  split; [|split].
  - intro Hr. rewrite Hr in *. cbn [is_err orb] in HI. destruct H3 as (_ & Hbuf & _).
    split; [exact Hbuf|]. rewrite <- (HI eq_refl), Hbuf, app_nil_r. reflexivity.
  - intro Hr. rewrite Hr in H3. tauto.
  - intros Hne Hnf. destruct (f_res r) eqn:Hr; cbn [is_err orb] in Hnf; try discriminate.
    + destruct H3 as (_ & Hbuf & _). contradiction.
    + destruct H3 as (_ & Hw). auto.
Qed.

(* ---- bounded draining ----------------------------------------------------------------- *)

(* a flush whose first answer accepts at least one byte strictly shrinks a non-empty buffer,
   or fails with an I/O error *)
Lemma flush_progress buf script dflt fl k :
  buf <> [] -> fst (next_ans script dflt) = WAccept k -> 0 < k ->
  let o := poll_flush buf script dflt fl in
  is_err (f_res o) = true \/ lenN (f_buf o) < lenN buf.
Proof.
  intros Hne Ha Hk. cbn zeta.
  destruct (poll_flush_spec buf script dflt fl) as (rest & Hb & H3). cbn zeta in H3.
  assert (Hw : is_err (f_res (poll_flush buf script dflt fl)) = true \/ f_wire (poll_flush buf script dflt fl) <> []).
  { unfold poll_flush. cbn [write_loop].
    assert (H : 0 <? lenN buf = true).
    { destruct buf; [contradiction|]. unfold lenN. cbn [length]. lia. }
    rewrite H. destruct (next_ans script dflt) as [a s']. cbn [fst] in Ha. subst a.
    rewrite slice_from_0.
    assert (Hz : N.min k (lenN buf) =? 0 = false).
    { destruct buf; [contradiction|]. unfold lenN. cbn [length]. lia. }
    rewrite Hz.
    destruct (write_loop_spec (length buf) buf (0 + N.min k (lenN buf)) s' dflt
                ([] ++ take (N.min k (lenN buf)) buf) (0 + 1)) as (w' & rest' & W1 & _ & _).
    { lia. } { destruct buf; [contradiction|]. unfold lenN in *. cbn [length] in *. lia. }
    set (o := write_loop (length buf) buf _ s' dflt _ _) in *.
    assert (Hwire : f_wire o <> []).
    { rewrite W1. cbn [app]. destruct buf as [|b buf]; [contradiction|].
      unfold take. destruct (N.to_nat (N.min k (lenN (b :: buf)))) eqn:E.
      - unfold lenN in E. cbn [length] in E. lia.
      - cbn [firstn app]. discriminate. }
    destruct (f_res o) eqn:Hr.
    - destruct fl; cbn [f_res f_wire is_err]; auto.
    - auto.
    - left; rewrite Hr; reflexivity.
    - left; rewrite Hr; reflexivity. }
  destruct Hw as [He|Hw]; [left; exact He|].
  destruct (f_res (poll_flush buf script dflt fl)) eqn:Hr; cbn [is_err]; auto; right.
  - destruct H3 as (_ & -> & _). destruct buf; [contradiction|]. unfold lenN. cbn [length]. lia.
  - destruct H3 as (H3 & _). rewrite H3. pose proof (f_equal lenN Hb) as HL. rewrite lenN_app in HL.
    assert (0 < lenN (f_wire (poll_flush buf script dflt fl))).
    { destruct (f_wire (poll_flush buf script dflt fl)); [contradiction|]. unfold lenN. cbn [length]. lia. }
    lia.
Qed.

(* a socket that "eventually accepts": every poll's first write answer accepts >= 1 byte *)
Definition accepting (o : fop) : Prop :=
  match o with
  | FFlush script dflt fl => exists k, fst (next_ans script dflt) = WAccept k /\ 0 < k
  | FPut _ => False
  end.

Lemma failed_sticky ops s : s_failed s = true -> s_failed (fold_left fstep ops s) = true.
Proof.
  revert s. induction ops as [|o ops IH]; intros s E; cbn [fold_left]; auto.
  apply IH. unfold fstep. rewrite E. exact E.
Qed.

Lemma drain_measure : forall ops s,
  Forall accepting ops -> s_failed s = false ->
  let s' := fold_left fstep ops s in
  s_failed s' = true \/ s_buf s' = [] \/ lenN (s_buf s') + lenN ops <= lenN (s_buf s).
Proof.
  induction ops as [|o ops IH]; intros s Hall Hf; cbn [fold_left].
  - right; right. unfold lenN at 2. cbn [length]. lia.
  - inversion Hall as [|? ? Ho Hall']; subst.
    destruct o as [bs|script dflt fl]; [destruct Ho|]. destruct Ho as (k & Ha & Hk).
    destruct (s_buf s) eqn:Hb.
    + (* already empty: stays empty or fails *)
      set (s1 := fstep s (FFlush script dflt fl)).
      assert (H1 : s_failed s1 = true \/ (s_failed s1 = false /\ s_buf s1 = [])).
      { unfold s1, fstep. rewrite Hf, Hb. cbn [s_failed s_buf].
        destruct (poll_flush_spec [] script dflt fl) as (rest & Hbb & H3). cbn zeta in H3.
        destruct (f_res (poll_flush [] script dflt fl)) eqn:Hr; cbn [is_err orb]; auto.
        - right. split; [reflexivity|]. tauto.
        - right. split; [reflexivity|]. destruct H3 as (-> & _).
          destruct (f_wire (poll_flush [] script dflt fl)); [|discriminate]. cbn [app] in Hbb. auto. }
      destruct H1 as [H1|[H1 H1b]].
      * left. apply failed_sticky. exact H1.
      * specialize (IH s1 Hall' H1). cbn zeta in IH. destruct IH as [IH|[IH|IH]]; auto.
        rewrite H1b in IH. right; left. apply lenN_0. unfold lenN in *. cbn [length] in *. lia.
    + set (s1 := fstep s (FFlush script dflt fl)).
      assert (Hne : s_buf s <> []) by (rewrite Hb; discriminate).
      pose proof (flush_progress (s_buf s) script dflt fl k Hne Ha Hk) as HP. cbn zeta in HP.
      assert (H1 : s_failed s1 = true \/ (s_failed s1 = false /\ lenN (s_buf s1) < lenN (s_buf s))).
      { unfold s1, fstep. rewrite Hf. cbn [s_failed s_buf]. destruct HP as [HP|HP].
        - left. rewrite HP. reflexivity.
        - destruct (is_err (f_res (poll_flush (s_buf s) script dflt fl))); [left; reflexivity|right; auto]. }
      rewrite <- Hb.
      destruct H1 as [H1|[H1 H1b]].
      * left. apply failed_sticky. exact H1.
      * specialize (IH s1 Hall' H1). cbn zeta in IH. destruct IH as [IH|[IH|IH]]; auto.
        right; right. unfold lenN in *. cbn [length] in *. lia.
Qed.

(* flushes move bytes from write_buf to the wire and do nothing else *)
Lemma flush_only_wire : forall ops s,
  Forall accepting ops -> s_failed (fold_left fstep ops s) = false ->
  let s' := fold_left fstep ops s in s_wire s' ++ s_buf s' = s_wire s ++ s_buf s.
Proof.
  induction ops as [|o ops IH]; intros s Hall Hf'; cbn [fold_left] in *; [reflexivity|].
  inversion Hall as [|? ? Ho Hall']; subst. destruct o as [bs|script dflt fl]; [destruct Ho|].
  set (s1 := fstep s (FFlush script dflt fl)) in *.
  assert (Hf1 : s_failed s1 = false).
  { destruct (s_failed s1) eqn:E; [|reflexivity]. rewrite (failed_sticky ops s1 E) in Hf'. discriminate. }
  cbn zeta in IH. rewrite (IH s1 Hall' Hf'). clear IH Hf'.
  unfold s1, fstep in *. destruct (s_failed s) eqn:Hf; [congruence|]. cbn [s_wire s_buf s_failed] in *.
  destruct (poll_flush_spec (s_buf s) script dflt fl) as (rest & Hb & H3). cbn zeta in H3.
  set (r := poll_flush (s_buf s) script dflt fl) in *.
  rewrite Hb. rewrite <- app_assoc. f_equal. f_equal.
  destruct (f_res r); cbn [is_err orb] in Hf1; try discriminate.
  - destruct H3 as (-> & -> & _). reflexivity.
  - destruct H3 as (-> & _). reflexivity.
Qed.

(* after |write_buf| polls against an accepting socket the buffer is empty and everything that
   was buffered is on the wire (or the socket failed) *)
Theorem flush_drains_within (s : fstate) (ops : list fop) :
  Forall accepting ops -> s_failed s = false -> lenN (s_buf s) <= lenN ops ->
  let s' := fold_left fstep ops s in
  s_failed s' = true \/ (s_buf s' = [] /\ s_wire s' = s_wire s ++ s_buf s).
Proof.
  intros Hall Hf Hlen. cbn zeta.
  destruct (s_failed (fold_left fstep ops s)) eqn:Hf'; [left; reflexivity|right].
  assert (E : s_buf (fold_left fstep ops s) = []).
  { destruct (drain_measure ops s Hall Hf) as [H|[H|H]]; cbn zeta in H; [congruence|exact H|].
    apply lenN_0. lia. }
  split; [exact E|]. pose proof (flush_only_wire ops s Hall Hf') as HW. cbn zeta in HW.
  rewrite E, app_nil_r in HW. exact HW.
Qed.
