(* Model of actix-http/src/h1/payload.rs: the request-body channel
   (`Inner`, `PayloadSender`, `Payload`), transcribed branch by branch, as the code is.

   * The shared state `Rc<RefCell<Inner>>` is `inner : option Inner`: the `Payload` (reader) holds
     the only strong reference, so dropping the reader frees `Inner` (its stored wakers are
     dropped WITHOUT being woken); the `PayloadSender` holds a `Weak` and every one of its
     methods starts with `upgrade()`.
   * Wakers are abstract identities (`N`); `Waker::will_wake` is identity equality. Every
     operation returns the new state, its result and the list of wakers it woke, in order.
   * The model is polymorphic in the chunk type: the code only ever uses `data.len()`
     (`clen`). The theorems instantiate `Chunk := bytes`, the correspondence driver a
     structural chunk (fill byte, length) so that 64 KiB chunks cost nothing.
   * `MAX_BUFFER_SIZE` is the section variable `limit` (instantiated with
     `Gen.Consts.H1_PAYLOAD_MAX_BUFFER_SIZE` in Props/C07.v and Run/RunC07.v).
   * Arithmetic: `self.len -= data.len()` is a checked subtraction (panics in a debug build,
     wraps in release): written out as [Panic]. `self.len += data.len()` is modelled on
     unbounded `N`: an overflow of `usize` needs queued `Bytes` handles totalling 2^64 bytes.
   * `PayloadError` carries no information the channel looks at; it is a small enum here. *)
From AV Require Import Lib.Base.

Definition waker := N.

Inductive perr :=
| EIncomplete              (* PayloadError::Incomplete(None) *)
| EOther (kind : N).       (* any other PayloadError handed to set_error (kind = 1 EncodingCorrupted,
                              2 Overflow, 3 UnknownLength, 4 Io ...) *)

Inductive status := Read | Pause | Dropped.          (* PayloadStatus *)

Section Payload.
Context {Chunk : Type}.
Variable clen : Chunk -> N.      (* Bytes::len *)
Variable limit : N.              (* MAX_BUFFER_SIZE *)

Record Inner := mkInner {
  len : N;
  eof : bool;
  err : option perr;
  sender_closed : bool;
  need_read : bool;
  items : list Chunk;            (* VecDeque<Bytes>, front first *)
  task : option waker;           (* reader's waker *)
  io_task : option waker         (* feeder's waker *)
}.

Definition set_len v (i : Inner) := mkInner v (eof i) (err i) (sender_closed i) (need_read i) (items i) (task i) (io_task i).
Definition set_eof v (i : Inner) := mkInner (len i) v (err i) (sender_closed i) (need_read i) (items i) (task i) (io_task i).
Definition set_err v (i : Inner) := mkInner (len i) (eof i) v (sender_closed i) (need_read i) (items i) (task i) (io_task i).
Definition set_sender_closed v (i : Inner) := mkInner (len i) (eof i) (err i) v (need_read i) (items i) (task i) (io_task i).
Definition set_need_read v (i : Inner) := mkInner (len i) (eof i) (err i) (sender_closed i) v (items i) (task i) (io_task i).
Definition set_items v (i : Inner) := mkInner (len i) (eof i) (err i) (sender_closed i) (need_read i) v (task i) (io_task i).
Definition set_task v (i : Inner) := mkInner (len i) (eof i) (err i) (sender_closed i) (need_read i) (items i) v (io_task i).
Definition set_io_task v (i : Inner) := mkInner (len i) (eof i) (err i) (sender_closed i) (need_read i) (items i) (task i) v.

(* Inner::new(eof) *)
Definition inner_new (e : bool) : Inner := mkInner 0 e None e true [] None None.

(* Inner::wake: if let Some(waker) = self.task.take() { waker.wake() } *)
Definition wake (i : Inner) : Inner * list waker :=
  match task i with
  | Some w => (set_task None i, [w])
  | None => (i, [])
  end.

(* Inner::wake_io *)
Definition wake_io (i : Inner) : Inner * list waker :=
  match io_task i with
  | Some w => (set_io_task None i, [w])
  | None => (i, [])
  end.

(* Inner::register: if self.task.as_ref().is_none_or(|w| !cx.waker().will_wake(w)) { self.task = Some(cx.waker().clone()) } *)
Definition register (cx : waker) (i : Inner) : Inner :=
  if match task i with None => true | Some w => negb (cx =? w) end
  then set_task (Some cx) i else i.

(* Inner::register_io *)
Definition register_io (cx : waker) (i : Inner) : Inner :=
  if match io_task i with None => true | Some w => negb (cx =? w) end
  then set_io_task (Some cx) i else i.

(* Inner::set_error *)
Definition set_error (e : perr) (i : Inner) : Inner * list waker :=
  wake (set_err (Some e) (set_sender_closed true i)).

(* Inner::close_sender *)
Definition close_sender (i : Inner) : Inner * list waker :=
  if negb (sender_closed i)
  then set_error EIncomplete (set_sender_closed true i)
  else (i, []).

(* Inner::feed_eof *)
Definition feed_eof (i : Inner) : Inner * list waker :=
  wake (set_eof true (set_sender_closed true i)).

(* Inner::feed_data *)
Definition feed_data (d : Chunk) (i : Inner) : Inner * list waker :=
  let i1 := set_len (len i + clen d) i in
  let i2 := set_items (items i1 ++ [d]) i1 in
  let i3 := set_need_read (len i2 <? limit) i2 in
  wake i3.

(* Poll<Option<Result<Bytes, PayloadError>>> *)
Inductive pollres :=
| PData (d : Chunk)        (* Ready(Some(Ok(d))) *)
| PErr (e : perr)          (* Ready(Some(Err(e))) *)
| PEnd                     (* Ready(None) *)
| PPending.

(* Inner::poll_next *)
Definition poll_next (cx : waker) (i : Inner) : R (Inner * pollres * list waker) :=
  match items i with
  | data :: rest =>
      let i1 := set_items rest i in
      if len i1 <? clen data then Panic                       (* self.len -= data.len() *)
      else
        let i2 := set_len (len i1 - clen data) i1 in
        let i3 := set_need_read (len i2 <? limit) i2 in
        let i4 := if need_read i3 && negb (eof i3) then register cx i3 else i3 in
        let '(i5, w) := wake_io i4 in
        Val (i5, PData data, w)
  | [] =>
      match err i with
      | Some e => Val (set_err None i, PErr e, [])            (* self.err.take() *)
      | None =>
          if eof i then Val (i, PEnd, [])
          else
            let i1 := set_need_read true i in
            let i2 := register cx i1 in
            let '(i3, w) := wake_io i2 in
            Val (i3, PPending, w)
      end
  end.

(* Inner::unread_data *)
Definition unread_data (d : Chunk) (i : Inner) : Inner :=
  let i1 := set_len (len i + clen d) i in
  set_items (d :: items i1) i1.

(* ---- the two handles ---- *)

Record sys := mkSys {
  inner : option Inner;      (* None: the Payload was dropped, Rc freed, Weak::upgrade fails *)
  sender : bool              (* the PayloadSender value still exists *)
}.

(* Payload::create(eof) *)
Definition create (e : bool) : sys := mkSys (Some (inner_new e)) true.

Inductive op :=
| OFeedData (d : Chunk)      (* PayloadSender::feed_data *)
| OFeedEof                   (* PayloadSender::feed_eof *)
| OSetError (e : perr)       (* PayloadSender::set_error *)
| OSenderDrop                (* Drop for PayloadSender *)
| ONeedRead (cx : waker)     (* PayloadSender::need_read(cx) *)
| OIsDropped                 (* PayloadSender::is_dropped *)
| OPoll (cx : waker)         (* <Payload as Stream>::poll_next(cx) *)
| OUnread (d : Chunk)        (* Payload::unread_data *)
| OReaderDrop.               (* drop(Payload) *)

Inductive res :=
| RUnit
| RNoHandle                  (* the handle the operation belongs to no longer exists: the call
                                cannot be written in Rust; the operation is skipped *)
| RStatus (st : status)
| RBool (b : bool)
| RPoll (p : pollres)
| RPanic.

(* a sender method of the shape `if let Some(shared) = self.inner.upgrade() { shared.borrow_mut().f() }` *)
Definition on_sender (s : sys) (f : Inner -> Inner * list waker) : sys * res * list waker :=
  if sender s then
    match inner s with
    | Some i => let '(i', w) := f i in (mkSys (Some i') true, RUnit, w)
    | None => (s, RUnit, [])
    end
  else (s, RNoHandle, []).

Definition step (s : sys) (o : op) : sys * res * list waker :=
  match o with
  | OFeedData d => on_sender s (feed_data d)
  | OFeedEof => on_sender s feed_eof
  | OSetError e => on_sender s (set_error e)
  | OSenderDrop =>
      if sender s then
        match inner s with
        | Some i => let '(i', w) := close_sender i in (mkSys (Some i') false, RUnit, w)
        | None => (mkSys None false, RUnit, [])
        end
      else (s, RNoHandle, [])
  | ONeedRead cx =>
      if sender s then
        match inner s with
        | Some i =>
            if need_read i then (s, RStatus Read, [])
            else (mkSys (Some (register_io cx i)) true, RStatus Pause, [])
        | None => (s, RStatus Dropped, [])
        end
      else (s, RNoHandle, [])
  | OIsDropped =>
      if sender s then (s, RBool (match inner s with None => true | Some _ => false end), [])
      else (s, RNoHandle, [])
  | OPoll cx =>
      match inner s with
      | Some i =>
          match poll_next cx i with
          | Val (i', p, w) => (mkSys (Some i') (sender s), RPoll p, w)
          | Panic => (s, RPanic, [])
          end
      | None => (s, RNoHandle, [])
      end
  | OUnread d =>
      match inner s with
      | Some i => (mkSys (Some (unread_data d i)) (sender s), RUnit, [])
      | None => (s, RNoHandle, [])
      end
  | OReaderDrop =>
      match inner s with
      | Some _ => (mkSys None (sender s), RUnit, [])       (* Inner dropped: wakers dropped, nobody woken *)
      | None => (s, RNoHandle, [])
      end
  end.

(* one event of a trace: the operation, what it returned, whom it woke *)
Definition event := (op * res * list waker)%type.

(* run a history; the trace lists the events in order *)
Fixpoint exec (s : sys) (os : list op) : sys * list event :=
  match os with
  | [] => (s, [])
  | o :: r =>
      let '(s1, x, w) := step s o in
      let '(s2, t) := exec s1 r in
      (s2, (o, x, w) :: t)
  end.

Definition run (e : bool) (os : list op) : sys * list event := exec (create e) os.

End Payload.

Arguments Inner : clear implicits.
Arguments sys : clear implicits.
Arguments op : clear implicits.
Arguments res : clear implicits.
Arguments pollres : clear implicits.
Arguments event : clear implicits.
