(* Client/RespHead.v — a concrete, executable response-head tokenizer for the [hp] parameter of
   Client/ClientCodec.v.  It is NOT a model of httparse: it is a simple grammar that httparse
   treats identically ON THE HEADS THE C17 GENERATOR PRODUCES (checked on the real client for
   every generated case through the correspondence of the whole exchange).  Its role: it makes
   Run/RunC17.v executable and gives the concrete witnesses of Props/C17.v (F17).  The theorems
   of C17 about the body ([read_body]) do not depend on the tokenizer at all; the theorem about
   the head loop (C17_no_interim_as_final) holds for EVERY tokenizer [hp].

     head        = status-line *( header-line ) CRLF
     status-line = ("HTTP/1.0" | "HTTP/1.1") SP 3DIGIT [ SP *( HT | %x20-7E ) ] CRLF
     header-line = name ":" OWS value OWS CRLF        ; name = 1*tchar, value = *( HT | %x20-7E )
   A bare CR or LF is RBad; an unterminated head is RPartial (httparse reports a bad byte as soon
   as it sees it, this tokenizer at the blank line: same verdict once the head is complete or the
   stream has ended). *)
From AV Require Import Lib.Base H1.Chunked H1.PayloadDec H1.Framing Client.ClientCodec.

Inductive lines_res := LsPartial | LsBad | LsDone (lines : list bytes) (rest : bytes).

(* [cur] = current line reversed, [ls] = complete lines reversed, [cr] = previous byte was CR *)
Fixpoint split_head (s cur : bytes) (ls : list bytes) (cr : bool) : lines_res :=
  match s with
  | [] => LsPartial
  | b :: r =>
      if cr then
        if b =? 10 then
          match cur with
          | [] => LsDone (rev_append ls []) r
          | _ => split_head r [] (rev_append cur [] :: ls) false
          end
        else LsBad
      else if b =? 13 then split_head r cur ls true
      else if b =? 10 then LsBad
      else split_head r (b :: cur) ls false
  end.

Definition is_alnum (b : byte) : bool :=
  ((65 <=? b) && (b <=? 90)) || ((97 <=? b) && (b <=? 122)) || ((48 <=? b) && (b <=? 57)).
Definition is_tchar (b : byte) : bool :=
  is_alnum b || existsb (N.eqb b) [33;35;36;37;38;39;42;43;45;46;94;95;96;124;126].
Definition is_value_char (b : byte) : bool := (b =? 9) || ((32 <=? b) && (b <=? 126)).
Definition is_sp_ht (b : byte) : bool := (b =? 32) || (b =? 9).
Definition is_dig (b : byte) : bool := (48 <=? b) && (b <=? 57).

Fixpoint split_at_byte (c : byte) (s : bytes) : option (bytes * bytes) :=
  match s with
  | [] => None
  | b :: r => if b =? c then Some ([], r)
              else match split_at_byte c r with Some (x, y) => Some (b :: x, y) | None => None end
  end.

Fixpoint trim_sp_start (s : bytes) : bytes :=
  match s with b :: r => if is_sp_ht b then trim_sp_start r else s | [] => [] end.
Definition trim_sp (s : bytes) : bytes :=
  rev_append (trim_sp_start (rev_append (trim_sp_start s) [])) [].

Definition v_http10 : bytes := [72;84;84;80;47;49;46;48].
Definition v_http11 : bytes := [72;84;84;80;47;49;46;49].

(* status line -> (version, status) *)
Definition parse_status_line (l : bytes) : option (version * N) :=
  let ver := firstn 8 l in
  let r := skipn 8 l in
  match (if bytes_eqb ver v_http11 then Some V11 else if bytes_eqb ver v_http10 then Some V10 else None) with
  | None => None
  | Some v =>
      match r with
      | sp :: d1 :: d2 :: d3 :: tail =>
          if (sp =? 32) && is_dig d1 && is_dig d2 && is_dig d3
             && match tail with
                | [] => true
                | t :: reason => (t =? 32) && forallb is_value_char reason
                end
          then Some (v, (d1 - 48) * 100 + (d2 - 48) * 10 + (d3 - 48))
          else None
      | _ => None
      end
  end.

Definition parse_header_line (l : bytes) : option header :=
  match split_at_byte 58 l with
  | None => None
  | Some (n, v) =>
      if match n with [] => false | _ => forallb is_tchar n end && forallb is_value_char v
      then Some (n, trim_sp v) else None
  end.

Fixpoint parse_header_lines (ls : list bytes) : option (list header) :=
  match ls with
  | [] => Some []
  | l :: r => match parse_header_line l with
              | None => None
              | Some h => match parse_header_lines r with Some hs => Some (h :: hs) | None => None end
              end
  end.

Definition simple_rhead (s : bytes) : rhead_res :=
  match split_head s [] [] false with
  | LsPartial => RPartial
  | LsBad => RBad EOther
  | LsDone lines rest =>
      match lines with
      | [] => RBad EOther
      | sl :: hls =>
          match parse_status_line sl with
          | None => RBad EOther
          | Some (v, st) =>
              match parse_header_lines hls with
              | None => RBad EHeader
              | Some hs => RComplete (length s - length rest) v st hs
              end
          end
      end
  end.
