(* Client/PoolWait.v — `ConnectionPool::call` (pool.rs:166) as the async fn it is: the await point.

       let permit = inner.permits.acquire_owned().await ..;     (1) may suspend: FIFO queue
       let conn = { .. map.get_mut(&key) .. pop_front loop .. }; (2) the scan, AFTER the wake-up
       .. from_pool(conn) | connector.call(req)                  (3)

   A caller that finds no permit is queued in the semaphore (tokio: FIFO, a new caller never
   overtakes a queued one); when a permit is returned the first queued caller is woken and,
   once polled, runs the scan (2) on the pool AS IT IS THEN - so it finds the connection whose
   release freed the permit.  Between any two of these steps other requests release / close /
   drop their connections: histories are arbitrary interleavings of

       WCall k now chk   `call` polled for the first time (proceeds or queues)
       WWake now chk     the first queued caller is polled again (proceeds if a permit is free)
       WOp o             Acquired::release / close / drop of an H1Connection / pool drop

   [permit_first] is the statement order read from the source (Gen/ClientTables.v,
   POOL_PERMIT_BEFORE_LOOKUP): true = the tree as it is.  With [permit_first = false] the scan
   (2) runs before (1) and its result is carried over the wait - the order for which the bound
   FAILS (refuted in PoolWaitProofs.v). *)
From AV Require Import Lib.Base Client.Pool.

(* a queued caller: its key and, when the scan ran before the wait, what the scan found *)
Record waiter := mk_waiter { w_key : key; w_carried : option (option pooled) }.

Record wpool := mk_wpool { wp_pool : pool; wp_wait : list waiter }.

Definition wpool0 (c : cfg) : wpool := mk_wpool (pool0 c) [].

Inductive wop :=
| WCall (k : key) (now : N) (chk : cid -> cstate)
| WWake (now : N) (chk : cid -> cstate)
| WOp (o : pop).

(* scan-before-permit order only: the scan at call time (removes what it pops from the deque) *)
Definition scan (k : key) (now : N) (chk : cid -> cstate) (p : pool) : pool * option pooled :=
  let '(got, rest) := pick (p_cfg p) now chk (avail_get k (p_avail p)) in
  let avail' := match avail_get k (p_avail p) with [] => p_avail p | _ => avail_set k rest (p_avail p) end in
  (mk_pool (p_cfg p) avail' (p_holders p) (p_next_cid p) (p_next_aid p) (p_sem_closed p), got).

(* ... and the rest of `call` once the permit is there, with the carried scan result *)
Definition finish_with (k : key) (now : N) (got : option pooled) (p : pool) : pool * pev :=
  if p_sem_closed p then (p, EvSemClosed)
  else if c_limit (p_cfg p) <=? permits_out p then (p, EvBlocked)
  else
    let aid := p_next_aid p in
    match got with
    | Some pc =>
        (mk_pool (p_cfg p) (p_avail p) (p_holders p ++ [mk_acq aid k (Some (p_conn pc)) (p_created pc)])
                 (p_next_cid p) (aid + 1) false, EvReused aid (p_conn pc))
    | None =>
        let c := p_next_cid p in
        (mk_pool (p_cfg p) (p_avail p) (p_holders p ++ [mk_acq aid k (Some c) now])
                 (c + 1) (aid + 1) false, EvNew aid c)
    end.

Definition is_blocked (e : pev) : bool := match e with EvBlocked => true | _ => false end.

Definition wstep (permit_first : bool) (w : wpool) (o : wop) : wpool :=
  let p := wp_pool w in
  match o with
  | WCall k now chk =>
      if permit_first then
        match wp_wait w with
        | [] => let '(p', e) := acquire k now chk p in
                if is_blocked e then mk_wpool p [mk_waiter k None] else mk_wpool p' []
        | q => mk_wpool p (q ++ [mk_waiter k None])          (* FIFO: queue behind *)
        end
      else
        let '(p1, got) := scan k now chk p in
        match wp_wait w with
        | [] => let '(p', e) := finish_with k now got p1 in
                if is_blocked e then mk_wpool p1 [mk_waiter k (Some got)] else mk_wpool p' []
        | q => mk_wpool p1 (q ++ [mk_waiter k (Some got)])
        end
  | WWake now chk =>
      match wp_wait w with
      | [] => w
      | x :: rest =>
          let '(p', e) := match w_carried x with
                          | None => acquire (w_key x) now chk p              (* scans NOW *)
                          | Some got => finish_with (w_key x) now got p     (* carried result *)
                          end in
          if is_blocked e then w else mk_wpool p' rest
      end
  | WOp o' =>
      match o' with
      | OAcquire _ _ _ => w                                  (* acquisitions go through WCall *)
      | _ => mk_wpool (fst (pstep p o')) (wp_wait w)
      end
  end.

Fixpoint run_wpool (pf : bool) (w : wpool) (ops : list wop) : wpool :=
  match ops with
  | [] => w
  | o :: r => run_wpool pf (wstep pf w o) r
  end.

Definition wop_key (o : wop) : option key :=
  match o with WCall k _ _ => Some k | _ => None end.
