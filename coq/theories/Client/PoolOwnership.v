(* Client/PoolOwnership.v — exclusive ownership of open connections in the pool model: for every
   history, no connection id occurs twice among (connections held by requests in flight ++ idle
   connections of all authorities): a connection is never handed to two acquirers and is never
   both idle and in use.  Proof by counting occurrences (every step only moves or drops ids, new
   ids are fresh). *)
From AV Require Import Lib.Base Client.Pool Client.PoolProofs.

Definition cnt (x : cid) (l : list cid) : nat := count_occ N.eq_dec l x.

Lemma cnt_app x a b : cnt x (a ++ b) = (cnt x a + cnt x b)%nat.
Proof. apply count_occ_app. Qed.
Lemma cnt_nil x : cnt x [] = 0%nat.
Proof. reflexivity. Qed.
Lemma cnt_cons x c l : cnt x (c :: l) = ((if N.eq_dec c x then 1 else 0) + cnt x l)%nat.
Proof. unfold cnt. cbn [count_occ]. destruct (N.eq_dec c x); reflexivity. Qed.

Definition conns_of (l : list pooled) : list cid := map p_conn l.

Lemma conns_of_app a b : conns_of (a ++ b) = conns_of a ++ conns_of b.
Proof. apply map_app. Qed.

(* replacing the deque of one key: what leaves, what enters *)
Lemma cnt_avail_set x k l m :
  (cnt x (idle_of (avail_set k l m)) + cnt x (conns_of (avail_get k m)) =
   cnt x (idle_of m) + cnt x (conns_of l))%nat.
Proof.
  induction m as [|[k' l'] r IH]; cbn [avail_set avail_get].
  - unfold idle_of. cbn [flat_map snd conns_of map]. rewrite app_nil_r. fold (conns_of l). rewrite cnt_nil. lia.
  - destruct (k =? k') eqn:E.
    + unfold idle_of. cbn [flat_map snd]. rewrite !cnt_app. fold (conns_of l) (conns_of l'). lia.
    + unfold idle_of in *. cbn [flat_map snd]. rewrite !cnt_app. lia.
Qed.

(* the pop_front loop only drops connections *)
Lemma cnt_pick x c now chk conns got rest :
  pick c now chk conns = (got, rest) ->
  (cnt x (conns_of rest) + match got with Some pc => cnt x [p_conn pc] | None => 0 end
   <= cnt x (conns_of conns))%nat.
Proof.
  revert got rest. induction conns as [|pc r IH]; cbn [pick]; intros got rest H.
  - inversion H; subst. cbn. lia.
  - unfold conns_of in *. cbn [map]. rewrite cnt_cons.
    destruct ((c_keep_alive c <? now - p_used pc) || (c_lifetime c <? now - p_created pc)).
    + specialize (IH _ _ H). lia.
    + destruct (chk (p_conn pc)).
      * inversion H; subst. rewrite cnt_cons, cnt_nil. lia.
      * specialize (IH _ _ H). lia.
      * specialize (IH _ _ H). lia.
Qed.

Lemma cnt_take_io x a l : (cnt x (held_of (update_acq a take_io l)) <= cnt x (held_of l))%nat.
Proof.
  induction l as [|y r IH]; [cbn; lia|].
  cbn [update_acq]. destruct (a_id y =? a); rewrite !held_of_cons, !cnt_app.
  - cbn [take_io a_io]. rewrite cnt_nil. lia.
  - lia.
Qed.

Lemma cnt_take_io_found x a l y c :
  find_acq a l = Some y -> a_io y = Some c ->
  (cnt x (held_of (update_acq a take_io l)) + cnt x [c] = cnt x (held_of l))%nat.
Proof.
  induction l as [|z r IH]; cbn [find_acq update_acq]; [discriminate|].
  destruct (a_id z =? a); intros H Hio; rewrite !held_of_cons, !cnt_app.
  - inversion H; subst z. rewrite Hio. cbn [take_io a_io]. rewrite cnt_nil. lia.
  - specialize (IH H Hio). lia.
Qed.

Lemma cnt_remove x a l : (cnt x (held_of (remove_acq a l)) <= cnt x (held_of l))%nat.
Proof.
  induction l as [|y r IH]; [cbn; lia|].
  cbn [remove_acq]. destruct (a_id y =? a); rewrite !held_of_cons, !cnt_app; lia.
Qed.

(* every id occurs at most once among the open connections, and is older than the next fresh id *)
Definition own (p : pool) : Prop :=
  forall x, (cnt x (open_conns p) <= 1)%nat /\ ((0 < cnt x (open_conns p))%nat -> x < p_next_cid p).

Lemma cnt_open x p : cnt x (open_conns p) = (cnt x (held_of (p_holders p)) + cnt x (idle_of (p_avail p)))%nat.
Proof. unfold open_conns, held_conns. fold (held_of (p_holders p)). rewrite idle_conns_eq. apply cnt_app. Qed.

Lemma pstep_own p o : own p -> own (fst (pstep p o)).
Proof.
  intros H x. destruct (H x) as [H1 H2]. rewrite cnt_open in H1, H2.
  destruct o as [k now chk|a now|a|a|]; cbn [pstep fst].
  - unfold acquire. destruct (p_sem_closed p); [rewrite cnt_open; split; assumption|].
    destruct (c_limit (p_cfg p) <=? permits_out p); [rewrite cnt_open; split; assumption|].
    destruct (pick (p_cfg p) now chk (avail_get k (p_avail p))) as [got rest] eqn:Ep.
    pose proof (cnt_pick x _ _ _ _ _ _ Ep) as Hp.
    pose proof (cnt_avail_set x k rest (p_avail p)) as Hs.
    assert (Hav : (cnt x (idle_of (match avail_get k (p_avail p) with
                                   | [] => p_avail p
                                   | _ :: _ => avail_set k rest (p_avail p)
                                   end)) + cnt x (conns_of (avail_get k (p_avail p)))
                   <= cnt x (idle_of (p_avail p)) + cnt x (conns_of rest))%nat).
    { destruct (avail_get k (p_avail p)) eqn:Eg.
      - cbn [pick] in Ep. inversion Ep; subst. cbn. lia.
      - lia. }
    destruct got as [pc|]; cbn [fst]; rewrite cnt_open; cbn [p_holders p_avail p_next_cid];
      rewrite held_of_app, cnt_app, held_of_cons; cbn [a_io held_of flat_map]; rewrite app_nil_r.
    + split; [lia|]. intro Hpos. apply H2. lia.
    + (* a fresh id *)
      rewrite cnt_cons, cnt_nil.
      destruct (N.eq_dec (p_next_cid p) x) as [E|Hne].
      * assert (cnt x (held_of (p_holders p)) + cnt x (idle_of (p_avail p)) = 0)%nat.
        { destruct (cnt x (held_of (p_holders p)) + cnt x (idle_of (p_avail p)))%nat eqn:E0; [reflexivity|].
          assert (x < p_next_cid p) by (apply H2; lia). lia. }
        split; [lia|]. intros _. lia.
      * split; [lia|]. intro Hpos. assert (x < p_next_cid p) by (apply H2; lia). lia.
  - unfold release. destruct (find_acq a (p_holders p)) as [y|] eqn:Ef; [|rewrite cnt_open; split; assumption].
    destruct (a_io y) as [c|] eqn:Eio; [|rewrite cnt_open; split; assumption].
    rewrite cnt_open. cbn [p_holders p_avail p_next_cid].
    pose proof (cnt_take_io_found x _ _ _ _ Ef Eio) as Ht.
    pose proof (cnt_avail_set x (a_key y) (avail_get (a_key y) (p_avail p) ++ [mk_pooled c now (a_created y)]) (p_avail p)) as Hs.
    rewrite conns_of_app, cnt_app in Hs. cbn [conns_of map p_conn] in Hs.
    split; [lia|]. intro Hpos. apply H2. lia.
  - unfold close. rewrite cnt_open. cbn [p_holders p_avail p_next_cid].
    pose proof (cnt_take_io x a (p_holders p)). split; [lia|]. intro Hpos. apply H2. lia.
  - unfold drop_acq. rewrite cnt_open. cbn [p_holders p_avail p_next_cid].
    pose proof (cnt_remove x a (p_holders p)). split; [lia|]. intro Hpos. apply H2. lia.
  - unfold pool_drop. rewrite cnt_open. cbn [p_holders p_avail p_next_cid idle_of flat_map]. rewrite cnt_nil.
    split; [lia|]. intro Hpos. apply H2. lia.
Qed.

Lemma own_NoDup p : own p -> NoDup (open_conns p).
Proof.
  intro H. apply (NoDup_count_occ N.eq_dec). intro x. apply (H x).
Qed.

Theorem exclusive_ownership : forall (c : cfg) (ops : list pop),
  NoDup (open_conns (run_pool (pool0 c) ops)).
Proof.
  intros c ops. apply own_NoDup.
  assert (G : forall ops q, own q -> own (run_pool q ops)).
  { induction ops0 as [|o r IH]; intros q Hq; cbn [run_pool]; [exact Hq|]. apply IH, pstep_own, Hq. }
  apply G. intro x. cbn. split; [lia|]. intro Hx. lia.
Qed.
