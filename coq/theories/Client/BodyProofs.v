(* Client/BodyProofs.v — what `ClientResponse::body()` returns, as a function of the byte stream:
   [read_body] (PlStream::poll_next over Framed::next_item over ClientPayloadCodec) computes
   [body_end] of the whole-stream semantics [pbw] of the payload decoder, however the stream is
   cut into reads.  Both variants of decode_eof (before / after fix F9). *)
From AV Require Import Lib.Base H1.Chunked H1.PayloadDec H1.Framing
  Client.ClientCodec Client.PlStream Client.RespDecProofs.

Definition nonempty (segs : list bytes) : Prop := Forall (fun s : bytes => s <> []) segs.

Definition setk (c : ccodec) (k : option kind) : ccodec :=
  mk_ccodec k (cc_conn c) (cc_head c) (cc_stream c).

Lemma pc_decode_eq c k src : cc_payload c = Some k ->
  pc_decode c src =
  match pdecode k src with
  | Ok (k', src', Some (PChunk b)) => DOk (setk c (Some k'), src', Some (Some b))
  | Ok (_, src', Some PEof) => DOk (setk c None, src', Some None)
  | Ok (k', src', None) => DOk (setk c (Some k'), src', None)
  | Err => DErr PEIo
  | Pend => DPanic
  | Pan => DPanic
  end.
Proof. intro H. unfold pc_decode, setk. rewrite H. reflexivity. Qed.

Section Body.
  Variable v : variant.

  (* how the body ends, given the whole-stream result of the payload decoder *)
  Definition body_end (ka closed : bool) (r : res (kind * bytes * bytes * bool)) : bodyres * fate :=
    match r with
    | Ok (_, _, body, true) => (BOk body, if ka then FReleased else FClosed)
    | Ok (k', _, body, false) =>
        if closed then
          (if f9_fixed v && negb (is_eof_kind k') then BErr PEIncomplete else BOk body, FClosed)
        else (BTimeout, FClosed)
    | Err => (BErr PEIo, FClosed)
    | Pan => (BPanic, FClosed)
    | Pend => (BPanic, FClosed)
    end.

  Definition bf (r : bodyres * fate * list bytes) : bodyres * fate := fst r.

  Lemma read_body_S fu c f segs closed acc :
    read_body v (S fu) c f segs closed acc =
    match pl_poll_next v c f segs closed with
    | (PlChunk b c' f', segs') => read_body v fu c' f' segs' closed (acc ++ b)
    | (PlEof ka, segs') => (BOk acc, if ka then FReleased else FClosed, segs')
    | (PlNone, segs') => (BOk acc, FClosed, segs')
    | (PlErr e, segs') => (BErr e, FClosed, segs')
    | (PlPending, segs') => (BTimeout, FClosed, segs')
    | (PlPanic, segs') => (BPanic, FClosed, segs')
    end.
  Proof. reflexivity. Qed.

  (* decode_eof of the payload codec on an exhausted buffer, decoder unfinished *)
  Lemma eof_on_empty c k acc :
    cc_payload c = Some k -> kinv k -> pbw k [] acc = Ok (k, [], acc, false) ->
    eof_ret (pc_decode_eof (f9_fixed v)) c [] =
    if f9_fixed v && negb (is_eof_kind k) then NErr PEIncomplete
    else NNone (setk c (Some k)) (mk_framed [] true true).
  Proof.
    intros Hc Hk Hp. unfold eof_ret, pc_decode_eof, deof_default.
    rewrite (pc_decode_eq c k [] Hc).
    pose proof (pdecode_ok k [] acc Hk) as Hs.
    destruct (pdecode k []) as [|[[k' b'] [[ch|]|]]| |]; cbn [pdecode_spec] in Hs.
    - contradiction.
    - destruct Hs as (_ & Hl & _). cbn [length] in Hl. lia.
    - destruct Hs as [k'' Hs]. rewrite Hp in Hs. discriminate.
    - destruct Hs as (-> & Hs). rewrite Hp in Hs. inversion Hs; subst k'.
      destruct (f9_fixed v); cbn [andb cc_payload setk]; [|reflexivity].
      destruct (is_eof_kind k); reflexivity.
    - rewrite Hp in Hs; discriminate.
    - rewrite Hp in Hs; discriminate.
  Qed.

  Lemma keep_alive_setk c k : keep_alive (setk c k) = keep_alive c.
  Proof. reflexivity. Qed.

  (* the stream continues (EOF not yet seen) *)
  Lemma read_body_run : forall n c k f segs closed acc fuel,
    cc_payload c = Some k -> kinv k -> nonempty segs ->
    f_readable f = true -> f_eof f = false ->
    (length (f_buf f) + length (concat segs) + length segs <= n)%nat -> (n + 2 <= fuel)%nat ->
    bf (read_body v fuel c f segs closed acc) =
    body_end (keep_alive c) closed (pbw k (f_buf f ++ concat segs) acc).
  Proof.
    induction n as [|n IH]; intros c k f segs closed acc fuel Hc Hk Hne Hr He Hm Hf.
    - (* nothing buffered, nothing to come *)
      destruct f as [buf rd eo]. cbn [f_buf f_readable f_eof] in *. subst rd eo.
      destruct buf; [|cbn [length] in Hm; lia]. destruct segs; [|cbn [length] in Hm; lia].
      destruct fuel as [|fu]; [lia|]. rewrite read_body_S.
      unfold pl_poll_next, pl_next. cbn [next_item pre f_readable f_eof f_buf].
      rewrite (pc_decode_eq c k [] Hc). cbn [concat app].
      pose proof (pdecode_ok k [] acc Hk) as Hs.
      destruct (pdecode k []) as [|[[k' b'] [[ch|]|]]| |] eqn:Ed; cbn [pdecode_spec] in Hs.
      + contradiction.
      + destruct Hs as (_ & Hl & _). cbn [length] in Hl. lia.
      + destruct Hs as [k'' Hs]. rewrite Hs. cbn [body_end bf fst]. rewrite keep_alive_setk. reflexivity.
      + destruct Hs as (-> & Hs). rewrite Hs. cbn [f_buf].
        assert (Hk' : kinv k') by (eapply pbw_inv; eassumption).
        assert (Hp' : pbw k' [] acc = Ok (k', [], acc, false)).
        { pose proof (pbw_app k [] [] acc) as Ha. cbn [app] in Ha. rewrite Hs in Ha. cbn [app] in Ha. symmetry; exact Ha. }
        destruct closed.
        * rewrite (eof_on_empty (setk c (Some k')) k' acc eq_refl Hk' Hp'). cbn [body_end].
          destruct (f9_fixed v && negb (is_eof_kind k')); reflexivity.
        * reflexivity.
      + rewrite Hs. reflexivity.
      + rewrite Hs. reflexivity.
    - destruct fuel as [|fu]; [lia|]. rewrite read_body_S.
      destruct f as [buf rd eo]. cbn [f_buf f_readable f_eof] in *. subst rd eo.
      unfold pl_poll_next, pl_next.
      assert (Hni : forall c0 f0, next_item pc_decode (pc_decode_eof (f9_fixed v)) c0 f0 segs closed =
                match pre pc_decode (pc_decode_eof (f9_fixed v)) c0 f0 with
                | SRet r => (r, segs)
                | SRead c' f' =>
                    match segs with
                    | [] => if closed then (eof_ret (pc_decode_eof (f9_fixed v)) c' (f_buf f'), []) else (NPending c' f', [])
                    | seg :: more =>
                        match seg with
                        | [] => (eof_ret (pc_decode_eof (f9_fixed v)) c' (f_buf f'), more)
                        | _ => next_item pc_decode (pc_decode_eof (f9_fixed v)) c' (mk_framed (f_buf f' ++ seg) true false) more closed
                        end
                    end
                end) by (intros; destruct segs; reflexivity).
      rewrite Hni. unfold pre. cbn [f_readable f_eof f_buf].
      rewrite (pc_decode_eq c k buf Hc).
      pose proof (pdecode_ok k buf acc Hk) as Hs.
      pose proof (pbw_app k buf (concat segs) acc) as Happ.
      destruct (pdecode k buf) as [|[[k' b'] [[ch|]|]]| |] eqn:Ed; cbn [pdecode_spec] in Hs.
      + contradiction.
      + (* a chunk: same stream, shorter buffer *)
        destruct Hs as (Hb & Hl & Hk').
        rewrite (IH (setk c (Some k')) k' (mk_framed b' true false) segs closed (acc ++ ch) fu eq_refl Hk' Hne eq_refl eq_refl);
          cbn [f_buf]; try lia.
        rewrite keep_alive_setk. f_equal. rewrite Happ, Hb, <- pbw_app. reflexivity.
      + destruct Hs as [k'' Hs]. rewrite Hs in Happ. rewrite Happ.
        cbn [body_end bf fst]. rewrite keep_alive_setk. reflexivity.
      + (* buffer exhausted: read *)
        destruct Hs as (-> & Hs). rewrite Hs in Happ. cbn [app] in Happ. cbn [f_buf].
        assert (Hk' : kinv k') by (eapply pbw_inv; eassumption).
        destruct segs as [|seg more].
        * cbn [concat] in *. rewrite app_nil_r.
          assert (Hp' : pbw k' [] acc = Ok (k', [], acc, false)) by (rewrite <- Happ, app_nil_r; exact Hs).
          rewrite Hs.
          destruct closed.
          -- rewrite (eof_on_empty (setk c (Some k')) k' acc eq_refl Hk' Hp'). cbn [body_end].
             destruct (f9_fixed v && negb (is_eof_kind k')); reflexivity.
          -- reflexivity.
        * inversion Hne as [|? ? Hseg Hmore]; subst.
          destruct seg as [|b0 seg0]; [congruence|].
          cbn [app].
          match goal with
          | |- bf ?X = _ =>
              change X with (read_body v (S fu) (setk c (Some k')) (mk_framed (b0 :: seg0) true false) more closed acc)
          end.
          rewrite (IH (setk c (Some k')) k' (mk_framed (b0 :: seg0) true false) more closed acc (S fu) eq_refl Hk' Hmore eq_refl eq_refl).
          -- rewrite keep_alive_setk, Happ. reflexivity.
          -- cbn [f_buf]. cbn [concat length] in Hm. rewrite app_length in Hm. cbn [length] in *. lia.
          -- lia.
      + rewrite Hs in Happ. rewrite Happ. reflexivity.
      + rewrite Hs in Happ. rewrite Happ. reflexivity.
  Qed.

  (* end of stream already seen by Framed (EOF flag set): only the buffer counts *)
  Lemma read_body_eof : forall n c k buf segs closed acc fuel,
    cc_payload c = Some k -> kinv k ->
    (length buf <= n)%nat -> (n + 2 <= fuel)%nat ->
    bf (read_body v fuel c (mk_framed buf true true) segs closed acc) =
    body_end (keep_alive c) true (pbw k buf acc).
  Proof.
    induction n as [|n IH]; intros c k buf segs closed acc fuel Hc Hk Hm Hf;
      (destruct fuel as [|fu]; [lia|]); rewrite read_body_S;
      unfold pl_poll_next, pl_next;
      (assert (Hni : next_item pc_decode (pc_decode_eof (f9_fixed v)) c (mk_framed buf true true) segs closed =
                    (eof_ret (pc_decode_eof (f9_fixed v)) c buf, segs)) by (destruct segs; reflexivity));
      rewrite Hni; clear Hni;
      unfold eof_ret, pc_decode_eof, deof_default;
      rewrite (pc_decode_eq c k buf Hc);
      pose proof (pdecode_ok k buf acc Hk) as Hs;
      destruct (pdecode k buf) as [|[[k' b'] [[ch|]|]]| |] eqn:Ed; cbn [pdecode_spec] in Hs.
    all: try contradiction.
    all: unfold body_end.
    all: try (rewrite Hs; destruct (f9_fixed v); reflexivity).
    all: try (destruct Hs as (_ & Hl & _); cbn [length] in *; lia).
    all: try (destruct Hs as [k'' Hs]; rewrite Hs; destruct (f9_fixed v); cbn [bf fst]; rewrite keep_alive_setk; reflexivity).
    all: try (destruct Hs as (-> & Hs); rewrite Hs;
              destruct (f9_fixed v); cbn [andb cc_payload setk]; [|reflexivity];
              destruct (is_eof_kind k'); reflexivity).
    destruct Hs as (Hb & Hl & Hk').
    destruct (f9_fixed v) eqn:Efx;
      (rewrite (IH (setk c (Some k')) k' b' segs closed (acc ++ ch) fu eq_refl Hk'); [|lia|lia]);
      rewrite keep_alive_setk, Hb; unfold body_end; rewrite Efx; reflexivity.
  Qed.
End Body.
