(* Client/PoolWaitProofs.v — the bound on open sockets under every interleaving of call / wake /
   release / close / drop, for the statement order of the tree (permit, then scan); and its
   failure for the other order (scan carried over the wait). *)
From AV Require Import Lib.Base Client.Pool Client.PoolProofs Client.PoolWait.

Definition wsingle_key (k : key) (ops : list wop) : Prop :=
  forall o k', In o ops -> wop_key o = Some k' -> k' = k.

Definition wait_keys (k : key) (w : wpool) : Prop :=
  forall x, In x (wp_wait w) -> w_key x = k /\ w_carried x = None.

(* permit-then-scan: every step is a step of the atomic pool model (or none) on the caller's key *)
Lemma wstep_projects k w o :
  wait_keys k w -> (forall k', wop_key o = Some k' -> k' = k) ->
  wait_keys k (wstep true w o) /\
  exists ops', single_key k ops' /\ wp_pool (wstep true w o) = run_pool (wp_pool w) ops'.
Proof.
  intros Hw Hk. destruct o as [k0 now chk|now chk|o']; cbn [wstep].
  - assert (k0 = k) by (apply Hk; reflexivity). subst k0.
    destruct (wp_wait w) as [|x q] eqn:Eq.
    + destruct (acquire k now chk (wp_pool w)) as [p' e] eqn:Ea. destruct (is_blocked e) eqn:Eb.
      * split.
        -- intros y [<-|[]]. split; reflexivity.
        -- exists []. split; [intros o k' []|reflexivity].
      * split.
        -- intros y [].
        -- exists [OAcquire k now chk]. split.
           ++ intros o k' [<-|[]] H. inversion H; reflexivity.
           ++ cbn [run_pool pstep wp_pool]. rewrite Ea. reflexivity.
    + split.
      * intros y Hy. cbn [wp_wait] in Hy. apply in_app_or in Hy as [Hy|[<-|[]]].
        -- apply Hw. rewrite Eq. exact Hy.
        -- split; reflexivity.
      * exists []. split; [intros o k' []|reflexivity].
  - destruct (wp_wait w) as [|x rest] eqn:Eq.
    + split; [exact Hw|]. exists []. split; [intros o k' []|reflexivity].
    + destruct (Hw x) as [Hx1 Hx2]; [rewrite Eq; left; reflexivity|]. rewrite Hx2, Hx1.
      destruct (acquire k now chk (wp_pool w)) as [p' e] eqn:Ea. destruct (is_blocked e) eqn:Eb.
      * split; [exact Hw|]. exists []. split; [intros o k' []|reflexivity].
      * split.
        -- intros y Hy. cbn [wp_wait] in Hy. apply Hw. rewrite Eq. right; exact Hy.
        -- exists [OAcquire k now chk]. split.
           ++ intros o k' [<-|[]] H. inversion H; reflexivity.
           ++ cbn [run_pool pstep wp_pool]. rewrite Ea. reflexivity.
  - destruct o' as [k1 n1 c1|a n1|a|a|]; cbn [wp_wait wp_pool].
    + split; [exact Hw|]. exists []. split; [intros o k' []|reflexivity].
    + split; [exact Hw|]. exists [ORelease a n1]. split; [intros o k' [<-|[]] H; discriminate H|reflexivity].
    + split; [exact Hw|]. exists [OClose a]. split; [intros o k' [<-|[]] H; discriminate H|reflexivity].
    + split; [exact Hw|]. exists [ODrop a]. split; [intros o k' [<-|[]] H; discriminate H|reflexivity].
    + split; [exact Hw|]. exists [OPoolDrop]. split; [intros o k' [<-|[]] H; discriminate H|reflexivity].
Qed.

Lemma run_pool_app ops1 : forall p ops2, run_pool p (ops1 ++ ops2) = run_pool (run_pool p ops1) ops2.
Proof. induction ops1 as [|o r IH]; intros p ops2; cbn [run_pool app]; [reflexivity|apply IH]. Qed.

Lemma run_wpool_projects k : forall ops w,
  wait_keys k w -> wsingle_key k ops ->
  exists ops', single_key k ops' /\ wp_pool (run_wpool true w ops) = run_pool (wp_pool w) ops'.
Proof.
  induction ops as [|o r IH]; intros w Hw Hk; cbn [run_wpool].
  - exists []. split; [intros o k' []|reflexivity].
  - destruct (wstep_projects k w o Hw) as [Hw' (ops1 & S1 & E1)].
    { intros k' H. eapply Hk; [left; reflexivity|exact H]. }
    destruct (IH (wstep true w o) Hw') as (ops2 & S2 & E2).
    { intros o' k' Hin. apply Hk. right; exact Hin. }
    exists (ops1 ++ ops2). split.
    + intros o' k' Hin. apply in_app_or in Hin as [Hin|Hin]; [apply S1|apply S2]; exact Hin.
    + rewrite E2, E1, run_pool_app. reflexivity.
Qed.

(* ONE AUTHORITY, the order of the tree: under every interleaving of call / wake-up / release /
   close / drop the sockets the client holds (in use + idle) never exceed the limit *)
Theorem open_limit_waiters : forall (c : cfg) (k : key) (ops : list wop),
  wsingle_key k ops ->
  lenN (open_conns (wp_pool (run_wpool true (wpool0 c) ops))) <= c_limit c.
Proof.
  intros c k ops Hk.
  destruct (run_wpool_projects k ops (wpool0 c)) as (ops' & S & E).
  - intros x [].
  - exact Hk.
  - rewrite E. cbn [wpool0 wp_pool]. apply (open_limit_single_authority c k ops' S).
Qed.

(* a caller that queued takes, when woken, the connection whose release freed the permit: limit 1,
   request A in flight, B queues, A releases keep-alive and drops its permit, B is woken: ONE socket *)
Definition all_live : cid -> cstate := fun _ => Live.
Definition wait_witness : list wop :=
  [WCall 0 0 all_live; WCall 0 1 all_live; WOp (ORelease 0 2); WOp (ODrop 0); WWake 3 all_live].

Lemma wait_witness_reuses :
  let w := run_wpool true (wpool0 (mk_cfg 1 15000 75000)) wait_witness in
  open_conns (wp_pool w) = [0] /\ wp_wait w = [] /\ permits_out (wp_pool w) = 1.
Proof. vm_compute. repeat split. Qed.

(* THE OTHER ORDER (scan before the permit, result carried over the wait) breaks the bound: the
   same history, limit 1, ends with TWO sockets (the idle one and the one B opened) *)
Lemma scan_before_permit_refuted :
  let w := run_wpool false (wpool0 (mk_cfg 1 15000 75000)) wait_witness in
  lenN (open_conns (wp_pool w)) = 2.
Proof. vm_compute. reflexivity. Qed.
