(* Client/PlStream.v — model of the read side of awc/src/client/h1proto.rs: the response-head
   loop of `send_request`, `PlStream::poll_next` with its release decision, and the body
   collector (`ReadBody` behind `ClientResponse::body()`).

   Rust                                                   Gallina
   -----------------------------------------------------  ------------------------------------
   poll_fn(|cx| pin_framed.poll_next(cx)).await            [next_item (cc_decode ..) (deof_default ..)]
     .ok_or(ConnectError::Disconnected)??                    NNone -> HErr SDisconnected,
                                                             NErr e -> HErr (SResponse e)
   (proposed fix F17) `loop { .. if 1xx && != 101 && message_type    [read_head] with [f17 = true]
     == None { continue } break head }`                     ([f17 = false]: THE TREE AS IT IS)
   match codec.message_type() { None => on_release(ka) ..} [exchange], arm MTNone
   PlStream::poll_next                                      [pl_poll_next]
       Some(Some(chunk)) => Ready(Some(Ok(chunk)))             PlChunk
       Some(None) => on_release(keep_alive); Ready(None)       PlEof keep_alive
       None => Ready(None)                                     PlNone   (no release!)
       Err(e) => Ready(Some(Err(e)))                           PlErr
   ReadBody::poll: `while let Some(chunk) = ready!(..)?`    [read_body]
   H1Connection::on_release(true) / (false) / Drop          fate FReleased / FClosed / FClosed
   SendClientRequest / ClientResponse time-out               *Timeout (the peer is silent and the
                                                             connection stays open: Pending for ever)

   A request whose response is dropped without reading the body ([read_all = false]) drops the
   PlStream with the connection in it: the socket is closed, unless the response had no payload
   (MessageType::None), in which case the connection was already released/closed at head time. *)
From AV Require Import Lib.Base H1.Chunked H1.PayloadDec H1.Framing Client.ClientCodec.

Record variant := mk_variant { f9_fixed : bool; f17_fixed : bool }.
Definition v_orig : variant := mk_variant false false.     (* THE TREE AS IT IS (findings F9, F17) *)
Definition v_fixed : variant := mk_variant true true.      (* with the two proposed patches (not applied) *)

Inductive senderr := SDisconnected | SResponse (e : perr) | STimeout | SPanic.
Inductive bodyres := BOk (b : bytes) | BErr (e : plerr) | BTimeout | BPanic.
(* what became of the connection when the exchange was over *)
Inductive fate := FReleased | FClosed.

Inductive plres :=
| PlPending
| PlChunk (b : bytes) (c : ccodec) (f : framed)
| PlEof (ka : bool)            (* PayloadItem::Eof: on_release(ka) then end of stream *)
| PlNone                       (* end of stream, nothing released *)
| PlErr (e : plerr)
| PlPanic.

Definition is_interim (h : rhead) : bool :=
  (100 <=? rh_status h) && (rh_status h <? 200) && negb (rh_status h =? 101).

Section WithParser.
  Variable hp : bytes -> rhead_res.
  Variable max_buffer_size : N.
  Variable v : variant.

  Definition head_next :=
    next_item (cc_decode hp max_buffer_size) (deof_default (cc_decode hp max_buffer_size) EIo).

  Inductive headres :=
  | HHead (h : rhead) (c : ccodec) (f : framed) (segs : list bytes)
  | HErr (e : senderr).

  (* the `let head = loop { .. }` of send_request; [fuel] bounds the number of interim heads *)
  Fixpoint read_head (fuel : nat) (c : ccodec) (f : framed) (segs : list bytes) (closed : bool)
    : headres :=
    match head_next c f segs closed with
    | (NItem h c' f', segs') =>
        if f17_fixed v && is_interim h
           && match message_type c' with MTNone => true | _ => false end
        then match fuel with
             | O => HErr SPanic
             | S fu => read_head fu c' f' segs' closed
             end
        else HHead h c' f' segs'
    | (NNone _ _, _) => HErr SDisconnected
    | (NErr e, _) => HErr (SResponse e)
    | (NPending _ _, _) => HErr STimeout
    | (NPanic, _) => HErr SPanic
    end.

  Definition pl_next := next_item pc_decode (pc_decode_eof (f9_fixed v)).

  (* PlStream::poll_next *)
  Definition pl_poll_next (c : ccodec) (f : framed) (segs : list bytes) (closed : bool)
    : plres * list bytes :=
    match pl_next c f segs closed with
    | (NItem (Some chunk) c' f', segs') => (PlChunk chunk c' f', segs')
    | (NItem None c' _, segs') => (PlEof (keep_alive c'), segs')
    | (NNone _ _, segs') => (PlNone, segs')
    | (NErr e, segs') => (PlErr e, segs')
    | (NPending _ _, segs') => (PlPending, segs')
    | (NPanic, segs') => (PlPanic, segs')
    end.

  (* ReadBody: collect chunks until the stream ends. Result: body outcome, fate of the
     connection, segments left unread in the socket. *)
  Fixpoint read_body (fuel : nat) (c : ccodec) (f : framed) (segs : list bytes) (closed : bool)
      (acc : bytes) : bodyres * fate * list bytes :=
    match fuel with
    | O => (BPanic, FClosed, segs)
    | S fu =>
        match pl_poll_next c f segs closed with
        | (PlChunk b c' f', segs') => read_body fu c' f' segs' closed (acc ++ b)
        | (PlEof ka, segs') => (BOk acc, if ka then FReleased else FClosed, segs')
        | (PlNone, segs') => (BOk acc, FClosed, segs')
        | (PlErr e, segs') => (BErr e, FClosed, segs')
        | (PlPending, segs') => (BTimeout, FClosed, segs')
        | (PlPanic, segs') => (BPanic, FClosed, segs')
        end
    end.

  Definition body_fuel (f : framed) (segs : list bytes) : nat :=
    length (f_buf f) + length (concat segs) + length segs + 3.

  Inductive outcome :=
  | OSendErr (e : senderr)
  | OResp (status : N) (body : option bodyres).      (* None: response dropped unread *)

  Record xres := mk_xres { x_out : outcome; x_fate : fate; x_rest : list bytes }.

  (* one request/response exchange on a connection whose socket will deliver [segs] *)
  Definition exchange (is_head read_all : bool) (segs : list bytes) (closed : bool) : xres :=
    let c0 := codec_after_encode is_head CKeepAlive in
    match read_head (length (concat segs)) c0 framed0 segs closed with
    | HErr e => mk_xres (OSendErr e) FClosed []
    | HHead h c f segs' =>
        match message_type c with
        | MTNone =>
            (* on_release(keep_alive); Payload::None *)
            mk_xres (OResp (rh_status h) (if read_all then Some (BOk []) else None))
                    (if keep_alive c then FReleased else FClosed) segs'
        | _ =>
            if read_all then
              let '(b, ft, rest) := read_body (body_fuel f segs') c f segs' closed [] in
              mk_xres (OResp (rh_status h) (Some b)) ft rest
            else mk_xres (OResp (rh_status h) None) FClosed segs'
        end
    end.

  (* [exchange] with the connection type of the REQUEST head as an input (force_close,
     HTTP/1.0: Close): `encode` installs it, `decode` takes only a downgrade from the peer.
     [exchange] = [exchange_ct CKeepAlive] (Client/ReqConn.v, by computation) *)
  Definition exchange_ct (req_conn : ctype) (is_head read_all : bool) (segs : list bytes) (closed : bool) : xres :=
    let c0 := codec_after_encode is_head req_conn in
    match read_head (length (concat segs)) c0 framed0 segs closed with
    | HErr e => mk_xres (OSendErr e) FClosed []
    | HHead h c f segs' =>
        match message_type c with
        | MTNone =>
            mk_xres (OResp (rh_status h) (if read_all then Some (BOk []) else None))
                    (if keep_alive c then FReleased else FClosed) segs'
        | _ =>
            if read_all then
              let '(b, ft, rest) := read_body (body_fuel f segs') c f segs' closed [] in
              mk_xres (OResp (rh_status h) (Some b)) ft rest
            else mk_xres (OResp (rh_status h) None) FClosed segs'
        end
    end.

End WithParser.
