(* Client/ClientCodec.v — model of the response side of the HTTP/1 client codec, as the code is.

   Rust                                                   Gallina
   -----------------------------------------------------  ------------------------------------
   httparse::Response (parse_response_with_uninit_headers) Section variable [hp] : bytes -> rhead_res
     Status::Partial / Complete(len) / Err                   RPartial / RComplete / RBad
   <ResponseHead as MessageType>::decode (decoder.rs:347)  [response_decode]
   MessageType::set_headers (decoder.rs:75)                H1.Framing.set_headers (shared with C01)
   ResponseHead flags CLOSE / KEEP_ALIVE / UPGRADE,         [rflags], [rh_conn_type]
     ResponseHead::conn_type()
   ClientCodecInner { payload, conn_type, flags }          [ccodec]
   Encoder::encode(Message::Item)  (what it leaves behind) [codec_after_encode]
   <ClientCodec as Decoder>::decode  (client.rs:131)       [cc_decode]
   <ClientPayloadCodec as Decoder>::decode (client.rs:171) [pc_decode]
   Decoder::decode_eof, default body (tokio-util)          [deof_default]
   ClientPayloadCodec::decode_eof                          [pc_decode_eof fixed]:
       fixed = false : THE TREE AS IT IS (no override, default body; finding F9)
       fixed = true  : the override PROPOSED in fixes/F9.proposed.patch (not applied: the
                       repository's test not_modified_spec_h1 pins the current behaviour)
   ClientCodec::message_type / keep_alive                  [message_type] / [keep_alive]
   actix_codec::Framed { read_buf, flags }                 [framed]
   Framed::next_item (framed.rs:177)                       [next_item]
   PayloadDecoder                                          H1.PayloadDec.pdecode (shared with C01)

   NOTE (observation, outside the property text): [response_decode] has no rule for the
   statuses 1xx / 204 / 304 - a `304` carrying `content-length: n` makes the client wait for n
   body bytes (confirmed on the real client: time-out).  The model follows the code.

   The socket is a list of read results: each non-empty segment is one successful
   `poll_read_buf`; when the list is exhausted the next read returns 0 bytes if [closed], and
   Poll::Pending for ever otherwise.  An empty segment is a read of 0 bytes (= end of stream). *)
From AV Require Import Lib.Base H1.Chunked H1.PayloadDec H1.Framing.

Inductive rhead_res :=
| RPartial
| RComplete (len : nat) (ver : version) (status : N) (hs : list header)
| RBad (e : perr).

(* Result<_, E> with an explicit panic (debug_assert! / unwrap) *)
Inductive dres (E A : Type) := DOk (a : A) | DErr (e : E) | DPanic.
Arguments DOk {E A}. Arguments DErr {E A}. Arguments DPanic {E A}.

(* ResponseHead flags relevant to the connection type *)
Record rflags := mk_rflags { rf_close : bool; rf_ka : bool; rf_upgrade : bool }.
Definition rflags0 := mk_rflags false false false.
Definition set_ct (c : ctype) (f : rflags) : rflags :=
  match c with
  | CClose => mk_rflags true (rf_ka f) (rf_upgrade f)
  | CKeepAlive => mk_rflags (rf_close f) true (rf_upgrade f)
  | CUpgrade => mk_rflags (rf_close f) (rf_ka f) true
  end.

Record rhead := mk_rhead { rh_version : version; rh_status : N; rh_flags : rflags }.

(* ResponseHead::conn_type() *)
Definition rh_conn_type (h : rhead) : option ctype :=
  if rf_close (rh_flags h) then Some CClose
  else if rf_ka (rh_flags h) then Some CKeepAlive
  else if rf_upgrade (rh_flags h) then Some CUpgrade
  else None.

Inductive msgtype := MTNone | MTPayload | MTStream.

Record ccodec := mk_ccodec {
  cc_payload : option kind;   (* ClientCodecInner.payload *)
  cc_conn : ctype;            (* ClientCodecInner.conn_type *)
  cc_head : bool;             (* Flags::HEAD *)
  cc_stream : bool }.         (* Flags::STREAM *)

(* state left by `encode(Message::Item((head, _)))`: HEAD flag from the method, conn_type from
   the request head (KEEP_ALIVE_ENABLED is set: ServiceConfig::default) *)
Definition codec_after_encode (is_head : bool) (req_conn : ctype) : ccodec :=
  mk_ccodec None req_conn is_head false.

Definition keep_alive (c : ccodec) : bool :=
  match cc_conn c with CKeepAlive => true | _ => false end.

Definition message_type (c : ccodec) : msgtype :=
  if cc_stream c then MTStream
  else match cc_payload c with None => MTNone | Some _ => MTPayload end.

Definition is_eof_kind (k : kind) : bool := match k with KEof => true | _ => false end.

(* error of the payload codec: PEIo = the io::Error of the chunked decoder (or "bytes remaining"),
   which `From<io::Error> for PayloadError` turns into PayloadError::Incomplete(Some(err));
   PEIncomplete = PayloadError::Incomplete(None), raised only by the decode_eof override of the proposed fix F9 *)
Inductive plerr := PEIo | PEIncomplete.

Section WithParser.
  Variable hp : bytes -> rhead_res.
  Variable max_buffer_size : N.              (* decoder.rs MAX_BUFFER_SIZE *)

  (* <ResponseHead as MessageType>::decode: Ok(None) | Ok(Some((head, payload type))) + rest *)
  Definition response_decode (src : bytes) : dres perr (option (rhead * ptype * bytes)) :=
    match hp src with
    | RBad e => DErr e
    | RPartial =>
        if max_buffer_size <=? lenN src then DErr ETooLarge else DOk None
    | RComplete len ver status hs =>
        (* StatusCode::from_u16(code).map_err(|_| ParseError::Status) *)
        if (status <? 100) || (999 <? status) then DErr EOther
        else
        match set_headers ver hs with
        | None => DErr EHeader
        | Some (length, ka, _) =>
            let fl := match ka with Some c => set_ct c rflags0 | None => rflags0 end in
            (* if length.is_zero() { length = PayloadLength::None } *)
            let length := if plen_is_zero length then LNone else length in
            let rest := skipn len src in
            match length with
            | LPayload k => DOk (Some (mk_rhead ver status fl, PTPayload k, rest))
            | _ =>
                if status =? 101 then DOk (Some (mk_rhead ver status fl, PTStream KEof, rest))
                else match ver with
                     | V10 => DOk (Some (mk_rhead ver status (set_ct CClose fl), PTPayload KEof, rest))
                     | V11 => DOk (Some (mk_rhead ver status fl, PTNone, rest))
                     end
            end
        end
    end.

  (* <ClientCodec as Decoder>::decode *)
  Definition cc_decode (c : ccodec) (src : bytes) : dres perr (ccodec * bytes * option rhead) :=
    match cc_payload c with
    | Some _ => DPanic                              (* debug_assert!(payload.is_none()) *)
    | None =>
        match response_decode src with
        | DErr e => DErr e
        | DPanic => DPanic
        | DOk None => DOk (c, src, None)
        | DOk (Some (h, pt, rest)) =>
            (* do not use peer's keep-alive *)
            let conn := match rh_conn_type h with
                        | Some CKeepAlive => cc_conn c
                        | Some ct => ct
                        | None => cc_conn c
                        end in
            let c' :=
              if negb (cc_head c) then
                match pt with
                | PTNone => mk_ccodec None conn (cc_head c) (cc_stream c)
                | PTPayload k => mk_ccodec (Some k) conn (cc_head c) (cc_stream c)
                | PTStream k => mk_ccodec (Some k) conn (cc_head c) true
                end
              else mk_ccodec None conn (cc_head c) (cc_stream c) in
            DOk (c', rest, Some h)
        end
    end.
End WithParser.

(* <ClientPayloadCodec as Decoder>::decode; item = Some chunk | None (= PayloadItem::Eof) *)
Definition pc_decode (c : ccodec) (src : bytes) : dres plerr (ccodec * bytes * option (option bytes)) :=
  match cc_payload c with
  | None => DPanic                                  (* debug_assert!(payload.is_some()) / unwrap *)
  | Some k =>
      match pdecode k src with
      | Ok (k', src', Some (PChunk b)) =>
          DOk (mk_ccodec (Some k') (cc_conn c) (cc_head c) (cc_stream c), src', Some (Some b))
      | Ok (_, src', Some PEof) =>
          DOk (mk_ccodec None (cc_conn c) (cc_head c) (cc_stream c), src', Some None)   (* payload.take() *)
      | Ok (k', src', None) =>
          DOk (mk_ccodec (Some k') (cc_conn c) (cc_head c) (cc_stream c), src', None)
      | Err => DErr PEIo
      | Pend => DPanic                              (* fuel of the chunked loop: never (proved) *)
      | Pan => DPanic
      end
  end.

(* tokio_util::codec::Decoder::decode_eof, default body *)
Definition deof_default {C I E : Type} (dec : C -> bytes -> dres E (C * bytes * option I))
    (remaining : E) (c : C) (src : bytes) : dres E (C * bytes * option I) :=
  match dec c src with
  | DOk (c', src', Some it) => DOk (c', src', Some it)
  | DOk (c', src', None) =>
      match src' with
      | [] => DOk (c', src', None)
      | _ => DErr remaining                         (* "bytes remaining on stream" *)
      end
  | DErr e => DErr e
  | DPanic => DPanic
  end.

(* ClientPayloadCodec::decode_eof: the tree has no override (fixed = false: default body);
   fixed = true is the override of fixes/F9.proposed.patch *)
Definition pc_decode_eof (fixed : bool) (c : ccodec) (src : bytes)
  : dres plerr (ccodec * bytes * option (option bytes)) :=
  if fixed then
    match pc_decode c src with
    | DOk (c', src', Some it) => DOk (c', src', Some it)
    | DOk (c', src', None) =>
        match cc_payload c' with
        | Some k => if is_eof_kind k then DOk (c', src', None) else DErr PEIncomplete
        | None => DOk (c', src', None)
        end
    | DErr e => DErr e
    | DPanic => DPanic
    end
  else deof_default pc_decode PEIo c src.

(* ---- actix_codec::Framed ------------------------------------------------------------ *)
Record framed := mk_framed { f_buf : bytes; f_readable : bool; f_eof : bool }.
Definition framed0 : framed := mk_framed [] false false.        (* Framed::new *)

Inductive nres (C I E : Type) :=
| NPending (c : C) (f : framed)        (* Poll::Pending for ever: peer silent, connection open *)
| NItem (i : I) (c : C) (f : framed)   (* Poll::Ready(Some(Ok(item))) *)
| NNone (c : C) (f : framed)           (* Poll::Ready(None) *)
| NErr (e : E)                         (* Poll::Ready(Some(Err(e))) *)
| NPanic.
Arguments NPending {C I E}. Arguments NItem {C I E}. Arguments NNone {C I E}.
Arguments NErr {C I E}. Arguments NPanic {C I E}.

Section Framed.
  Context {C I E : Type}.
  Variable dec : C -> bytes -> dres E (C * bytes * option I).
  Variable deof : C -> bytes -> dres E (C * bytes * option I).

  (* the arm `if flags.contains(EOF) { match codec.decode_eof(read_buf) .. }` *)
  Definition eof_ret (c : C) (b : bytes) : nres C I E :=
    match deof c b with
    | DOk (c', b', Some it) => NItem it c' (mk_framed b' true true)
    | DOk (c', b', None) => NNone c' (mk_framed b' true true)
    | DErr e => NErr e
    | DPanic => NPanic
    end.

  Inductive pre_res := SRet (r : nres C I E) | SRead (c : C) (f : framed).

  (* the block `if flags.contains(READABLE) { .. }` at the top of the loop *)
  Definition pre (c : C) (f : framed) : pre_res :=
    if f_readable f then
      if f_eof f then SRet (eof_ret c (f_buf f))
      else match dec c (f_buf f) with
           | DOk (c', b', Some it) => SRet (NItem it c' (mk_framed b' true false))
           | DOk (c', b', None) => SRead c' (mk_framed b' false false)   (* remove(READABLE) *)
           | DErr e => SRet (NErr e)
           | DPanic => SRet NPanic
           end
    else SRead c f.

  (* Framed::next_item. The loop iterates once per read; a read of 0 bytes sets EOF|READABLE
     and the next iteration returns from the decode_eof arm (written out as [eof_ret]). *)
  Fixpoint next_item (c : C) (f : framed) (segs : list bytes) (closed : bool)
    : nres C I E * list bytes :=
    match pre c f with
    | SRet r => (r, segs)
    | SRead c' f' =>
        match segs with
        | [] => if closed then (eof_ret c' (f_buf f'), []) else (NPending c' f', [])
        | seg :: more =>
            match seg with
            | [] => (eof_ret c' (f_buf f'), more)                     (* cnt == 0 *)
            | _ => next_item c' (mk_framed (f_buf f' ++ seg) true false) more closed
            end
        end
    end.
End Framed.
