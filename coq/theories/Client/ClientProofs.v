(* Client/ClientProofs.v — the C17 statements about one response body and about the head loop,
   derived from BodyProofs (read_body = body_end of the whole-stream semantics). *)
From AV Require Import Lib.Base H1.Chunked H1.PayloadDec H1.Framing
  Client.ClientCodec Client.PlStream Client.Pool Client.Conn Client.RespHead
  Client.RespDecProofs Client.BodyProofs.

(* the decoders a response head can install: PayloadDecoder::length(n) / chunked() / eof() *)
Definition fresh (k : kind) : Prop := (exists n, k = KLength n) \/ k = kchunked0 \/ k = KEof.

Lemma fresh_kinv k : fresh k -> kinv k.
Proof. intros [[n ->]|[->| ->]]; cbn; try exact I. unfold inv. discriminate. Qed.

(* state of the Framed when the head has just been returned by `decode`: READABLE, not EOF,
   [buf] = what was read beyond the head *)
Definition after_head (buf : bytes) : framed := mk_framed buf true false.

Lemma body_fuel_ok buf segs :
  (length buf + length (concat segs) + length segs + 2 <= body_fuel (after_head buf) segs)%nat.
Proof. unfold body_fuel, after_head, bytes. cbn [f_buf]. lia. Qed.

Definition body_result (v : variant) (c : ccodec) (buf : bytes) (segs : list bytes) (closed : bool)
  : bodyres * fate :=
  fst (read_body v (body_fuel (after_head buf) segs) c (after_head buf) segs closed []).

Lemma body_result_sem v c k buf segs closed :
  cc_payload c = Some k -> fresh k -> nonempty segs ->
  body_result v c buf segs closed =
  body_end v (keep_alive c) closed (pbw k (buf ++ concat segs) []).
Proof.
  intros Hc Hk Hne. unfold body_result.
  exact (read_body_run v _ c k (after_head buf) segs closed [] _ Hc (fresh_kinv k Hk) Hne eq_refl eq_refl
           (le_n _) (body_fuel_ok buf segs)).
Qed.

(* 1. segmentation independence *)
Lemma segmentation v c k buf segs1 segs2 closed :
  cc_payload c = Some k -> fresh k -> nonempty segs1 -> nonempty segs2 ->
  concat segs1 = concat segs2 ->
  body_result v c buf segs1 closed = body_result v c buf segs2 closed.
Proof.
  intros Hc Hk H1 H2 E. rewrite !(body_result_sem v c k) by assumption. rewrite E. reflexivity.
Qed.

(* 2. complete or error (after fix F9) *)
Lemma complete_or_error c k buf segs closed body ft :
  cc_payload c = Some k -> fresh k -> k <> KEof -> nonempty segs ->
  body_result v_fixed c buf segs closed = (BOk body, ft) ->
  exists k' rest, pbw k (buf ++ concat segs) [] = Ok (k', rest, body, true).
Proof.
  intros Hc Hk Hne Hs. rewrite (body_result_sem v_fixed c k) by assumption.
  pose proof (pbw_inv k (buf ++ concat segs) []) as Hinv.
  destruct (pbw k (buf ++ concat segs) []) as [|[[[k' r] b] [|]]| |] eqn:E; cbn [body_end v_fixed f9_fixed].
  - discriminate.
  - intro H. inversion H; subst. eexists; eexists; reflexivity.
  - destruct closed; [|discriminate].
    assert (is_eof_kind k' = false) as ->.
    { destruct k as [n|s sz|]; [| |congruence]; cbn [pbw] in E.
      - destruct (n =? 0); [discriminate|]. destruct (lenN (buf ++ concat segs) <? n); inversion E; reflexivity.
      - destruct (bw s sz (buf ++ concat segs) []) as [|[[[[? ?] ?] ?] ?]| |]; inversion E; reflexivity. }
    cbn [andb negb]. discriminate.
  - discriminate.
  - discriminate.
Qed.

(* what "finished" means for a Content-Length body: exactly the first n bytes *)
Lemma length_complete n s k' rest body :
  pbw (KLength n) s [] = Ok (k', rest, body, true) -> s = body ++ rest /\ lenN body = n.
Proof.
  cbn [pbw]. destruct (n =? 0) eqn:E0.
  - intro H; inversion H; subst. split; [reflexivity|]. unfold lenN; cbn; lia.
  - destruct (lenN s <? n) eqn:E; [discriminate|]. intro H; inversion H; subst.
    cbn [app]. split; [symmetry; apply firstn_skipn|].
    unfold lenN in *. rewrite firstn_length. lia.
Qed.

(* 3. F9: before the fix EVERY cut of a length-delimited or chunked body is a short success *)
Lemma f9_every_cut c k buf segs k' r body :
  cc_payload c = Some k -> fresh k -> nonempty segs ->
  pbw k (buf ++ concat segs) [] = Ok (k', r, body, false) ->
  body_result v_orig c buf segs true = (BOk body, FClosed).
Proof.
  intros Hc Hk Hne E. rewrite (body_result_sem v_orig c k) by assumption. rewrite E. reflexivity.
Qed.

(* ... and it is the only way the unrepaired code delivers an unfinished body *)
Lemma orig_outside_f9 c k buf segs body ft :
  cc_payload c = Some k -> fresh k -> nonempty segs ->
  body_result v_orig c buf segs false = (BOk body, ft) ->
  exists k' rest, pbw k (buf ++ concat segs) [] = Ok (k', rest, body, true).
Proof.
  intros Hc Hk Hne. rewrite (body_result_sem v_orig c k) by assumption.
  destruct (pbw k (buf ++ concat segs) []) as [|[[[k' r] b] [|]]| |]; cbn [body_end]; try discriminate.
  intro H; inversion H; subst. eexists; eexists; reflexivity.
Qed.


(* the tree as it is: an Ok body is the body of a finished decoder, or the connection ended on an
   unfinished one (for Content-Length / chunked that is finding F9, for read-to-close it is the
   legitimate end) *)
Lemma orig_complete_or_known c k buf segs closed body ft :
  cc_payload c = Some k -> fresh k -> nonempty segs ->
  body_result v_orig c buf segs closed = (BOk body, ft) ->
  (exists k' rest, pbw k (buf ++ concat segs) [] = Ok (k', rest, body, true)) \/
  (closed = true /\ exists k' r, pbw k (buf ++ concat segs) [] = Ok (k', r, body, false)).
Proof.
  intros Hc Hk Hne. rewrite (body_result_sem v_orig c k) by assumption.
  destruct (pbw k (buf ++ concat segs) []) as [|[[[k' r] b] [|]]| |]; cbn [body_end v_orig f9_fixed andb]; try discriminate.
  - intro H; inversion H; subst. left. eexists; eexists; reflexivity.
  - destruct closed; [|discriminate]. intro H; inversion H; subst. right. split; [reflexivity|]. eexists; eexists; reflexivity.
Qed.

(* ---- where an item returned by Framed::next_item comes from ------------------------------- *)
Section Origin.
  Context {C I E : Type}.
  Variable dec : C -> bytes -> dres E (C * bytes * option I).
  Variable deof : C -> bytes -> dres E (C * bytes * option I).

  Lemma eof_ret_item c b i c' f' :
    eof_ret deof c b = NItem i c' f' -> exists r, deof c b = DOk (c', r, Some i).
  Proof.
    unfold eof_ret. destruct (deof c b) as [[[c1 b1] [it|]]|e|]; intro H; inversion H; subst.
    eexists; reflexivity.
  Qed.

  Lemma next_item_origin : forall segs c f closed i c' f' segs',
    next_item dec deof c f segs closed = (NItem i c' f', segs') ->
    exists c0 b r, dec c0 b = DOk (c', r, Some i) \/ deof c0 b = DOk (c', r, Some i).
  Proof.
    induction segs as [|seg more IH]; intros c f closed i c' f' segs'; cbn [next_item]; unfold pre.
    - destruct (f_readable f).
      + destruct (f_eof f).
        * intro H; inversion H as [[H1 H2]]. apply eof_ret_item in H1 as [r Hr]. do 3 eexists; right; exact Hr.
        * destruct (dec c (f_buf f)) as [[[c1 b1] [it|]]|e|] eqn:Ed; try (intro H; discriminate H).
          -- intro H; inversion H; subst. do 3 eexists; left; exact Ed.
          -- destruct closed; [|intro H; discriminate H]. intro H; inversion H as [[H1 H2]].
             apply eof_ret_item in H1 as [r Hr]. do 3 eexists; right; exact Hr.
      + destruct closed; [|intro H; discriminate H]. intro H; inversion H as [[H1 H2]].
        apply eof_ret_item in H1 as [r Hr]. do 3 eexists; right; exact Hr.
    - assert (Hread : forall c1 f1,
                match seg with
                | [] => (eof_ret deof c1 (f_buf f1), more)
                | _ :: _ => next_item dec deof c1 (mk_framed (f_buf f1 ++ seg) true false) more closed
                end = (NItem i c' f', segs') ->
                exists c0 b r, dec c0 b = DOk (c', r, Some i) \/ deof c0 b = DOk (c', r, Some i)).
      { intros c1 f1. destruct seg.
        - intro H; inversion H as [[H1 H2]]. apply eof_ret_item in H1 as [r Hr]. do 3 eexists; right; exact Hr.
        - apply IH. }
      destruct (f_readable f).
      + destruct (f_eof f).
        * intro H; inversion H as [[H1 H2]]. apply eof_ret_item in H1 as [r Hr]. do 3 eexists; right; exact Hr.
        * destruct (dec c (f_buf f)) as [[[c1 b1] [it|]]|e|] eqn:Ed; try (intro H; discriminate H).
          -- intro H; inversion H; subst. do 3 eexists; left; exact Ed.
          -- apply Hread.
      + apply Hread.
  Qed.
End Origin.

(* 4. read-to-close bodies end, legitimately, where the connection ends *)
Lemma read_to_close v c buf segs :
  cc_payload c = Some KEof -> nonempty segs ->
  body_result v c buf segs true = (BOk (buf ++ concat segs), FClosed).
Proof.
  intros Hc Hne. rewrite (body_result_sem v c KEof) by (try assumption; right; right; reflexivity).
  cbn [pbw body_end is_eof_kind negb app]. rewrite andb_false_r. reflexivity.
Qed.

(* 5. the connection goes back to the pool only after PayloadItem::Eof on a keep-alive
      connection *)
Lemma release_only_when_done v c k buf segs closed b :
  cc_payload c = Some k -> fresh k -> nonempty segs ->
  body_result v c buf segs closed = (b, FReleased) ->
  keep_alive c = true /\
  exists k' rest body, pbw k (buf ++ concat segs) [] = Ok (k', rest, body, true) /\ b = BOk body.
Proof.
  intros Hc Hk Hne. rewrite (body_result_sem v c k) by assumption.
  destruct (pbw k (buf ++ concat segs) []) as [|[[[k' r] bd] [|]]| |]; cbn [body_end]; try discriminate.
  - destruct (keep_alive c); [|discriminate]. intro H; inversion H; subst.
    split; [reflexivity|]. do 3 eexists; split; reflexivity.
  - destruct closed; discriminate.
Qed.

(* 6. fix F17: the head handed to the caller is never an interim response *)
Section Head.
  Variable hp : bytes -> rhead_res.
  Variable maxb : N.

  Lemma no_interim_as_final : forall fuel v c f segs closed h c' f' segs',
    f17_fixed v = true ->
    read_head hp maxb v fuel c f segs closed = HHead h c' f' segs' ->
    is_interim h = true -> message_type c' <> MTNone.
  Proof.
    induction fuel as [|fu IH]; intros v c f segs closed h c' f' segs' Hv; cbn [read_head];
      destruct (head_next hp maxb c f segs closed) as [[c1 f1|h1 c1 f1|c1 f1|e|] s1]; try discriminate.
    - rewrite Hv. cbn [andb].
      destruct (is_interim h1) eqn:Ei; cbn [andb].
      + destruct (message_type c1) eqn:Em; try discriminate;
          intro H; inversion H; subst; intros _; congruence.
      + intro H; inversion H; subst. congruence.
    - rewrite Hv. cbn [andb].
      destruct (is_interim h1) eqn:Ei; cbn [andb].
      + destruct (message_type c1) eqn:Em.
        * apply IH. exact Hv.
        * intro H; inversion H; subst; intros _; congruence.
        * intro H; inversion H; subst; intros _; congruence.
      + intro H; inversion H; subst. congruence.
  Qed.

  (* every head the codec returns carries a status the tokenizer produced *)
  Lemma cc_decode_status c b c' r h :
    cc_decode hp maxb c b = DOk (c', r, Some h) ->
    exists len ver hs, hp b = RComplete len ver (rh_status h) hs.
  Proof.
    unfold cc_decode, response_decode.
    destruct (cc_payload c); [discriminate|].
    destruct (hp b) as [|len ver st hs|e] eqn:Eh.
    - destruct (maxb <=? lenN b); discriminate.
    - destruct ((st <? 100) || (999 <? st)); [discriminate|].
      destruct (set_headers ver hs) as [[[pl ka] ex]|]; [|discriminate].
      destruct (if plen_is_zero pl then LNone else pl);
        try (destruct (st =? 101); [|destruct ver]);
        intro H; inversion H; subst; cbn [rh_status]; do 3 eexists; reflexivity.
    - discriminate.
  Qed.

  (* the peer sends no interim head: no buffer the client ever tokenizes is a 1xx (other than
     101) head *)
  Definition no_interim_heads : Prop :=
    forall b len ver st hs, hp b = RComplete len ver st hs ->
      (100 <=? st) && (st <? 200) && negb (st =? 101) = false.

  Lemma head_next_status c f segs closed h c' f' segs' :
    head_next hp maxb c f segs closed = (NItem h c' f', segs') ->
    exists b len ver hs, hp b = RComplete len ver (rh_status h) hs.
  Proof.
    intro H. unfold head_next in H. apply next_item_origin in H as (c0 & b & r & [Hd|Hd]).
    - apply cc_decode_status in Hd as (len & ver & hs & Hd). eauto.
    - unfold deof_default in Hd.
      destruct (cc_decode hp maxb c0 b) as [[[c1 b1] [it|]]|e|] eqn:Ed; try discriminate.
      + inversion Hd; subst. apply cc_decode_status in Ed as (len & ver & hs & Ed). eauto.
      + destruct b1; discriminate.
  Qed.

  (* outside the class of F17 the head returned is final, on the tree as it is (and on any variant) *)
  Lemma no_interim_outside_known : forall fuel v c f segs closed h c' f' segs',
    no_interim_heads ->
    read_head hp maxb v fuel c f segs closed = HHead h c' f' segs' ->
    is_interim h = false.
  Proof.
    intros fuel v c f segs closed h c' f' segs' Hn.
    assert (G : forall h1 c1 f1 s1, head_next hp maxb c f segs closed = (NItem h1 c1 f1, s1) -> is_interim h1 = false).
    { intros h1 c1 f1 s1 E. apply head_next_status in E as (b & len & ver & hs & E).
      unfold is_interim. eapply Hn; exact E. }
    destruct fuel; cbn [read_head];
      destruct (head_next hp maxb c f segs closed) as [[c1 f1|h1 c1 f1|c1 f1|e|] s1] eqn:E; try discriminate;
      rewrite (G _ _ _ _ eq_refl), andb_false_r; cbn [andb];
      intro H; inversion H; subst; apply (G _ _ _ _ eq_refl).
  Qed.
End Head.

(* F17 on the unrepaired code: `103` is returned as the final response of request 1 and the real
   response of request 1 is delivered to request 2 (same connection, sequential reuse) *)
Definition hex103 : bytes :=   (* "HTTP/1.1 103 Early Hints\r\n\r\n" *)
  [72;84;84;80;47;49;46;49;32;49;48;51;32;69;97;114;108;121;32;72;105;110;116;115;13;10;13;10].
Definition resp_first : bytes :=   (* "HTTP/1.1 200 OK\r\ncontent-length: 5\r\n\r\nFIRST" *)
  [72;84;84;80;47;49;46;49;32;50;48;48;32;79;75;13;10;99;111;110;116;101;110;116;45;108;101;110;103;116;104;58;32;53;13;10;13;10;70;73;82;83;84].
Definition resp_second : bytes :=  (* "HTTP/1.1 200 OK\r\ncontent-length: 6\r\n\r\nSECOND" *)
  [72;84;84;80;47;49;46;49;32;50;48;48;32;79;75;13;10;99;111;110;116;101;110;116;45;108;101;110;103;116;104;58;32;54;13;10;13;10;83;69;67;79;78;68].
Definition body_first : bytes := [70;73;82;83;84].
Definition body_second : bytes := [83;69;67;79;78;68].

(* the peer answers request 1 with `103` and, once it has seen a further request, `200 FIRST`;
   request 2 is meant to be answered by `200 SECOND` *)
Definition f17_script : list ev := [EW; ED hex103; EW; ED resp_first; EW; ED resp_second].

Lemma f17_refutes :
  conn_run simple_rhead 131072 v_orig [(false, true); (false, true)] f17_script =
  [OResp 103 (Some (BOk [])); OResp 200 (Some (BOk body_first))].
Proof. vm_compute. reflexivity. Qed.

Lemma f17_fixed_witness :
  conn_run simple_rhead 131072 v_fixed [(false, true); (false, true)] f17_script = [OSendErr STimeout].
Proof. vm_compute. reflexivity. Qed.

(* interim and final response in one segment: the repaired client returns the final one *)
Lemma f17_fixed_same_segment :
  conn_run simple_rhead 131072 v_fixed [(false, true); (false, true)]
    [EW; ED (hex103 ++ resp_first); EW; ED resp_second] =
  [OResp 200 (Some (BOk body_first)); OResp 200 (Some (BOk body_second))].
Proof. vm_compute. reflexivity. Qed.
