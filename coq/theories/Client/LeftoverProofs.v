(* Client/LeftoverProofs.v — no leftovers.
   (A) [no_leftovers_blocks]: on a connection reused sequentially, exchange k reads exactly the
       data the peer sent between its k-th and (k+1)-th wait-for-request, and nothing else; it is
       sent on the connection only if exchange k-1 released it and the pool's check found nothing
       to read.  Structural: every tokenizer, every variant, early-dropped bodies included.
   (B) [exchange_segmentation]: under prefix-stability laws of the head tokenizer ([hp_laws]) and
       for the tree as it is (no interim-head loop: [f17_fixed v = false]) the outcome and the
       fate of a whole exchange (head + body) are a function of the concatenated byte stream
       ([exchange_sem]) - the head-level counterpart of BodyProofs.read_body_run.
   (A)+(B) = [no_leftovers]: outcome k is [exchange_sem] of the bytes of response block k. *)
From AV Require Import Lib.Base H1.Chunked H1.PayloadDec H1.Framing
  Client.ClientCodec Client.PlStream Client.Pool Client.Conn
  Client.RespDecProofs Client.BodyProofs Client.ClientProofs.

Definition block := list bytes.          (* the data segments of one response *)

(* the peer: wait for a request, send block 1, wait, send block 2, ...; finally close or not *)
Fixpoint script (blocks : list block) (final_close : bool) : list ev :=
  match blocks with
  | [] => if final_close then [EC] else []
  | b :: r => EW :: map ED b ++ script r final_close
  end.

Definition closed_after (later : list block) (final_close : bool) : bool :=
  match later with [] => final_close | _ => false end.

Lemma leading_data_script b r fc : leading_data (map ED b ++ script r fc) = (b, script r fc).
Proof.
  induction b as [|s b IH]; cbn [map app leading_data].
  - destruct r; [destruct fc|]; reflexivity.
  - rewrite IH. reflexivity.
Qed.

Lemma closed_script r fc :
  match script r fc with EC :: _ => true | _ => false end = closed_after r fc.
Proof. destruct r; [destruct fc|]; reflexivity. Qed.

Section A.
  Variable hp : bytes -> rhead_res.
  Variable maxb : N.
  Variable v : variant.

  (* what each request is owed: the exchange run on ITS block alone *)
  Fixpoint intended (reqs : list (bool * bool)) (blocks : list block) (fc : bool) : list outcome :=
    match reqs, blocks with
    | (h, r) :: reqs', b :: blocks' =>
        x_out (exchange hp maxb v h r b (closed_after blocks' fc)) :: intended reqs' blocks' fc
    | _, _ => []
    end.

  Theorem no_leftovers_blocks : forall reqs blocks fc,
    (length reqs <= length blocks)%nat ->
    exists n, conn_run hp maxb v reqs (script blocks fc) = firstn n (intended reqs blocks fc).
  Proof.
    induction reqs as [|[h r] reqs IH]; intros blocks fc Hl.
    - exists 0%nat. reflexivity.
    - destruct blocks as [|b bl]; [cbn [length] in Hl; lia|].
      cbn [conn_run script]. unfold conn_exchange. cbn [remove_first_W].
      rewrite leading_data_script, closed_script.
      set (xr := exchange hp maxb v h r b (closed_after bl fc)).
      destruct (x_fate xr).
      + destruct (x_rest xr) as [|s rest] eqn:Er.
        * cbn [map app].
          destruct (conn_state (script bl fc)) eqn:Ecs.
          -- destruct (IH bl fc ltac:(cbn [length] in Hl; lia)) as [n Hn].
             exists (S n). cbn [intended firstn]. fold xr. rewrite Hn. reflexivity.
          -- exists 1%nat. cbn [intended firstn]. fold xr. destruct (intended reqs bl fc); reflexivity.
          -- exists 1%nat. cbn [intended firstn]. fold xr. destruct (intended reqs bl fc); reflexivity.
        * (* unread data in the socket: Tainted, the connection is not reused *)
          cbn [map app conn_state].
          exists 1%nat. cbn [intended firstn]. fold xr. destruct (intended reqs bl fc); reflexivity.
      + exists 1%nat. cbn [intended firstn]. fold xr. destruct (intended reqs bl fc); reflexivity.
  Qed.
End A.

(* ---- (B) the whole exchange as a function of the byte stream ------------------------------ *)
Record hp_laws (hp : bytes -> rhead_res) : Prop := mk_hp_laws {
  (* a complete head stays the same head when more bytes follow, and lies inside the buffer *)
  hp_complete_ext : forall b x len ver st hs,
    hp b = RComplete len ver st hs -> (len <= length b)%nat /\ hp (b ++ x) = RComplete len ver st hs;
  (* a rejected buffer stays rejected *)
  hp_bad_ext : forall b x e, hp b = RBad e -> hp (b ++ x) = RBad e;
  (* nothing is not a head *)
  hp_nil : hp [] = RPartial }.

Definition codec_of (c : ccodec) (h : rhead) (pt : ptype) : ccodec :=
  let conn := match rh_conn_type h with
              | Some CKeepAlive => cc_conn c
              | Some ct => ct
              | None => cc_conn c
              end in
  if negb (cc_head c) then
    match pt with
    | PTNone => mk_ccodec None conn (cc_head c) (cc_stream c)
    | PTPayload k => mk_ccodec (Some k) conn (cc_head c) (cc_stream c)
    | PTStream k => mk_ccodec (Some k) conn (cc_head c) true
    end
  else mk_ccodec None conn (cc_head c) (cc_stream c).

Definition pt_fresh (pt : ptype) : Prop :=
  match pt with PTNone => True | PTPayload k | PTStream k => fresh k end.

Section B.
  Variable hp : bytes -> rhead_res.
  Variable maxb : N.
  Variable v : variant.
  Hypothesis laws : hp_laws hp.
  Hypothesis Hv : f17_fixed v = false.

  Lemma cc_decode_eq c src : cc_payload c = None ->
    cc_decode hp maxb c src =
    match response_decode hp maxb src with
    | DErr e => DErr e
    | DPanic => DPanic
    | DOk None => DOk (c, src, None)
    | DOk (Some (h, pt, rest)) => DOk (codec_of c h pt, rest, Some h)
    end.
  Proof. intro H. unfold cc_decode, codec_of. rewrite H. reflexivity. Qed.

  Lemma response_decode_fresh src h pt rest :
    response_decode hp maxb src = DOk (Some (h, pt, rest)) -> pt_fresh pt.
  Proof.
    unfold response_decode. destruct (hp src) as [|len ver st hs|e].
    - destruct (maxb <=? lenN src); discriminate.
    - destruct ((st <? 100) || (999 <? st)); [discriminate|].
      unfold set_headers. destruct (headers_fold ver hacc0 hs) as [a|]; [|discriminate].
      unfold plen_of.
      destruct (h_chunked a); [|destruct (h_ws a); [|destruct (h_cl a) as [n|]]];
        cbn [plen_is_zero];
        repeat match goal with
        | |- context [match ?n with 0 => _ | N.pos _ => _ end] => destruct n
        | |- context [if ?c then _ else _] => destruct c
        | |- context [match ?vv with V10 => _ | V11 => _ end] => destruct vv
        end;
        intro H; inversion H; subst; cbn [pt_fresh]; try exact I;
        try (right; left; reflexivity); try (right; right; reflexivity); try (left; eexists; reflexivity).
    - discriminate.
  Qed.

  Lemma response_decode_some_ext b x h pt rest :
    response_decode hp maxb b = DOk (Some (h, pt, rest)) ->
    response_decode hp maxb (b ++ x) = DOk (Some (h, pt, rest ++ x)).
  Proof.
    unfold response_decode. destruct (hp b) as [|len ver st hs|e] eqn:E.
    - destruct (maxb <=? lenN b); discriminate.
    - destruct (hp_complete_ext hp laws b x len ver st hs E) as [Hlen ->].
      assert (Hsk : skipn len (b ++ x) = skipn len b ++ x).
      { rewrite skipn_app. replace (len - length b)%nat with 0%nat by lia. reflexivity. }
      rewrite Hsk.
      destruct ((st <? 100) || (999 <? st)); [discriminate|].
      destruct (set_headers ver hs) as [[[pl ka] ex]|]; [|discriminate].
      destruct (if plen_is_zero pl then LNone else pl);
        try (destruct (st =? 101); [|destruct ver]);
        intro H; inversion H; subst; reflexivity.
    - discriminate.
  Qed.

  Lemma response_decode_err_ext b x e :
    lenN (b ++ x) < maxb ->
    response_decode hp maxb b = DErr e -> response_decode hp maxb (b ++ x) = DErr e.
  Proof.
    intro Hlen. unfold response_decode. destruct (hp b) as [|len ver st hs|e'] eqn:E.
    - destruct (maxb <=? lenN b) eqn:Em; [|discriminate].
      unfold lenN in *. rewrite app_length in Hlen. lia.
    - destruct (hp_complete_ext hp laws b x len ver st hs E) as [_ ->].
      destruct ((st <? 100) || (999 <? st)); [intro H; exact H|].
      destruct (set_headers ver hs) as [[[pl ka] ex]|]; [|intro H; exact H].
      destruct (if plen_is_zero pl then LNone else pl);
        try (destruct (st =? 101); [|destruct ver]); discriminate.
    - rewrite (hp_bad_ext hp laws b x e' E). intro H; exact H.
  Qed.

  Lemma response_decode_nil : 0 < maxb -> response_decode hp maxb [] = DOk None.
  Proof.
    intro H. unfold response_decode. rewrite (hp_nil hp laws).
    destruct (maxb <=? lenN (@nil N)) eqn:E; [unfold lenN in E; cbn in E; lia|reflexivity].
  Qed.

  (* what the first `poll_next` of send_request returns, as a function of the whole stream *)
  Definition head_spec (c : ccodec) (s : bytes) (closed : bool)
      (r : nres ccodec rhead perr * list bytes) : Prop :=
    match response_decode hp maxb s with
    | DOk (Some (h, pt, rest)) =>
        exists f' segs', r = (NItem h (codec_of c h pt) f', segs') /\
          f_readable f' = true /\ nonempty segs' /\
          ((f_eof f' = false /\ f_buf f' ++ concat segs' = rest) \/
           (f_eof f' = true /\ closed = true /\ f_buf f' = rest))
    | DErr e => fst r = NErr e
    | DOk None =>
        if closed then
          match s with
          | [] => exists c' f', fst r = NNone c' f'
          | _ => fst r = NErr EIo
          end
        else exists c' f', fst r = NPending c' f'
    | DPanic => True
    end.

  Lemma head_at_eof c buf :
    cc_payload c = None ->
    head_spec c buf true
      (eof_ret (deof_default (cc_decode hp maxb) EIo) c buf, @nil bytes).
  Proof.
    intro Hc. unfold head_spec, eof_ret, deof_default. rewrite (cc_decode_eq c buf Hc).
    destruct (response_decode hp maxb buf) as [[[[h pt] rest]|]|e|] eqn:E.
    - exists (mk_framed rest true true), []. split; [reflexivity|]. split; [reflexivity|].
      split; [constructor|]. right. repeat split.
    - destruct buf; [do 2 eexists; reflexivity|reflexivity].
    - reflexivity.
    - exact I.
  Qed.

  Lemma head_next_spec : forall segs c buf rd closed,
    cc_payload c = None -> nonempty segs ->
    lenN (buf ++ concat segs) < maxb ->
    (rd = false -> response_decode hp maxb buf = DOk None) ->
    head_spec c (buf ++ concat segs) closed
      (head_next hp maxb c (mk_framed buf rd false) segs closed).
  Proof.
    induction segs as [|seg more IH]; intros c buf rd closed Hc Hne Hlen Hrd.
    - cbn [concat] in *. rewrite app_nil_r in *.
      unfold head_next. cbn [next_item]. unfold pre. cbn [f_readable f_eof f_buf].
      assert (Hnone : response_decode hp maxb buf = DOk None ->
                head_spec c buf closed
                  (if closed then (eof_ret (deof_default (cc_decode hp maxb) EIo) c buf, [])
                   else (NPending c (mk_framed buf false false), []))).
      { intro E. destruct closed; [apply head_at_eof; exact Hc|].
        unfold head_spec. rewrite E. do 2 eexists; reflexivity. }
      destruct rd.
      + rewrite (cc_decode_eq c buf Hc).
        destruct (response_decode hp maxb buf) as [[[[h pt] rest]|]|e|] eqn:E.
        * unfold head_spec. rewrite E. exists (mk_framed rest true false), [].
          split; [reflexivity|]. split; [reflexivity|]. split; [constructor|].
          left. split; [reflexivity|]. cbn [f_buf concat]. apply app_nil_r.
        * cbn [f_buf]. apply Hnone. reflexivity.
        * unfold head_spec. rewrite E. reflexivity.
        * unfold head_spec. rewrite E. exact I.
      + cbn [f_buf]. apply Hnone. apply Hrd. reflexivity.
    - inversion Hne as [|? ? Hseg Hmore]; subst.
      destruct seg as [|b0 seg0]; [congruence|].
      cbn [concat] in *.
      assert (Hread : head_spec c (buf ++ (b0 :: seg0) ++ concat more) closed
                (head_next hp maxb c (mk_framed (buf ++ b0 :: seg0) true false) more closed)).
      { rewrite app_assoc. apply IH; try assumption.
        - rewrite <- app_assoc. exact Hlen.
        - discriminate. }
      unfold head_next in *. cbn [next_item]. unfold pre. cbn [f_readable f_eof f_buf].
      destruct rd; [|exact Hread].
      rewrite (cc_decode_eq c buf Hc).
      destruct (response_decode hp maxb buf) as [[[[h pt] rest]|]|e|] eqn:E.
      + unfold head_spec. rewrite (response_decode_some_ext _ ((b0 :: seg0) ++ concat more) _ _ _ E).
        exists (mk_framed rest true false), ((b0 :: seg0) :: more).
        split; [reflexivity|]. split; [reflexivity|]. split; [exact Hne|].
        left. split; reflexivity.
      + cbn [f_buf]. exact Hread.
      + unfold head_spec. rewrite (response_decode_err_ext _ _ _ Hlen E). reflexivity.
      + (* debug_assert: payload is None here, cc_decode does not panic *)
        unfold response_decode in E. destruct (hp buf) as [|len ver st hs|e'].
        * destruct (maxb <=? lenN buf); discriminate.
        * destruct ((st <? 100) || (999 <? st)); [discriminate|].
          destruct (set_headers ver hs) as [[[pl ka] ex]|]; [|discriminate].
          destruct (if plen_is_zero pl then LNone else pl);
            try (destruct (st =? 101); [|destruct ver]); discriminate.
        * discriminate.
  Qed.

  (* the whole exchange on the whole stream *)
  Definition exchange_sem (is_head read_all : bool) (s : bytes) (closed : bool) : outcome * fate :=
    let c0 := codec_after_encode is_head CKeepAlive in
    match response_decode hp maxb s with
    | DErr e => (OSendErr (SResponse e), FClosed)
    | DPanic => (OSendErr SPanic, FClosed)
    | DOk None =>
        (OSendErr (if closed then match s with [] => SDisconnected | _ => SResponse EIo end
                   else STimeout), FClosed)
    | DOk (Some (h, pt, rest)) =>
        let c := codec_of c0 h pt in
        match cc_payload c with
        | None => (OResp (rh_status h) (if read_all then Some (BOk []) else None),
                   if keep_alive c then FReleased else FClosed)
        | Some k =>
            if read_all then
              (OResp (rh_status h) (Some (fst (body_end v (keep_alive c) closed (pbw k rest [])))),
               snd (body_end v (keep_alive c) closed (pbw k rest [])))
            else (OResp (rh_status h) None, FClosed)
        end
    end.

  Lemma read_head_orig fuel c f segs closed :
    read_head hp maxb v fuel c f segs closed =
    match head_next hp maxb c f segs closed with
    | (NItem h c' f', segs') => HHead h c' f' segs'
    | (NNone _ _, _) => HErr SDisconnected
    | (NErr e, _) => HErr (SResponse e)
    | (NPending _ _, _) => HErr STimeout
    | (NPanic, _) => HErr SPanic
    end.
  Proof.
    destruct fuel; cbn [read_head];
      destruct (head_next hp maxb c f segs closed) as [[c1 f1|h1 c1 f1|c1 f1|e|] s1];
      try reflexivity; rewrite Hv; reflexivity.
  Qed.

  Lemma message_type_codec_of is_head h pt :
    pt_fresh pt ->
    let c := codec_of (codec_after_encode is_head CKeepAlive) h pt in
    (cc_payload c = None /\ message_type c = MTNone) \/
    (exists k, cc_payload c = Some k /\ fresh k /\ message_type c <> MTNone).
  Proof.
    intro Hf. unfold codec_of, codec_after_encode. cbn [cc_head cc_conn cc_stream].
    destruct is_head; cbn [negb].
    - left. split; reflexivity.
    - destruct pt as [|k|k]; cbn [pt_fresh] in Hf.
      + left. split; reflexivity.
      + right. exists k. repeat split; try assumption. unfold message_type. cbn. discriminate.
      + right. exists k. repeat split; try assumption. unfold message_type. cbn. discriminate.
  Qed.

  Theorem exchange_is_sem : forall is_head read_all segs closed,
    nonempty segs -> lenN (concat segs) < maxb ->
    let xr := exchange hp maxb v is_head read_all segs closed in
    (x_out xr, x_fate xr) = exchange_sem is_head read_all (concat segs) closed.
  Proof.
    intros is_head read_all segs closed Hne Hlen. cbn zeta.
    unfold exchange, exchange_sem. rewrite read_head_orig.
    set (c0 := codec_after_encode is_head CKeepAlive).
    assert (Hmax : 0 < maxb) by lia.
    pose proof (head_next_spec segs c0 [] false closed eq_refl Hne Hlen
                  (fun _ => response_decode_nil Hmax)) as Hs.
    unfold framed0. cbn [app] in Hs. unfold head_spec in Hs.
    destruct (response_decode hp maxb (concat segs)) as [[[[h pt] rest]|]|e|] eqn:E.
    - destruct Hs as (f' & segs' & -> & Hr & Hne' & Hst).
      pose proof (response_decode_fresh _ _ _ _ E) as Hpf.
      destruct (message_type_codec_of is_head h pt Hpf) as [[Hp Hm]|(k & Hp & Hk & Hm)];
        fold c0 in Hp, Hm; rewrite Hp.
      + rewrite Hm. reflexivity.
      + destruct (message_type (codec_of c0 h pt)) eqn:Em; [congruence| |];
          (destruct read_all; [|reflexivity]);
          (destruct (read_body v (body_fuel f' segs') (codec_of c0 h pt) f' segs' closed [])
             as [[b ft] rs] eqn:Erb;
           cbn [x_out x_fate];
           assert (Hbf : (b, ft) = body_end v (keep_alive (codec_of c0 h pt)) closed (pbw k rest []));
           [ destruct f' as [fb frd feo]; cbn [f_readable f_eof f_buf] in *; subst frd;
             destruct Hst as [[-> Hrest]|(-> & -> & Hrest)];
             [ pose proof (read_body_run v (length fb + length (concat segs') + length segs')%nat
                             (codec_of c0 h pt) k (mk_framed fb true false) segs' closed []
                             (body_fuel (mk_framed fb true false) segs')
                             Hp (fresh_kinv k Hk) Hne' eq_refl eq_refl (le_n _)
                             ltac:(unfold body_fuel, bytes; cbn [f_buf]; lia)) as Hb;
               unfold bf in Hb; rewrite Erb in Hb; cbn [fst f_buf] in Hb; rewrite Hrest in Hb; exact Hb
             | pose proof (read_body_eof v (length fb) (codec_of c0 h pt) k fb segs' true [] (body_fuel (mk_framed fb true true) segs')
                             Hp (fresh_kinv k Hk) (le_n _)
                             ltac:(unfold body_fuel, bytes; cbn [f_buf]; lia)) as Hb;
               unfold bf in Hb; rewrite Erb in Hb; cbn [fst] in Hb; rewrite Hrest in Hb; exact Hb ]
           | rewrite <- Hbf; reflexivity ]).
    - destruct closed.
      + destruct (concat segs).
        * destruct Hs as (c' & f' & Hs).
          destruct (head_next hp maxb c0 (mk_framed [] false false) segs true) as [r s1]. cbn [fst] in Hs. subst r. reflexivity.
        * destruct (head_next hp maxb c0 (mk_framed [] false false) segs true) as [r s1]. cbn [fst] in Hs. subst r. reflexivity.
      + destruct Hs as (c' & f' & Hs).
        destruct (head_next hp maxb c0 (mk_framed [] false false) segs false) as [r s1]. cbn [fst] in Hs. subst r. reflexivity.
    - destruct (head_next hp maxb c0 (mk_framed [] false false) segs closed) as [r s1]. cbn [fst] in Hs. subst r. reflexivity.
    - (* response_decode never panics *)
      exfalso. unfold response_decode in E. destruct (hp (concat segs)) as [|len ver st hs|e'].
      + destruct (maxb <=? lenN (concat segs)); discriminate.
      + destruct ((st <? 100) || (999 <? st)); [discriminate|].
        destruct (set_headers ver hs) as [[[pl ka] ex]|]; [|discriminate].
        destruct (if plen_is_zero pl then LNone else pl);
          try (destruct (st =? 101); [|destruct ver]); discriminate.
      + discriminate.
  Qed.

  (* head + body: any two segmentations of the same bytes give the same outcome and fate *)
  Corollary exchange_segmentation : forall is_head read_all segs1 segs2 closed,
    nonempty segs1 -> nonempty segs2 -> concat segs1 = concat segs2 ->
    lenN (concat segs1) < maxb ->
    let x1 := exchange hp maxb v is_head read_all segs1 closed in
    let x2 := exchange hp maxb v is_head read_all segs2 closed in
    x_out x1 = x_out x2 /\ x_fate x1 = x_fate x2.
  Proof.
    intros is_head read_all segs1 segs2 closed H1 H2 E Hl. cbn zeta.
    pose proof (exchange_is_sem is_head read_all segs1 closed H1 Hl) as A1.
    pose proof (exchange_is_sem is_head read_all segs2 closed H2 ltac:(rewrite <- E; exact Hl)) as A2.
    cbn zeta in A1, A2. rewrite E in A1. rewrite <- A2 in A1. inversion A1. split; reflexivity.
  Qed.

  (* (A)+(B): the response returned for request k on a reused connection is the peer's k-th
     response as framed on the wire - a function of the bytes of block k alone *)
  Fixpoint owed (reqs : list (bool * bool)) (blocks : list block) (fc : bool) : list outcome :=
    match reqs, blocks with
    | (h, r) :: reqs', b :: blocks' =>
        fst (exchange_sem h r (concat b) (closed_after blocks' fc)) :: owed reqs' blocks' fc
    | _, _ => []
    end.

  Definition blocks_ok (blocks : list block) : Prop :=
    Forall (fun b : block => nonempty b /\ lenN (concat b) < maxb) blocks.

  Lemma intended_owed : forall reqs blocks fc,
    blocks_ok blocks -> intended hp maxb v reqs blocks fc = owed reqs blocks fc.
  Proof.
    induction reqs as [|[h r] reqs IH]; intros blocks fc Hok; [reflexivity|].
    destruct blocks as [|b bl]; [reflexivity|].
    inversion Hok as [|? ? [Hb Hl] Hbl]; subst.
    cbn [intended owed]. rewrite (IH bl fc Hbl). f_equal.
    pose proof (exchange_is_sem h r b (closed_after bl fc) Hb Hl) as A. cbn zeta in A.
    rewrite <- A. reflexivity.
  Qed.

  Theorem no_leftovers : forall reqs blocks fc,
    blocks_ok blocks -> (length reqs <= length blocks)%nat ->
    exists n, conn_run hp maxb v reqs (script blocks fc) = firstn n (owed reqs blocks fc).
  Proof.
    intros reqs blocks fc Hok Hl.
    destruct (no_leftovers_blocks hp maxb v reqs blocks fc Hl) as [n Hn].
    exists n. rewrite Hn, (intended_owed reqs blocks fc Hok). reflexivity.
  Qed.
End B.

(* the status of what an exchange is owed comes from a head the tokenizer accepted on the block *)
Lemma response_decode_status hp maxb s h pt rest :
  response_decode hp maxb s = DOk (Some (h, pt, rest)) ->
  exists len ver hs, hp s = RComplete len ver (rh_status h) hs.
Proof.
  unfold response_decode. destruct (hp s) as [|len ver st hs|e].
  - destruct (maxb <=? lenN s); discriminate.
  - destruct ((st <? 100) || (999 <? st)); [discriminate|].
    destruct (set_headers ver hs) as [[[pl ka] ex]|]; [|discriminate].
    destruct (if plen_is_zero pl then LNone else pl);
      try (destruct (st =? 101); [|destruct ver]);
      intro H; inversion H; subst; cbn [rh_status]; do 3 eexists; reflexivity.
  - discriminate.
Qed.

Lemma exchange_sem_status hp maxb v is_head read_all s closed st b :
  fst (exchange_sem hp maxb v is_head read_all s closed) = OResp st b ->
  exists len ver hs, hp s = RComplete len ver st hs.
Proof.
  unfold exchange_sem.
  destruct (response_decode hp maxb s) as [[[[h pt] rest]|]|e|] eqn:E; cbn [fst]; try discriminate.
  apply response_decode_status in E as (len & ver & hs & E).
  destruct (cc_payload _); [destruct read_all|]; cbn [fst]; intro H; inversion H; subst; eauto.
Qed.

(* outside the class of F17 what is owed is a final response *)
Lemma owed_final hp maxb v is_head read_all s closed st b :
  no_interim_heads hp ->
  fst (exchange_sem hp maxb v is_head read_all s closed) = OResp st b ->
  (100 <=? st) && (st <? 200) && negb (st =? 101) = false.
Proof.
  intros Hn H. apply exchange_sem_status in H as (len & ver & hs & H). eapply Hn; exact H.
Qed.
