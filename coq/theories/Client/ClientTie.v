(* Client/ClientTie.v — the tie between the Rust SOURCE TEXT and the C17 models.
   Gen/ClientTables.v is regenerated on every check run by tools/gen/client.py from
   actix-http/src/h1/{decoder,client}.rs and awc/src/client/{h1proto,pool}.rs: the decisions of
   the client path as data, in source order.  This file INTERPRETS the tables and proves that the
   interpretation is the model (C01's H1/Framing.plen_of, Client/ClientCodec.v, PlStream.v, Pool.v,
   Conn.v).  Re-ordering the framing chain, adding a branch in front of the pool's probe, adding a
   decode_eof override or an interim-1xx loop changes a table and breaks a lemma here. *)
From AV Require Import Lib.Base Gen.ClientTables H1.Chunked H1.PayloadDec H1.Framing
  Client.ClientCodec Client.PlStream Client.Pool Client.Conn Client.BodyProofs Client.LeftoverProofs.

(* ---- (a) the framing chain at the end of MessageType::set_headers -------------------------- *)
Definition fr_holds (c : fr_cond) (a : hacc) : bool :=
  match c with
  | FChunked => h_chunked a
  | FUpgradeWs => h_ws a
  | FContentLength => match h_cl a with Some _ => true | None => false end
  | FElse => true
  end.
Definition fr_result (r : fr_res) (a : hacc) : plen :=
  match r with
  | FRChunked => LPayload kchunked0
  | FRUpgradeWs => LUpgradeWs
  | FRLength => match h_cl a with Some n => LPayload (KLength n) | None => LNone end
  | FRNone => LNone
  end.
Fixpoint interp_framing (ch : list (fr_cond * fr_res)) (a : hacc) : plen :=
  match ch with
  | [] => LNone
  | (c, r) :: t => if fr_holds c a then fr_result r a else interp_framing t a
  end.

(* the generated ORDER (chunked, upgrade, content-length, none) is the order plen_of tests *)
Lemma tie_framing a : interp_framing FRAMING_CHAIN a = plen_of a.
Proof. unfold plen_of. cbn. destruct (h_chunked a), (h_ws a), (h_cl a); reflexivity. Qed.

(* ---- (a') <ResponseHead as MessageType>::decode: the payload decision --------------------- *)
Definition rp_holds (c : rp_cond) (length : plen) (st : N) (ver : version) : bool :=
  match c with
  | RIsPayload => match length with LPayload _ => true | _ => false end
  | RStatus101 => st =? 101
  | RVersion10 => match ver with V10 => true | V11 => false end
  | RElse => true
  end.
Definition rp_result (r : rp_res) (length : plen) (fl : rflags) : rflags * ptype :=
  match r with
  | RRPayload => (fl, match length with LPayload k => PTPayload k | _ => PTNone end)
  | RRStreamEof => (fl, PTStream KEof)
  | RRCloseAndPayloadEof => (set_ct CClose fl, PTPayload KEof)
  | RRNone => (fl, PTNone)
  end.
Fixpoint interp_rp (ch : list (rp_cond * rp_res)) (length : plen) (st : N) (ver : version) (fl : rflags)
  : rflags * ptype :=
  match ch with
  | [] => (fl, PTNone)
  | (c, r) :: t => if rp_holds c length st ver then rp_result r length fl else interp_rp t length st ver fl
  end.
Definition zero_reset (b : bool) (l : plen) : plen := if b && plen_is_zero l then LNone else l.

Lemma tie_response hp maxb src len ver st hs pl ka ex :
  hp src = RComplete len ver st hs -> (st <? 100) || (999 <? st) = false ->
  set_headers ver hs = Some (pl, ka, ex) ->
  response_decode hp maxb src =
  let fl := match ka with Some c => set_ct c rflags0 | None => rflags0 end in
  let '(fl', pt) := interp_rp RESPONSE_PAYLOAD_CHAIN (zero_reset RESPONSE_ZERO_CL_IS_NONE pl) st ver fl in
  DOk (Some (mk_rhead ver st fl', pt, skipn len src)).
Proof.
  intros H1 H2 H3. unfold response_decode. rewrite H1, H2, H3.
  unfold zero_reset. cbn [RESPONSE_ZERO_CL_IS_NONE andb RESPONSE_PAYLOAD_CHAIN interp_rp].
  destruct (plen_is_zero pl).
  - cbn [rp_holds rp_result]. destruct (st =? 101); [reflexivity|]. destruct ver; reflexivity.
  - destruct pl as [k| |]; cbn [rp_holds rp_result]; try reflexivity;
      (destruct (st =? 101); [reflexivity|]; destruct ver; reflexivity).
Qed.

(* ---- (b) ClientCodec::decode: what is installed ------------------------------------------- *)
Definition pt_pat_of (pt : ptype) : pt_pat :=
  match pt with PTNone => PtNone | PTPayload _ => PtPayload | PTStream _ => PtStream end.
Definition pt_kind (pt : ptype) : option kind :=
  match pt with PTNone => None | PTPayload k | PTStream k => Some k end.
Definition pt_pat_eqb (a b : pt_pat) : bool :=
  match a, b with PtNone, PtNone | PtPayload, PtPayload | PtStream, PtStream => true | _, _ => false end.
Fixpoint lookup_install (p : pt_pat) (l : list (pt_pat * install)) : install :=
  match l with [] => INone | (q, i) :: t => if pt_pat_eqb p q then i else lookup_install p t end.
Definition interp_install (i : install) (k : option kind) (c : ccodec) (conn : ctype) : ccodec :=
  match i with
  | INone => mk_ccodec None conn (cc_head c) (cc_stream c)
  | ISome => mk_ccodec k conn (cc_head c) (cc_stream c)
  | ISomeStream => mk_ccodec k conn (cc_head c) true
  end.

Lemma tie_client_install c h pt :
  codec_of c h pt =
  let conn := match rh_conn_type h with
              | Some CKeepAlive => cc_conn c | Some ct => ct | None => cc_conn c end in
  if negb (cc_head c)
  then interp_install (lookup_install (pt_pat_of pt) CLIENT_INSTALL) (pt_kind pt) c conn
  else interp_install CLIENT_INSTALL_HEAD None c conn.
Proof. unfold codec_of. destruct c as [p cn hd st]. cbn [cc_head cc_conn cc_stream]. destruct hd, pt; reflexivity. Qed.

(* ---- (b'') the connection type: what encode installs from the request head, and what decode
        takes from the peer's Connection header ("do not use peer's keep-alive") ------------- *)
Definition interp_peer (p : peer_conn) (own : ctype) (peer : option ctype) : ctype :=
  match peer with
  | None => own                                     (* `if let Some(conn_type) = req.conn_type()` *)
  | Some ct =>
      match p with
      | PeerAlways => ct
      | PeerDowngradeOnly => match ct with CKeepAlive => own | _ => ct end
      end
  end.

Lemma tie_peer_conn c h pt :
  cc_conn (codec_of c h pt) = interp_peer CLIENT_PEER_CONN (cc_conn c) (rh_conn_type h).
Proof.
  unfold codec_of. cbn [CLIENT_PEER_CONN interp_peer].
  destruct (negb (cc_head c)); [destruct pt|]; cbn [cc_conn];
    destruct (rh_conn_type h) as [[| |]|]; reflexivity.
Qed.

Definition enc_pat_of (rc : ctype) : enc_pat :=
  match rc with CKeepAlive => EcKeepAlive | CUpgrade => EcUpgrade | CClose => EcClose end.
Definition enc_pat_eqb (a b : enc_pat) : bool :=
  match a, b with EcKeepAlive, EcKeepAlive | EcUpgrade, EcUpgrade | EcClose, EcClose => true | _, _ => false end.
Fixpoint lookup_enc (p : enc_pat) (l : list (enc_pat * enc_res)) : enc_res :=
  match l with [] => EcToClose | (q, r) :: t => if enc_pat_eqb p q then r else lookup_enc p t end.
Definition interp_enc (r : enc_res) (ka_enabled : bool) : ctype :=
  match r with
  | EcKeepAliveIfEnabled => if ka_enabled then CKeepAlive else CClose
  | EcToUpgrade => CUpgrade
  | EcToClose => CClose
  | EcToKeepAlive => CKeepAlive
  end.

(* ServiceConfig::default(): KEEP_ALIVE_ENABLED is set *)
Lemma tie_encode_conn is_head rc :
  cc_conn (codec_after_encode is_head rc) = interp_enc (lookup_enc (enc_pat_of rc) CLIENT_ENCODE_CONN) true.
Proof. destruct rc; reflexivity. Qed.

(* ---- (b') ClientPayloadCodec::decode and decode_eof --------------------------------------- *)
Definition pc_pat_of (it : option pitem) : pc_pat :=
  match it with Some (PChunk _) => PcChunk | Some PEof => PcEof | None => PcNone end.
Definition pc_pat_eqb (a b : pc_pat) : bool :=
  match a, b with PcChunk, PcChunk | PcEof, PcEof | PcNone, PcNone => true | _, _ => false end.
Fixpoint lookup_pc (p : pc_pat) (l : list (pc_pat * pc_body)) : pc_body :=
  match l with [] => PcNoItem | (q, b) :: t => if pc_pat_eqb p q then b else lookup_pc p t end.
Definition interp_pc (b : pc_body) (c : ccodec) (k' : kind) (it : option pitem)
  : ccodec * option (option bytes) :=
  match b with
  | PcYieldChunk => (setk c (Some k'), Some (match it with Some (PChunk x) => Some x | _ => None end))
  | PcTakeAndEnd => (setk c None, Some None)               (* payload.take() *)
  | PcNoItem => (setk c (Some k'), None)
  end.

Lemma tie_payload_codec c k src : cc_payload c = Some k ->
  pc_decode c src =
  match pdecode k src with
  | Ok (k', src', it) =>
      let '(c', r) := interp_pc (lookup_pc (pc_pat_of it) PAYLOAD_CODEC_ARMS) c k' it in DOk (c', src', r)
  | Err => DErr PEIo
  | Pend => DPanic
  | Pan => DPanic
  end.
Proof.
  intro H. rewrite (pc_decode_eq c k src H).
  destruct (pdecode k src) as [|[[k' s'] [[x|]|]]| |]; reflexivity.
Qed.

(* no decode_eof override in the tree: the default rule applies (finding F9), and that is the
   variant the theorems of Props/C17.v call the tree as it is *)
Lemma tie_decode_eof :
  pc_decode_eof PAYLOAD_DECODE_EOF_OVERRIDE = deof_default pc_decode PEIo /\
  f9_fixed v_orig = PAYLOAD_DECODE_EOF_OVERRIDE.
Proof. split; reflexivity. Qed.

(* ---- (c) PlStream::poll_next --------------------------------------------------------------- *)
Definition pl_pat_eqb (a b : pl_pat) : bool :=
  match a, b with PlSomeChunk, PlSomeChunk | PlSomeEnd, PlSomeEnd | PlStreamEnd, PlStreamEnd => true | _, _ => false end.
Fixpoint lookup_pl (p : pl_pat) (l : list (pl_pat * pl_body)) : pl_body :=
  match l with [] => PlEndNoRelease | (q, b) :: t => if pl_pat_eqb p q then b else lookup_pl p t end.
Definition interp_pl (b : pl_body) (chunk : bytes) (c' : ccodec) (f' : framed) : plres :=
  match b with
  | PlYield => PlChunk chunk c' f'
  | PlReleaseKeepAliveThenEnd => PlEof (keep_alive c')     (* on_release(codec.keep_alive()) *)
  | PlEndNoRelease => PlNone
  end.

Lemma tie_plstream v c f segs closed :
  pl_poll_next v c f segs closed =
  match pl_next v c f segs closed with
  | (NItem (Some chunk) c' f', s) => (interp_pl (lookup_pl PlSomeChunk PLSTREAM_ARMS) chunk c' f', s)
  | (NItem None c' f', s) => (interp_pl (lookup_pl PlSomeEnd PLSTREAM_ARMS) [] c' f', s)
  | (NNone c' f', s) => (interp_pl (lookup_pl PlStreamEnd PLSTREAM_ARMS) [] c' f', s)
  | (NErr e, s) => (PlErr e, s)
  | (NPending _ _, s) => (PlPending, s)
  | (NPanic, s) => (PlPanic, s)
  end.
Proof.
  unfold pl_poll_next. destruct (pl_next v c f segs closed) as [[c1 f1|[ch|] c1 f1|c1 f1|e|] s]; reflexivity.
Qed.

(* ---- (d) send_request: ONE head read, no interim loop (finding F17) ------------------------ *)
Lemma tie_send_request :
  SEND_REQUEST_HEAD_READS = 1%nat /\ f17_fixed v_orig = SEND_REQUEST_INTERIM_LOOP /\
  forall hp maxb fuel c f segs closed,
    read_head hp maxb v_orig fuel c f segs closed =
    match head_next hp maxb c f segs closed with
    | (NItem h c' f', segs') => HHead h c' f' segs'
    | (NNone _ _, _) => HErr SDisconnected
    | (NErr e, _) => HErr (SResponse e)
    | (NPending _ _, _) => HErr STimeout
    | (NPanic, _) => HErr SPanic
    end.
Proof.
  split; [reflexivity|]. split; [reflexivity|].
  intros. apply read_head_orig. reflexivity.
Qed.

(* ---- (e) ConnectionPool::call: the acquire chain ------------------------------------------- *)
Definition cmp_holds (c : cmp) (x y : N) : bool :=
  match c with CmpLt => x <? y | CmpLe => x <=? y | CmpGt => y <? x | CmpGe => y <=? x end.
Definition dur_of (d : dur) (c : cfg) : N :=
  match d with DurKeepAlive => c_keep_alive c | DurLifetime => c_lifetime c end.
(* `idle_dur <c1> config.<d1> <conn> age <c2> config.<d2>` *)
Definition expired (t : cmp * dur * conn * cmp * dur) (c : cfg) (now : N) (pc : pooled) : bool :=
  let '(c1, d1, cn, c2, d2) := t in
  let a := cmp_holds c1 (now - p_used pc) (dur_of d1 c) in
  let b := cmp_holds c2 (now - p_created pc) (dur_of d2 c) in
  match cn with ConnOr => a || b | ConnAnd => a && b end.
Definition arm_of (s : cstate) : probe_arm :=
  match s with Tainted => ArmTainted | Skip => ArmSkip | Live => ArmLive end.
Definition probe_arm_eqb (a b : probe_arm) : bool :=
  match a, b with ArmTainted, ArmTainted | ArmSkip, ArmSkip | ArmLive, ArmLive => true | _, _ => false end.
Fixpoint lookup_arm (p : probe_arm) (l : list (probe_arm * act)) : act :=
  match l with [] => ActDropContinue | (q, a) :: t => if probe_arm_eqb p q then a else lookup_arm p t end.
Definition takes (a : act) : bool := match a with ActTake => true | _ => false end.

(* the `while let Some(c) = conns.pop_front()` loop driven by the generated data: an expired
   connection gets POOL_EXPIRED_ACTION, any other is PROBED and gets the action of its arm *)
Fixpoint interp_pick (c : cfg) (now : N) (chk : cid -> cstate) (conns : list pooled)
  : option pooled * list pooled :=
  match conns with
  | [] => (None, [])
  | pc :: rest =>
      let a := if expired POOL_EXPIRY c now pc then POOL_EXPIRED_ACTION
               else lookup_arm (arm_of (chk (p_conn pc))) POOL_PROBE_ARMS in
      if takes a then (Some pc, rest) else interp_pick c now chk rest
  end.
Definition deque_order (e : pop_end) (l : list pooled) : list pooled :=
  match e with PopFront => l | PopBack => rev l end.
Definition interp_push (e : push_end) (l : list pooled) (x : pooled) : list pooled :=
  match e with PushBack => l ++ [x] | PushFront => x :: l end.

Lemma tie_pool_pick c now chk conns :
  pick c now chk conns = interp_pick c now chk (deque_order POOL_POP conns).
Proof.
  cbn [POOL_POP deque_order].
  induction conns as [|pc rest IH]; [reflexivity|].
  cbn [pick interp_pick]. unfold expired. cbn [POOL_EXPIRY cmp_holds dur_of].
  destruct ((c_keep_alive c <? now - p_used pc) || (c_lifetime c <? now - p_created pc)).
  - cbn [POOL_EXPIRED_ACTION takes]. exact IH.
  - destruct (chk (p_conn pc)); cbn; try exact IH; reflexivity.
Qed.

Lemma tie_pool_release l x :
  interp_push POOL_RELEASE_PUSH l x = l ++ [x] /\ POOL_PERMIT_BEFORE_LOOKUP = true.
Proof. split; reflexivity. Qed.

(* ConnectionCheckFuture::poll: data => Tainted, Pending => Live, anything else (EOF, error) => Skip;
   Conn.conn_state is that classification of what the socket holds *)
Definition obs_of (evs : list ev) : probe_obs :=
  match evs with ED _ :: _ => ObsData | EC :: _ => ObsOther | _ => ObsPending end.
Definition probe_obs_eqb (a b : probe_obs) : bool :=
  match a, b with ObsData, ObsData | ObsPending, ObsPending | ObsOther, ObsOther => true | _, _ => false end.
Fixpoint lookup_obs (p : probe_obs) (l : list (probe_obs * probe_arm)) : probe_arm :=
  match l with [] => ArmSkip | (q, a) :: t => if probe_obs_eqb p q then a else lookup_obs p t end.

Lemma tie_probe evs : arm_of (conn_state evs) = lookup_obs (obs_of evs) POOL_PROBE_CLASSIFY.
Proof. destruct evs as [|[| |] r]; reflexivity. Qed.
