(* Client/PoolProofs.v — invariants of the pool model over arbitrary operation histories. *)
From AV Require Import Lib.Base Client.Pool.

(* ---- configuration never changes ------------------------------------------------------- *)
Lemma pstep_cfg p o : p_cfg (fst (pstep p o)) = p_cfg p.
Proof.
  destruct o; cbn [pstep fst]; try reflexivity.
  - unfold acquire. destruct (p_sem_closed p); [reflexivity|].
    destruct (c_limit (p_cfg p) <=? permits_out p); [reflexivity|].
    destruct (pick _ _ _ _) as [[pc|] rest]; reflexivity.
  - unfold release. destruct (find_acq a (p_holders p)) as [x|]; [|reflexivity].
    destruct (a_io x); reflexivity.
Qed.

Lemma run_pool_cfg ops : forall p, p_cfg (run_pool p ops) = p_cfg p.
Proof.
  induction ops as [|o r IH]; intro p; cbn [run_pool]; [reflexivity|].
  rewrite IH. apply pstep_cfg.
Qed.

(* ---- list helpers ---------------------------------------------------------------------- *)
Lemma update_acq_length a f l : length (update_acq a f l) = length l.
Proof. induction l as [|x r IH]; cbn [update_acq]; [reflexivity|]. destruct (a_id x =? a); cbn [length]; congruence. Qed.

Lemma remove_acq_length a l : (length (remove_acq a l) <= length l)%nat.
Proof. induction l as [|x r IH]; cbn [remove_acq]; [lia|]. destruct (a_id x =? a); cbn [length]; lia. Qed.

Definition held_of (l : list acquired) : list cid :=
  flat_map (fun x => match a_io x with Some c => [c] | None => [] end) l.

Lemma held_of_cons x r :
  held_of (x :: r) = match a_io x with Some c => [c] | None => [] end ++ held_of r.
Proof. reflexivity. Qed.

Lemma held_of_length l : (length (held_of l) <= length l)%nat.
Proof.
  induction l as [|x r IH]; [cbn; lia|].
  rewrite held_of_cons, app_length. destruct (a_io x); cbn [length]; lia.
Qed.

Lemma held_of_app l1 l2 : held_of (l1 ++ l2) = held_of l1 ++ held_of l2.
Proof. unfold held_of. apply flat_map_app. Qed.

Lemma held_take_io a l : (length (held_of (update_acq a take_io l)) <= length (held_of l))%nat.
Proof.
  induction l as [|x r IH]; [cbn; lia|].
  cbn [update_acq]. destruct (a_id x =? a); rewrite !held_of_cons, !app_length.
  - cbn [take_io a_io]. destruct (a_io x); cbn [length]; lia.
  - lia.
Qed.

Lemma held_take_io_found a l x c :
  find_acq a l = Some x -> a_io x = Some c ->
  S (length (held_of (update_acq a take_io l))) = length (held_of l).
Proof.
  induction l as [|y r IH]; cbn [find_acq update_acq]; [discriminate|].
  destruct (a_id y =? a) eqn:E; intros H Hio; rewrite !held_of_cons, !app_length.
  - inversion H; subst y. rewrite Hio. cbn [take_io a_io length]. reflexivity.
  - specialize (IH H Hio). lia.
Qed.

Lemma held_remove a l : (length (held_of (remove_acq a l)) <= length (held_of l))%nat.
Proof.
  induction l as [|x r IH]; [cbn; lia|].
  cbn [remove_acq]. destruct (a_id x =? a); rewrite !held_of_cons, !app_length; lia.
Qed.

Lemma pick_spec c now chk conns got rest :
  pick c now chk conns = (got, rest) ->
  match got with
  | Some _ => (S (length rest) <= length conns)%nat
  | None => rest = []
  end.
Proof.
  revert got rest. induction conns as [|pc r IH]; cbn [pick]; intros got rest H.
  - inversion H; reflexivity.
  - destruct ((c_keep_alive c <? now - p_used pc) || (c_lifetime c <? now - p_created pc)).
    + specialize (IH _ _ H). destruct got; cbn [length]; [lia|exact IH].
    + destruct (chk (p_conn pc)).
      * inversion H; subst. cbn [length]. lia.
      * specialize (IH _ _ H). destruct got; cbn [length]; [lia|exact IH].
      * specialize (IH _ _ H). destruct got; cbn [length]; [lia|exact IH].
Qed.

(* a reused connection was idle in the deque, passed the check and had not expired *)
Lemma pick_sound c now chk conns pc rest :
  pick c now chk conns = (Some pc, rest) ->
  In pc conns /\ chk (p_conn pc) = Live /\
  (c_keep_alive c <? now - p_used pc) = false /\ (c_lifetime c <? now - p_created pc) = false.
Proof.
  induction conns as [|x r IH]; cbn [pick]; intro H; [discriminate|].
  destruct ((c_keep_alive c <? now - p_used x) || (c_lifetime c <? now - p_created x)) eqn:E.
  - destruct (IH H) as (?&?&?&?). repeat split; try assumption. right; assumption.
  - destruct (chk (p_conn x)) eqn:Ec.
    + inversion H; subst. apply orb_false_iff in E as [E1 E2]. repeat split; try assumption. left; reflexivity.
    + destruct (IH H) as (?&?&?&?). repeat split; try assumption. right; assumption.
    + destruct (IH H) as (?&?&?&?). repeat split; try assumption. right; assumption.
Qed.

(* ---- permits: in flight <= limit, for every history -------------------------------------- *)
Definition inv_permits (p : pool) : Prop := permits_out p <= c_limit (p_cfg p).

Lemma pstep_inv_permits p o : inv_permits p -> inv_permits (fst (pstep p o)).
Proof.
  unfold inv_permits, permits_out, lenN. intro H.
  destruct o; cbn [pstep fst].
  - unfold acquire, permits_out, lenN. destruct (p_sem_closed p); [exact H|].
    destruct (c_limit (p_cfg p) <=? N.of_nat (length (p_holders p))) eqn:E; [exact H|].
    destruct (pick _ _ _ _) as [[pc|] rest]; cbn [fst p_holders p_cfg]; rewrite app_length; cbn [length]; lia.
  - unfold release. destruct (find_acq a (p_holders p)) as [x|]; [|exact H].
    destruct (a_io x); [|exact H]. cbn [p_holders p_cfg]. rewrite update_acq_length. exact H.
  - unfold close. cbn [p_holders p_cfg]. rewrite update_acq_length. exact H.
  - unfold drop_acq. cbn [p_holders p_cfg]. pose proof (remove_acq_length a (p_holders p)). lia.
  - exact H.
Qed.

Theorem inflight_limit : forall (c : cfg) (ops : list pop),
  let p := run_pool (pool0 c) ops in
  permits_out p <= c_limit c /\ lenN (held_conns p) <= permits_out p.
Proof.
  intros c ops p.
  assert (G : forall ops q, inv_permits q -> inv_permits (run_pool q ops)).
  { induction ops0 as [|o r IH]; intros q Hq; cbn [run_pool]; [exact Hq|]. apply IH, pstep_inv_permits, Hq. }
  split.
  - pose proof (G ops (pool0 c)) as H. unfold inv_permits in H. fold p in H.
    unfold p in *. rewrite run_pool_cfg in H. cbn [pool0 p_cfg] in H. apply H.
    unfold permits_out, lenN. cbn. lia.
  - unfold permits_out, lenN, held_conns. fold (held_of (p_holders p)).
    pose proof (held_of_length (p_holders p)). lia.
Qed.

(* ---- one authority: sockets held by the client (in use + idle) <= limit ------------------ *)
Definition single_key (k : key) (ops : list pop) : Prop :=
  forall o k', In o ops -> op_key o = Some k' -> k' = k.

Record inv1 (k : key) (p : pool) : Prop := mk_inv1 {
  i_keys : forall x, In x (p_holders p) -> a_key x = k;
  i_avail : p_avail p = [] \/ exists l, p_avail p = [(k, l)];
  i_perm : permits_out p <= c_limit (p_cfg p);
  i_open : lenN (open_conns p) <= c_limit (p_cfg p) }.

Lemma In_update_acq a f l y : In y (update_acq a f l) -> exists x, In x l /\ (y = x \/ y = f x).
Proof.
  induction l as [|x r IH]; cbn [update_acq]; [intros []|].
  destruct (a_id x =? a); cbn [In]; intros [H|H].
  - exists x. split; [left; reflexivity|right; congruence].
  - exists y. split; [right; assumption|left; reflexivity].
  - exists x. split; [left; reflexivity|left; congruence].
  - destruct (IH H) as (z & Hz & E). exists z. split; [right; assumption|assumption].
Qed.

Lemma In_remove_acq a l y : In y (remove_acq a l) -> In y l.
Proof.
  induction l as [|x r IH]; cbn [remove_acq]; [intros []|].
  destruct (a_id x =? a); cbn [In]; intros H; [right; assumption|].
  destruct H; [left; assumption|right; apply IH; assumption].
Qed.

Lemma find_acq_In a l x : find_acq a l = Some x -> In x l.
Proof.
  induction l as [|y r IH]; cbn [find_acq]; [discriminate|].
  destruct (a_id y =? a); intro H; [inversion H; left; reflexivity|right; apply IH; exact H].
Qed.

Definition idle_of (av : list (key * list pooled)) : list cid :=
  flat_map (fun kl : key * list pooled => map p_conn (snd kl)) av.
Lemma idle_conns_eq p : idle_conns p = idle_of (p_avail p).
Proof. reflexivity. Qed.

Lemma open_len p : length (open_conns p) = (length (held_of (p_holders p)) + length (idle_conns p))%nat.
Proof. unfold open_conns, held_conns. fold (held_of (p_holders p)). apply app_length. Qed.

Lemma idle_single k l : idle_conns (mk_pool (mk_cfg 0 0 0) [(k, l)] [] 0 0 false) = map p_conn l.
Proof. unfold idle_conns. cbn. apply app_nil_r. Qed.

Lemma pstep_inv1 k p o :
  (forall k', op_key o = Some k' -> k' = k) -> inv1 k p -> inv1 k (fst (pstep p o)).
Proof.
  intros Hk [Hkeys Hav Hperm Hopen].
  assert (Hidle : forall av, (av = [] \/ exists l, av = [(k, l)]) ->
            length (idle_of av) = length (avail_get k av)).
  { intros av [->|[l ->]]; unfold idle_of; cbn [flat_map avail_get length].
    - reflexivity.
    - rewrite N.eqb_refl. cbn [snd]. rewrite app_nil_r, map_length. reflexivity. }
  destruct o as [k0 now chk|a now|a|a|]; cbn [pstep fst].
  - (* acquire *)
    assert (k0 = k) by (apply Hk; reflexivity). subst k0.
    unfold acquire. destruct (p_sem_closed p); [constructor; assumption|].
    destruct (c_limit (p_cfg p) <=? permits_out p) eqn:Elim; [constructor; assumption|].
    destruct (pick (p_cfg p) now chk (avail_get k (p_avail p))) as [got rest] eqn:Epick.
    pose proof (pick_spec _ _ _ _ _ _ Epick) as Hps.
    set (avail' := match avail_get k (p_avail p) with [] => p_avail p | _ => avail_set k rest (p_avail p) end).
    assert (Hav' : avail' = [] \/ exists l, avail' = [(k, l)]).
    { unfold avail'. destruct Hav as [E|[l E]]; rewrite E; cbn [avail_get avail_set].
      - left; reflexivity.
      - rewrite !N.eqb_refl. destruct l; right; eexists; reflexivity. }
    assert (Hget' : length (avail_get k avail') = length rest \/ (avail_get k (p_avail p) = [] /\ avail_get k avail' = [])).
    { unfold avail'. destruct Hav as [E|[l E]]; rewrite E; cbn [avail_get avail_set].
      - right; split; reflexivity.
      - rewrite !N.eqb_refl. destruct l.
        + right; split; cbn [avail_get]; rewrite ?N.eqb_refl; reflexivity.
        + left. cbn [avail_get]. rewrite !N.eqb_refl. reflexivity. }
    pose proof (Hidle _ Hav) as Hidle0. rewrite <- idle_conns_eq in Hidle0.
    unfold permits_out, lenN in *.
    assert (Hopen0 : (length (held_of (p_holders p)) + length (avail_get k (p_avail p)) <= N.to_nat (c_limit (p_cfg p)))%nat).
    { rewrite <- Hidle0, <- open_len. lia. }
    pose proof (held_of_length (p_holders p)) as Hhl.
    destruct got as [pc|].
    + (* reuse *)
      cbn [fst]. constructor; cbn [p_holders p_avail p_cfg].
      * intros x Hx. apply in_app_or in Hx as [Hx|[<-|[]]]; [apply Hkeys; exact Hx|reflexivity].
      * exact Hav'.
      * unfold permits_out, lenN. cbn [p_holders]. rewrite app_length. cbn [length]. lia.
      * unfold lenN. rewrite open_len. cbn [p_holders]. rewrite held_of_app, app_length.
        rewrite idle_conns_eq; cbn [p_avail]; rewrite (Hidle _ Hav'). rewrite held_of_cons. cbn [a_io app length held_of flat_map].
        destruct Hget' as [E|[E1 E2]]; [rewrite E; lia|]. rewrite E1 in Hps. cbn [length] in Hps. lia.
    + (* new connection: no idle connection of this authority is left *)
      subst rest. cbn [fst].
      constructor; cbn [p_holders p_avail p_cfg].
      * intros x Hx. apply in_app_or in Hx as [Hx|[<-|[]]]; [apply Hkeys; exact Hx|reflexivity].
      * exact Hav'.
      * unfold permits_out, lenN. cbn [p_holders]. rewrite app_length. cbn [length]. lia.
      * unfold lenN. rewrite open_len. cbn [p_holders]. rewrite held_of_app, app_length.
        rewrite idle_conns_eq; cbn [p_avail]; rewrite (Hidle _ Hav'). rewrite held_of_cons. cbn [a_io app length held_of flat_map].
        destruct Hget' as [E|[E1 E2]]; [rewrite E; cbn [length]; lia|rewrite E2; cbn [length]; lia].
  - (* release *)
    unfold release. destruct (find_acq a (p_holders p)) as [x|] eqn:Ef; [|constructor; assumption].
    destruct (a_io x) as [c|] eqn:Eio; [|constructor; assumption].
    assert (Hxk : a_key x = k) by (apply Hkeys; eapply find_acq_In; exact Ef).
    rewrite Hxk.
    set (av' := avail_set k (avail_get k (p_avail p) ++ [mk_pooled c now (a_created x)]) (p_avail p)).
    assert (Hav' : exists l, av' = [(k, l)] /\ length l = S (length (avail_get k (p_avail p)))).
    { unfold av'. destruct Hav as [E|[l E]]; rewrite E; cbn [avail_get avail_set].
      - eexists; split; [reflexivity|]. cbn; reflexivity.
      - rewrite !N.eqb_refl. eexists; split; [reflexivity|]. rewrite app_length. cbn [length]. lia. }
    destruct Hav' as (l' & El' & Hl').
    pose proof (Hidle _ Hav) as Hidle0. rewrite <- idle_conns_eq in Hidle0.
    constructor; cbn [p_holders p_avail p_cfg].
    + intros y Hy. apply In_update_acq in Hy as (z & Hz & [->| ->]); [apply Hkeys; exact Hz|cbn [take_io a_key]; apply Hkeys; exact Hz].
    + right. exists l'. exact El'.
    + unfold permits_out, lenN. cbn [p_holders]. rewrite update_acq_length. exact Hperm.
    + unfold lenN in *. rewrite open_len in *. cbn [p_holders].
      rewrite idle_conns_eq; cbn [p_avail]; fold av'; rewrite El'.
      rewrite (Hidle [(k, l')] (or_intror (ex_intro _ l' eq_refl))).
      cbn [avail_get]. rewrite N.eqb_refl, Hl'.
      pose proof (held_take_io_found _ _ _ _ Ef Eio). lia.
  - (* close *)
    unfold close. constructor; cbn [p_holders p_avail p_cfg].
    + intros y Hy. apply In_update_acq in Hy as (z & Hz & [->| ->]); [apply Hkeys; exact Hz|cbn [take_io a_key]; apply Hkeys; exact Hz].
    + exact Hav.
    + unfold permits_out, lenN. cbn [p_holders]. rewrite update_acq_length. exact Hperm.
    + unfold lenN in *. rewrite open_len in *. cbn [p_holders].
      assert (length (idle_conns (mk_pool (p_cfg p) (p_avail p) (update_acq a take_io (p_holders p)) (p_next_cid p) (p_next_aid p) (p_sem_closed p))) = length (idle_conns p)) as -> by reflexivity.
      pose proof (held_take_io a (p_holders p)). lia.
  - (* drop *)
    unfold drop_acq. constructor; cbn [p_holders p_avail p_cfg].
    + intros y Hy. apply Hkeys. eapply In_remove_acq; exact Hy.
    + exact Hav.
    + unfold permits_out, lenN in *. cbn [p_holders]. pose proof (remove_acq_length a (p_holders p)). lia.
    + unfold lenN in *. rewrite open_len in *. cbn [p_holders].
      assert (length (idle_conns (mk_pool (p_cfg p) (p_avail p) (remove_acq a (p_holders p)) (p_next_cid p) (p_next_aid p) (p_sem_closed p))) = length (idle_conns p)) as -> by reflexivity.
      pose proof (held_remove a (p_holders p)). lia.
  - (* pool drop *)
    unfold pool_drop. constructor; cbn [p_holders p_avail p_cfg].
    + exact Hkeys.
    + left; reflexivity.
    + exact Hperm.
    + unfold lenN in *. rewrite open_len in *. cbn [p_holders].
      assert (idle_conns (mk_pool (p_cfg p) [] (p_holders p) (p_next_cid p) (p_next_aid p) true) = []) as -> by reflexivity.
      cbn [length]. lia.
Qed.

Theorem open_limit_single_authority : forall (c : cfg) (k : key) (ops : list pop),
  single_key k ops ->
  lenN (open_conns (run_pool (pool0 c) ops)) <= c_limit c.
Proof.
  intros c k ops Hs.
  assert (G : forall ops q, single_key k ops -> inv1 k q -> inv1 k (run_pool q ops)).
  { induction ops0 as [|o r IH]; intros q Hk Hq; cbn [run_pool]; [exact Hq|].
    apply IH.
    - intros o' k' Hin. apply Hk. right; exact Hin.
    - apply pstep_inv1; [|exact Hq]. intros k' Hk'. eapply Hk; [left; reflexivity|exact Hk']. }
  assert (H0 : inv1 k (pool0 c)).
  { constructor; cbn.
    - intros x [].
    - left; reflexivity.
    - unfold permits_out, lenN. cbn. lia.
    - unfold lenN. cbn. lia. }
  pose proof (i_open _ _ (G ops _ Hs H0)) as H. rewrite run_pool_cfg in H. exact H.
Qed.

(* ---- F11: with two authorities the bound fails (idle connections of the other authority are
   not counted) ---------------------------------------------------------------------------- *)
Definition f11_witness : list pop :=
  [OAcquire 0 0 (fun _ => Live); ORelease 0 1; ODrop 0; OAcquire 1 2 (fun _ => Live)].

Lemma f11_refutes :
  lenN (open_conns (run_pool (pool0 (mk_cfg 1 15000 75000)) f11_witness)) = 2.
Proof. vm_compute. reflexivity. Qed.

(* a connection handed out for reuse was idle, alive by the check, and not expired *)
Theorem reuse_sound : forall p k now chk p' a c,
  acquire k now chk p = (p', EvReused a c) ->
  exists pc, In pc (avail_get k (p_avail p)) /\ p_conn pc = c /\ chk c = Live /\
    now - p_used pc <= c_keep_alive (p_cfg p) /\ now - p_created pc <= c_lifetime (p_cfg p).
Proof.
  intros p k now chk p' a c. unfold acquire.
  destruct (p_sem_closed p); [discriminate|].
  destruct (c_limit (p_cfg p) <=? permits_out p); [discriminate|].
  destruct (pick (p_cfg p) now chk (avail_get k (p_avail p))) as [[pc|] rest] eqn:E; intro H; inversion H; subst.
  destruct (pick_sound _ _ _ _ _ _ E) as (Hin & Hl & H1 & H2).
  exists pc. repeat split; try assumption; lia.
Qed.
