(* Client/Conn.v — one TCP connection as the client and the scripted peer see it.

   The peer's behaviour on a connection is an event list: [EW] wait for (and consume) one
   request, [ED b] send these bytes (one read at the client), [EC] close.  The client writes a
   request (the peer passes its next [EW]), then runs one [exchange] on the data events that
   follow; what it did not read stays in the socket.

   [conn_state] is what `ConnectionCheckFuture` (pool.rs:275) finds on an idle connection once
   everything in flight has arrived: readable data = Tainted, end of stream = Skip, nothing = Live.
   [conn_run] is the life of one connection under sequential reuse: the next request goes to it
   only if the previous exchange released it (on_release(true)) and the check says Live. *)
From AV Require Import Lib.Base H1.Chunked H1.PayloadDec H1.Framing
  Client.ClientCodec Client.PlStream Client.Pool.

Inductive ev := EW | ED (b : bytes) | EC.

Fixpoint remove_first_W (evs : list ev) : list ev :=
  match evs with
  | [] => []
  | EW :: r => r
  | e :: r => e :: remove_first_W r
  end.

Fixpoint leading_data (evs : list ev) : list bytes * list ev :=
  match evs with
  | ED b :: r => let '(d, t) := leading_data r in (b :: d, t)
  | _ => ([], evs)
  end.

Definition conn_state (evs : list ev) : cstate :=
  match evs with
  | ED _ :: _ => Tainted
  | EC :: _ => Skip
  | _ => Live
  end.

Section WithParser.
  Variable hp : bytes -> rhead_res.
  Variable max_buffer_size : N.
  Variable v : variant.

  Definition conn_exchange (is_head read_all : bool) (evs : list ev) : xres * list ev :=
    let evs1 := remove_first_W evs in
    let '(segs, tail) := leading_data evs1 in
    let closed := match tail with EC :: _ => true | _ => false end in
    let xr := exchange hp max_buffer_size v is_head read_all segs closed in
    (xr, map ED (x_rest xr) ++ tail).

  (* requests = (is_head, read_all); outcomes of those that were sent on this connection *)
  Fixpoint conn_run (reqs : list (bool * bool)) (evs : list ev) : list outcome :=
    match reqs with
    | [] => []
    | (is_head, read_all) :: more =>
        let '(xr, evs') := conn_exchange is_head read_all evs in
        x_out xr ::
          match x_fate xr, conn_state evs' with
          | FReleased, Live => conn_run more evs'
          | _, _ => []
          end
    end.

  (* the same with the request's connection type: requests = (conn type, is_head, read_all) *)
  Definition conn_exchange_ct (rc : ctype) (is_head read_all : bool) (evs : list ev) : xres * list ev :=
    let evs1 := remove_first_W evs in
    let '(segs, tail) := leading_data evs1 in
    let closed := match tail with EC :: _ => true | _ => false end in
    let xr := exchange_ct hp max_buffer_size v rc is_head read_all segs closed in
    (xr, map ED (x_rest xr) ++ tail).


  Fixpoint conn_run_ct (reqs : list (ctype * bool * bool)) (evs : list ev) : list outcome :=
    match reqs with
    | [] => []
    | (rc, is_head, read_all) :: more =>
        let '(xr, evs') := conn_exchange_ct rc is_head read_all evs in
        x_out xr ::
          match x_fate xr, conn_state evs' with
          | FReleased, Live => conn_run_ct more evs'
          | _, _ => []
          end
    end.
End WithParser.
