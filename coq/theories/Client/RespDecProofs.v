(* Client/RespDecProofs.v — byte-wise semantics of the payload decoder (H1.PayloadDec.pdecode,
   shared with C01) and its relation to the batched decoder: the basis of every "same result
   however the bytes are split" statement of C17.  (Proof route of DESIGN.md appendix C.1.) *)
From AV Require Import Lib.Base H1.Chunked H1.PayloadDec.

(* ---- chunked: one byte at a time --------------------------------------------------------- *)
Definition bstep (s : cst) (sz : N) (b : byte) : res (cst * N * option byte) :=
  match s with
  | Body => if sz <=? 1 then Ok (BodyCr, 0, Some b) else Ok (Body, sz - 1, Some b)
  | End => Err
  | _ => match cstep s sz b with
         | Ok (s', sz') => Ok (s', sz', None)
         | Pan => Pan
         | _ => Err
         end
  end.

(* result: state, size, unread rest, body so far, finished? *)
Fixpoint bw (s : cst) (sz : N) (buf acc : bytes) : res (cst * N * bytes * bytes * bool) :=
  match s with
  | End => Ok (End, sz, buf, acc, true)
  | _ => match buf with
         | [] => Ok (s, sz, [], acc, false)
         | b :: rest => match bstep s sz b with
                        | Ok (s', sz', Some d) => bw s' sz' rest (acc ++ [d])
                        | Ok (s', sz', None) => bw s' sz' rest acc
                        | Pan => Pan
                        | _ => Err
                        end
         end
  end.

Lemma bw_End sz buf acc : bw End sz buf acc = Ok (End, sz, buf, acc, true).
Proof. destruct buf; reflexivity. Qed.

Lemma bw_nil s sz acc : s <> End -> bw s sz [] acc = Ok (s, sz, [], acc, false).
Proof. destruct s; intros; try reflexivity. congruence. Qed.

Lemma cstep_not_pend s sz b : cstep s sz b <> Pend.
Proof.
  destruct s; cbn [cstep]; unfold size_digit, lws_ext_cr;
    repeat match goal with
    | |- context [match hexval ?x with _ => _ end] => destruct (hexval x)
    | |- context [if ?c then _ else _] => destruct c
    end; discriminate.
Qed.

Lemma bw_ctl s sz b rest acc : is_ctl s = true ->
  bw s sz (b :: rest) acc =
  match cstep s sz b with Ok (s', sz') => bw s' sz' rest acc | Pan => Pan | _ => Err end.
Proof.
  intro H. destruct s; try discriminate H; cbn [bw bstep];
    destruct (cstep _ sz b) as [|[s' sz']| |]; reflexivity.
Qed.

Definition inv (s : cst) (sz : N) := s = Body -> 0 < sz.

Lemma cstep_inv s sz b s' sz' : cstep s sz b = Ok (s', sz') -> inv s' sz'.
Proof.
  intro H. unfold inv. intros ->.
  destruct s; cbn [cstep] in H; unfold size_digit, lws_ext_cr in H;
    repeat match type of H with
    | context [match hexval ?x with _ => _ end] => destruct (hexval x)
    | context [if ?c then _ else _] => destruct c eqn:?
    end; try discriminate H; inversion H; subst; lia.
Qed.

Lemma bw_body_all buf : forall sz acc, lenN buf < sz ->
  bw Body sz buf acc = Ok (Body, sz - lenN buf, [], acc ++ buf, false).
Proof.
  unfold lenN. induction buf as [|b buf IH]; intros sz acc H.
  - cbn [bw length]. rewrite app_nil_r. replace (sz - N.of_nat 0) with sz by lia. reflexivity.
  - cbn [bw bstep]. cbn [length] in H.
    destruct (sz <=? 1) eqn:E; [lia|].
    rewrite IH by lia. rewrite <- app_assoc. cbn [app length].
    replace (sz - 1 - N.of_nat (length buf)) with (sz - N.of_nat (S (length buf))) by lia. reflexivity.
Qed.

Lemma bw_body_exact buf : forall sz acc rest, 0 < sz -> lenN buf = sz ->
  bw Body sz (buf ++ rest) acc = bw BodyCr 0 rest (acc ++ buf).
Proof.
  unfold lenN. induction buf as [|b buf IH]; intros sz acc rest H0 H.
  - cbn in H. lia.
  - cbn [app bw bstep]. cbn [length] in H.
    destruct (sz <=? 1) eqn:E.
    + assert (buf = []) by (destruct buf; [reflexivity|cbn [length] in H; lia]). subst. cbn [app]. reflexivity.
    + rewrite IH by lia. rewrite <- app_assoc. reflexivity.
Qed.

(* what one call of the batched loop does, in terms of the byte-wise semantics *)
Definition loop_spec (s : cst) (sz : N) (buf acc : bytes) (r : res (cst * N * bytes * option pitem)) : Prop :=
  match r with
  | Ok (s', sz', buf', None) => buf' = [] /\ s' <> End /\ bw s sz buf acc = Ok (s', sz', [], acc, false)
  | Ok (s', sz', buf', Some PEof) => s' = End /\ bw s sz buf acc = Ok (End, sz', buf', acc, true)
  | Ok (s', sz', buf', Some (PChunk c)) =>
      bw s sz buf acc = bw s' sz' buf' (acc ++ c) /\ (length buf' < length buf)%nat /\ inv s' sz' /\ s' <> End
  | Err => bw s sz buf acc = Err
  | Pan => bw s sz buf acc = Pan
  | Pend => False
  end.

Lemma chunked_loop_ok : forall fuel s sz buf acc,
  (length buf < fuel)%nat -> inv s sz -> loop_spec s sz buf acc (chunked_loop fuel s sz buf).
Proof.
  induction fuel as [|f IH]; intros s sz buf acc Hf Hinv; [lia|].
  destruct (is_ctl s) eqn:Hc.
  - destruct buf as [|b rest].
    + assert (Hs : step s sz [] = Pend) by (destruct s; try discriminate Hc; reflexivity).
      cbn [chunked_loop]. rewrite Hs. cbn [loop_spec]. repeat split; [destruct s; discriminate|].
      apply bw_nil. destruct s; discriminate.
    + assert (Hs : step s sz (b :: rest) =
                   match cstep s sz b with
                   | Ok (s', sz') => Ok (s', sz', rest, None)
                   | Pend => Pend | Err => Err | Pan => Pan end)
        by (destruct s; try discriminate Hc; reflexivity).
      cbn [chunked_loop]. rewrite Hs.
      pose proof (bw_ctl s sz b rest acc Hc) as Hbw.
      pose proof (cstep_not_pend s sz b) as Hnp.
      destruct (cstep s sz b) as [|[s' sz']| |] eqn:Hcs.
      * congruence.
      * pose proof (cstep_inv _ _ _ _ _ Hcs) as Hinv'.
        destruct s'; lazy beta iota;
        try (destruct rest as [|b' rest']; lazy beta iota;
             [ cbn [loop_spec]; rewrite Hbw; repeat split; try discriminate; try (apply bw_nil; discriminate)
             | match goal with |- loop_spec _ _ _ _ (chunked_loop f ?s1 ?z1 ?b1) =>
                 specialize (IH s1 z1 b1 acc ltac:(cbn [length] in *; lia) Hinv') end;
               revert IH; unfold loop_spec; rewrite Hbw;
               destruct (chunked_loop f _ _ _) as [|[[[s2 z2] b2] [[c|]|]]| |]; intro IH; try exact IH;
               destruct IH as (?&?&?&?); repeat split; try assumption; cbn [length] in *; lia ]).
        cbn [loop_spec]. rewrite Hbw. split; [reflexivity|]. apply bw_End.
      * cbn [loop_spec]. exact Hbw.
      * cbn [loop_spec]. exact Hbw.
  - destruct s; try discriminate Hc.
    + assert (0 < sz) by (apply Hinv; reflexivity).
      destruct buf as [|b rest].
      * cbn [chunked_loop step loop_spec]. repeat split; try discriminate.
      * cbn [chunked_loop step]. remember (b :: rest) as buf eqn:Eb.
        destruct (lenN buf <? sz) eqn:Hlt.
        -- cbn [loop_spec]. rewrite bw_body_all by lia.
           repeat split; try reflexivity; try discriminate.
           ++ subst buf; cbn [length]; lia.
           ++ intros _. unfold lenN in *. lia.
        -- cbn [loop_spec]. unfold lenN in Hlt.
           assert (Hlen : (N.to_nat sz <= length buf)%nat) by lia.
           rewrite <- (firstn_skipn (N.to_nat sz) buf) at 1.
           rewrite bw_body_exact; [| assumption | unfold lenN; rewrite firstn_length; lia].
           repeat split; try reflexivity; try discriminate.
           rewrite skipn_length. subst buf. cbn [length] in *. lia.
    + cbn [chunked_loop step loop_spec]. split; [reflexivity|apply bw_End].
Qed.

Lemma bw_app b1 : forall s sz acc b2,
  bw s sz (b1 ++ b2) acc =
  match bw s sz b1 acc with
  | Ok (s', sz', r, acc', false) => bw s' sz' (r ++ b2) acc'
  | Ok (s', sz', r, acc', true) => Ok (s', sz', r ++ b2, acc', true)
  | Pend => Pend | Err => Err | Pan => Pan
  end.
Proof.
  induction b1 as [|b b1 IH]; intros s sz acc b2.
  - destruct s; cbn [bw app]; try reflexivity. destruct b2; reflexivity.
  - destruct s; cbn [bw app];
      try (destruct (bstep _ sz b) as [|[[s' sz'] [d|]]| |]; try reflexivity; apply IH).
    reflexivity.
Qed.

Lemma bw_inv buf : forall s sz acc s' sz' r acc' e,
  inv s sz -> bw s sz buf acc = Ok (s', sz', r, acc', e) -> inv s' sz'.
Proof.
  induction buf as [|b buf IH]; intros s sz acc s' sz' r acc' e Hinv H.
  - destruct s; cbn [bw] in H; inversion H; subst; try assumption; intro; discriminate.
  - destruct s; cbn [bw] in H; try (inversion H; subst; intro; discriminate);
      cbn [bstep] in H.
    all: try (destruct (cstep _ sz b) as [|[s1 z1]| |] eqn:Hc; try discriminate H;
              eapply IH; [eapply cstep_inv; exact Hc | exact H]).
    destruct (sz <=? 1) eqn:E; (eapply IH; [|exact H]); intro; try discriminate.
    assert (0 < sz) by (apply Hinv; reflexivity). lia.
Qed.

Lemma bw_false buf : forall s sz acc s' sz' r acc',
  bw s sz buf acc = Ok (s', sz', r, acc', false) -> r = [] /\ s' <> End.
Proof.
  induction buf as [|b buf IH]; intros s sz acc s' sz' r acc' H.
  - destruct s; cbn [bw] in H; inversion H; subst; split; try reflexivity; discriminate.
  - destruct s; cbn [bw] in H; try discriminate H;
      destruct (bstep _ sz b) as [|[[s1 z1] [d|]]| |]; try discriminate H; eapply IH; exact H.
Qed.

Lemma bw_not_pend buf : forall s sz acc, bw s sz buf acc <> Pend.
Proof.
  induction buf as [|b buf IH]; intros s sz acc.
  - destruct s; cbn [bw]; discriminate.
  - destruct s; cbn [bw]; try discriminate;
      destruct (bstep _ sz b) as [|[[s1 z1] [d|]]| |]; try discriminate; apply IH.
Qed.

(* ---- the three kinds together -------------------------------------------------------------- *)
Definition kinv (k : kind) : Prop :=
  match k with KChunked s sz => inv s sz | _ => True end.

(* whole-buffer semantics of a payload decoder: (decoder, unread rest, body, finished?) *)
Definition pbw (k : kind) (buf acc : bytes) : res (kind * bytes * bytes * bool) :=
  match k with
  | KLength n =>
      if n =? 0 then Ok (KLength 0, buf, acc, true)
      else if lenN buf <? n then Ok (KLength (n - lenN buf), [], acc ++ buf, false)
      else Ok (KLength 0, skipn (N.to_nat n) buf, acc ++ firstn (N.to_nat n) buf, true)
  | KChunked s sz =>
      match bw s sz buf acc with
      | Ok (s', sz', r, acc', e) => Ok (KChunked s' sz', r, acc', e)
      | Pend => Pend | Err => Err | Pan => Pan
      end
  | KEof => Ok (KEof, [], acc ++ buf, false)
  end.

Definition pdecode_spec (k : kind) (buf acc : bytes) (r : res (kind * bytes * option pitem)) : Prop :=
  match r with
  | Ok (k', buf', None) => buf' = [] /\ pbw k buf acc = Ok (k', [], acc, false)
  | Ok (k', buf', Some PEof) => exists k'', pbw k buf acc = Ok (k'', buf', acc, true)
  | Ok (k', buf', Some (PChunk c)) =>
      pbw k buf acc = pbw k' buf' (acc ++ c) /\ (length buf' < length buf)%nat /\ kinv k'
  | Err => pbw k buf acc = Err
  | Pan => pbw k buf acc = Pan
  | Pend => False
  end.

Lemma pdecode_ok k buf acc : kinv k -> pdecode_spec k buf acc (pdecode k buf).
Proof.
  intro Hk. destruct k as [n|s sz|]; cbn [pdecode].
  - destruct (n =? 0) eqn:E0.
    + cbn [pdecode_spec pbw]. rewrite E0. eexists; reflexivity.
    + destruct buf as [|b rest].
      * cbn [pdecode_spec pbw]. rewrite E0. split; [reflexivity|].
        unfold lenN; cbn [length]. destruct (N.of_nat 0 <? n) eqn:E; [|lia].
        rewrite app_nil_r. replace (n - N.of_nat 0) with n by lia. reflexivity.
      * remember (b :: rest) as buf eqn:Eb.
        destruct (lenN buf <? n) eqn:E.
        -- cbn [pdecode_spec pbw]. rewrite E0, E.
           assert (n - lenN buf =? 0 = false) as -> by (unfold lenN in *; lia).
           assert (lenN (@nil N) <? n - lenN buf = true) as -> by (unfold lenN in *; cbn [length]; lia).
           rewrite app_nil_r. replace (n - lenN buf - lenN (@nil N)) with (n - lenN buf) by (unfold lenN; cbn [length]; lia).
           repeat split; try reflexivity. subst buf; cbn [length]; lia.
        -- cbn [pdecode_spec pbw]. rewrite E0, E. cbn [N.eqb]. rewrite N.eqb_refl.
           repeat split; try reflexivity.
           rewrite skipn_length. subst buf. cbn [length] in *. unfold lenN in *. cbn [length] in *. lia.
  - pose proof (chunked_loop_ok (S (length buf)) s sz buf acc ltac:(lia) Hk) as H.
    destruct (chunked_loop (S (length buf)) s sz buf) as [|[[[s' sz'] buf'] [[c|]|]]| |];
      cbn [loop_spec] in H; cbn [pdecode_spec pbw].
    + contradiction.
    + destruct H as (Hb & Hl & Hi & _). rewrite Hb. repeat split; try assumption.
    + destruct H as (-> & Hb). rewrite Hb. eexists; reflexivity.
    + destruct H as (-> & _ & Hb). rewrite Hb. split; reflexivity.
    + rewrite H; reflexivity.
    + rewrite H; reflexivity.
  - destruct buf as [|b rest].
    + cbn [pdecode_spec pbw]. rewrite app_nil_r. split; reflexivity.
    + cbn [pdecode_spec pbw]. rewrite app_nil_r. repeat split. cbn [length]. lia.
Qed.

Lemma pbw_app k b1 b2 acc :
  pbw k (b1 ++ b2) acc =
  match pbw k b1 acc with
  | Ok (k', r, acc', false) => pbw k' (r ++ b2) acc'
  | Ok (k', r, acc', true) => Ok (k', r ++ b2, acc', true)
  | Pend => Pend | Err => Err | Pan => Pan
  end.
Proof.
  destruct k as [n|s sz|]; cbn [pbw].
  - destruct (n =? 0) eqn:E0; [reflexivity|].
    unfold lenN. rewrite app_length.
    destruct (N.of_nat (length b1) <? n) eqn:E1.
    + cbn [pbw app]. assert (n - N.of_nat (length b1) =? 0 = false) as -> by lia.
      unfold lenN.
      destruct (N.of_nat (length b1 + length b2) <? n) eqn:E2.
      * assert (N.of_nat (length b2) <? n - N.of_nat (length b1) = true) as -> by lia.
        rewrite app_assoc.
        replace (n - N.of_nat (length b1 + length b2)) with (n - N.of_nat (length b1) - N.of_nat (length b2)) by lia.
        reflexivity.
      * assert (N.of_nat (length b2) <? n - N.of_nat (length b1) = false) as -> by lia.
        assert (Hn : N.to_nat n = (length b1 + N.to_nat (n - N.of_nat (length b1)))%nat) by lia.
        rewrite Hn at 1 2. rewrite skipn_app, firstn_app.
        rewrite (skipn_all2 b1) by lia. rewrite (firstn_all2 b1) by lia.
        replace (length b1 + N.to_nat (n - N.of_nat (length b1)) - length b1)%nat
          with (N.to_nat (n - N.of_nat (length b1))) by lia.
        cbn [app]. rewrite app_assoc. reflexivity.
    + assert (N.of_nat (length b1 + length b2) <? n = false) as -> by lia.
      rewrite skipn_app, firstn_app.
      replace (N.to_nat n - length b1)%nat with 0%nat by lia. cbn [skipn firstn].
      rewrite app_nil_r. reflexivity.
  - rewrite bw_app. destruct (bw s sz b1 acc) as [|[[[[s' sz'] r] acc'] [|]]| |]; reflexivity.
  - cbn [app]. rewrite app_assoc. reflexivity.
Qed.

Lemma pbw_false k buf acc k' r acc' :
  pbw k buf acc = Ok (k', r, acc', false) -> r = [].
Proof.
  destruct k as [n|s sz|]; cbn [pbw].
  - destruct (n =? 0); [discriminate|]. destruct (lenN buf <? n); intro H; inversion H; reflexivity.
  - destruct (bw s sz buf acc) as [|[[[[s' sz'] r0] acc0] e]| |] eqn:E; try discriminate.
    intro H; inversion H; subst. eapply bw_false; exact E.
  - intro H; inversion H; reflexivity.
Qed.

Lemma pbw_inv k buf acc k' r acc' e : kinv k -> pbw k buf acc = Ok (k', r, acc', e) -> kinv k'.
Proof.
  destruct k as [n|s sz|]; cbn [pbw kinv]; intro Hk.
  - destruct (n =? 0); [intro H; inversion H; exact I|].
    destruct (lenN buf <? n); intro H; inversion H; exact I.
  - destruct (bw s sz buf acc) as [|[[[[s' sz'] r0] acc0] e0]| |] eqn:E; try discriminate.
    intro H; inversion H; subst. cbn [kinv]. eapply bw_inv; eassumption.
  - intro H; inversion H; exact I.
Qed.

Lemma pbw_not_pend k buf acc : pbw k buf acc <> Pend.
Proof.
  destruct k as [n|s sz|]; cbn [pbw].
  - destruct (n =? 0); [discriminate|]. destruct (lenN buf <? n); discriminate.
  - pose proof (bw_not_pend buf s sz acc). destruct (bw s sz buf acc) as [|[[[[? ?] ?] ?] ?]| |]; congruence.
  - discriminate.
Qed.

(* the body only ever grows: what was delivered stays delivered *)
Lemma bw_acc_prefix buf : forall s sz acc s' sz' r acc' e,
  bw s sz buf acc = Ok (s', sz', r, acc', e) -> exists d, acc' = acc ++ d.
Proof.
  induction buf as [|b buf IH]; intros s sz acc s' sz' r acc' e H.
  - exists []. rewrite app_nil_r. destruct s; cbn [bw] in H; inversion H; reflexivity.
  - destruct s; cbn [bw] in H; try (inversion H; exists []; rewrite app_nil_r; reflexivity);
      destruct (bstep _ sz b) as [|[[s1 z1] [d|]]| |]; try discriminate H.
    all: try (apply IH in H as [x ->]; rewrite <- app_assoc; eexists; reflexivity).
    all: try (apply IH in H as [x ->]; eexists; reflexivity).
Qed.
