(* Client/Pool.v — model of the connection pool of awc/src/client/pool.rs (HTTP/1 connections).

   Rust                                                   Gallina
   -----------------------------------------------------  ------------------------------------
   Key { authority }                                       [key] = N
   the Io of one TCP connection                            [cid] = N (fresh per connector.call)
   ConnectorConfig { limit, conn_keep_alive, conn_lifetime }  [cfg]
   PooledConnection { conn, used, created }                [pooled]
   ConnectionPoolInnerPriv.available: HashMap<Key,VecDeque> [p_avail] : list (key * list pooled)
   Arc<Semaphore> permits                                  number of live [acquired] = permits out;
                                                           an acquire with no permit left waits:
                                                           in a history it is the event EvBlocked
   Acquired { key, inner, permit } inside H1Connection     [acquired] (a_io = None once the Io was
     { io: Option<Io>, created, acquired }                  released or closed)
   ConnectionPool::call (pool.rs:166)                      [acquire]: permit, then the `while let
                                                           Some(c) = conns.pop_front()` loop [pick]
   ConnectionCheckFuture -> Live / Tainted / Skip          the oracle [chk : cid -> cstate] of the op
   Acquired::release (on_release(true))                    [release]
   Acquired::close (on_release(false)) - TCP pool has      [close]: the Io is dropped
     disconnect_timeout = None, so `close` drops the Io
   drop(H1Connection) / drop(Acquired)                     [drop_acq]: Io (if still there) dropped,
                                                           permit returned
   Drop for ConnectionPoolInner (last reference)           [pool_drop]
   Instant                                                 N (a monotone clock supplied by the ops)

   Histories are lists of [pop]; [run_pool] folds them. The sockets the client holds at a point
   are [open_conns]: the Io of every live H1Connection plus every pooled connection. *)
From AV Require Import Lib.Base.

Definition key := N.
Definition cid := N.

Record cfg := mk_cfg { c_limit : N; c_keep_alive : N; c_lifetime : N }.

Record pooled := mk_pooled { p_conn : cid; p_used : N; p_created : N }.

Record acquired := mk_acq { a_id : N; a_key : key; a_io : option cid; a_created : N }.

Inductive cstate := Live | Tainted | Skip.

Record pool := mk_pool {
  p_cfg : cfg;
  p_avail : list (key * list pooled);
  p_holders : list acquired;           (* one permit each *)
  p_next_cid : N;
  p_next_aid : N;
  p_sem_closed : bool }.

Definition pool0 (c : cfg) : pool := mk_pool c [] [] 0 0 false.

Fixpoint avail_get (k : key) (m : list (key * list pooled)) : list pooled :=
  match m with
  | [] => []
  | (k', l) :: r => if k =? k' then l else avail_get k r
  end.
Fixpoint avail_set (k : key) (l : list pooled) (m : list (key * list pooled)) : list (key * list pooled) :=
  match m with
  | [] => [(k, l)]
  | (k', l') :: r => if k =? k' then (k, l) :: r else (k', l') :: avail_set k l r
  end.

(* the pop_front loop: Some reused connection + what stays in the deque; everything popped
   before it was closed (expired / tainted) or dropped (skip) *)
Fixpoint pick (c : cfg) (now : N) (chk : cid -> cstate) (conns : list pooled)
  : option pooled * list pooled :=
  match conns with
  | [] => (None, [])
  | pc :: rest =>
      (* idle_dur > conn_keep_alive || age > conn_lifetime *)
      if (c_keep_alive c <? now - p_used pc) || (c_lifetime c <? now - p_created pc)
      then pick c now chk rest
      else match chk (p_conn pc) with
           | Tainted => pick c now chk rest
           | Skip => pick c now chk rest
           | Live => (Some pc, rest)
           end
  end.

Inductive pev :=
| EvBlocked                     (* no permit: the caller waits *)
| EvSemClosed                   (* permits.close(): acquire fails *)
| EvReused (a : N) (c : cid)
| EvNew (a : N) (c : cid)
| EvUnit.

Definition permits_out (p : pool) : N := lenN (p_holders p).

Definition acquire (k : key) (now : N) (chk : cid -> cstate) (p : pool) : pool * pev :=
  if p_sem_closed p then (p, EvSemClosed)
  else if c_limit (p_cfg p) <=? permits_out p then (p, EvBlocked)
  else
    let aid := p_next_aid p in
    let '(got, rest) := pick (p_cfg p) now chk (avail_get k (p_avail p)) in
    (* `if let Some(conns) = map.get_mut(&key)`: an absent key stays absent *)
    let avail' := match avail_get k (p_avail p) with
                  | [] => p_avail p
                  | _ => avail_set k rest (p_avail p)
                  end in
    match got with
    | Some pc =>
        (mk_pool (p_cfg p) avail'
                 (p_holders p ++ [mk_acq aid k (Some (p_conn pc)) (p_created pc)])
                 (p_next_cid p) (aid + 1) false,
         EvReused aid (p_conn pc))
    | None =>
        (* connector.call(req): a new connection, created = now *)
        let c := p_next_cid p in
        (mk_pool (p_cfg p) avail'
                 (p_holders p ++ [mk_acq aid k (Some c) now])
                 (c + 1) (aid + 1) false,
         EvNew aid c)
    end.

Fixpoint find_acq (a : N) (l : list acquired) : option acquired :=
  match l with
  | [] => None
  | x :: r => if a_id x =? a then Some x else find_acq a r
  end.
Fixpoint update_acq (a : N) (f : acquired -> acquired) (l : list acquired) : list acquired :=
  match l with
  | [] => []
  | x :: r => if a_id x =? a then f x :: r else x :: update_acq a f r
  end.
Fixpoint remove_acq (a : N) (l : list acquired) : list acquired :=
  match l with
  | [] => []
  | x :: r => if a_id x =? a then r else x :: remove_acq a r
  end.

Definition take_io (x : acquired) : acquired := mk_acq (a_id x) (a_key x) None (a_created x).

(* H1Connection::release: io.take().unwrap(); acquired.release(io, created) - push_back *)
Definition release (a : N) (now : N) (p : pool) : pool :=
  match find_acq a (p_holders p) with
  | Some x =>
      match a_io x with
      | Some c =>
          mk_pool (p_cfg p)
                  (avail_set (a_key x) (avail_get (a_key x) (p_avail p) ++ [mk_pooled c now (a_created x)])
                             (p_avail p))
                  (update_acq a take_io (p_holders p))
                  (p_next_cid p) (p_next_aid p) (p_sem_closed p)
      | None => p                                     (* unwrap on None: not reachable from awc *)
      end
  | None => p
  end.

(* H1Connection::close: the Io is dropped, the permit stays with the Acquired *)
Definition close (a : N) (p : pool) : pool :=
  mk_pool (p_cfg p) (p_avail p) (update_acq a take_io (p_holders p))
          (p_next_cid p) (p_next_aid p) (p_sem_closed p).

(* drop of the H1Connection: Io dropped with it (if still there), permit returned *)
Definition drop_acq (a : N) (p : pool) : pool :=
  mk_pool (p_cfg p) (p_avail p) (remove_acq a (p_holders p))
          (p_next_cid p) (p_next_aid p) (p_sem_closed p).

(* last reference to the pool dropped: permits closed, every idle connection closed *)
Definition pool_drop (p : pool) : pool :=
  mk_pool (p_cfg p) [] (p_holders p) (p_next_cid p) (p_next_aid p) true.

Inductive pop :=
| OAcquire (k : key) (now : N) (chk : cid -> cstate)
| ORelease (a : N) (now : N)
| OClose (a : N)
| ODrop (a : N)
| OPoolDrop.

Definition pstep (p : pool) (o : pop) : pool * pev :=
  match o with
  | OAcquire k now chk => acquire k now chk p
  | ORelease a now => (release a now p, EvUnit)
  | OClose a => (close a p, EvUnit)
  | ODrop a => (drop_acq a p, EvUnit)
  | OPoolDrop => (pool_drop p, EvUnit)
  end.

Fixpoint run_pool (p : pool) (ops : list pop) : pool :=
  match ops with
  | [] => p
  | o :: r => run_pool (fst (pstep p o)) r
  end.

(* sockets held by requests in flight / idle in the pool / all *)
Definition held_conns (p : pool) : list cid :=
  flat_map (fun x => match a_io x with Some c => [c] | None => [] end) (p_holders p).
Definition idle_conns (p : pool) : list cid :=
  flat_map (fun kl : key * list pooled => map p_conn (snd kl)) (p_avail p).
Definition open_conns (p : pool) : list cid := held_conns p ++ idle_conns p.

Definition op_key (o : pop) : option key :=
  match o with OAcquire k _ _ => Some k | _ => None end.
