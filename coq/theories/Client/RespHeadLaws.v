(* Client/RespHeadLaws.v — the concrete tokenizer of Client/RespHead.v satisfies the
   prefix-stability laws [hp_laws] that LeftoverProofs assumes of the head tokenizer (so the
   no-leftovers theorem is not vacuous, and holds outright for the driver's instance). *)
From AV Require Import Lib.Base H1.Chunked H1.PayloadDec H1.Framing
  Client.ClientCodec Client.RespHead Client.LeftoverProofs.

Lemma split_head_ext s x : forall cur ls cr,
  match split_head s cur ls cr with
  | LsDone lines rest => split_head (s ++ x) cur ls cr = LsDone lines (rest ++ x)
  | LsBad => split_head (s ++ x) cur ls cr = LsBad
  | LsPartial => True
  end.
Proof.
  induction s as [|b r IH]; intros cur ls cr; cbn [split_head app]; [exact I|].
  destruct cr.
  - destruct (b =? 10); [|reflexivity].
    destruct cur; [reflexivity|apply IH].
  - destruct (b =? 13); [apply IH|].
    destruct (b =? 10); [reflexivity|apply IH].
Qed.

Lemma split_head_rest s : forall cur ls cr lines rest,
  split_head s cur ls cr = LsDone lines rest -> (length rest <= length s)%nat.
Proof.
  induction s as [|b r IH]; intros cur ls cr lines rest; cbn [split_head]; [discriminate|].
  destruct cr.
  - destruct (b =? 10); [|discriminate].
    destruct cur.
    + intro H; inversion H; subst. cbn [length]. lia.
    + intro H. apply IH in H. cbn [length]. lia.
  - destruct (b =? 13); [intro H; apply IH in H; cbn [length]; lia|].
    destruct (b =? 10); [discriminate|intro H; apply IH in H; cbn [length]; lia].
Qed.

Theorem simple_rhead_laws : hp_laws simple_rhead.
Proof.
  constructor.
  - intros b x len ver st hs. unfold simple_rhead.
    pose proof (split_head_ext b x [] [] false) as He.
    destruct (split_head b [] [] false) as [| |lines rest] eqn:Es; try discriminate.
    rewrite He. pose proof (split_head_rest _ _ _ _ _ _ Es) as Hr.
    destruct lines as [|sl hls]; [discriminate|].
    destruct (parse_status_line sl) as [[vv st']|]; [|discriminate].
    destruct (parse_header_lines hls); [|discriminate].
    intro H; inversion H; subst. split; [lia|].
    rewrite !app_length. f_equal. lia.
  - intros b x e. unfold simple_rhead.
    pose proof (split_head_ext b x [] [] false) as He.
    destruct (split_head b [] [] false) as [| |lines rest] eqn:Es; try discriminate.
    + rewrite He. intro H; exact H.
    + rewrite He. destruct lines as [|sl hls]; [intro H; exact H|].
      destruct (parse_status_line sl) as [[vv st']|]; [|intro H; exact H].
      destruct (parse_header_lines hls); [discriminate|intro H; exact H].
  - reflexivity.
Qed.
