(* Client/ReqConn.v — the REQUEST side of the keep-alive decision.

   `Encoder::encode(Message::Item)` (client.rs:208) sets `ClientCodecInner.conn_type` from the
   request head: KeepAlive (when KEEP_ALIVE_ENABLED), Upgrade or Close (force_close, HTTP/1.0).
   `ClientCodec::decode` (client.rs:138) then takes ONLY A DOWNGRADE from the peer:

       if let Some(conn_type) = req.conn_type() {
           // do not use peer's keep-alive
           self.inner.conn_type = if conn_type == ConnectionType::KeepAlive
               { self.inner.conn_type } else { conn_type };
       }

   so `codec.keep_alive()` - the argument of every `on_release` - is true only if the REQUEST was
   sent persistent and no response head said close / upgrade.

   [exchange_ct] is [PlStream.exchange] with the request's connection type as an input
   ([exchange] = [exchange_ct CKeepAlive], by computation); [conn_exchange_ct] / [conn_run_ct] are
   [Conn.conn_exchange] / [Conn.conn_run] over requests (conn type, HEAD?, read to the end?). *)
From AV Require Import Lib.Base H1.Chunked H1.PayloadDec H1.Framing
  Client.ClientCodec Client.PlStream Client.Pool Client.Conn Client.BodyProofs Client.ClientProofs
  Client.RespHead.

Section WithParser.
  Variable hp : bytes -> rhead_res.
  Variable max_buffer_size : N.
  Variable v : variant.

  Lemma exchange_ct_keep_alive is_head read_all segs closed :
    exchange_ct hp max_buffer_size v CKeepAlive is_head read_all segs closed =
    exchange hp max_buffer_size v is_head read_all segs closed.
  Proof. reflexivity. Qed.

  Lemma conn_exchange_ct_keep_alive is_head read_all evs :
    conn_exchange_ct hp max_buffer_size v CKeepAlive is_head read_all evs =
    conn_exchange hp max_buffer_size v is_head read_all evs.
  Proof. reflexivity. Qed.

End WithParser.

(* ---- a relation carried through Framed::next_item ------------------------------------------ *)
Section Rel.
  Context {C I E : Type}.
  Variable dec : C -> bytes -> dres E (C * bytes * option I).
  Variable deof : C -> bytes -> dres E (C * bytes * option I).
  Variable R : C -> C -> Prop.
  Hypothesis Rrefl : forall c, R c c.
  Hypothesis Rtrans : forall a b c, R a b -> R b c -> R a c.
  Hypothesis Hdec : forall c b c' b' it, dec c b = DOk (c', b', it) -> R c c'.
  Hypothesis Hdeof : forall c b c' b' it, deof c b = DOk (c', b', it) -> R c c'.

  Lemma eof_ret_rel c b it c' f' : eof_ret deof c b = NItem it c' f' -> R c c'.
  Proof.
    unfold eof_ret. destruct (deof c b) as [[[c1 b1] [i1|]]|e|] eqn:Ed; try discriminate.
    intro H; inversion H; subst. eapply Hdeof; exact Ed.
  Qed.

  Lemma pre_rel c f :
    match pre dec deof c f with
    | SRet (NItem _ c' _) => R c c'
    | SRead c' _ => R c c'
    | _ => True
    end.
  Proof.
    unfold pre. destruct (f_readable f); [|apply Rrefl]. destruct (f_eof f).
    - destruct (eof_ret deof c (f_buf f)) eqn:Ee; try exact Logic.I. eapply eof_ret_rel; exact Ee.
    - destruct (dec c (f_buf f)) as [[[c1 b1] [i1|]]|e|] eqn:Ed; try exact Logic.I; eapply Hdec; exact Ed.
  Qed.

  Lemma next_item_rel : forall segs c f closed it c' f' s,
    next_item dec deof c f segs closed = (NItem it c' f', s) -> R c c'.
  Proof.
    induction segs as [|seg more IH]; intros c f closed it c' f' s; cbn [next_item];
      pose proof (pre_rel c f) as P; destruct (pre dec deof c f) as [r|c1 f1].
    - intro H; inversion H; subst. exact P.
    - destruct closed; intro H; inversion H as [[H1 H2]].
      eapply Rtrans; [exact P|]. eapply eof_ret_rel; exact H1.
    - intro H; inversion H; subst. exact P.
    - destruct seg as [|x seg'].
      + intro H; inversion H as [[H1 H2]]. eapply Rtrans; [exact P|]. eapply eof_ret_rel; exact H1.
      + intro H. eapply Rtrans; [exact P|]. eapply IH; exact H.
  Qed.
End Rel.

Lemma deof_default_rel {C I E : Type} (dec : C -> bytes -> dres E (C * bytes * option I)) (rem : E)
    (R : C -> C -> Prop) :
  (forall c b c' b' it, dec c b = DOk (c', b', it) -> R c c') ->
  forall c b c' b' it, deof_default dec rem c b = DOk (c', b', it) -> R c c'.
Proof.
  intros Hd c b c' b' it. unfold deof_default.
  destruct (dec c b) as [[[c1 b1] [i1|]]|e|] eqn:Ed; try discriminate.
  - intro H; inversion H; subst. eapply Hd; exact Ed.
  - destruct b1; [|discriminate]. intro H; inversion H; subst. eapply Hd; exact Ed.
Qed.

(* ---- the head: only a downgrade is taken from the peer -------------------------------------- *)
(* the response head did not announce close / upgrade *)
Definition head_persistent (h : rhead) : Prop :=
  rh_conn_type h <> Some CClose /\ rh_conn_type h <> Some CUpgrade.

(* [c'] is keep-alive only if [c] was *)
Definition ka_from (c c' : ccodec) : Prop := keep_alive c' = true -> keep_alive c = true.

Section Head.
  Variable hp : bytes -> rhead_res.
  Variable maxb : N.

  Lemma cc_decode_conn c src c' rest h :
    cc_decode hp maxb c src = DOk (c', rest, Some h) ->
    keep_alive c' = true -> keep_alive c = true /\ head_persistent h.
  Proof.
    unfold cc_decode. destruct (cc_payload c); [discriminate|].
    destruct (response_decode hp maxb src) as [[[[h1 pt] r1]|]|e|]; try discriminate.
    intro H. injection H as Hc Hr Hh. subst h1. clear Hr.
    unfold keep_alive, head_persistent.
    assert (G : cc_conn c' = match rh_conn_type h with
                             | Some CKeepAlive => cc_conn c | Some ct => ct | None => cc_conn c end).
    { rewrite <- Hc. destruct (negb (cc_head c)); [destruct pt|]; reflexivity. }
    rewrite G. destruct (rh_conn_type h) as [[| |]|]; intro K; try discriminate;
      (split; [exact K|split; discriminate]).
  Qed.

  Lemma cc_decode_ka_from c src c' rest it :
    cc_decode hp maxb c src = DOk (c', rest, it) -> ka_from c c'.
  Proof.
    destruct it as [h|].
    - intros H K. exact (proj1 (cc_decode_conn _ _ _ _ _ H K)).
    - unfold cc_decode. destruct (cc_payload c); [discriminate|].
      destruct (response_decode hp maxb src) as [[[[h1 pt] r1]|]|e|]; try discriminate.
      intro H; inversion H; subst. intro K; exact K.
  Qed.

  Lemma ka_from_refl c : ka_from c c.
  Proof. intro K; exact K. Qed.
  Lemma ka_from_trans a b c : ka_from a b -> ka_from b c -> ka_from a c.
  Proof. intros H1 H2 K. exact (H1 (H2 K)). Qed.

  Lemma head_next_ka c f segs closed h c' f' segs' :
    head_next hp maxb c f segs closed = (NItem h c' f', segs') -> ka_from c c'.
  Proof.
    unfold head_next.
    apply (next_item_rel (cc_decode hp maxb) (deof_default (cc_decode hp maxb) EIo) ka_from
             ka_from_refl ka_from_trans).
    - intros c0 b c1 b1 it. apply cc_decode_ka_from.
    - apply deof_default_rel. intros c0 b c1 b1 it. apply cc_decode_ka_from.
  Qed.
End Head.

Section Exchange.
  Variable hp : bytes -> rhead_res.
  Variable maxb : N.

  (* the head returned by [head_next]: keep-alive afterwards only if the head did not say
     close / upgrade *)
  Lemma head_next_persistent c f segs closed h c' f' segs' :
    head_next hp maxb c f segs closed = (NItem h c' f', segs') ->
    keep_alive c' = true -> head_persistent h.
  Proof.
    intros H K. unfold head_next in H. apply next_item_origin in H as (c0 & b & r & [Hd|Hd]).
    - exact (proj2 (cc_decode_conn hp maxb _ _ _ _ _ Hd K)).
    - unfold deof_default in Hd.
      destruct (cc_decode hp maxb c0 b) as [[[c1 b1] [it|]]|e|] eqn:Ed; try discriminate.
      + inversion Hd; subst. exact (proj2 (cc_decode_conn hp maxb _ _ _ _ _ Ed K)).
      + destruct b1; discriminate.
  Qed.

  (* the head loop of send_request (with or without the proposed interim loop) *)
  Lemma read_head_conn : forall fuel v c f segs closed h c' f' segs',
    read_head hp maxb v fuel c f segs closed = HHead h c' f' segs' ->
    keep_alive c' = true -> keep_alive c = true /\ head_persistent h.
  Proof.
    induction fuel as [|fu IH]; intros v c f segs closed h c' f' segs'; cbn [read_head];
      destruct (head_next hp maxb c f segs closed) as [[c1 f1|h1 c1 f1|c1 f1|e|] s1] eqn:En; try discriminate.
    - destruct (f17_fixed v && is_interim h1 && match message_type c1 with MTNone => true | _ => false end);
        [discriminate|].
      intro H; inversion H; subst. intro K. split.
      + exact (head_next_ka hp maxb _ _ _ _ _ _ _ _ En K).
      + exact (head_next_persistent _ _ _ _ _ _ _ _ En K).
    - destruct (f17_fixed v && is_interim h1 && match message_type c1 with MTNone => true | _ => false end).
      + intros H K. destruct (IH _ _ _ _ _ _ _ _ _ H K) as [K1 P]. split; [|exact P].
        exact (head_next_ka hp maxb _ _ _ _ _ _ _ _ En K1).
      + intro H; inversion H; subst. intro K. split.
        * exact (head_next_ka hp maxb _ _ _ _ _ _ _ _ En K).
        * exact (head_next_persistent _ _ _ _ _ _ _ _ En K).
  Qed.

  (* the body: the payload codec never touches conn_type *)
  Lemma pc_decode_conn c src c' src' it : pc_decode c src = DOk (c', src', it) -> cc_conn c' = cc_conn c.
  Proof.
    unfold pc_decode. destruct (cc_payload c) as [k|]; [|discriminate].
    destruct (pdecode k src) as [|[[k' s'] [[x|]|]]| |]; try discriminate;
      intro H; inversion H; subst; reflexivity.
  Qed.

  Lemma pc_decode_eof_conn fx c src c' src' it :
    pc_decode_eof fx c src = DOk (c', src', it) -> cc_conn c' = cc_conn c.
  Proof.
    unfold pc_decode_eof. destruct fx.
    - destruct (pc_decode c src) as [[[c1 b1] [i1|]]|e|] eqn:Ed; try discriminate.
      + intro H; inversion H; subst. eapply pc_decode_conn; exact Ed.
      + destruct (cc_payload c1) as [k|]; [destruct (is_eof_kind k)|]; try discriminate;
          intro H; inversion H; subst; eapply pc_decode_conn; exact Ed.
    - apply (deof_default_rel pc_decode PEIo (fun a b => cc_conn b = cc_conn a)).
      intros c0 b c1 b1 i0. apply pc_decode_conn.
  Qed.

  Lemma pl_next_conn v c f segs closed it c' f' s :
    pl_next v c f segs closed = (NItem it c' f', s) -> cc_conn c' = cc_conn c.
  Proof.
    unfold pl_next.
    apply (next_item_rel pc_decode (pc_decode_eof (f9_fixed v)) (fun a b => cc_conn b = cc_conn a)).
    - reflexivity.
    - intros a b c0 H1 H2. congruence.
    - intros c0 b c1 b1 i0. apply pc_decode_conn.
    - intros c0 b c1 b1 i0. apply pc_decode_eof_conn.
  Qed.

  (* ReadBody: a release at the end of the body means the codec was keep-alive when the body
     began, and the body was delivered as Ok *)
  Lemma read_body_released v : forall fuel c f segs closed acc b rest,
    read_body v fuel c f segs closed acc = (b, FReleased, rest) ->
    keep_alive c = true /\ exists body, b = BOk body.
  Proof.
    induction fuel as [|fu IH]; intros c f segs closed acc b rest; cbn [read_body]; [discriminate|].
    unfold pl_poll_next.
    destruct (pl_next v c f segs closed) as [[c1 f1|[ch|] c1 f1|c1 f1|e|] s1] eqn:En; try discriminate.
    - intro H. destruct (IH _ _ _ _ _ _ _ H) as [K B]. split; [|exact B].
      unfold keep_alive in *. rewrite <- (pl_next_conn _ _ _ _ _ _ _ _ _ En). exact K.
    - destruct (keep_alive c1) eqn:K; [|discriminate]. intro H; inversion H; subst. split; [|eexists; reflexivity].
      unfold keep_alive in *. rewrite <- (pl_next_conn _ _ _ _ _ _ _ _ _ En). exact K.
  Qed.

  (* ONE EXCHANGE: the connection goes back to the pool only if the REQUEST was sent persistent,
     the response head did not say close / upgrade, and either the response has no body
     (MessageType::None) or the body was read and delivered as Ok (PayloadItem::Eof reached:
     [ClientProofs.release_only_when_done] says the decoder then finished) *)
  Theorem release_needs_persistent_request v rc is_head read_all segs closed :
    x_fate (exchange_ct hp maxb v rc is_head read_all segs closed) = FReleased ->
    rc = CKeepAlive /\
    exists h c f segs',
      read_head hp maxb v (length (concat segs)) (codec_after_encode is_head rc) framed0 segs closed
        = HHead h c f segs' /\
      keep_alive c = true /\ head_persistent h /\
      (message_type c = MTNone \/
       (read_all = true /\ exists body,
          x_out (exchange_ct hp maxb v rc is_head read_all segs closed) = OResp (rh_status h) (Some (BOk body)))).
  Proof.
    unfold exchange_ct.
    destruct (read_head hp maxb v (length (concat segs)) (codec_after_encode is_head rc) framed0 segs closed)
      as [h c f segs'|e] eqn:Eh; [|discriminate].
    assert (G : keep_alive c = true ->
                rc = CKeepAlive /\ keep_alive c = true /\ head_persistent h).
    { intro K. destruct (read_head_conn _ _ _ _ _ _ _ _ _ _ Eh K) as [K0 P].
      split; [|split; assumption]. unfold keep_alive, codec_after_encode in K0. cbn [cc_conn] in K0.
      destruct rc; try discriminate. reflexivity. }
    destruct (message_type c) eqn:Em.
    - cbn [x_fate]. destruct (keep_alive c) eqn:K; [|discriminate]. intros _.
      destruct (G eq_refl) as (R1 & R2 & R3). split; [exact R1|].
      exists h, c, f, segs'. split; [reflexivity|]. split; [exact K|]. split; [exact R3|]. left; exact Em.
    - destruct read_all; [|discriminate].
      destruct (read_body v (body_fuel f segs') c f segs' closed []) as [[b ft] rest] eqn:Eb.
      cbn [x_fate x_out]. intro; subst ft.
      destruct (read_body_released v _ _ _ _ _ _ _ _ Eb) as [K [body ->]].
      destruct (G K) as (R1 & R2 & R3). split; [exact R1|].
      exists h, c, f, segs'. split; [reflexivity|]. split; [exact K|]. split; [exact R3|].
      right. split; [reflexivity|]. exists body. reflexivity.
    - destruct read_all; [|discriminate].
      destruct (read_body v (body_fuel f segs') c f segs' closed []) as [[b ft] rest] eqn:Eb.
      cbn [x_fate x_out]. intro; subst ft.
      destruct (read_body_released v _ _ _ _ _ _ _ _ Eb) as [K [body ->]].
      destruct (G K) as (R1 & R2 & R3). split; [exact R1|].
      exists h, c, f, segs'. split; [reflexivity|]. split; [exact K|]. split; [exact R3|].
      right. split; [reflexivity|]. exists body. reflexivity.
  Qed.

  (* ONE CONNECTION: a request that was not sent persistent (force_close / HTTP/1.0 /
     Connection: close) is the last one this connection ever carries - whatever the peer answers *)
  Theorem nonpersistent_request_ends_connection v rc is_head read_all more evs :
    rc <> CKeepAlive ->
    length (conn_run_ct hp maxb v ((rc, is_head, read_all) :: more) evs) = 1%nat.
  Proof.
    intro Hn. cbn [conn_run_ct]. unfold conn_exchange_ct.
    destruct (leading_data (remove_first_W evs)) as [segs tail].
    set (closed := match tail with EC :: _ => true | _ => false end).
    destruct (x_fate (exchange_ct hp maxb v rc is_head read_all segs closed)) eqn:Ef; [|reflexivity].
    apply release_needs_persistent_request in Ef as [R _]. contradiction.
  Qed.
End Exchange.

(* non-vacuity: a keep-alive request answered `200, content-length: 2, "ok"` is released; the same
   bytes after a force_close request (even with `connection: keep-alive` in the answer) are not *)
Definition resp_ok2 : bytes :=   (* "HTTP/1.1 200 OK\r\ncontent-length: 2\r\n\r\nok" *)
  [72;84;84;80;47;49;46;49;32;50;48;48;32;79;75;13;10;99;111;110;116;101;110;116;45;108;101;110;103;116;104;58;32;50;13;10;13;10;111;107].
Definition resp_ok2_ka : bytes :=   (* "HTTP/1.1 200 OK\r\nconnection: keep-alive\r\ncontent-length: 2\r\n\r\nok" *)
  [72;84;84;80;47;49;46;49;32;50;48;48;32;79;75;13;10;99;111;110;110;101;99;116;105;111;110;58;32;107;101;101;112;45;97;108;105;118;101;13;10;99;111;110;116;101;110;116;45;108;101;110;103;116;104;58;32;50;13;10;13;10;111;107].

Example req_conn_examples :
  x_fate (exchange_ct simple_rhead 131072 v_orig CKeepAlive false true [resp_ok2] false) = FReleased /\
  x_fate (exchange_ct simple_rhead 131072 v_orig CClose false true [resp_ok2_ka] false) = FClosed /\
  x_out (exchange_ct simple_rhead 131072 v_orig CClose false true [resp_ok2_ka] false) = OResp 200 (Some (BOk [111;107])) /\
  conn_run_ct simple_rhead 131072 v_orig [(CClose, false, true); (CKeepAlive, false, true)]
    [EW; ED resp_ok2_ka; EW; ED resp_ok2] = [OResp 200 (Some (BOk [111;107]))].
Proof. vm_compute. repeat split. Qed.
