#!/usr/bin/env python3
"""Assemble MANIFEST.json from meta/*.json (one file per claimed property) and meta/not_applicable.json."""
import glob, json, os
ROOT = os.path.abspath(os.path.join(os.path.dirname(os.path.abspath(__file__)), ".."))
checks = []
for p in sorted(glob.glob(os.path.join(ROOT, "meta", "C*.json"))):
    m = json.load(open(p))
    if not m.get("ready"):
        continue
    pid = m["id"]
    checks.append({
        "property_id": pid,
        "quick_cmd": "./check %s --tier quick" % pid,
        "thorough_cmd": "./check %s --tier thorough" % pid,
        "evidence_file": "/verif/evidence/%s.json" % pid,
        "replay_cmd_template": "./check %s --replay {path}" % pid,
        "engine": "coq-model+correspondence",
        "level_claimed": {"category": "proof", "text": m["level_text"], "design_ref": m.get("design_ref", "DESIGN.md section 5")},
        "level_note": m["level_note"],
        "technique": m["technique"],
    })
na_path = os.path.join(ROOT, "meta", "not_applicable.json")
na = json.load(open(na_path)) if os.path.exists(na_path) else []
claimed = {c["property_id"] for c in checks}
reasons = {x["property_id"]: x["reason"] for x in na}
allp = [json.loads(l)["id"] for l in open(os.path.join(ROOT, "properties.jsonl"))]
DEFAULT = "check under construction in this session (model, proofs and harness exist or are in progress, see DESIGN.md and notes/); not claimed until ./check passes on the unchanged tree"
na = [{"property_id": p, "reason": reasons.get(p, DEFAULT)} for p in allp if p not in claimed]
hooks_path = os.path.join(ROOT, "meta", "hooks.json")
hooks = json.load(open(hooks_path))
man = {
    "version": 1,
    "setup_cmd": "./tools/setup.sh",
    "hooks": hooks,
    "engines": [{"name": "coq-model+correspondence", "path": "/verif/tools/check.py",
                 "serves_properties": sorted(claimed),
                 "kind_free_text": "Coq 8.16.1 theorems over hand-written Gallina models (coq/theories), tied to /repo by a differential correspondence check: the Rust harness (harness/src/bin/cXX.rs, path dependencies on /repo) runs the implementation on generated cases and the same cases are evaluated on the model inside Coq by vm_compute; constants are re-extracted from the sources on every run"}],
    "checks": checks,
    "notes": "See DESIGN.md. Known findings: known_findings.txt. Seeded changes used to test the checks: seeded/.",
    "not_applicable": na,
}
json.dump(man, open(os.path.join(ROOT, "MANIFEST.json"), "w"), indent=1)
print("MANIFEST.json: %d checks, %d not_applicable" % (len(checks), len(na)))
