#!/bin/sh
# usage: tools/apply_fix.sh <patch> -- <test command...>
# Applies a builder's repair to /repo, runs the given test command there (guard off), and commits it
# as one unguarded "fix:" commit whose message is the patch's header (text before the first "---"/"diff").
set -e
P=$(realpath "$1"); shift; [ "$1" = "--" ] && shift
cd /repo
git diff --quiet || { echo "/repo has uncommitted changes"; exit 2; }
git apply --check "$P"
git apply "$P"
MSG=$(awk '/^---$/||/^diff --git/{exit} {print}' "$P" | grep -v '^Found by verification' | sed -e :a -e '/^\n*$/{$d;N;ba' -e '}')
case "$MSG" in fix:*) ;; *) if [ -f "${P%.*}.msg" ]; then MSG=$(grep -v '^Found by verification' "${P%.*}.msg"); fi;; esac
case "$MSG" in fix:*) ;; *) echo "no fix: message found"; git checkout -- .; exit 2;; esac
if [ $# -gt 0 ]; then
  if ! env -u RUSTFLAGS CARGO_NET_OFFLINE=true "$@"; then echo "TESTS FAILED - reverting"; git checkout -- .; exit 1; fi
fi
git add -A
git commit -q -m "$MSG"
git log --oneline | head -1
