#!/bin/sh
# Re-evaluates every seeded change against the current checks (final sweep). Two parallel streams.
# usage: tools/seed_sweep.sh            (logs: /tmp/sweep_A.log /tmp/sweep_B.log; metas rewritten at the end)
cd /verif
H1="cargo test -p actix-http --offline --lib h1:: && cargo test -p actix-http --offline --test test_server"
line() { # id crate testcmd checks...
  id=$1; crate=$2; cmd=$3; shift 3
  p=${id%-*}; n=${id#*-}
  # seed_eval takes its input from /tmp/seed-<cxx>-out/<n>; recreate it from seeded/ so the sweep is self-contained
  low=$(echo "$p" | tr 'A-Z' 'a-z'); mkdir -p /tmp/seed-$low-out/$n
  cp seeded/$id/patch.diff /tmp/seed-$low-out/$n/patch.diff; cp seeded/$id/demo.rs /tmp/seed-$low-out/$n/demo.rs
  rm -f /tmp/seed-$low-out/$n/*.rs.bak; for f in /tmp/seed-$low-out/$n/*; do case "$f" in */patch.diff|*/demo.rs|*/README.txt) ;; *) rm -rf "$f";; esac; done
  [ -d /tmp/seed-$low ] || git -C /repo worktree add --detach /tmp/seed-$low HEAD >/dev/null 2>&1
  rm -f seeded/$id/check_*.log
  tools/seed_eval.sh "$p" "$n" "$crate" "$cmd" "$@"
}
A() {
line C01-1 actix-http "$H1" C01
line C01-2 actix-http "$H1" C01 C03
line C02-1 actix-http "$H1" C02 C03
line C02-2 actix-http "$H1" C02 C04
line C03-1 actix-http "$H1" C03
line C03-2 actix-http "$H1" C03 C01
line C04-1 actix-http "$H1" C04
line C04-2 actix-http "$H1" C04
line C05-1 actix-http "$H1" C05
line C05-2 actix-http "$H1" C05
line C06-1 actix-http "$H1" C06
line C06-2 actix-http "$H1" C06
line C07-1 actix-http "cargo test -p actix-http --offline --lib h1::" C07
line C07-2 actix-http "cargo test -p actix-http --offline --lib h1::" C07
line C08-1 actix-http "cargo test -p actix-http --offline --features http2 --lib h2 && cargo test -p actix-http --offline --test test_h2_timer" C08
line C08-2 actix-http "cargo test -p actix-http --offline --features http2 --lib h2 && cargo test -p actix-http --offline --test test_h2_timer" C08
line C14-1 actix-http "cargo test -p actix-http --offline --features ws --lib ws::" C14
line C14-2 actix-http "cargo test -p actix-http --offline --features ws --lib ws::" C14
line C18-1 actix-http "cargo test -p actix-http --offline --lib header::" C18
line C18-2 actix-http "cargo test -p actix-http --offline --lib header::" C18
}
B() {
line C09-1 actix-web "cargo test -p actix-web --offline --lib -- scope:: resource:: route:: app:: app_service::" C09 C11
line C09-2 actix-web "cargo test -p actix-web --offline --lib -- scope:: resource:: route:: app:: app_service::" C09
line C10-1 actix-router "cargo test -p actix-router --offline" C10 C09
line C10-2 actix-router "cargo test -p actix-router --offline" C10 C09
line C11-1 actix-web "cargo test -p actix-web --offline --lib -- request:: app_service:: service::" C11
line C11-2 actix-web "cargo test -p actix-web --offline --lib -- request:: app_service:: service::" C11
line C12-1 actix-web "cargo test -p actix-web --offline --lib types::" C12
line C12-2 actix-web "cargo test -p actix-web --offline --lib types::" C12
line C13-1 actix-web "cargo test -p actix-web --offline --lib -- middleware::compress header:: && cargo test -p actix-web --offline --test compression" C13
line C13-2 actix-web "cargo test -p actix-web --offline --lib -- middleware::compress header:: && cargo test -p actix-web --offline --test compression" C13
line C15-1 actix-multipart "cargo test -p actix-multipart --offline --lib" C15
line C15-2 actix-multipart "cargo test -p actix-multipart --offline --lib" C15
line C16-1 actix-files "cargo test -p actix-files --offline" C16
line C16-2 actix-files "cargo test -p actix-files --offline" C16
line C17-1 awc "cargo test -p awc --offline && cargo test -p actix-http --offline --lib h1::" C17
line C17-2 awc "cargo test -p awc --offline" C17
line C19-1 actix-multipart "cargo test -p actix-multipart --offline --lib" C19 C15
line C19-2 actix-web "cargo test -p actix-web --offline --lib info::" C19
}
A > /tmp/sweep_A.log 2>&1 &
B > /tmp/sweep_B.log 2>&1 &
wait
for d in seeded/*/; do python3 tools/seed_meta.py "$(basename "$d")"; done
python3 tools/gen_design_part2.py
