#!/bin/sh
# Run the repository's pinned test-suite (guard OFF) the way BASELINE.json does; summary on stdout.
# usage: tools/baseline.sh [repo-root]   (default /repo)
R=${1:-/repo}
cd "$R" || exit 2
unset RUSTFLAGS
CARGO_NET_OFFLINE=true cargo nextest run --workspace --no-fail-fast --tool-config-file pb:/w/lib/nextest.toml --profile pb --test-threads 8 --offline 2>&1 | tail -40
