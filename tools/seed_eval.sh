#!/bin/sh
# usage: tools/seed_eval.sh <Cxx> <n> <crate> "<crate test cmd>" [check ids...]
# Confirms a seeded change in its scratch worktree (/tmp/seed-<cxx>): applies the patch, runs the crate's
# existing tests (must pass) and the agent's demo (must fail), then runs ./check against that worktree
# (VERIF_REPO) and records the verdict. Leaves the worktree clean.
PID=$1; N=$2; CRATE=$3; TESTCMD=$4; shift 4
CHECKS=${*:-$PID}
low=$(echo "$PID" | tr 'A-Z' 'a-z')
WT=/tmp/seed-$low; OUT=/tmp/seed-$low-out/$N
DST=/verif/seeded/$PID-$N
mkdir -p "$DST"
cp "$OUT"/patch.diff "$DST"/ ; cp "$OUT"/README.txt "$DST"/ 2>/dev/null
DEMO=$(ls "$OUT" | grep -E '\.rs$|^demo$' | head -1)
cp "$OUT/$DEMO" "$DST/demo.rs"
cd "$WT" || exit 2
git checkout -q -- . ; git checkout -q --detach $(git -C /repo rev-parse HEAD) ; git apply "$DST/patch.diff" || { echo "patch does not apply"; exit 2; }
( eval "$TESTCMD" ) > "$DST/tests_with_change.log" 2>&1; T=$?
mkdir -p "$CRATE/tests"; cp "$DST/demo.rs" "$CRATE/tests/seed_demo_$N.rs"
cargo test -p "$CRATE" --offline --all-features --test "seed_demo_$N" > "$DST/demo_with_change.log" 2>&1; D=$?
rm -f "$CRATE/tests/seed_demo_$N.rs"; rmdir "$CRATE/tests" 2>/dev/null
echo "existing tests rc=$T (0 expected)  demo rc=$D (non-zero expected)"
cd /verif
for c in $CHECKS; do
  VERIF_REPO=$WT ./check "$c" > "$DST/check_$c.log" 2>&1; echo "check $c rc=$? : $(grep -E 'VIOLATION|KNOWN' "$DST/check_$c.log" | head -2 | cut -c1-200)"
  tail -n 3 "$DST/check_$c.log" | head -1 | cut -c1-200
done
cd "$WT" && git checkout -q -- .
