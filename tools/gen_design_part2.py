#!/usr/bin/env python3
"""Regenerates the machine-assembled tables of DESIGN.md Part II (between the AUTOGEN markers)
from meta/*.json, coq/theories/Props/*.v, known_findings.txt, seeded/*/meta.json and evidence/*.json."""
import glob, json, os, re
ROOT = os.path.abspath(os.path.join(os.path.dirname(os.path.abspath(__file__)), ".."))
def theorems(pid):
    p = os.path.join(ROOT, "coq/theories/Props/%s.v" % pid)
    if not os.path.exists(p): return []
    t = re.sub(r"\(\*.*?\*\)", "", open(p).read(), flags=re.S)
    return re.findall(r"^\s*(?:Theorem|Lemma|Corollary)\s+([A-Za-z0-9_']+)", t, flags=re.M)
out = []
out.append("| id | claimed | theorems (Props/Cxx.v) | refuted / partial statements | last quick run on /repo (cases, model-evaluated, disagreements, known-class oracle failures) | notes |")
out.append("|---|---|---|---|---|---|")
props = [json.loads(l) for l in open(os.path.join(ROOT, "properties.jsonl"))]
for pr in props:
    pid = pr["id"]
    mp = os.path.join(ROOT, "meta", pid + ".json")
    m = json.load(open(mp)) if os.path.exists(mp) else {}
    th = theorems(pid)
    special = [t for t in th if "refuted" in t or "partial" in t or "outside_known" in t]
    ev = {}
    ep = os.path.join(ROOT, "evidence", pid + ".json")
    if os.path.exists(ep):
        try: ev = json.load(open(ep))
        except Exception: ev = {}
    c = ev.get("coverage", {})
    run = "%s, %s, %s, %s" % (c.get("evaluations", "-"), c.get("traces_validated_against_impl", "-"), c.get("model_impl_disagreements", "-"), c.get("oracle_failures_known", "-")) if c else "-"
    out.append("| %s | %s | %d | %s | %s | notes/%s.md |" % (pid, "yes" if m.get("ready") else "no", len(th), ", ".join("`%s`" % s for s in special) or "—", run, pid))
out.append("")
out.append("Findings (known_findings.txt):")
out.append("")
out.append("| kind | property | commit / class | what |")
out.append("|---|---|---|---|")
for line in open(os.path.join(ROOT, "known_findings.txt")):
    line = line.strip()
    m = re.match(r"fixed:\s+property=(\S+)\s+(\S+)\s+(.*)$", line)
    if m:
        out.append("| fixed | %s | `%s` | %s |" % (m.group(1), m.group(2), m.group(3)[:300].replace("|", "\\|")))
    m = re.match(r"finding:\s+property=(\S+)\s+id=(\S+)\s+(.*)$", line)
    if m:
        out.append("| known finding | %s | `%s` | %s |" % (m.group(1), m.group(2), m.group(3)[:300].replace("|", "\\|")))
out.append("")
out.append("Seeded changes (seeded/<id>/meta.json):")
out.append("")
out.append("| id | property | what the change does | needs | existing tests | demo | caught by |")
out.append("|---|---|---|---|---|---|---|")
for mp in sorted(glob.glob(os.path.join(ROOT, "seeded", "*", "meta.json"))):
    m = json.load(open(mp))
    out.append("| %s | %s | %s | %s | %s | %s | %s |" % (m["id"], m["property"], m["what"].replace("|", "\\|"), m["needs"].replace("|", "\\|"), m["existing_tests"], m["demo"], m["caught_by"].replace("|", "\\|")))
text = "\n".join(out) + "\n"
dp = os.path.join(ROOT, "DESIGN.md")
s = open(dp).read()
a, b = "<!-- AUTOGEN:BEGIN -->", "<!-- AUTOGEN:END -->"
if a in s and b in s:
    s = s[:s.index(a) + len(a)] + "\n" + text + s[s.index(b):]
    open(dp, "w").write(s)
    print("DESIGN.md tables regenerated")
else:
    print(text)
