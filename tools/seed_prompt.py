#!/usr/bin/env python3
"""print the prompt given to a fresh seeding sub-agent for one property (only the property text and its scratch worktree)"""
import json, sys
pid = sys.argv[1]; crate = sys.argv[2]; testcmd = sys.argv[3]
n0 = int(sys.argv[4]) if len(sys.argv) > 4 else 1   # first output number (later rounds continue the numbering)
avoid = sys.argv[5] if len(sys.argv) > 5 else ""   # sites already used by earlier rounds (names only)
wt = "/tmp/seed-" + pid.lower()
for l in open('/verif/properties.jsonl'):
    p = json.loads(l)
    if p['id'] == pid:
        break
print(f"""You are testing how well a verification effort detects realistic regressions in the Rust project actix-web. You work ONLY in the scratch git worktree {wt} (a checkout of the repository; build with `cargo ... --offline`, no network). Do not look at or touch /verif or /repo.

Property (must ALWAYS hold for the library) — "{p['title']}":
"{p['statement']}"
(code mainly in: {', '.join(p['anchors']['files'])})

Your job: produce TWO different, independent source changes (each a separate small patch against the clean worktree) that BREAK this property while the code still compiles and the existing test-suite of the crate still passes (`{testcmd}` must pass with each change applied; if a test there is timing-flaky under machine load, re-run it alone before concluding). Each change should look like a plausible refactoring / optimisation / "simplification" mistake, and must need something specific to manifest — a particular interleaving or segmentation of the input, a boundary value, a multi-step sequence of operations, an unusual but legal input, or two cooperating sites that each look fine alone — not something that ordinary use would expose at once. Aim the two changes at DIFFERENT clauses of the property.{(" Earlier rounds already changed these sites; pick different ones: " + avoid + ".") if avoid else ""}

For each change deliver, in {wt}-out/<n>/ (n = {n0}, {n0+1}):
- patch.diff (`git diff` against the clean worktree; applies with `git apply`)
- demo: a small standalone Rust test (e.g. an integration test file you place under {crate}/tests/, or a `#[test]` fn) that FAILS with the change and PASSES without it; say exactly how to run it
- README.txt: what the change does, which clause of the property it breaks, what is needed for it to manifest, and the commands you ran (with/without the change) and their results.
Verify everything yourself: with the change applied the crate builds, the existing tests pass, and your demo fails; with the change reverted your demo passes. Leave the worktree clean at the end (git checkout -- . and remove any added test files). Keep build output inside the worktree's own target directory.

Final reply: a short summary of the two changes and where the files are.""")
